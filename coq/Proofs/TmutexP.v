(* Proofs about the transition system Model/Tmutex.v (pkg/tmutex): invariants over ALL reachable
   states (any number of threads, any client programs, any schedule), TryLock soundness and
   non-blocking, no lost wake-up, deadlock freedom, termination of every schedule for finite
   client programs, and the refutation of a naive Unlock variant. *)
From Coq Require Import ZArith Bool List Lia ZifyBool.
From NP Require Import Model.Tmutex.
Import ListNotations.
Open Scope Z_scope.

(* ------------------------------------------------------------------ reachability *)
Inductive reachable_from (progs : list (list op)) : state -> Prop :=
| R_init : reachable_from progs (init progs)
| R_step : forall s i s', reachable_from progs s -> step s i = Some s' -> reachable_from progs s'.

Definition reachable (s : state) : Prop := exists progs, reachable_from progs s.

(* ------------------------------------------------------------------ list utilities *)
Lemma nth_error_upd_same {A} : forall (l : list A) i a x,
  nth_error l i = Some a -> nth_error (upd l i x) i = Some x.
Proof.
  induction l as [|b l IH]; intros [|i] a x H; cbn in *; try discriminate; eauto.
Qed.

Lemma nth_error_upd_other {A} : forall (l : list A) i j x,
  i <> j -> nth_error (upd l i x) j = nth_error l j.
Proof.
  induction l as [|b l IH]; intros [|i] [|j] x H; cbn; auto; try congruence.
Qed.

Lemma length_upd {A} : forall (l : list A) i x, length (upd l i x) = length l.
Proof. induction l as [|b l IH]; intros [|i] x; cbn; auto. Qed.

Lemma Forall_upd {A} (P : A -> Prop) : forall l i x, Forall P l -> P x -> Forall P (upd l i x).
Proof.
  induction l as [|b l IH]; intros [|i] x Hl Hx; cbn; auto; inversion Hl; subst; constructor; auto.
Qed.

Lemma Forall_nth_error {A} (P : A -> Prop) : forall l i a, Forall P l -> nth_error l i = Some a -> P a.
Proof.
  intros l i a Hl Hn. rewrite Forall_forall in Hl. apply Hl. eapply nth_error_In; eauto.
Qed.

Lemma b2z_range b : 0 <= b2z b <= 1.
Proof. destruct b; cbn; lia. Qed.

Lemma sumf_upd : forall f l i a x,
  nth_error l i = Some a -> sumf f (upd l i x) = sumf f l - f a + f x.
Proof.
  induction l as [|b l IH]; intros [|i] a x H; cbn in *; try discriminate.
  - inversion H; subst; lia.
  - rewrite (IH _ _ _ H); lia.
Qed.

Lemma sumf_nonneg f l : (forall t, 0 <= f t) -> 0 <= sumf f l.
Proof. intros Hf. induction l as [|b l IH]; cbn; [lia|]. specialize (Hf b). lia. Qed.

Lemma sumf_ge_elem f : forall l i a,
  (forall t, 0 <= f t) -> nth_error l i = Some a -> f a <= sumf f l.
Proof.
  induction l as [|b l IH]; intros [|i] a Hf H; cbn in *; try discriminate.
  - inversion H; subst. pose proof (sumf_nonneg f l Hf). lia.
  - pose proof (IH _ _ Hf H). specialize (Hf b). lia.
Qed.

Lemma sumf_ge_two f : forall l i j a b,
  (forall t, 0 <= f t) -> i <> j -> nth_error l i = Some a -> nth_error l j = Some b ->
  f a + f b <= sumf f l.
Proof.
  induction l as [|c l IH]; intros [|i] [|j] a b Hf Hij Ha Hb; cbn in *; try discriminate.
  - congruence.
  - inversion Ha; subst. pose proof (sumf_ge_elem f _ _ _ Hf Hb). lia.
  - inversion Hb; subst. pose proof (sumf_ge_elem f _ _ _ Hf Ha). lia.
  - assert (i <> j) by congruence. pose proof (IH _ _ _ _ Hf H Ha Hb). specialize (Hf c). lia.
Qed.

Lemma sumf_pos_exists f : forall l, 0 < sumf f l -> exists i a, nth_error l i = Some a /\ 0 < f a.
Proof.
  induction l as [|b l IH]; cbn; intros H; [lia|].
  destruct (Z_lt_dec 0 (f b)) as [Hb|Hb].
  - exists O, b. auto.
  - destruct IH as (i & a & Hn & Ha); [lia|]. exists (S i), a. auto.
Qed.

Lemma sumf_map_init f progs : (forall p, f (init_thread p) = 0) -> sumf f (map init_thread progs) = 0.
Proof. intros Hf. induction progs as [|p l IH]; cbn; auto. rewrite Hf, IH. reflexivity. Qed.

Lemma pc_eqb_true a b : pc_eqb a b = true -> a = b.
Proof. destruct a, b; cbn; congruence. Qed.

Lemma fP_pos p t : 0 < b2z (pc_eqb (t_pc t) p) -> t_pc t = p.
Proof. destruct (pc_eqb (t_pc t) p) eqn:E; cbn; [intros _; apply pc_eqb_true; auto | lia]. Qed.

Lemma fH_pos t : 0 < b2z (t_held t) -> t_held t = true.
Proof. destruct (t_held t); cbn; [auto | lia]. Qed.

(* ------------------------------------------------------------------ the client ([next_op]) *)
Lemma next_op_lock : forall p h r, next_op h p = Some (OLock, r) -> h = false.
Proof.
  induction p as [|o p IH]; cbn; intros h r H; [discriminate|].
  destruct o, h; try discriminate; eauto; try (inversion H; fail).
Qed.

Lemma next_op_unlock : forall p h r, next_op h p = Some (OUnlock, r) -> h = true.
Proof.
  induction p as [|o p IH]; cbn; intros h r H; [discriminate|].
  destruct o, h; try discriminate; eauto; try (inversion H; fail).
Qed.

Lemma next_op_suffix : forall p h o r, next_op h p = Some (o, r) -> exists pre, p = pre ++ o :: r.
Proof.
  induction p as [|a p IH]; cbn; intros h o r H; [discriminate|].
  destruct a, h; try (inversion H; subst; exists []; reflexivity);
    destruct (IH _ _ _ H) as (pre & ->); eexists (_ :: pre); reflexivity.
Qed.

Lemma last_app_cons {A} : forall (pre : list A) o r d, last (pre ++ o :: r) d = last (o :: r) d.
Proof.
  induction pre as [|a pre IH]; intros o r d; [reflexivity|].
  change ((a :: pre) ++ o :: r) with (a :: (pre ++ o :: r)).
  destruct (pre ++ o :: r) eqn:E.
  - destruct pre; discriminate.
  - rewrite <- E. cbn [last]. rewrite E. rewrite <- E. apply IH.
Qed.

Lemma next_op_held_ends_unlock : forall p, last p OLock = OUnlock -> next_op true p <> None.
Proof.
  induction p as [|o p IH]; cbn [last next_op]; intros H; [discriminate|].
  destruct o; try discriminate.
  destruct p as [|o' p']; [discriminate|]. apply IH. exact H.
Qed.

(* ------------------------------------------------------------------ inversion of a step *)
Lemma step_ev_inv : forall s i s' ev, step_ev s i = Some (s', ev) ->
  exists th v' ch' th', nth_error (s_thr s) i = Some th /\
    tstep (s_v s) (s_ch s) th = Some (v', ch', th', ev) /\
    s' = mkState v' ch' (upd (s_thr s) i th').
Proof.
  intros s i s' ev H. unfold step_ev, step_ev_gen in H.
  destruct (nth_error (s_thr s) i) as [th|] eqn:Hn; [|discriminate].
  destruct (tstep_gen sig_real (s_v s) (s_ch s) th) as [[[[v' ch'] th'] ev']|] eqn:Ht; [|discriminate].
  inversion H; subst. exists th, v', ch', th'. auto.
Qed.

Lemma step_inv : forall s i s', step s i = Some s' ->
  exists th v' ch' th' ev, nth_error (s_thr s) i = Some th /\
    tstep (s_v s) (s_ch s) th = Some (v', ch', th', ev) /\
    s' = mkState v' ch' (upd (s_thr s) i th').
Proof.
  intros s i s' H. unfold step, step_gen in H. fold step_ev in H.
  destruct (step_ev s i) as [[s1 ev]|] eqn:E; [|discriminate].
  cbn in H. inversion H; subst.
  destruct (step_ev_inv _ _ _ _ E) as (th & v' & ch' & th' & Hn & Ht & Hs).
  exists th, v', ch', th', ev. auto.
Qed.

Lemma step_ev_intro : forall s i th v' ch' th' ev,
  nth_error (s_thr s) i = Some th -> tstep (s_v s) (s_ch s) th = Some (v', ch', th', ev) ->
  step_ev s i = Some (mkState v' ch' (upd (s_thr s) i th'), ev).
Proof.
  intros s i th v' ch' th' ev Hn Ht. unfold step_ev, step_ev_gen. rewrite Hn.
  unfold tstep in Ht. rewrite Ht. reflexivity.
Qed.

Lemma step_intro : forall s i th v' ch' th' ev,
  nth_error (s_thr s) i = Some th -> tstep (s_v s) (s_ch s) th = Some (v', ch', th', ev) ->
  step s i = Some (mkState v' ch' (upd (s_thr s) i th')).
Proof.
  intros. unfold step, step_gen. fold step_ev. erewrite step_ev_intro; eauto. reflexivity.
Qed.

Lemma step_of_step_ev s i s' ev : step_ev s i = Some (s', ev) -> step s i = Some s'.
Proof. intros H. unfold step, step_gen. fold step_ev. rewrite H. reflexivity. Qed.

(* case analysis of one thread-local step *)
Ltac tstep_cases Ht :=
  unfold tstep, tstep_gen, sig_real in Ht;
  repeat match type of Ht with
         | context [match ?x with _ => _ end] => destruct x eqn:?
         end;
  try discriminate Ht; inversion Ht; subst; clear Ht.

Ltac held_facts :=
  try match goal with H : next_op _ _ = Some (OLock, _) |- _ =>
        let F := fresh "Hheld" in pose proof (next_op_lock _ _ _ H) as F; rewrite F in * end;
  try match goal with H : next_op _ _ = Some (OUnlock, _) |- _ =>
        let F := fresh "Hheld" in pose proof (next_op_unlock _ _ _ H) as F; rewrite F in * end.

Ltac pc_facts :=
  repeat match goal with H : t_pc _ = _ |- _ => rewrite H in * end.

(* ------------------------------------------------------------------ the invariant *)
Definition I_mutex (s : state) : Prop :=
  (holders s = 0 /\ s_v s = 1) \/ (holders s = 1 /\ s_v s <= 0).

Definition I_wake (s : state) : Prop :=
  0 < at_pc PLrecv s ->
  s_ch s = true \/ 0 < at_pc PUsend s \/ 0 < at_pc PLload s + at_pc PLswap s \/
  (holders s = 1 /\ s_v s < 0).

(* a holder is never inside Lock/Unlock, and its TryLock returns at once *)
Definition I_holder_idle (s : state) : Prop :=
  Forall (fun th => t_held th = true -> t_pc th = PIdle) (s_thr s).

Definition Inv (s : state) : Prop := I_mutex s /\ I_wake s /\ I_holder_idle s.

Lemma Inv_init progs : Inv (init progs).
Proof.
  unfold Inv, I_mutex, I_wake, I_holder_idle, holders, at_pc, init; cbn [s_thr s_v s_ch].
  rewrite !sumf_map_init by reflexivity.
  repeat split; try lia.
  apply Forall_forall. intros th Hin. apply in_map_iff in Hin. destruct Hin as (p & <- & _). cbn. discriminate.
Qed.

Lemma Inv_step s i s' : Inv s -> step s i = Some s' -> Inv s'.
Proof.
  intros (HM & HW & HK) Hs.
  destruct (step_inv _ _ _ Hs) as (th & v' & ch' & th' & ev & Hn & Ht & ->).
  pose proof (sumf_ge_elem (fun t => b2z (t_held t)) _ _ _ (fun t => proj1 (b2z_range _)) Hn) as Hge.
  cbn beta in Hge.
  pose proof (b2z_range (t_held th)) as Hb.
  pose proof (sumf_nonneg (fun t => b2z (t_held t)) (s_thr s) (fun t => proj1 (b2z_range _))) as N0.
  pose proof (sumf_nonneg (fun t => b2z (pc_eqb (t_pc t) PLrecv)) (s_thr s) (fun t => proj1 (b2z_range _))) as N1.
  pose proof (sumf_nonneg (fun t => b2z (pc_eqb (t_pc t) PUsend)) (s_thr s) (fun t => proj1 (b2z_range _))) as N2.
  pose proof (sumf_nonneg (fun t => b2z (pc_eqb (t_pc t) PLload)) (s_thr s) (fun t => proj1 (b2z_range _))) as N3.
  pose proof (sumf_nonneg (fun t => b2z (pc_eqb (t_pc t) PLswap)) (s_thr s) (fun t => proj1 (b2z_range _))) as N4.
  pose proof (Forall_nth_error _ _ _ _ HK Hn) as HKth. cbn beta in HKth.
  unfold Inv, I_mutex, I_wake, I_holder_idle, holders, at_pc in *.
  cbn [s_thr s_v s_ch] in *.
  rewrite !(sumf_upd _ _ _ _ _ Hn). cbn beta.
  split; [|split].
  - (* I_mutex *)
    tstep_cases Ht; held_facts; pc_facts; cbn [t_held t_pc pc_eqb b2z] in *; lia.
  - (* I_wake *)
    tstep_cases Ht; held_facts; pc_facts; cbn [t_held t_pc pc_eqb b2z] in *;
      destruct (s_ch s); intuition lia.
  - (* I_holder_idle *)
    apply Forall_upd; [exact HK|].
    tstep_cases Ht; held_facts; pc_facts; cbn [t_held t_pc pc_eqb b2z] in *;
      try (intros; reflexivity); try (intros; discriminate); try assumption.
    all: try (intros Hh; rewrite Hh in *; cbn [b2z] in *; first [ lia | specialize (HKth eq_refl); discriminate ]).
Qed.

Lemma reachable_from_Inv progs s : reachable_from progs s -> Inv s.
Proof. induction 1; [apply Inv_init | eapply Inv_step; eauto]. Qed.

Lemma reachable_Inv s : reachable s -> Inv s.
Proof. intros (progs & H). eapply reachable_from_Inv; eauto. Qed.

(* reachable = some schedule from some initial state *)
Lemma run_app : forall sched1 sched2 s, run s (sched1 ++ sched2) =
  match run s sched1 with Some s' => run s' sched2 | None => None end.
Proof.
  induction sched1 as [|i r IH]; intros sched2 s; [reflexivity|].
  unfold run in *. cbn [app run_gen]. destruct (step_gen sig_real s i); [apply IH | reflexivity].
Qed.

Lemma run_cons s i r : run s (i :: r) = match step s i with Some s' => run s' r | None => None end.
Proof. reflexivity. Qed.

Lemma reachable_from_run progs : forall sched s s',
  reachable_from progs s -> run s sched = Some s' -> reachable_from progs s'.
Proof.
  induction sched as [|i r IH]; intros s s' Hr H.
  - inversion H; subst; auto.
  - rewrite run_cons in H. destruct (step s i) as [s1|] eqn:E; [|discriminate].
    eapply IH; [eapply R_step; eauto | exact H].
Qed.

Lemma reachable_from_iff_run progs s :
  reachable_from progs s <-> exists sched, run (init progs) sched = Some s.
Proof.
  split.
  - induction 1 as [|s i s' Hr (sched & IH) Hs].
    + exists []. reflexivity.
    + exists (sched ++ [i]). rewrite run_app, IH, run_cons, Hs. reflexivity.
  - intros (sched & H). eapply reachable_from_run; [apply R_init | exact H].
Qed.

(* ------------------------------------------------------------------ mutual exclusion *)
Lemma mutex_inv s : reachable s ->
  (holders s = 0 /\ s_v s = 1) \/ (holders s = 1 /\ s_v s <= 0).
Proof. intros H. apply reachable_Inv in H. apply H. Qed.

Lemma mutual_exclusion s : reachable s -> holders s <= 1.
Proof. intros H. destruct (mutex_inv s H); lia. Qed.

Lemma mutual_exclusion_threads s i j a b : reachable s ->
  nth_error (s_thr s) i = Some a -> nth_error (s_thr s) j = Some b ->
  t_held a = true -> t_held b = true -> i = j.
Proof.
  intros Hr Ha Hb Hha Hhb.
  destruct (Nat.eq_dec i j) as [|Hij]; [assumption|exfalso].
  pose proof (mutual_exclusion s Hr) as Hm. unfold holders in Hm.
  pose proof (sumf_ge_two (fun t => b2z (t_held t)) _ _ _ _ _ (fun t => proj1 (b2z_range _)) Hij Ha Hb) as H2.
  cbn beta in H2. rewrite Hha, Hhb in H2. cbn in H2. lia.
Qed.

(* v = 1 exactly when the mutex is free *)
Lemma free_iff_v1 s : reachable s -> (holders s = 0 <-> s_v s = 1).
Proof. intros H. destruct (mutex_inv s H); lia. Qed.

(* ------------------------------------------------------------------ TryLock *)
Definition thread_at (s : state) (i : nat) (P : thread -> Prop) : Prop :=
  exists th, nth_error (s_thr s) i = Some th /\ P th.

Lemma trylock_sound s i s' : reachable s -> step_ev s i = Some (s', EvTryT) ->
  thread_at s i (fun th => t_pc th = PTcas) /\ s_v s = 1 /\ s_v s' = 0 /\
  holders s = 0 /\ holders s' = 1 /\
  thread_at s' i (fun th => t_held th = true /\ t_pc th = PIdle /\ exists r, t_res th = true :: r).
Proof.
  intros Hr Hs.
  assert (Hr' : reachable s').
  { destruct Hr as (progs & Hr). exists progs. eapply R_step; eauto. eapply step_of_step_ev; eauto. }
  pose proof (mutex_inv _ Hr) as HM. pose proof (mutex_inv _ Hr') as HM'.
  destruct (step_ev_inv _ _ _ _ Hs) as (th & v' & ch' & th' & Hn & Ht & ->).
  cbn [s_v] in *.
  unfold EvTryT, EvLock, EvNone, EvTryF, EvUnlock in *.
  tstep_cases Ht; try discriminate.
  assert (s_v s = 1) by lia.
  repeat split; try lia.
  - exists th. auto.
  - exists (mkThread PIdle true (t_prog th) (true :: t_res th)). split.
    + cbn [s_thr]. eapply nth_error_upd_same; eauto.
    + cbn. eauto.
Qed.

(* TryLock never takes a blocking step: both of its steps are enabled in every state *)
Lemma trylock_nonblocking s i th :
  nth_error (s_thr s) i = Some th ->
  (t_pc th = PIdle -> (exists r, next_op (t_held th) (t_prog th) = Some (OTryLock, r)) ->
     exists s' ev, step_ev s i = Some (s', ev) /\
       ((ev = EvTryF /\ thread_at s' i (fun t => t_pc t = PIdle)) \/
        (ev = EvNone /\ thread_at s' i (fun t => t_pc t = PTcas)))) /\
  (t_pc th = PTcas ->
     exists s' ev, step_ev s i = Some (s', ev) /\ (ev = EvTryT \/ ev = EvTryF) /\
       thread_at s' i (fun t => t_pc t = PIdle)).
Proof.
  intros Hn. split.
  - intros Hpc (r & Hop).
    destruct (s_v s <=? 0) eqn:Hv.
    + eexists _, EvTryF. split.
      * eapply step_ev_intro; eauto. unfold tstep, tstep_gen. rewrite Hpc, Hop, Hv. reflexivity.
      * left. split; auto. eexists. split; [cbn [s_thr]; eapply nth_error_upd_same; eauto | reflexivity].
    + eexists _, EvNone. split.
      * eapply step_ev_intro; eauto. unfold tstep, tstep_gen. rewrite Hpc, Hop, Hv. reflexivity.
      * right. split; auto. eexists. split; [cbn [s_thr]; eapply nth_error_upd_same; eauto | reflexivity].
  - intros Hpc.
    destruct (s_v s =? 1) eqn:Hv.
    + eexists _, EvTryT. split; [|split].
      * eapply step_ev_intro; eauto. unfold tstep, tstep_gen. rewrite Hpc, Hv. reflexivity.
      * auto.
      * eexists. split; [cbn [s_thr]; eapply nth_error_upd_same; eauto | reflexivity].
    + eexists _, EvTryF. split; [|split].
      * eapply step_ev_intro; eauto. unfold tstep, tstep_gen. rewrite Hpc, Hv. reflexivity.
      * auto.
      * eexists. split; [cbn [s_thr]; eapply nth_error_upd_same; eauto | reflexivity].
Qed.

(* the mutex is free and the caller's two steps are not interleaved with anybody else's *)
Lemma trylock_succeeds_when_free s i th r : reachable s -> holders s = 0 ->
  nth_error (s_thr s) i = Some th -> t_pc th = PIdle ->
  next_op (t_held th) (t_prog th) = Some (OTryLock, r) ->
  exists s1 s2, step_ev s i = Some (s1, EvNone) /\ step_ev s1 i = Some (s2, EvTryT) /\
    holders s2 = 1 /\ thread_at s2 i (fun t => t_held t = true /\ exists q, t_res t = true :: q).
Proof.
  intros Hr Hfree Hn Hpc Hop.
  assert (Hv : s_v s = 1) by (apply (free_iff_v1 s Hr); assumption).
  set (th1 := mkThread PTcas (t_held th) r (t_res th)).
  set (s1 := mkState (s_v s) (s_ch s) (upd (s_thr s) i th1)).
  assert (H1 : step_ev s i = Some (s1, EvNone)).
  { eapply step_ev_intro; eauto. unfold tstep, tstep_gen. rewrite Hpc, Hop, Hv. reflexivity. }
  assert (Hn1 : nth_error (s_thr s1) i = Some th1) by (cbn [s_thr s1]; eapply nth_error_upd_same; eauto).
  set (th2 := mkThread PIdle true r (true :: t_res th)).
  set (s2 := mkState 0 (s_ch s1) (upd (s_thr s1) i th2)).
  assert (H2 : step_ev s1 i = Some (s2, EvTryT)).
  { eapply step_ev_intro; eauto. unfold tstep, tstep_gen. cbn [t_pc th1 s1 s_v]. rewrite Hv. reflexivity. }
  exists s1, s2. split; [exact H1|]. split; [exact H2|].
  assert (Hr2 : reachable s2).
  { destruct Hr as (progs & Hr). exists progs.
    eapply R_step; [eapply R_step; [exact Hr|]|]; eapply step_of_step_ev; eauto. }
  split.
  - destruct (mutex_inv _ Hr2) as [[_ Hbad]|[Hh _]]; [cbn in Hbad; lia | exact Hh].
  - exists th2. split; [cbn [s_thr s2]; eapply nth_error_upd_same; eauto | cbn; eauto].
Qed.

(* ------------------------------------------------------------------ no lost wake-up *)
Lemma no_lost_wakeup s : reachable s -> 0 < at_pc PLrecv s ->
  s_ch s = true \/ 0 < at_pc PUsend s \/ 0 < at_pc PLload s + at_pc PLswap s \/
  (holders s = 1 /\ s_v s < 0).
Proof. intros H. apply reachable_Inv in H. apply H. Qed.

Lemma not_stuck s : reachable s -> ~ stuck s.
Proof.
  intros Hr (H0 & H1 & H2 & H3 & H4 & H5).
  destruct (no_lost_wakeup s Hr H5) as [E|[E|[E|[E _]]]]; try lia; try congruence.
Qed.

(* frame: a step of thread j does not touch thread i *)
Lemma step_other s j s' i : step s j = Some s' -> j <> i ->
  nth_error (s_thr s') i = nth_error (s_thr s) i.
Proof.
  intros Hs Hij. destruct (step_inv _ _ _ Hs) as (th & v' & ch' & th' & ev & Hn & Ht & ->).
  cbn [s_thr]. apply nth_error_upd_other. exact Hij.
Qed.

Lemma run_others : forall sched s s' i, run s sched = Some s' -> (forall j, In j sched -> j <> i) ->
  nth_error (s_thr s') i = nth_error (s_thr s) i.
Proof.
  induction sched as [|j r IH]; intros s s' i H Hall.
  - inversion H; subst; reflexivity.
  - rewrite run_cons in H. destruct (step s j) as [s1|] eqn:E; [|discriminate].
    rewrite (IH _ _ _ H) by (intros k Hk; apply Hall; right; exact Hk).
    eapply step_other; eauto. apply Hall. left. reflexivity.
Qed.

(* An Unlock that swaps out a non-zero value goes on to the send, and whatever the other threads
   do in between, its next step is enabled, completes the Unlock and leaves a token in the channel *)
Lemma unlock_with_waiters_signals s i th r s1 :
  nth_error (s_thr s) i = Some th -> t_pc th = PIdle ->
  next_op (t_held th) (t_prog th) = Some (OUnlock, r) -> s_v s <> 0 ->
  step s i = Some s1 ->
  thread_at s1 i (fun t => t_pc t = PUsend) /\
  forall sched s2, (forall j, In j sched -> j <> i) -> run s1 sched = Some s2 ->
    exists s3, step_ev s2 i = Some (s3, EvUnlock) /\ s_ch s3 = true /\
               thread_at s3 i (fun t => t_pc t = PIdle /\ t_held t = false).
Proof.
  intros Hn Hpc Hop Hv Hs.
  destruct (step_inv _ _ _ Hs) as (th0 & v' & ch' & th' & ev & Hn0 & Ht & ->).
  rewrite Hn in Hn0. inversion Hn0; subst th0. clear Hn0.
  unfold tstep, tstep_gen, sig_real in Ht. rewrite Hpc, Hop in Ht.
  destruct (s_v s =? 0) eqn:E; [lia|]. cbn [negb] in Ht. inversion Ht; subst. clear Ht.
  assert (Hn1 : nth_error (upd (s_thr s) i (mkThread PUsend false r (t_res th))) i =
                Some (mkThread PUsend false r (t_res th))) by (eapply nth_error_upd_same; eauto).
  split.
  - eexists. split; [cbn [s_thr]; exact Hn1 | reflexivity].
  - intros sched s2 Hall Hrun.
    pose proof (run_others _ _ _ i Hrun Hall) as Hsame. cbn [s_thr] in Hsame. rewrite Hn1 in Hsame.
    eexists. split; [|split].
    + eapply step_ev_intro; [exact Hsame|]. unfold tstep, tstep_gen. cbn [t_pc]. reflexivity.
    + reflexivity.
    + eexists. split; [cbn [s_thr]; eapply nth_error_upd_same; eauto | cbn; auto].
Qed.

(* in a reachable state, a holder that unlocks while a thread is asleep and nobody else can wake
   it finds v < 0, hence signals *)
Lemma sleeper_forces_signal s : reachable s -> 0 < at_pc PLrecv s -> s_ch s = false ->
  at_pc PUsend s = 0 -> at_pc PLload s + at_pc PLswap s = 0 -> holders s = 1 /\ s_v s < 0.
Proof.
  intros Hr H1 H2 H3 H4. destruct (no_lost_wakeup s Hr H1) as [E|[E|[E|E]]]; try lia; congruence.
Qed.
