(* Lemmas for C02 (completion, orderly close, no silent stall) about Model/Tcp.v.
   Part 1: frame lemmas (what the receive path / send path leave alone), the retransmission-timer
   invariant, close bookkeeping (main-loop exit), the zero-window stall, retransmission time-outs
   with exponential back-off, end-of-stream on the receive side.
   Part 2 (orderly close) is Proofs/TcpCloseOrderP.v, part 3 (facts that need the write-list
   invariant of C01) is Proofs/TcpCloseSeqP.v. *)
From Coq Require Import ZArith List Bool Lia ZifyBool.
From RecordUpdate Require Import RecordSet.
From NP Require Import Model.Seqnum Model.GoHeap Model.Tcp Proofs.SeqnumP.
Import ListNotations RecordSetNotations.
Open Scope Z_scope.

(* ------------------------------------------------------------------ views *)
Definition score (s : sndr) : sndr := s <| maxSentAck := 0 |>.
Definition rcore (r : rcvr) : rcvr := r <| rcvAcc := 0 |>.
(* what the receive path leaves alone *)
Definition sview (t : tcp) :=
  (score (SN t), sndBufSize t, sndBufUsed t, sndClosedE t, estate t, tsOk t).
(* what the send path leaves alone *)
Definition rview (t : tcp) :=
  (rcore (RC t), rcvList t, rcvBufUsed t, rcvBufSize t, rcvClosedE t, estate t, tsOk t, sndClosedE t, sndBufSize t).

Lemma sview_fields t t' : sview t' = sview t ->
  score (SN t') = score (SN t) /\ sndBufSize t' = sndBufSize t /\ sndBufUsed t' = sndBufUsed t /\
  sndClosedE t' = sndClosedE t /\ estate t' = estate t /\ tsOk t' = tsOk t.
Proof. unfold sview. generalize (score (SN t')) (score (SN t)). intros a b H. repeat split; congruence. Qed.

Lemma score_fields s' s : score s' = score s ->
  sndUna s' = sndUna s /\ sndNxt s' = sndNxt s /\ sndNxtList s' = sndNxtList s /\ tstate s' = tstate s /\
  sclosed s' = sclosed s /\ wsent s' = wsent s /\ wunsent s' = wunsent s /\ sndWnd s' = sndWnd s /\
  rto s' = rto s /\ cwnd s' = cwnd s /\ outstanding s' = outstanding s /\ maxPayload s' = maxPayload s /\
  frActive s' = frActive s.
Proof.
  intros H.
  repeat split.
  - apply (f_equal sndUna) in H; exact H.
  - apply (f_equal sndNxt) in H; exact H.
  - apply (f_equal sndNxtList) in H; exact H.
  - apply (f_equal tstate) in H; exact H.
  - apply (f_equal sclosed) in H; exact H.
  - apply (f_equal wsent) in H; exact H.
  - apply (f_equal wunsent) in H; exact H.
  - apply (f_equal sndWnd) in H; exact H.
  - apply (f_equal rto) in H; exact H.
  - apply (f_equal cwnd) in H; exact H.
  - apply (f_equal outstanding) in H; exact H.
  - apply (f_equal maxPayload) in H; exact H.
  - apply (f_equal frActive) in H; exact H.
Qed.

Lemma rview_fields t t' : rview t' = rview t ->
  rcore (RC t') = rcore (RC t) /\ rcvList t' = rcvList t /\ rcvBufUsed t' = rcvBufUsed t /\
  rcvBufSize t' = rcvBufSize t /\ rcvClosedE t' = rcvClosedE t /\ estate t' = estate t /\
  tsOk t' = tsOk t /\ sndClosedE t' = sndClosedE t /\ sndBufSize t' = sndBufSize t.
Proof. unfold rview. generalize (rcore (RC t')) (rcore (RC t)). intros a b H. repeat split; congruence. Qed.

Lemma rcore_fields r' r : rcore r' = rcore r ->
  rcvNxt r' = rcvNxt r /\ rclosed r' = rclosed r /\ pending r' = pending r /\ rcvWndScale r' = rcvWndScale r /\
  pendUsed r' = pendUsed r /\ pendSize r' = pendSize r.
Proof.
  intros H. repeat split.
  - apply (f_equal rcvNxt) in H; exact H.
  - apply (f_equal rclosed) in H; exact H.
  - apply (f_equal pending) in H; exact H.
  - apply (f_equal rcvWndScale) in H; exact H.
  - apply (f_equal pendUsed) in H; exact H.
  - apply (f_equal pendSize) in H; exact H.
Qed.

(* ------------------------------------------------------------------ emitting *)
Lemma sendSegment_sview t d fl sq : sview (sendSegment t d fl sq) = sview t.
Proof. unfold sendSegment, getSendParams, sview. cbn. reflexivity. Qed.
Lemma sendSegment_rview t d fl sq : rview (sendSegment t d fl sq) = rview t.
Proof. unfold sendSegment, getSendParams, rview. cbn. reflexivity. Qed.
Lemma sendSegment_SN t d fl sq :
  SN (sendSegment t d fl sq) = (SN t) <| maxSentAck := rcvNxt (RC t) |>.
Proof. unfold sendSegment, getSendParams. cbn. reflexivity. Qed.
Lemma sendSegment_out t d fl sq :
  exists wnd, out (sendSegment t d fl sq) = out t ++ [mkF sq (rcvNxt (RC t)) fl wnd d].
Proof. unfold sendSegment, getSendParams. cbn. eauto. Qed.
Lemma sendAck_sview t : sview (sendAck t) = sview t.
Proof. apply sendSegment_sview. Qed.
Lemma sendAck_rview t : rview (sendAck t) = rview t.
Proof. apply sendSegment_rview. Qed.

(* ------------------------------------------------------------------ receive path keeps the sender *)
Lemma readyToRead_sview t d : sview (readyToRead t d) = sview t.
Proof. reflexivity. Qed.

Lemma consumeSegment_sview t fl d sq sl fh :
  sview (fst (fst (consumeSegment t fl d sq sl fh))) = sview t.
Proof.
  unfold consumeSegment. cbv zeta.
  assert (GO : forall t0 sq0 sl0 (d0 : list Z), sview t0 = sview t ->
    sview (fst (fst (if has fl fFin then
        let t1 := t0 <| RC := (RC t0) <| rcvNxt := add sq0 sl0 |> |> in
        let t2 := t1 <| RC := (RC t1) <| rcvNxt := u32 (rcvNxt (RC t1) + 1) |> |> in
        let t3 := sendAck t2 in
        let first := if fh && negb (Nat.eqb (length (pending (RC t3))) 0) then 1%nat else 0%nat in
        (t3 <| RC := (RC t3) <| rclosed := true |> <| pending := firstn first (pending (RC t3)) |> |>
            <| rcvClosedE := true |>, true, d0)
      else (t0 <| RC := (RC t0) <| rcvNxt := add sq0 sl0 |> |>, true, d0)))) = sview t).
  { intros t0 sq0 sl0 d0 E. destruct (has fl fFin); cbv zeta; cbn [fst]; [|exact E].
    rewrite <- E.
    match goal with |- context [sendAck ?x] =>
      transitivity (sview (sendAck x)); [reflexivity|rewrite sendAck_sview; reflexivity] end. }
  destruct (0 <? sl).
  - destruct (negb (inWindow (rcvNxt (RC t)) sq sl)); [reflexivity|].
    destruct (lessThan sq (rcvNxt (RC t))); apply GO; reflexivity.
  - destruct (negb (sq =? rcvNxt (RC t))); [reflexivity|]. apply GO; reflexivity.
Qed.

Lemma drainPending_sview fuel : forall t, sview (drainPending fuel t) = sview t.
Proof.
  induction fuel as [|f IH]; intros t; [reflexivity|].
  cbn [drainPending]. destruct (rclosed (RC t)); [reflexivity|].
  destruct (pending (RC t)) as [|s rest] eqn:EP; [reflexivity|]. cbv zeta.
  assert (POP : forall t0 (d0 : list Z) hp, sview t0 = sview t ->
     sview (match pop pless hp with
            | Some (h', _) => drainPending f (t0 <| RC := (RC t0) <| pending := h' |>
                       <| pendUsed := u32 (pendUsed (RC t0) - plogicalLen (p_flags s) d0) |> |>)
            | None => t0 end) = sview t).
  { intros t0 d0 hp E. destruct (pop pless hp) as [[h' x]|]; [|exact E].
    rewrite IH. exact E. }
  destruct (lessThan _ _); [apply POP; reflexivity|].
  pose proof (consumeSegment_sview t (p_flags s) (p_data s) (p_seq s) (len (p_data s)) true) as CS.
  destruct (consumeSegment t (p_flags s) (p_data s) (p_seq s) (len (p_data s)) true) as [[t1 ok] d'].
  cbn [fst] in CS. destruct ok; [apply POP; exact CS|reflexivity].
Qed.

Lemma rcvHandle_sview t s : sview (rcvHandle t s) = sview t.
Proof.
  unfold rcvHandle. destruct (rclosed (RC t)); [reflexivity|]. cbv zeta.
  destruct (negb (acceptable _ _ _)); [apply sendAck_sview|].
  pose proof (consumeSegment_sview t (s_flags s) (s_data s) (s_seq s) (len (s_data s)) false) as CS.
  destruct (consumeSegment t (s_flags s) (s_data s) (s_seq s) (len (s_data s)) false) as [[t1 ok] d'].
  cbn [fst] in CS. destruct ok; cbn [negb].
  - rewrite drainPending_sview. exact CS.
  - destruct (_ || _); [|reflexivity]. rewrite sendAck_sview.
    destruct (pendUsed (RC t) <? pendSize (RC t)); reflexivity.
Qed.

Lemma nonZeroWindow_sview t : sview (nonZeroWindow t) = sview t.
Proof. unfold nonZeroWindow. destruct (negb _); [reflexivity|apply sendAck_sview]. Qed.
Lemma nonZeroWindow_rview t : rview (nonZeroWindow t) = rview t.
Proof. unfold nonZeroWindow. destruct (negb _); [reflexivity|apply sendAck_rview]. Qed.

(* ------------------------------------------------------------------ send path keeps the receiver *)
Lemma rview_if_SN (c : bool) t2 s' : rview (if c then t2 <| SN := s' |> else t2) = rview t2.
Proof. destruct c; reflexivity. Qed.
Lemma rview_set_SN t s' : rview (t <| SN := s' |>) = rview t.
Proof. reflexivity. Qed.

Lemma sendLoop_rview fuel : forall t endv limit, rview (sendLoop fuel t endv limit) = rview t.
Proof.
  induction fuel as [|f IH]; intros t endv limit; [reflexivity|].
  cbn [sendLoop]. cbv zeta. destruct (wunsent (SN t)) as [|w rest]; [reflexivity|].
  destruct (negb (outstanding (SN t) <? cwnd (SN t))); [reflexivity|].
  destruct (len (w_data _) =? 0).
  - rewrite IH, rview_if_SN, sendSegment_rview. reflexivity.
  - destruct (negb (lessThan _ endv)); [reflexivity|].
    destruct (if _ <? _ then _ else _) as [w2 rest'] eqn:ES.
    rewrite IH, rview_if_SN, sendSegment_rview. reflexivity.
Qed.

Lemma sendData_rview t idle : rview (sendData t idle) = rview t.
Proof.
  unfold sendData. cbv zeta.
  match goal with |- rview (if ?c then ?a <| SN := ?x |> else ?a) = _ => rewrite (rview_if_SN c a x) end.
  rewrite sendLoop_rview. reflexivity.
Qed.

Lemma resendSegment_rview t : rview (resendSegment t) = rview t.
Proof.
  unfold resendSegment. cbv zeta. destruct (_ ++ _); [reflexivity|].
  rewrite sendSegment_rview. reflexivity.
Qed.

Lemma sndHandle_rview t sg wnd nr idle : rview (sndHandle t sg wnd nr idle) = rview t.
Proof.
  unfold sndHandle. cbv zeta.
  destruct (checkDuplicateAck _ _ _ _) as [s2 rtx].
  rewrite sendData_rview.
  match goal with |- rview (if rtx then resendSegment ?a else ?a) = _ =>
    transitivity (rview a); [destruct rtx; [apply resendSegment_rview|reflexivity]|] end.
  destruct (inRange _ _ _); [|reflexivity].
  destruct (ackLoop _ _ _ _ _) as [[sent' unsent'] removed]. reflexivity.
Qed.

Lemma rtoExpired_rview t idle : rview (fst (rtoExpired t idle)) = rview t.
Proof.
  unfold rtoExpired. cbv zeta.
  destruct (tstate (SN t) =? tOrphaned); [reflexivity|].
  destruct (negb (tstate (SN t) =? tEnabled)); [reflexivity|].
  destruct (maxRTO <=? _); [reflexivity|]. cbn [fst]. rewrite sendData_rview. reflexivity.
Qed.

(* ------------------------------------------------------------------ sender constants *)
Definition cview (s : sndr) := (sclosed s, sndNxtList s, maxPayload s, sndWndScale s).

Lemma cview_if (c : bool) t2 (f : sndr -> sndr) :
  (forall s, cview (f s) = cview s) ->
  cview (SN (if c then t2 <| SN := f (SN t2) |> else t2)) = cview (SN t2).
Proof. intros H. destruct c; [cbn; apply H|reflexivity]. Qed.

Lemma sendSegment_cview t d fl sq : cview (SN (sendSegment t d fl sq)) = cview (SN t).
Proof. rewrite sendSegment_SN. reflexivity. Qed.

Lemma sendLoop_cview fuel : forall t endv limit, cview (SN (sendLoop fuel t endv limit)) = cview (SN t).
Proof.
  induction fuel as [|f IH]; intros t endv limit; [reflexivity|].
  cbn [sendLoop]. cbv zeta. destruct (wunsent (SN t)) as [|w rest]; [reflexivity|].
  destruct (negb (outstanding (SN t) <? cwnd (SN t))); [reflexivity|].
  destruct (len (w_data _) =? 0).
  - rewrite IH.
    match goal with |- cview (SN (if ?c then ?a <| SN := ?x |> else ?a)) = _ =>
      transitivity (cview (SN a)); [destruct c; reflexivity|] end.
    rewrite sendSegment_cview. reflexivity.
  - destruct (negb (lessThan _ endv)); [reflexivity|].
    destruct (if _ <? _ then _ else _) as [w2 rest'] eqn:ES.
    rewrite IH.
    match goal with |- cview (SN (if ?c then ?a <| SN := ?x |> else ?a)) = _ =>
      transitivity (cview (SN a)); [destruct c; reflexivity|] end.
    rewrite sendSegment_cview. reflexivity.
Qed.

Lemma sendData_cview t idle : cview (SN (sendData t idle)) = cview (SN t).
Proof.
  unfold sendData. cbv zeta.
  match goal with |- cview (SN (if ?c then ?a <| SN := ?x |> else ?a)) = _ =>
      transitivity (cview (SN a)); [destruct c; reflexivity|] end.
  rewrite sendLoop_cview. cbn. destruct (_ && _); reflexivity.
Qed.

Lemma resendSegment_cview t : cview (SN (resendSegment t)) = cview (SN t).
Proof.
  unfold resendSegment. cbv zeta. destruct (_ ++ _); [reflexivity|].
  rewrite sendSegment_cview. reflexivity.
Qed.

Lemma renoCA_cview s n : cview (renoCA s n) = cview s.
Proof. unfold renoCA. cbv zeta. destruct (_ <=? _); reflexivity. Qed.
Lemma renoUpdate_cview s n : cview (renoUpdate s n) = cview s.
Proof.
  unfold renoUpdate. destruct (_ <? _); [|apply renoCA_cview]. cbv zeta.
  destruct (ssthresh s <=? cwnd s + n); cbv beta iota zeta.
  - destruct (_ =? 0); [reflexivity|]. rewrite renoCA_cview. reflexivity.
  - destruct (_ =? 0); [reflexivity|]. rewrite renoCA_cview. reflexivity.
Qed.

Lemma checkDuplicateAck_cview s ack sl wnd : cview (fst (checkDuplicateAck s ack sl wnd)) = cview s.
Proof.
  unfold checkDuplicateAck.
  destruct (frActive s).
  - destruct (negb (inRange _ _ _)); [reflexivity|].
    destruct (lessThan _ _); [reflexivity|].
    destruct (_ || _); [reflexivity|].
    destruct (ack =? frFirst s); [|reflexivity]. destruct (_ <? _); reflexivity.
  - destruct (_ || _); [reflexivity|]. cbv zeta.
    destruct (_ <? nDupAckThreshold); [reflexivity|].
    destruct (negb (lessThan _ _)); reflexivity.
Qed.

Lemma sndHandle_cview t sg wnd nr idle : cview (SN (sndHandle t sg wnd nr idle)) = cview (SN t).
Proof.
  unfold sndHandle. cbv zeta.
  match goal with |- context [checkDuplicateAck ?a ?b ?c ?d] =>
    pose proof (checkDuplicateAck_cview a b c d) as CD;
    destruct (checkDuplicateAck a b c d) as [s2 rtx] end.
  cbn [fst] in CD.
  rewrite sendData_cview.
  match goal with |- cview (SN (if rtx then resendSegment ?a else ?a)) = _ =>
    transitivity (cview (SN a)); [destruct rtx; [apply resendSegment_cview|reflexivity]|] end.
  assert (E0 : cview s2 = cview (SN t)).
  { rewrite CD. destruct (_ && _); reflexivity. }
  destruct (inRange _ _ _); [|cbn; rewrite <- E0; reflexivity].
  match goal with |- context [if tsOk t && s_tsecr sg then ?a else ?b] =>
    assert (E5 : cview (if tsOk t && s_tsecr sg then a else b) = cview s2)
      by (destruct (tsOk t && s_tsecr sg); reflexivity);
    generalize dependent (if tsOk t && s_tsecr sg then a else b) end.
  intros s5 E5.
  destruct (ackLoop _ _ _ _ _) as [[sent' unsent'] removed]. cbn [SN].
  rewrite <- E0, <- E5. cbn -[renoUpdate cview].
  match goal with |- cview (if ?c then ?a <| outstanding := 0 |> else ?a) = _ =>
    transitivity (cview a); [destruct c; reflexivity|] end.
  match goal with |- cview (if ?c then ?a else renoUpdate ?a ?n) = _ =>
    destruct c; [reflexivity|rewrite renoUpdate_cview; reflexivity] end.
Qed.

Lemma leaveFastRecovery_cview s : cview (leaveFastRecovery s) = cview s.
Proof. reflexivity. Qed.

Lemma rtoExpired_cview t idle : cview (SN (fst (rtoExpired t idle))) = cview (SN t).
Proof.
  unfold rtoExpired. cbv zeta.
  destruct (tstate (SN t) =? tOrphaned); [reflexivity|].
  destruct (negb (tstate (SN t) =? tEnabled)); [reflexivity|].
  destruct (maxRTO <=? _); [reflexivity|]. cbn [fst]. rewrite sendData_cview. cbn [SN].
  destruct (frActive _); reflexivity.
Qed.

Lemma cview_fields s' s : cview s' = cview s ->
  sclosed s' = sclosed s /\ sndNxtList s' = sndNxtList s /\ maxPayload s' = maxPayload s /\ sndWndScale s' = sndWndScale s.
Proof. unfold cview. intros H. repeat split; congruence. Qed.

(* ------------------------------------------------------------------ loopExit, resetConnection *)
Definition exit_cond (t : tcp) : bool :=
  rclosed (RC t) && sclosed (SN t) && (sndUna (SN t) =? sndNxtList (SN t)).

Lemma loopExit_cases t :
  (loopExit t = t /\ (exit_cond t = false \/ estate t = stError)) \/
  (loopExit t = t <| estate := stClosed |> /\ exit_cond t = true /\ estate t <> stError).
Proof.
  unfold loopExit. fold (exit_cond t). destruct (exit_cond t); [|auto].
  destruct (estate t =? stError) eqn:E.
  - apply Z.eqb_eq in E. auto.
  - apply Z.eqb_neq in E. auto.
Qed.
Lemma loopExit_SN t : SN (loopExit t) = SN t.
Proof. destruct (loopExit_cases t) as [[-> _]|[-> _]]; reflexivity. Qed.
Lemma loopExit_RC t : RC (loopExit t) = RC t.
Proof. destruct (loopExit_cases t) as [[-> _]|[-> _]]; reflexivity. Qed.
Lemma loopExit_out t : out (loopExit t) = out t.
Proof. destruct (loopExit_cases t) as [[-> _]|[-> _]]; reflexivity. Qed.
Lemma loopExit_rcvList t : rcvList (loopExit t) = rcvList t.
Proof. destruct (loopExit_cases t) as [[-> _]|[-> _]]; reflexivity. Qed.
Lemma loopExit_misc t :
  sndClosedE (loopExit t) = sndClosedE t /\ rcvClosedE (loopExit t) = rcvClosedE t /\
  rcvBufUsed (loopExit t) = rcvBufUsed t /\ sndBufUsed (loopExit t) = sndBufUsed t /\
  sndBufSize (loopExit t) = sndBufSize t /\ rcvBufSize (loopExit t) = rcvBufSize t /\ tsOk (loopExit t) = tsOk t.
Proof. destruct (loopExit_cases t) as [[-> _]|[-> _]]; repeat split. Qed.
Lemma loopExit_estate t :
  estate t = stConnected ->
  (estate (loopExit t) = stConnected /\ exit_cond t = false) \/
  (estate (loopExit t) = stClosed /\ exit_cond t = true).
Proof.
  intros E. destruct (loopExit_cases t) as [[-> [H|H]]|[-> [H _]]]; auto.
  rewrite E in H. discriminate.
Qed.
Lemma loopExit_estate_other t : estate t <> stConnected -> estate (loopExit t) = estate t \/ estate (loopExit t) = stClosed.
Proof. intros _. destruct (loopExit_cases t) as [[-> _]|[-> _]]; auto. Qed.

(* ------------------------------------------------------------------ generic induction over run *)
Lemma run_app t es1 es2 : run t (es1 ++ es2) = run (run t es1) es2.
Proof. unfold run. apply fold_left_app. Qed.
Lemma run_cons t e es : run t (e :: es) = run (fst (step t e)) es.
Proof. reflexivity. Qed.
Lemma run_inv (P : tcp -> Prop) :
  (forall t e, P t -> P (fst (step t e))) -> forall es t, P t -> P (run t es).
Proof.
  intros HS es. induction es as [|e es IH]; intros t HP; [exact HP|].
  rewrite run_cons. apply IH, HS, HP.
Qed.

(* ------------------------------------------------------------------ (1) timer armed when outstanding *)
Definition timer_ok (t : tcp) : Prop :=
  estate t = stConnected -> sndUna (SN t) <> sndNxt (SN t) -> tstate (SN t) = tEnabled.

Lemma sendData_arms t idle :
  sndUna (SN (sendData t idle)) <> sndNxt (SN (sendData t idle)) -> tstate (SN (sendData t idle)) = tEnabled.
Proof.
  unfold sendData. cbv zeta.
  match goal with |- context [sendLoop ?f ?a ?b ?c] => generalize (sendLoop f a b c) end.
  intros X. destruct (tstate (SN X) =? tEnabled) eqn:E1; destruct (sndUna (SN X) =? sndNxt (SN X)) eqn:E2;
    cbn; intros H; try reflexivity.
  all: try (apply Z.eqb_eq in E1; exact E1).
  all: try (apply Z.eqb_eq in E2; contradiction).
Qed.
Lemma sendData_estate t idle : estate (sendData t idle) = estate t.
Proof. pose proof (sendData_rview t idle) as H. apply rview_fields in H. tauto. Qed.

Lemma timer_ok_sendData t idle : timer_ok (sendData t idle).
Proof. intros _. apply sendData_arms. Qed.
Lemma timer_ok_sndHandle t sg wnd nr idle : timer_ok (sndHandle t sg wnd nr idle).
Proof.
  unfold sndHandle. cbv zeta. destruct (checkDuplicateAck _ _ _ _) as [s2 rtx]. apply timer_ok_sendData.
Qed.
Lemma timer_ok_sview t t' : sview t' = sview t -> timer_ok t -> timer_ok t'.
Proof.
  intros H. apply sview_fields in H. destruct H as (H1 & _ & _ & _ & HE & _).
  apply score_fields in H1. destruct H1 as (U & N & _ & T & _).
  unfold timer_ok. rewrite U, N, T, HE. auto.
Qed.
Lemma timer_ok_loopExit t : timer_ok t -> timer_ok (loopExit t).
Proof.
  intros H. destruct (loopExit_cases t) as [[-> _]|[-> _]]; [exact H|].
  intros E. cbn in E. discriminate.
Qed.
Lemma timer_ok_error t : estate t <> stConnected -> timer_ok t.
Proof. intros H E. contradiction. Qed.
Lemma timer_ok_clear_out t : timer_ok t -> timer_ok (t <| out := [] |>).
Proof. intros H. exact H. Qed.
Lemma timer_ok_maybe_ack t (c : bool) : timer_ok t -> timer_ok (if c then sendAck t else t).
Proof. intros H. destruct c; [|exact H]. eapply timer_ok_sview; [apply sendAck_sview|exact H]. Qed.

Lemma handleSegment_timer t sg nr idle : timer_ok t -> timer_ok (handleSegment t sg nr idle).
Proof.
  intros H. unfold handleSegment.
  destruct (negb (estate t =? stConnected)); [exact H|].
  destruct (has (s_flags sg) fRst).
  - destruct (acceptable _ _ _).
    + apply timer_ok_error. cbn. discriminate.
    + cbv zeta. apply timer_ok_loopExit, timer_ok_maybe_ack, H.
  - cbv zeta. apply timer_ok_loopExit, timer_ok_maybe_ack.
    destruct (has (s_flags sg) fAck); [|exact H].
    destruct (_ && _); [exact H|]. apply timer_ok_sndHandle.
Qed.

Lemma rtoExpired_timer t idle :
  timer_ok t -> estate t = stConnected ->
  (snd (rtoExpired t idle) = true /\ timer_ok (fst (rtoExpired t idle)) /\
     estate (fst (rtoExpired t idle)) = stConnected) \/
  (snd (rtoExpired t idle) = false).
Proof.
  intros H EC. unfold rtoExpired. cbv zeta.
  destruct (tstate (SN t) =? tOrphaned) eqn:EO.
  { left. cbn [fst snd]. split; [reflexivity|]. split; [|exact EC].
    intros _ NE. cbn in NE. apply Z.eqb_eq in EO. specialize (H EC NE). rewrite H in EO. discriminate. }
  destruct (negb (tstate (SN t) =? tEnabled)).
  { left. cbn [fst snd]. auto. }
  destruct (maxRTO <=? _); [right; reflexivity|].
  left. cbn [fst snd]. split; [reflexivity|]. split; [apply timer_ok_sendData|].
  rewrite sendData_estate. exact EC.
Qed.

Lemma step_timer t e : timer_ok t -> timer_ok (fst (step t e)).
Proof.
  intros H0. assert (H : timer_ok (t <| out := [] |>)) by exact H0. clear H0.
  unfold step. cbv zeta. remember (t <| out := [] |>) as t0 eqn:Et. clear Et t. rename t0 into t.
  destruct e as [sg nr|d| | |].
  - cbn [fst]. apply handleSegment_timer, H.
  - unfold appWrite.
    destruct (estate t =? stError); [exact H|].
    destruct (negb (estate t =? stConnected)); [exact H|].
    destruct (len d =? 0); [exact H|].
    destruct (sndClosedE t); [exact H|]. cbv zeta.
    destruct (_ <=? 0); [exact H|]. cbn [fst]. apply timer_ok_sendData.
  - unfold appRead.
    destruct (_ && _); [exact H|].
    destruct (rcvBufUsed t =? 0); [exact H|].
    destruct (rcvList t) as [|v rest]; [exact H|]. cbv zeta. cbn [fst].
    destruct (_ && _); [|exact H].
    apply timer_ok_loopExit. eapply timer_ok_sview; [apply nonZeroWindow_sview|exact H].
  - unfold appShutdownWrite.
    destruct (negb (estate t =? stConnected)); [exact H|].
    destruct (sndClosedE t); [exact H|]. cbv zeta. cbn [fst].
    apply timer_ok_loopExit.
    match goal with |- timer_ok (?x <| SN := _ |>) =>
      assert (HX : timer_ok x) by apply timer_ok_sendData; exact HX end.
  - destruct (negb (estate t =? stConnected)) eqn:EC; [exact H|].
    apply negb_false_iff, Z.eqb_eq in EC.
    destruct (rtoExpired_timer t false H EC) as [(A & B & C)|A];
      destruct (rtoExpired t false) as [t1 alive]; cbn [fst snd] in *; subst alive; cbn [fst].
    + apply timer_ok_loopExit, B.
    + apply timer_ok_error. cbn. discriminate.
Qed.

Lemma timer_armed_when_outstanding t es : timer_ok t -> timer_ok (run t es).
Proof. intros H. apply run_inv; [apply step_timer|exact H]. Qed.

(* ------------------------------------------------------------------ (3) close bookkeeping *)
Definition rc_eq (t : tcp) : Prop := rclosed (RC t) = rcvClosedE t.
Definition base (t : tcp) : Prop := sclosed (SN t) = sndClosedE t /\ rc_eq t.
Definition close_inv (t : tcp) : Prop :=
  base t /\ (estate t = stConnected -> exit_cond t = false) /\ (estate t = stClosed -> exit_cond t = true) /\
  (estate t = stConnected \/ estate t = stClosed \/ estate t = stError).

Lemma sendAck_rc_eq t : rc_eq t -> rc_eq (sendAck t).
Proof.
  unfold rc_eq. pose proof (sendAck_rview t) as H. apply rview_fields in H.
  destruct H as (R & _ & _ & _ & C & _). apply rcore_fields in R. destruct R as (_ & R & _).
  rewrite R, C. auto.
Qed.

Lemma consumeSegment_rc_eq t fl d sq sl fh : rc_eq t -> rc_eq (fst (fst (consumeSegment t fl d sq sl fh))).
Proof.
  intros H. unfold consumeSegment. cbv zeta.
  assert (GO : forall t0 sq0 sl0 (d0 : list Z), rc_eq t0 ->
    rc_eq (fst (fst (if has fl fFin then
        let t1 := t0 <| RC := (RC t0) <| rcvNxt := add sq0 sl0 |> |> in
        let t2 := t1 <| RC := (RC t1) <| rcvNxt := u32 (rcvNxt (RC t1) + 1) |> |> in
        let t3 := sendAck t2 in
        let first := if fh && negb (Nat.eqb (length (pending (RC t3))) 0) then 1%nat else 0%nat in
        (t3 <| RC := (RC t3) <| rclosed := true |> <| pending := firstn first (pending (RC t3)) |> |>
            <| rcvClosedE := true |>, true, d0)
      else (t0 <| RC := (RC t0) <| rcvNxt := add sq0 sl0 |> |>, true, d0))))).
  { intros t0 sq0 sl0 d0 E. destruct (has fl fFin); cbv zeta; cbn [fst]; [reflexivity|exact E]. }
  destruct (0 <? sl).
  - destruct (negb (inWindow (rcvNxt (RC t)) sq sl)); [exact H|].
    destruct (lessThan sq (rcvNxt (RC t))); apply GO; exact H.
  - destruct (negb (sq =? rcvNxt (RC t))); [exact H|]. apply GO; exact H.
Qed.

Lemma drainPending_rc_eq fuel : forall t, rc_eq t -> rc_eq (drainPending fuel t).
Proof.
  induction fuel as [|f IH]; intros t H; [exact H|].
  cbn [drainPending]. destruct (rclosed (RC t)); [exact H|].
  destruct (pending (RC t)) as [|s rest] eqn:EP; [exact H|]. cbv zeta.
  assert (POP : forall t0 (d0 : list Z) hp, rc_eq t0 ->
     rc_eq (match pop pless hp with
            | Some (h', _) => drainPending f (t0 <| RC := (RC t0) <| pending := h' |>
                       <| pendUsed := u32 (pendUsed (RC t0) - plogicalLen (p_flags s) d0) |> |>)
            | None => t0 end)).
  { intros t0 d0 hp E. destruct (pop pless hp) as [[h' x]|]; [|exact E]. apply IH. exact E. }
  destruct (lessThan _ _); [apply POP; exact H|].
  pose proof (consumeSegment_rc_eq t (p_flags s) (p_data s) (p_seq s) (len (p_data s)) true H) as CS.
  destruct (consumeSegment t (p_flags s) (p_data s) (p_seq s) (len (p_data s)) true) as [[t1 ok] d'].
  cbn [fst] in CS. destruct ok; [apply POP; exact CS|exact H].
Qed.

Lemma rcvHandle_rc_eq t s : rc_eq t -> rc_eq (rcvHandle t s).
Proof.
  intros H. unfold rcvHandle. destruct (rclosed (RC t)) eqn:ER; [exact H|]. cbv zeta.
  destruct (negb (acceptable _ _ _)); [apply sendAck_rc_eq, H|].
  pose proof (consumeSegment_rc_eq t (s_flags s) (s_data s) (s_seq s) (len (s_data s)) false H) as CS.
  destruct (consumeSegment t (s_flags s) (s_data s) (s_seq s) (len (s_data s)) false) as [[t1 ok] d'].
  cbn [fst] in CS. destruct ok; cbn [negb].
  - apply drainPending_rc_eq. exact CS.
  - destruct (_ || _); [|exact H]. apply sendAck_rc_eq.
    destruct (pendUsed (RC t) <? pendSize (RC t)); exact H.
Qed.

Lemma base_rcvpath t t' : sview t' = sview t -> rc_eq t' -> base t -> base t'.
Proof.
  intros V R [B _]. split; [|exact R].
  apply sview_fields in V. destruct V as (S & _ & _ & C & _). apply score_fields in S.
  destruct S as (_ & _ & _ & _ & S & _). rewrite S, C. exact B.
Qed.
Lemma rview_rc_eq t t' : rview t' = rview t -> rc_eq t -> rc_eq t'.
Proof.
  intros V. unfold rc_eq. apply rview_fields in V. destruct V as (R & _ & _ & _ & C & _).
  apply rcore_fields in R. destruct R as (_ & R & _). rewrite R, C. auto.
Qed.
Lemma base_sndpath t t' : rview t' = rview t -> cview (SN t') = cview (SN t) -> base t -> base t'.
Proof.
  intros V C [B R]. split; [|eapply rview_rc_eq; eauto].
  apply cview_fields in C. destruct C as (C & _). apply rview_fields in V.
  destruct V as (_ & _ & _ & _ & _ & _ & _ & E & _). rewrite C, E. exact B.
Qed.
Lemma base_sendAck t : base t -> base (sendAck t).
Proof. apply base_sndpath; [apply sendAck_rview|apply sendSegment_cview]. Qed.
Lemma base_maybe_ack t (c : bool) : base t -> base (if c then sendAck t else t).
Proof. destruct c; [apply base_sendAck|auto]. Qed.
Lemma sendAck_estate t : estate (sendAck t) = estate t.
Proof. pose proof (sendAck_rview t) as H. apply rview_fields in H. tauto. Qed.
Lemma maybe_ack_estate t (c : bool) : estate (if c then sendAck t else t) = estate t.
Proof. destruct c; [apply sendAck_estate|reflexivity]. Qed.
Lemma rcvHandle_estate t s : estate (rcvHandle t s) = estate t.
Proof. pose proof (rcvHandle_sview t s) as H. apply sview_fields in H. tauto. Qed.
Lemma sndHandle_estate t sg wnd nr idle : estate (sndHandle t sg wnd nr idle) = estate t.
Proof. pose proof (sndHandle_rview t sg wnd nr idle) as H. apply rview_fields in H. tauto. Qed.

Lemma close_inv_loopExit X : base X -> estate X = stConnected -> close_inv (loopExit X).
Proof.
  intros [B1 B2] E. unfold close_inv, base, rc_eq, exit_cond.
  destruct (loopExit_misc X) as (M1 & M2 & _).
  rewrite loopExit_SN, loopExit_RC, M1, M2. split; [auto|].
  fold (exit_cond X). destruct (loopExit_estate X E) as [[E' C]|[E' C]]; rewrite E', C.
  - repeat split; try discriminate; auto.
  - repeat split; try discriminate; auto.
Qed.

Lemma close_inv_error t : base t -> estate t = stError -> close_inv t.
Proof. intros B E. unfold close_inv. rewrite E. repeat split; try discriminate; try apply B; auto. Qed.

(* an endpoint that is not connected is inert, apart from reads draining the receive list *)
Lemma step_not_connected t e : estate t <> stConnected ->
  let t' := fst (step t e) in
  estate t' = estate t /\ SN t' = SN t /\ RC t' = RC t /\ out t' = [] /\
  sndClosedE t' = sndClosedE t /\ rcvClosedE t' = rcvClosedE t /\
  (rcvList t' = rcvList t \/ exists v, e = ERead /\ rcvList t = v :: rcvList t').
Proof.
  intros NE. apply Z.eqb_neq in NE. unfold step. cbv zeta.
  assert (NE0 : (estate (t <| out := [] |>) =? stConnected) = false) by exact NE.
  change (estate t) with (estate (t <| out := [] |>)).
  change (SN t) with (SN (t <| out := [] |>)).
  change (RC t) with (RC (t <| out := [] |>)).
  change (sndClosedE t) with (sndClosedE (t <| out := [] |>)).
  change (rcvClosedE t) with (rcvClosedE (t <| out := [] |>)).
  change (rcvList t) with (rcvList (t <| out := [] |>)).
  assert (O : out (t <| out := [] |>) = []) by reflexivity.
  remember (t <| out := [] |>) as t0 eqn:Et. clear Et NE t. rename t0 into t.
  destruct e as [sg nr|d| | |].
  - unfold handleSegment. rewrite NE0. cbn. auto 10.
  - unfold appWrite. rewrite NE0. cbn [negb].
    destruct (estate t =? stError); cbn; auto 10.
  - unfold appRead. rewrite NE0. cbn [negb andb].
    destruct (negb (estate t =? stClosed) && (rcvBufUsed t =? 0)); [cbn; auto 10|].
    destruct (rcvBufUsed t =? 0); [cbn; auto 10|].
    destruct (rcvList t) as [|v rest] eqn:EL; [cbn; rewrite EL; auto 10|]. cbv zeta.
    change (estate (t <| rcvList := rest |> <| rcvBufUsed := rcvBufUsed t - len v |>)) with (estate t).
    rewrite NE0, !andb_false_r. cbn. repeat split; auto. right. eauto.
  - unfold appShutdownWrite. rewrite NE0. cbn. auto 10.
  - rewrite NE0. cbn. auto 10.
Qed.

Lemma step_close_inv t e : close_inv t -> close_inv (fst (step t e)).
Proof.
  intros CI.
  destruct (Z.eq_dec (estate t) stConnected) as [EC|NE].
  2:{ destruct (step_not_connected t e NE) as (E & S & R & _ & C1 & C2 & _).
      destruct CI as ([B1 B2] & I1 & I2 & I3). unfold close_inv, base, rc_eq, exit_cond in *.
      rewrite E, S, R, C1, C2. auto. }
  assert (B : base (t <| out := [] |>)) by exact (proj1 CI).
  assert (X0 : exit_cond (t <| out := [] |>) = false) by (apply (proj1 (proj2 CI)); exact EC).
  assert (E0 : estate (t <| out := [] |>) = stConnected) by exact EC.
  unfold step. cbv zeta. remember (t <| out := [] |>) as t0 eqn:Et.
  assert (CI0 : close_inv t0) by (subst t0; exact CI). clear Et CI EC t. rename t0 into t.
  pose proof E0 as EB. apply Z.eqb_eq in EB.
  destruct e as [sg nr|d| | |].
  - cbn [fst]. unfold handleSegment. rewrite EB. cbn [negb].
    destruct (has (s_flags sg) fRst).
    + destruct (acceptable _ _ _).
      * apply close_inv_error; [exact B|reflexivity].
      * cbv zeta. apply close_inv_loopExit; [apply base_maybe_ack, B|].
        rewrite maybe_ack_estate. exact E0.
    + cbv zeta. apply close_inv_loopExit.
      * apply base_maybe_ack. destruct (has (s_flags sg) fAck); [|exact B].
        destruct (_ && _); [exact B|].
        eapply base_sndpath; [apply sndHandle_rview|apply sndHandle_cview|].
        eapply base_rcvpath; [apply rcvHandle_sview|apply rcvHandle_rc_eq, B|exact B].
      * rewrite maybe_ack_estate. destruct (has (s_flags sg) fAck); [|exact E0].
        destruct (_ && _); [exact E0|]. rewrite sndHandle_estate, rcvHandle_estate. exact E0.
  - unfold appWrite. rewrite EB. rewrite E0. cbn [negb]. change (stConnected =? stError) with false. cbv iota.
    destruct (len d =? 0); [exact CI0|].
    destruct (sndClosedE t) eqn:SC; [exact CI0|]. cbv zeta.
    destruct (_ <=? 0); [exact CI0|]. cbn [fst].
    match goal with |- close_inv (sendData ?x ?i) =>
      assert (BX : base (sendData x i)) by
        (eapply base_sndpath; [apply sendData_rview|apply sendData_cview|exact B]);
      assert (EX : estate (sendData x i) = stConnected) by (rewrite sendData_estate; exact E0);
      assert (SX : sclosed (SN (sendData x i)) = false) by (rewrite (proj1 BX);
        pose proof (sendData_rview x i) as V; apply rview_fields in V;
        destruct V as (_ & _ & _ & _ & _ & _ & _ & V & _); rewrite V; exact SC);
      generalize dependent (sendData x i) end.
    intros Y BY EY SY. unfold close_inv. split; [exact BY|]. unfold exit_cond. rewrite SY, EY, andb_false_r.
    repeat split; try discriminate; auto.
  - unfold appRead. rewrite EB. cbn [negb andb].
    destruct (rcvBufUsed t =? 0); [exact CI0|].
    destruct (rcvList t) as [|v rest]; [exact CI0|]. cbv zeta. cbn [fst].
    destruct (_ && _).
    + apply close_inv_loopExit.
      * eapply base_sndpath; [apply nonZeroWindow_rview| |exact B].
        unfold nonZeroWindow. destruct (negb _); [reflexivity|apply sendSegment_cview].
      * pose proof (nonZeroWindow_rview (t <| rcvList := rest |> <| rcvBufUsed := rcvBufUsed t - len v |>)) as V.
        apply rview_fields in V. destruct V as (_ & _ & _ & _ & _ & V & _). rewrite V. exact E0.
    + exact CI0.
  - unfold appShutdownWrite. rewrite EB. cbn [negb].
    destruct (sndClosedE t) eqn:SC; [exact CI0|]. cbv zeta. cbn [fst].
    apply close_inv_loopExit.
    + match goal with |- base (?x <| SN := _ |>) =>
        assert (BX : rc_eq x) by (eapply rview_rc_eq; [apply sendData_rview|exact (proj2 B)]);
        assert (CX : sndClosedE x = true) by (pose proof (sendData_rview (t <| sndClosedE := true |> <| SN := SN t <| wunsent := wunsent (SN t) ++ [mkW 0 0 []] |> <| sndNxtList := add (sndNxtList (SN t)) 1 |> |>) false) as V;
          apply rview_fields in V; destruct V as (_ & _ & _ & _ & _ & _ & _ & V & _); rewrite V; reflexivity);
        generalize dependent x end.
      intros x BX CX. split; [cbn; rewrite CX; reflexivity|exact BX].
    + cbn. rewrite sendData_estate. exact E0.
  - rewrite EB. cbn [negb].
    pose proof (rtoExpired_rview t false) as V. pose proof (rtoExpired_cview t false) as C.
    destruct (rtoExpired t false) as [t1 alive]. cbn [fst] in *.
    assert (B1 : base t1) by (eapply base_sndpath; eauto).
    assert (E1 : estate t1 = stConnected).
    { apply rview_fields in V. destruct V as (_ & _ & _ & _ & _ & V & _). rewrite V. exact E0. }
    destruct alive.
    + apply close_inv_loopExit; assumption.
    + apply close_inv_error; [exact B1|reflexivity].
Qed.

Lemma closed_iff_all_done t es : close_inv t -> close_inv (run t es).
Proof. intros H. apply run_inv; [apply step_close_inv|exact H]. Qed.

Lemma error_is_final t es : estate t = stError -> estate (run t es) = stError.
Proof.
  revert t. induction es as [|e es IH]; intros t E; [exact E|]. rewrite run_cons. apply IH.
  destruct (step_not_connected t e) as (E' & _); [rewrite E; discriminate|]. rewrite E'. exact E.
Qed.
Lemma closed_is_final t es : estate t = stClosed -> estate (run t es) = stClosed.
Proof.
  revert t. induction es as [|e es IH]; intros t E; [exact E|]. rewrite run_cons. apply IH.
  destruct (step_not_connected t e) as (E' & _); [rewrite E; discriminate|]. rewrite E'. exact E.
Qed.

(* ------------------------------------------------------------------ sendLoop, one iteration *)
Lemma set_SN_eta t : t <| SN := SN t |> = t.
Proof. destruct t; reflexivity. Qed.

Lemma sendData_false t :
  sendData t false =
  let t2 := sendLoop (S (wbytes (wunsent (SN t)))) t (add (sndUna (SN t)) (sndWnd (SN t))) (maxPayload (SN t)) in
  if negb (tstate (SN t2) =? tEnabled) && negb (sndUna (SN t2) =? sndNxt (SN t2))
  then t2 <| SN := (SN t2) <| tstate := tEnabled |> |> else t2.
Proof. unfold sendData. rewrite andb_false_r. cbn [andb]. cbv zeta. rewrite set_SN_eta. reflexivity. Qed.

Lemma sendLoop_nil fuel t e l : wunsent (SN t) = [] -> sendLoop fuel t e l = t.
Proof. intros H. destruct fuel; cbn [sendLoop]; [reflexivity|]. cbv zeta. rewrite H. reflexivity. Qed.
Lemma sendLoop_full fuel t e l : (outstanding (SN t) <? cwnd (SN t)) = false -> sendLoop fuel t e l = t.
Proof.
  intros H. destruct fuel; cbn [sendLoop]; [reflexivity|]. cbv zeta.
  destruct (wunsent (SN t)); [reflexivity|]. rewrite H. reflexivity.
Qed.
Definition numbered (s : sndr) (w : wseg) : wseg :=
  if w_flags w =? 0 then mkW (sndNxt s) (Z.lor fAck fPsh) (w_data w) else w.
Lemma sendLoop_blocked f t e l w rest :
  wunsent (SN t) = w :: rest -> (outstanding (SN t) <? cwnd (SN t)) = true ->
  (len (w_data w) =? 0) = false -> lessThan (w_seq (numbered (SN t) w)) e = false ->
  sendLoop (S f) t e l = t <| SN := (SN t) <| wunsent := numbered (SN t) w :: rest |> |>.
Proof.
  intros HW HC HL HB. cbn [sendLoop]. cbv zeta. rewrite HW, HC. cbn [negb].
  change (if w_flags w =? 0 then mkW (sndNxt (SN t)) (Z.lor fAck fPsh) (w_data w) else w) with (numbered (SN t) w).
  assert (HD : w_data (numbered (SN t) w) = w_data w) by (unfold numbered; destruct (w_flags w =? 0); reflexivity).
  rewrite HD, HL, HB. reflexivity.
Qed.

Lemma len_nonneg (l : list Z) : 0 <= len l.
Proof. unfold len. lia. Qed.
Lemma len_zero_iff (l : list Z) : (len l =? 0) = true <-> l = [].
Proof. unfold len. destruct l; cbn; split; intros; try reflexivity; try discriminate; lia. Qed.
Lemma len_nz (l : list Z) : l <> [] -> (len l =? 0) = false.
Proof. intros H. destruct (len l =? 0) eqn:E; [|reflexivity]. apply len_zero_iff in E. contradiction. Qed.

(* ------------------------------------------------------------------ (5) the zero-window stall *)
Definition stalled (t : tcp) : Prop :=
  estate t = stConnected /\ sndUna (SN t) = sndNxt (SN t) /\ is_u32 (sndUna (SN t)) /\
  sndWnd (SN t) = 0 /\ tstate (SN t) <> tEnabled /\
  (exists w rest, wunsent (SN t) = w :: rest /\ w_data w <> [] /\ (w_flags w = 0 \/ w_seq w = sndNxt (SN t))) /\
  (exists q, 0 < q /\ sndNxtList (SN t) = u32 (sndUna (SN t) + q) /\
             q + Z.max 0 (sndBufSize t - sndBufUsed t) + (if sndClosedE t then 0 else 1) < 2^32).

Definition pure_ack (f : frame) : Prop := f_data f = [] /\ f_flags f = fAck.

Lemma stalled_not_done t : stalled t -> exit_cond t = false.
Proof.
  intros (_ & _ & U & _ & _ & _ & (q & Q0 & Q1 & Q2)). unfold exit_cond. rewrite Q1.
  assert (sndUna (SN t) =? u32 (sndUna (SN t) + q) = false); [|rewrite H; apply andb_false_r].
  apply Z.eqb_neq. unfold is_u32 in U. unfold u32. change (2^32) with 4294967296 in *.
  pose proof (Z.le_max_l 0 (sndBufSize t - sndBufUsed t)). destruct (sndClosedE t); Z.div_mod_to_equations; lia.
Qed.

Lemma loopExit_stalled t : exit_cond t = false -> loopExit t = t.
Proof. intros H. unfold loopExit. fold (exit_cond t). rewrite H. reflexivity. Qed.

(* sendData in a stalled sender state: nothing is emitted, at most the head segment gets its number *)
Lemma sendData_stalled t w rest :
  sndUna (SN t) = sndNxt (SN t) -> is_u32 (sndUna (SN t)) -> sndWnd (SN t) = 0 ->
  wunsent (SN t) = w :: rest -> w_data w <> [] -> (w_flags w = 0 \/ w_seq w = sndNxt (SN t)) ->
  exists w', sendData t false = t <| SN := (SN t) <| wunsent := w' :: rest |> |> /\
             w_data w' = w_data w /\ (w_flags w' = 0 \/ w_seq w' = sndNxt (SN t)).
Proof.
  intros HU U HW HL HD HF. rewrite sendData_false. cbv zeta.
  destruct (outstanding (SN t) <? cwnd (SN t)) eqn:HC.
  - rewrite (sendLoop_blocked _ t _ _ w rest HL HC (len_nz _ HD)).
    + cbn [SN sndUna sndNxt set]. exists (numbered (SN t) w).
      cbn. rewrite HU, Z.eqb_refl, andb_false_r. split; [reflexivity|].
      unfold numbered. destruct (w_flags w =? 0) eqn:E0; cbn; [auto|]. split; [reflexivity|].
      destruct HF as [HF|HF]; [rewrite HF in E0; discriminate|auto].
    + assert (w_seq (numbered (SN t) w) = sndNxt (SN t)) as ->.
      { unfold numbered. destruct (w_flags w =? 0) eqn:E0; [reflexivity|].
        destruct HF as [HF|HF]; [rewrite HF in E0; discriminate|exact HF]. }
      rewrite HW, <- HU. unfold add. rewrite Z.add_0_r.
      unfold is_u32 in U. unfold lessThan, u32. rewrite (Z.mod_small _ _ U), Z.sub_diag. reflexivity.
  - rewrite (sendLoop_full _ t _ _ HC). rewrite HU, Z.eqb_refl, andb_false_r.
    exists w. rewrite <- HL. split; [|auto]. destruct t as [rc sn ? ? ? ? ? ? ? ? ? ?]. destruct sn. reflexivity.
Qed.

Lemma add_u32_u32 a q l : add (u32 (a + q)) (u32 l) = u32 (a + (q + l)).
Proof. unfold u32. word. Qed.
Lemma add_u32_1 a q : add (u32 (a + q)) 1 = u32 (a + (q + 1)).
Proof. unfold u32. word. Qed.

Lemma stalled_intro t w rest q :
  estate t = stConnected -> sndUna (SN t) = sndNxt (SN t) -> is_u32 (sndUna (SN t)) ->
  sndWnd (SN t) = 0 -> tstate (SN t) <> tEnabled ->
  wunsent (SN t) = w :: rest -> w_data w <> [] -> (w_flags w = 0 \/ w_seq w = sndNxt (SN t)) ->
  0 < q -> sndNxtList (SN t) = u32 (sndUna (SN t) + q) ->
  q + Z.max 0 (sndBufSize t - sndBufUsed t) + (if sndClosedE t then 0 else 1) < 2^32 ->
  stalled t.
Proof. intros. unfold stalled. split; [assumption|]. split; [assumption|]. split; [assumption|].
  split; [assumption|]. split; [assumption|]. split; [exists w, rest; auto|exists q; auto]. Qed.

Lemma stalled_state_is_stuck t e :
  stalled t -> (forall sg nr, e <> ESeg sg nr) ->
  let t' := fst (step t e) in
  stalled t' /\ Forall pure_ack (out t') /\
  sndUna (SN t') = sndUna (SN t) /\ sndNxt (SN t') = sndNxt (SN t).
Proof.
  intros ST NS.
  assert (ST0 : stalled (t <| out := [] |>)) by exact ST.
  unfold step. cbv zeta.
  change (sndUna (SN t)) with (sndUna (SN (t <| out := [] |>))).
  change (sndNxt (SN t)) with (sndNxt (SN (t <| out := [] |>))).
  assert (O : out (t <| out := [] |>) = []) by reflexivity.
  remember (t <| out := [] |>) as t0 eqn:Et. clear Et ST t. rename t0 into t. rename ST0 into ST.
  pose proof (stalled_not_done t ST) as XC.
  pose proof ST as STc. destruct STc as (EC & HU & U & HW & HT & (w & rest & HL & HD & HF) & (q & Q0 & Q1 & Q2)).
  pose proof EC as EB. apply Z.eqb_eq in EB.
  destruct e as [sg nr|d| | |].
  - exfalso. eapply NS. reflexivity.
  - (* EWrite: the data is queued behind the blocked head *)
    unfold appWrite. rewrite EB, EC. change (stConnected =? stError) with false. cbn [negb]. cbv iota.
    assert (KEEP : stalled t /\ Forall pure_ack (out t) /\ sndUna (SN t) = sndUna (SN t) /\ sndNxt (SN t) = sndNxt (SN t)).
    { rewrite O. auto. }
    destruct (len d =? 0); [exact KEEP|].
    destruct (sndClosedE t) eqn:SC; [exact KEEP|]. cbv zeta.
    destruct (sndBufSize t - sndBufUsed t <=? 0) eqn:EA; [exact KEEP|]. cbn [fst].
    apply Z.leb_gt in EA.
    set (v := takeZ (sndBufSize t - sndBufUsed t) d).
    assert (LV : 0 <= len v <= sndBufSize t - sndBufUsed t).
    { subst v. unfold takeZ, len. rewrite firstn_length. lia. }
    match goal with |- context [sendData ?x false] => set (t1 := x) end.
    destruct (sendData_stalled t1 w (rest ++ [mkW 0 0 v])) as (w' & E & D' & F'); auto.
    { subst t1. cbn. rewrite HL. reflexivity. }
    rewrite E. subst t1. cbn. rewrite O.
    split; [|auto].
    apply (stalled_intro _ w' (rest ++ [mkW 0 0 v]) (q + len v)); cbn; auto; try congruence; try lia.
    all: try (rewrite Q1; apply add_u32_u32).
    all: try (rewrite SC in *; lia).
  - (* ERead: only the receiver moves (possibly a window-update ACK) *)
    unfold appRead. rewrite EB. cbn [negb andb].
    assert (KEEP : stalled t /\ Forall pure_ack (out t) /\ sndUna (SN t) = sndUna (SN t) /\ sndNxt (SN t) = sndNxt (SN t)).
    { rewrite O. auto. }
    destruct (rcvBufUsed t =? 0); [exact KEEP|].
    destruct (rcvList t) as [|v rl]; [exact KEEP|]. cbv zeta. cbn [fst].
    set (t1 := t <| rcvList := rl |> <| rcvBufUsed := rcvBufUsed t - len v |>).
    assert (ST1 : stalled t1).
    { apply (stalled_intro _ w rest q); subst t1; cbn; auto. }
    destruct (_ && _).
    2:{ split; [exact ST1|]. subst t1. cbn. rewrite O. auto. }
    assert (NZ : nonZeroWindow t1 = t1 \/ nonZeroWindow t1 = sendAck t1).
    { unfold nonZeroWindow. destruct (negb _); auto. }
    destruct NZ as [-> | ->].
    { rewrite loopExit_stalled by (apply stalled_not_done; exact ST1). split; [exact ST1|]. subst t1. cbn. rewrite O.
      auto. }
    assert (ST2 : stalled (sendAck t1)).
    { pose proof (sendAck_sview t1) as V. apply sview_fields in V.
      destruct V as (V1 & V2 & V3 & V4 & V5 & _). apply score_fields in V1.
      destruct V1 as (S1 & S2 & S3 & S4 & _ & _ & S7 & S8 & _).
      destruct ST1 as (A1 & A2 & A3 & A4 & A5 & A6 & A7).
      unfold stalled. rewrite V2, V3, V4, V5, S1, S2, S3, S4, S7, S8. auto 10. }
    rewrite loopExit_stalled by (apply stalled_not_done; exact ST2).
    split; [exact ST2|]. split.
    + unfold sendAck. destruct (sendSegment_out t1 [] fAck (sndNxt (SN t1))) as (wnd & ->).
      subst t1. cbn. rewrite O. cbn. constructor; [split; reflexivity|constructor].
    + pose proof (sendAck_sview t1) as V. apply sview_fields in V. destruct V as (V1 & _).
      apply score_fields in V1. destruct V1 as (S1 & S2 & _). rewrite S1, S2. subst t1. auto.
  - (* EShutW: the FIN is queued behind the blocked data *)
    unfold appShutdownWrite. rewrite EB. cbn [negb].
    assert (KEEP : stalled t /\ Forall pure_ack (out t) /\ sndUna (SN t) = sndUna (SN t) /\ sndNxt (SN t) = sndNxt (SN t)).
    { rewrite O. auto. }
    destruct (sndClosedE t) eqn:SC; [exact KEEP|]. cbv zeta. cbn [fst].
    match goal with |- context [sendData ?x false] => set (t1 := x) end.
    destruct (sendData_stalled t1 w (rest ++ [mkW 0 0 []])) as (w' & E & D' & F'); auto.
    { subst t1. cbn. rewrite HL. reflexivity. }
    rewrite E.
    match goal with |- context [loopExit ?x] => assert (STX : stalled x) end.
    { subst t1. apply (stalled_intro _ w' (rest ++ [mkW 0 0 []]) (q + 1)); cbn; auto; try congruence; try lia.
      all: try (rewrite Q1; apply add_u32_1).
      all: try (rewrite SC in *; lia). }
    rewrite loopExit_stalled by (apply stalled_not_done; exact STX).
    split; [exact STX|]. subst t1. cbn. rewrite O. auto.
  - (* ERto: the timer is not running; an orphaned one is merely cleared *)
    rewrite EB. cbn [negb]. unfold rtoExpired. cbv zeta.
    destruct (tstate (SN t) =? tOrphaned) eqn:EO.
    + cbn [fst snd].
      match goal with |- context [loopExit ?x] => assert (STX : stalled x) end.
      { apply (stalled_intro _ w rest q); cbn; auto. discriminate. }
      rewrite loopExit_stalled by (apply stalled_not_done; exact STX).
      split; [exact STX|]. cbn. rewrite O. auto.
    + assert (ET : (tstate (SN t) =? tEnabled) = false) by (apply Z.eqb_neq; exact HT).
      rewrite ET. cbn [negb fst snd]. rewrite loopExit_stalled by exact XC.
      rewrite O. auto.
Qed.

Fixpoint no_segment (es : list event) : Prop :=
  match es with [] => True | ESeg _ _ :: _ => False | _ :: r => no_segment r end.

Lemma stalled_forever t es :
  stalled t -> no_segment es ->
  stalled (run t es) /\ Forall pure_ack (run_out t es) /\
  sndUna (SN (run t es)) = sndUna (SN t) /\ sndNxt (SN (run t es)) = sndNxt (SN t).
Proof.
  revert t. induction es as [|e es IH]; intros t ST NS.
  - cbn. auto.
  - assert (NE : forall sg nr, e <> ESeg sg nr) by (intros sg nr ->; exact NS).
    assert (NS' : no_segment es) by (destruct e; try exact NS; contradiction).
    destruct (stalled_state_is_stuck t e ST NE) as (ST' & O' & U' & N').
    destruct (IH _ ST' NS') as (A & B & C & D).
    rewrite run_cons. cbn [run_out]. split; [exact A|]. split; [apply Forall_app; auto|].
    split; congruence.
Qed.

(* ------------------------------------------------------------------ a freshly established connection *)
(* the state the real stack is in right after the three-way handshake (values as snapshotted by the
   lock-step driver): initial send sequence number iss, peer's irs, MSS-derived payload limit mp,
   peer window wnd *)
Definition fresh_conn (iss irs mp wnd : Z) : tcp :=
  mkTcp (mkRcvr (u32 (irs + 1)) (u32 (irs + 1 + 1048576)) 0 false [] 0 1048576)
        (mkSndr 0 false 0 iss 0 InitialCwnd maxInt 0 0 wnd (u32 (iss + 1)) (u32 (iss + 1)) (u32 (iss + 1)) false
                [] [] tDisabled 1000000000 mp 0 (u32 (irs + 1)) (u32 (iss + 1)))
        [] 0 1048576 false 1048576 0 false stConnected false [].

Example fresh_timer_ok iss irs mp wnd : timer_ok (fresh_conn iss irs mp wnd).
Proof. intros _ H. cbn in H. contradiction. Qed.
Example fresh_close_inv iss irs mp wnd : close_inv (fresh_conn iss irs mp wnd).
Proof. unfold close_inv, base, rc_eq, exit_cond. cbn. repeat split; try discriminate; auto. Qed.

(* a concrete run into the stall: 30 bytes written and sent, the peer acknowledges them while
   closing its window, the application writes 50 more bytes *)
Definition stall_run : list event :=
  [EWrite (repeat 7 30);
   ESeg (mkSeg 5001 1031 fAck 0 [] false false) 300000000;
   EWrite (repeat 9 50)].
Definition stall_state : tcp := run (fresh_conn 1000 5000 1460 30000) stall_run.

Lemma stall_state_stalled : stalled stall_state.
Proof.
  apply (stalled_intro _ (mkW 1031 (Z.lor fAck fPsh) (repeat 9 50)) [] 50); vm_compute; try reflexivity;
    try (intro; discriminate); try (split; [discriminate|reflexivity]); auto.
Qed.

(* ------------------------------------------------------------------ (2) retransmission time-outs *)
(* the head of the retransmission queue is the oldest unacknowledged segment: numbered, starts at
   sndUna, ends at or before sndNxt; a FIN element is the last one *)
Definition fDATA := Z.lor fAck fPsh.
Definition fFINACK := Z.lor fAck fFin.
Definition head_ok (w : wseg) (rest : list wseg) : Prop :=
  (w_flags w = fDATA /\ w_data w <> []) \/ (w_flags w = fFINACK /\ w_data w = [] /\ rest = []).
Definition oldest_in_flight (t : tcp) : Prop :=
  exists w rest dn,
    wsent (SN t) ++ wunsent (SN t) = w :: rest /\ head_ok w rest /\ w_seq w = sndUna (SN t) /\
    sndNxt (SN t) = u32 (sndUna (SN t) + dn) /\ 1 <= dn < 2^31 /\ len (w_data w) < 2^31.

Definition rto_ready (t : tcp) : Prop :=
  estate t = stConnected /\ tstate (SN t) = tEnabled /\ exit_cond t = false /\
  1 <= maxPayload (SN t) /\ is_u32 (sndUna (SN t)) /\ oldest_in_flight t.

Definition rst_frame (t : tcp) : frame := mkF (sndUna (SN t)) (rcvNxt (RC t)) (Z.lor fAck fRst) 0 [].

Lemma rto_expiry_fails t :
  estate t = stConnected -> tstate (SN t) = tEnabled -> maxRTO <= rto (SN t) ->
  estate (fst (step t ERto)) = stError /\ out (fst (step t ERto)) = [rst_frame t].
Proof.
  intros EC TE R. unfold step. cbv zeta.
  change (estate (t <| out := [] |>)) with (estate t). rewrite EC. cbn [negb Z.eqb stConnected].
  unfold rtoExpired. cbv zeta. change (SN (t <| out := [] |>)) with (SN t). rewrite TE.
  change (tEnabled =? tOrphaned) with false. change (tEnabled =? tEnabled) with true. cbn [negb]. cbv iota.
  change (rto (SN t <| tstate := tDisabled |>)) with (rto (SN t)).
  apply Z.leb_le in R. rewrite R. cbn. auto.
Qed.

Lemma lessThan_back una dn m :
  is_u32 una -> 0 <= m <= dn -> dn < 2^31 -> lessThan (u32 (una + dn)) (add una m) = false.
Proof. intros. apply Z.leb_gt. word. Qed.
Lemma lessThan_open una wnd : is_u32 una -> lessThan una (add una wnd) = true -> 1 <= size una (add una wnd).
Proof. intros U H. apply Z.leb_le in H. revert H. word. Qed.
Lemma u32_small x : 0 <= x < 2^32 -> u32 x = x.
Proof. intros. unfold u32. apply Z.mod_small. lia. Qed.
Lemma una_ne_nxt una dn : is_u32 una -> 1 <= dn < 2^31 -> (una =? u32 (una + dn)) = false.
Proof. intros U H. apply Z.eqb_neq. word. Qed.

Lemma takeZ_len k (d : list Z) : 0 <= k -> len (takeZ k d) = Z.min k (len d).
Proof. intros. unfold takeZ, len. rewrite firstn_length. lia. Qed.
Lemma takeZ_nonnil k (d : list Z) : 1 <= k -> d <> [] -> takeZ k d <> [].
Proof.
  intros K D. unfold takeZ. destruct d as [|x d]; [contradiction|].
  destruct (Z.to_nat k) eqn:E; [lia|]. cbn. discriminate.
Qed.


(* one iteration of the send loop that emits: FIN element / data element *)
Definition bump (t2 : tcp) (segEnd : Z) : tcp :=
  if lessThan (sndNxt (SN t2)) segEnd then t2 <| SN := (SN t2) <| sndNxt := segEnd |> |> else t2.

Lemma sendLoop_fin f t e l w rest :
  wunsent (SN t) = w :: rest -> (outstanding (SN t) <? cwnd (SN t)) = true -> w_data w = [] ->
  sendLoop (S f) t e l =
  sendLoop f (bump (sendSegment (t <| SN := (SN t) <| wsent := wsent (SN t) ++ [mkW (w_seq (numbered (SN t) w)) (Z.lor fAck fFin) []] |>
                                                 <| wunsent := rest |> |>)
                                [] (Z.lor fAck fFin) (w_seq (numbered (SN t) w)))
                   (add (w_seq (numbered (SN t) w)) 1)) e l.
Proof.
  intros HW HC HD. cbn [sendLoop]. cbv zeta. rewrite HW, HC. cbn [negb].
  change (if w_flags w =? 0 then mkW (sndNxt (SN t)) (Z.lor fAck fPsh) (w_data w) else w) with (numbered (SN t) w).
  assert (HD' : w_data (numbered (SN t) w) = []) by (unfold numbered; destruct (w_flags w =? 0); exact HD).
  rewrite HD'. cbn [len length Z.of_nat Z.eqb]. reflexivity.
Qed.

Definition split_at (available : Z) (w1 : wseg) (rest : list wseg) : wseg * list wseg :=
  if available <? len (w_data w1) then
    (mkW (w_seq w1) (w_flags w1) (takeZ available (w_data w1)),
     mkW (add (w_seq w1) (u32 available)) (w_flags w1) (dropZ available (w_data w1)) :: rest)
  else (w1, rest).

Lemma sendLoop_data f t e l w rest :
  wunsent (SN t) = w :: rest -> (outstanding (SN t) <? cwnd (SN t)) = true -> w_data w <> [] ->
  lessThan (w_seq (numbered (SN t) w)) e = true ->
  let w1 := numbered (SN t) w in
  let available0 := size (w_seq w1) e in
  let available := if l <? available0 then l else available0 in
  sendLoop (S f) t e l =
  let '(w2, rest') := split_at available w1 rest in
  sendLoop f (bump (sendSegment (t <| SN := (SN t) <| outstanding := outstanding (SN t) + 1 |>
                                                 <| wsent := wsent (SN t) ++ [w2] |> <| wunsent := rest' |> |>)
                                (w_data w2) (w_flags w2) (w_seq w2))
                   (add (w_seq w2) (u32 (len (w_data w2))))) e l.
Proof.
  intros HW HC HD HB. cbv zeta. cbn [sendLoop]. cbv zeta. rewrite HW, HC. cbn [negb].
  change (if w_flags w =? 0 then mkW (sndNxt (SN t)) (Z.lor fAck fPsh) (w_data w) else w) with (numbered (SN t) w).
  assert (HD' : w_data (numbered (SN t) w) = w_data w) by (unfold numbered; destruct (w_flags w =? 0); reflexivity).
  rewrite HD', (len_nz _ HD), HB. cbn [negb]. unfold split_at, bump. rewrite HD'. reflexivity.
Qed.

Lemma numbered_id s w : w_flags w <> 0 -> numbered s w = w.
Proof. intros H. unfold numbered. apply Z.eqb_neq in H. rewrite H. reflexivity. Qed.

Lemma set_sndNxt_eta s : s <| sndNxt := sndNxt s |> = s.
Proof. destruct s; reflexivity. Qed.
Lemma bump_SN t2 se :
  SN (bump t2 se) = (SN t2) <| sndNxt := if lessThan (sndNxt (SN t2)) se then se else sndNxt (SN t2) |>.
Proof. unfold bump. destruct (lessThan _ _); [reflexivity|]. rewrite set_sndNxt_eta. reflexivity. Qed.
Lemma bump_out t2 se : out (bump t2 se) = out t2.
Proof. unfold bump. destruct (lessThan _ _); reflexivity. Qed.

(* sendData right after a time-out: window of one segment, everything back in the unsent list *)
Lemma sendData_rexmit t w rest dn :
  wsent (SN t) = [] -> wunsent (SN t) = w :: rest -> cwnd (SN t) = 1 -> outstanding (SN t) = 0 ->
  tstate (SN t) = tDisabled -> 1 <= maxPayload (SN t) -> is_u32 (sndUna (SN t)) ->
  head_ok w rest -> w_seq w = sndUna (SN t) ->
  sndNxt (SN t) = u32 (sndUna (SN t) + dn) -> 1 <= dn < 2^31 -> len (w_data w) < 2^31 ->
  let t' := sendData t false in
  tstate (SN t') = tEnabled /\ sndUna (SN t') = sndUna (SN t) /\
  rto (SN t') = rto (SN t) /\ oldest_in_flight t' /\
  (out t' = out t \/
   exists f, out t' = out t ++ [f] /\ f_seq f = sndUna (SN t) /\ f_flags f = w_flags w /\
             f_data f = takeZ (len (f_data f)) (w_data w) /\ (w_data w <> [] -> f_data f <> [])).
Proof.
  intros HS HW HC HO HT MP U HK HQ HN HD HLEN. cbv zeta. rewrite sendData_false. cbv zeta.
  assert (HF : w_flags w <> 0) by (destruct HK as [[-> _]|[-> _]]; discriminate).
  assert (OC : (outstanding (SN t) <? cwnd (SN t)) = true) by (rewrite HO, HC; reflexivity).
  assert (NE : (sndUna (SN t) =? sndNxt (SN t)) = false) by (rewrite HN; apply una_ne_nxt; [exact U|lia]).
  set (fuel := wbytes (wunsent (SN t))). set (e := add (sndUna (SN t)) (sndWnd (SN t))).
  destruct HK as [[FL DNE]|[FL [DE RE]]].
  - (* data element *)
    destruct (lessThan (sndUna (SN t)) e) eqn:HB.
    + (* window open: (a prefix of) the segment goes out *)
      pose proof (sendLoop_data fuel t e (maxPayload (SN t)) w rest HW OC DNE) as SL.
      cbv zeta in SL. rewrite (numbered_id _ _ HF) in SL. rewrite !HQ in SL. specialize (SL HB). rewrite SL. clear SL.
      set (av := if maxPayload (SN t) <? size (sndUna (SN t)) e then maxPayload (SN t) else size (sndUna (SN t)) e) in *.
      assert (AV : 1 <= av).
      { pose proof (lessThan_open _ _ U HB). subst av e. destruct (maxPayload (SN t) <? _); lia. }
      destruct (split_at av w rest) as [w2 rest'] eqn:ES.
      assert (W2 : w_seq w2 = sndUna (SN t) /\ w_flags w2 = w_flags w /\ w_data w2 = takeZ (len (w_data w2)) (w_data w) /\
                   w_data w2 <> [] /\ len (w_data w2) <= len (w_data w)).
      { unfold split_at in ES. destruct (av <? len (w_data w)) eqn:EA; injection ES as <- <-; cbn [w_seq w_flags w_data].
        - apply Z.ltb_lt in EA. rewrite takeZ_len by lia. rewrite Z.min_l by lia.
          repeat split; auto. + apply takeZ_nonnil; auto. + lia.
        - repeat split; auto; try lia. unfold takeZ, len. rewrite Nat2Z.id, firstn_all. reflexivity. }
      destruct W2 as (W2a & W2b & W2c & W2d & W2e).
      assert (L2 : 1 <= len (w_data w2)).
      { pose proof (len_nonneg (w_data w2)). destruct (Z.eq_dec (len (w_data w2)) 0) as [Z0|]; [|lia].
        apply Z.eqb_eq, len_zero_iff in Z0. contradiction. }
      match goal with |- context [bump ?x ?y] => set (t2 := x); set (se := y) end.
      assert (S2 : SN t2 = (SN t) <| outstanding := outstanding (SN t) + 1 |> <| wsent := wsent (SN t) ++ [w2] |>
                              <| wunsent := rest' |> <| maxSentAck := rcvNxt (RC t) |>).
      { subst t2. rewrite sendSegment_SN. reflexivity. }
      assert (O2 : exists wnd, out t2 = out t ++ [mkF (w_seq w2) (rcvNxt (RC t)) (w_flags w2) wnd (w_data w2)]).
      { subst t2. match goal with |- context [sendSegment ?a ?b ?c ?d] => destruct (sendSegment_out a b c d) as (wnd & E) end. exists wnd. exact E. }
      destruct O2 as (wnd & O2). clearbody t2.
      pose proof (bump_SN t2 se) as BS. pose proof (bump_out t2 se) as BO. rewrite S2 in BS. cbn in BS.
      set (nxt' := if lessThan (sndNxt (SN t)) se then se else sndNxt (SN t)) in BS.
      assert (NX : exists dn', nxt' = u32 (sndUna (SN t) + dn') /\ 1 <= dn' < 2^31).
      { subst nxt'. destruct (lessThan (sndNxt (SN t)) se).
        - exists (len (w_data w2)). split; [|lia]. subst se. rewrite W2a.
          rewrite u32_small by (change (2^32) with 4294967296; change (2^31) with 2147483648 in HLEN; lia). reflexivity.
        - exists dn. auto. }
      destruct NX as (dn' & NX & DN'). clearbody nxt'.
      generalize dependent (bump t2 se). intros t3 BS BO.
      assert (SL2 : sendLoop fuel t3 e (maxPayload (SN t)) = t3).
      { apply sendLoop_full. rewrite BS. cbn. rewrite HO, HC. reflexivity. }
      rewrite SL2, BS. cbn. rewrite HT, NX, (una_ne_nxt _ _ U DN'). cbn.
      split; [reflexivity|]. split; [reflexivity|]. split; [reflexivity|]. split.
      * exists w2, rest', dn'. cbn. rewrite HS. cbn. repeat split; auto; try lia.
        left. rewrite W2b. auto.
      * right. rewrite BO, O2. eexists. split; [reflexivity|]. cbn. auto.
    + (* window closed: nothing goes out, the timer is re-armed *)
      rewrite (sendLoop_blocked fuel t e _ w rest HW OC (len_nz _ DNE)).
      2:{ rewrite (numbered_id _ _ HF), HQ. exact HB. }
      rewrite (numbered_id _ _ HF). cbn. rewrite HT, NE. cbn.
      split; [reflexivity|]. split; [reflexivity|]. split; [reflexivity|]. split; [|auto].
      exists w, rest, dn. cbn. rewrite HS. cbn. repeat split; auto; try lia. left. auto.
  - (* FIN element: never blocked by the window *)
    subst rest.
    rewrite (sendLoop_fin fuel t e _ w [] HW OC DE). rewrite (numbered_id _ _ HF), HQ.
    match goal with |- context [bump ?x ?y] => set (t2 := x); set (se := y) end.
    assert (S2 : SN t2 = (SN t) <| wsent := wsent (SN t) ++ [mkW (sndUna (SN t)) (Z.lor fAck fFin) []] |>
                            <| wunsent := [] |> <| maxSentAck := rcvNxt (RC t) |>).
    { subst t2. rewrite sendSegment_SN. reflexivity. }
    assert (O2 : exists wnd, out t2 = out t ++ [mkF (sndUna (SN t)) (rcvNxt (RC t)) (Z.lor fAck fFin) wnd []]).
    { subst t2. match goal with |- context [sendSegment ?a ?b ?c ?d] => destruct (sendSegment_out a b c d) as (wnd & E) end. exists wnd. exact E. }
    destruct O2 as (wnd & O2). clearbody t2.
    pose proof (bump_SN t2 se) as BS. pose proof (bump_out t2 se) as BO. rewrite S2 in BS. cbn in BS.
    set (nxt' := if lessThan (sndNxt (SN t)) se then se else sndNxt (SN t)) in BS.
    assert (NX : exists dn', nxt' = u32 (sndUna (SN t) + dn') /\ 1 <= dn' < 2^31).
    { subst nxt'. destruct (lessThan (sndNxt (SN t)) se).
      - exists 1. split; [reflexivity|]. change (2^31) with 2147483648. lia.
      - exists dn. auto. }
    destruct NX as (dn' & NX & DN'). clearbody nxt'.
    generalize dependent (bump t2 se). intros t3 BS BO.
    assert (SL2 : sendLoop fuel t3 e (maxPayload (SN t)) = t3).
    { apply sendLoop_nil. rewrite BS. reflexivity. }
    rewrite SL2, BS. cbn. rewrite HT, NX, (una_ne_nxt _ _ U DN'). cbn.
    split; [reflexivity|]. split; [reflexivity|]. split; [reflexivity|]. split.
    + exists (mkW (sndUna (SN t)) (Z.lor fAck fFin) []), [], dn'. cbn. rewrite HS. cbn.
      repeat split; auto; try lia. right. auto.
    + right. rewrite BO, O2. eexists. split; [reflexivity|]. cbn. rewrite FL, DE. repeat split; auto.
Qed.

Lemma rtoExpired_live t :
  tstate (SN t) = tEnabled -> rto (SN t) < maxRTO ->
  exists t5, rtoExpired t false = (sendData t5 false, true) /\
    wsent (SN t5) = [] /\ wunsent (SN t5) = wsent (SN t) ++ wunsent (SN t) /\ cwnd (SN t5) = 1 /\
    outstanding (SN t5) = 0 /\ tstate (SN t5) = tDisabled /\ rto (SN t5) = rto (SN t) * 2 /\
    sndUna (SN t5) = sndUna (SN t) /\ sndNxt (SN t5) = sndNxt (SN t) /\ maxPayload (SN t5) = maxPayload (SN t) /\
    rview t5 = rview t /\ cview (SN t5) = cview (SN t) /\ out t5 = out t.
Proof.
  intros TE R. unfold rtoExpired. cbv zeta. rewrite TE.
  change (tEnabled =? tOrphaned) with false. change (tEnabled =? tEnabled) with true. cbn [negb]. cbv iota.
  change (rto (SN t <| tstate := tDisabled |>)) with (rto (SN t)).
  apply Z.leb_gt in R. rewrite R.
  eexists. split; [reflexivity|].
  destruct (frActive (SN t <| tstate := tDisabled |> <| rto := rto (SN t) * 2 |>)); cbn; repeat split.
Qed.

Lemma rto_expiry_retransmits t :
  rto_ready t -> rto (SN t) < maxRTO ->
  let t' := fst (step t ERto) in
  rto_ready t' /\ rto (SN t') = 2 * rto (SN t) /\ sndUna (SN t') = sndUna (SN t) /\
  (out t' = [] \/
   exists f w rest, out t' = [f] /\ wsent (SN t) ++ wunsent (SN t) = w :: rest /\
     f_seq f = sndUna (SN t) /\ f_flags f = w_flags w /\
     f_data f = takeZ (len (f_data f)) (w_data w) /\ (w_data w <> [] -> f_data f <> [])).
Proof.
  intros (EC & TE & XC & MP & U & (w & rest & dn & HL & HK & HQ & HN & HD & HLEN)) R.
  unfold step. cbv zeta.
  assert (EC0 : estate (t <| out := [] |>) = stConnected) by exact EC.
  assert (XC0 : exit_cond (t <| out := [] |>) = false) by exact XC.
  change (SN t) with (SN (t <| out := [] |>)) in TE, MP, U, HL, HQ, HN, R |- *.
  assert (O : out (t <| out := [] |>) = []) by reflexivity.
  remember (t <| out := [] |>) as t0 eqn:Et. clear Et EC XC t. rename t0 into t.
  rewrite EC0. cbn [negb Z.eqb stConnected].
  destruct (rtoExpired_live t TE R) as (t5 & E & A1 & A2 & A3 & A4 & A5 & A6 & A7 & A8 & A9 & V & C & O5).
  rewrite E. cbn [fst snd].
  rewrite HL in A2. rewrite <- A9 in MP. rewrite <- A7 in U, HQ, HN. rewrite <- A8 in HN.
  destruct (sendData_rexmit t5 w rest dn A1 A2 A3 A4 A5 MP U HK HQ HN HD HLEN)
    as (B1 & B2 & B4 & B5 & B6).
  pose proof (sendData_rview t5 false) as V'. pose proof (sendData_cview t5 false) as C'.
  set (t6 := sendData t5 false) in *.
  assert (X6 : exit_cond t6 = false).
  { unfold exit_cond in *. apply rview_fields in V'. apply rview_fields in V.
    destruct V' as (R1 & _). destruct V as (R2 & _). apply rcore_fields in R1. apply rcore_fields in R2.
    destruct R1 as (_ & R1 & _). destruct R2 as (_ & R2 & _).
    apply cview_fields in C'. apply cview_fields in C. destruct C' as (C1 & C2 & _). destruct C as (C3 & C4 & _).
    rewrite R1, R2, C1, C2, C3, C4, B2, A7. exact XC0. }
  rewrite (loopExit_stalled t6 X6).
  assert (E6 : estate t6 = stConnected).
  { apply rview_fields in V'. apply rview_fields in V.
    destruct V' as (_ & _ & _ & _ & _ & V' & _). destruct V as (_ & _ & _ & _ & _ & V & _). congruence. }
  split.
  { unfold rto_ready. apply cview_fields in C'. destruct C' as (_ & _ & C' & _).
    rewrite E6, B1, X6, C', B2. auto 10. }
  split; [rewrite B4, A6; lia|]. split; [congruence|].
  destruct B6 as [B6|(f & B6 & F1 & F2 & F3 & F4)]; rewrite B6, O5, O; [auto|].
  right. exists f, w, rest. cbn. rewrite <- A7. auto 10.
Qed.

(* number of expiries until the connection is failed, for a peer that stays silent *)
Fixpoint expiries_left (fuel : nat) (r : Z) : nat :=
  match fuel with
  | O => 1%nat
  | S f => if maxRTO <=? r then 1%nat else S (expiries_left f (2 * r))
  end.

Lemma expiries_left_le fuel : forall r, (expiries_left fuel r <= S fuel)%nat.
Proof. induction fuel as [|f IH]; intros r; cbn [expiries_left]; [lia|]. destruct (maxRTO <=? r); [lia|]. specialize (IH (2 * r)). lia. Qed.

Lemma backoff_gen fuel : forall t,
  rto_ready t -> 0 < rto (SN t) -> maxRTO <= rto (SN t) * 2 ^ Z.of_nat fuel ->
  let k := expiries_left fuel (rto (SN t)) in
  estate (run t (repeat ERto k)) = stError /\
  (forall j, (j < k)%nat ->
     rto_ready (run t (repeat ERto j)) /\ rto (SN (run t (repeat ERto j))) = 2 ^ Z.of_nat j * rto (SN t) /\
     sndUna (SN (run t (repeat ERto j))) = sndUna (SN t)).
Proof.
  induction fuel as [|f IH]; intros t RR P B.
  - cbn [expiries_left]. cbv zeta. split.
    + cbn [repeat]. rewrite run_cons. cbn [run fold_left].
      destruct RR as (EC & TE & _). apply rto_expiry_fails; auto. change (2 ^ Z.of_nat 0) with 1 in B. lia.
    + intros j J. assert (j = 0%nat) by lia. subst j. cbn [repeat run fold_left]. split; [exact RR|]. split; [change (2 ^ Z.of_nat 0) with 1; lia|auto].
  - cbn [expiries_left]. destruct (maxRTO <=? rto (SN t)) eqn:EM; cbv zeta.
    + apply Z.leb_le in EM. split.
      * cbn [repeat]. rewrite run_cons. cbn [run fold_left].
        destruct RR as (EC & TE & _). apply rto_expiry_fails; auto.
      * intros j J. assert (j = 0%nat) by lia. subst j. cbn [repeat run fold_left]. split; [exact RR|]. split; [change (2 ^ Z.of_nat 0) with 1; lia|auto].
    + apply Z.leb_gt in EM.
      destruct (rto_expiry_retransmits t RR EM) as (RR' & R' & U' & _).
      assert (B' : maxRTO <= rto (SN (fst (step t ERto))) * 2 ^ Z.of_nat f).
      { rewrite R'. rewrite Nat2Z.inj_succ, Z.pow_succ_r in B by lia. lia. }
      assert (P' : 0 < rto (SN (fst (step t ERto)))) by lia.
      destruct (IH _ RR' P' B') as (I1 & I2). rewrite R' in I1. split.
      * cbn [repeat]. rewrite run_cons. exact I1.
      * intros j J. destruct j as [|j].
        { cbn [repeat run fold_left]. split; [exact RR|]. split; [change (2 ^ Z.of_nat 0) with 1; lia|auto]. }
        cbn [repeat]. rewrite run_cons. rewrite R' in I2.
        destruct (I2 j ltac:(lia)) as (J1 & J2 & J3). split; [exact J1|].
        split; [rewrite J2, Nat2Z.inj_succ, Z.pow_succ_r by lia; lia|]. congruence.
Qed.

Theorem rto_backoff_terminates t :
  rto_ready t -> minRTO <= rto (SN t) ->
  let k := expiries_left 9 (rto (SN t)) in
  (1 <= k <= 10)%nat /\
  estate (run t (repeat ERto k)) = stError /\
  (forall j, (j < k)%nat ->
     rto_ready (run t (repeat ERto j)) /\ rto (SN (run t (repeat ERto j))) = 2 ^ Z.of_nat j * rto (SN t) /\
     sndUna (SN (run t (repeat ERto j))) = sndUna (SN t)).
Proof.
  intros RR M. cbv zeta. split.
  - pose proof (expiries_left_le 9 (rto (SN t))). split; [|lia].
    cbn [expiries_left]. destruct (maxRTO <=? rto (SN t)); lia.
  - apply backoff_gen; auto.
    + unfold minRTO in M. lia.
    + unfold minRTO in M. unfold maxRTO. change (2 ^ Z.of_nat 9) with 512. lia.
Qed.

(* an in-flight state with a silent peer: 30 bytes sent and never acknowledged *)
Definition inflight_state : tcp := run (fresh_conn 1000 5000 1460 30000) [EWrite (repeat 7 30)].
Example inflight_rto_ready : rto_ready inflight_state.
Proof.
  unfold rto_ready.
  split; [reflexivity|]. split; [reflexivity|]. split; [reflexivity|].
  split; [vm_compute; discriminate|]. split; [vm_compute; split; [discriminate|reflexivity]|].
  exists (mkW 1001 fDATA (repeat 7 30)), [], 30.
  split; [reflexivity|]. split; [left; split; [reflexivity|discriminate]|]. split; [reflexivity|].
  split; [reflexivity|]. vm_compute. split; [split; [discriminate|reflexivity]|reflexivity].
Qed.
Example inflight_fails_after_7 :
  expiries_left 9 (rto (SN inflight_state)) = 7%nat /\
  estate (run inflight_state (repeat ERto 7)) = stError /\ estate (run inflight_state (repeat ERto 6)) = stConnected.
Proof. vm_compute. auto. Qed.

(* ------------------------------------------------------------------ (3) end of stream on the receive side *)
Lemma rdata_of_rview t t' : rview t' = rview t ->
  rclosed (RC t') = rclosed (RC t) /\ rcvNxt (RC t') = rcvNxt (RC t) /\ rcvList t' = rcvList t /\
  rcvBufUsed t' = rcvBufUsed t /\ rcvClosedE t' = rcvClosedE t.
Proof.
  intros V. apply rview_fields in V. destruct V as (R & L & B & _ & C & _).
  apply rcore_fields in R. destruct R as (N & R & _). auto.
Qed.

Lemma rcvHandle_closed t sg : rclosed (RC t) = true -> rcvHandle t sg = t.
Proof. intros H. unfold rcvHandle. rewrite H. reflexivity. Qed.

(* once the peer's FIN has been consumed the receive queue can only be drained *)
Lemma step_after_eof t e : rclosed (RC t) = true ->
  let t' := fst (step t e) in
  rclosed (RC t') = true /\ rcvNxt (RC t') = rcvNxt (RC t) /\
  (rcvList t' = rcvList t \/ exists v, e = ERead /\ snd (step t e) = RBytes v /\ rcvList t = v :: rcvList t').
Proof.
  intros RCL. unfold step. cbv zeta.
  assert (RCL0 : rclosed (RC (t <| out := [] |>)) = true) by exact RCL.
  change (RC t) with (RC (t <| out := [] |>)). change (rcvList t) with (rcvList (t <| out := [] |>)).
  remember (t <| out := [] |>) as t0 eqn:Et. clear Et RCL t. rename t0 into t.
  assert (KEEP : forall t' (Q : Prop), rclosed (RC t') = rclosed (RC t) /\ rcvNxt (RC t') = rcvNxt (RC t) /\ rcvList t' = rcvList t /\
                   rcvBufUsed t' = rcvBufUsed t /\ rcvClosedE t' = rcvClosedE t ->
     rclosed (RC t') = true /\ rcvNxt (RC t') = rcvNxt (RC t) /\ (rcvList t' = rcvList t \/ Q)).
  { intros t' Q (A & B & C & _). rewrite A. auto. }
  assert (KL : forall x, rclosed (RC (loopExit x)) = rclosed (RC x) /\ rcvNxt (RC (loopExit x)) = rcvNxt (RC x) /\
                         rcvList (loopExit x) = rcvList x /\ rcvBufUsed (loopExit x) = rcvBufUsed x /\
                         rcvClosedE (loopExit x) = rcvClosedE x).
  { intros x. rewrite loopExit_RC, loopExit_rcvList. destruct (loopExit_misc x) as (_ & A & B & _). auto. }
  assert (TR : forall a b c : tcp,
     (rclosed (RC a) = rclosed (RC b) /\ rcvNxt (RC a) = rcvNxt (RC b) /\ rcvList a = rcvList b /\
      rcvBufUsed a = rcvBufUsed b /\ rcvClosedE a = rcvClosedE b) ->
     (rclosed (RC b) = rclosed (RC c) /\ rcvNxt (RC b) = rcvNxt (RC c) /\ rcvList b = rcvList c /\
      rcvBufUsed b = rcvBufUsed c /\ rcvClosedE b = rcvClosedE c) ->
     (rclosed (RC a) = rclosed (RC c) /\ rcvNxt (RC a) = rcvNxt (RC c) /\ rcvList a = rcvList c /\
      rcvBufUsed a = rcvBufUsed c /\ rcvClosedE a = rcvClosedE c)).
  { intros a b c (A1 & A2 & A3 & A4 & A5) (B1 & B2 & B3 & B4 & B5). repeat split; congruence. }
  assert (MA : forall x (c : bool), rclosed (RC (if c then sendAck x else x)) = rclosed (RC x) /\
                 rcvNxt (RC (if c then sendAck x else x)) = rcvNxt (RC x) /\
                 rcvList (if c then sendAck x else x) = rcvList x /\
                 rcvBufUsed (if c then sendAck x else x) = rcvBufUsed x /\
                 rcvClosedE (if c then sendAck x else x) = rcvClosedE x).
  { intros x c. destruct c; [apply rdata_of_rview, sendAck_rview|auto]. }
  destruct e as [sg nr|d| | |]; cbn [fst].
  - apply KEEP. unfold handleSegment.
    destruct (negb (estate t =? stConnected)); [auto|].
    destruct (has (s_flags sg) fRst).
    + destruct (acceptable _ _ _); [cbn; auto|]. cbv zeta. eapply TR; [apply KL|apply MA].
    + cbv zeta. eapply TR; [apply KL|]. eapply TR; [apply MA|].
      destruct (has (s_flags sg) fAck); [|auto]. destruct (_ && _); [auto|].
      rewrite (rcvHandle_closed t sg RCL0). apply rdata_of_rview, sndHandle_rview.
  - apply KEEP. unfold appWrite.
    destruct (estate t =? stError); [cbn; auto|].
    destruct (negb (estate t =? stConnected)); [cbn; auto|].
    destruct (len d =? 0); [cbn; auto|]. destruct (sndClosedE t); [cbn; auto|]. cbv zeta.
    destruct (_ <=? 0); [cbn; auto|]. cbn [fst].
    eapply TR; [apply rdata_of_rview, sendData_rview|]. cbn. auto.
  - unfold appRead.
    destruct (_ && _ && _); [cbn [fst]; apply KEEP; auto|].
    destruct (rcvBufUsed t =? 0); [cbn [fst]; apply KEEP; auto|].
    destruct (rcvList t) as [|v rest] eqn:EL; [cbn [fst]; apply KEEP; auto|]. cbv zeta. cbn [fst snd].
    set (t1 := t <| rcvList := rest |> <| rcvBufUsed := rcvBufUsed t - len v |>).
    assert (X : forall x, rclosed (RC x) = rclosed (RC t1) /\ rcvNxt (RC x) = rcvNxt (RC t1) /\ rcvList x = rcvList t1 /\
                  rcvBufUsed x = rcvBufUsed t1 /\ rcvClosedE x = rcvClosedE t1 ->
             rclosed (RC x) = true /\ rcvNxt (RC x) = rcvNxt (RC t) /\
             (rcvList x = v :: rest \/ exists v0, ERead = ERead /\ RBytes v = RBytes v0 /\ v :: rest = v0 :: rcvList x)).
    { intros x (A & B & C & _). rewrite A, B, C. subst t1. cbn. split; [exact RCL0|]. split; [reflexivity|].
      right. exists v. auto. }
    destruct (_ && _ && _); apply X; [|auto].
    eapply TR; [apply KL|]. apply rdata_of_rview, nonZeroWindow_rview.
  - apply KEEP. unfold appShutdownWrite.
    destruct (negb (estate t =? stConnected)); [cbn; auto|]. destruct (sndClosedE t); [cbn; auto|]. cbv zeta. cbn [fst].
    eapply TR; [apply KL|].
    match goal with |- context [sendData ?x false] => pose proof (rdata_of_rview _ _ (sendData_rview x false)) as V end.
    cbn in V |- *. exact V.
  - apply KEEP. destruct (negb (estate t =? stConnected)); [cbn; auto|].
    pose proof (rdata_of_rview _ _ (rtoExpired_rview t false)) as V.
    destruct (rtoExpired t false) as [t1 alive]. cbn [fst] in *. destruct alive; cbn [fst].
    + eapply TR; [apply KL|exact V].
    + cbn. exact V.
Qed.

Lemma no_data_after_eof t es : rclosed (RC t) = true ->
  rclosed (RC (run t es)) = true /\ rcvNxt (RC (run t es)) = rcvNxt (RC t) /\
  exists k, rcvList (run t es) = skipn k (rcvList t).
Proof.
  revert t. induction es as [|e es IH]; intros t H.
  - cbn. split; [exact H|]. split; [reflexivity|]. exists 0%nat. reflexivity.
  - rewrite run_cons. destruct (step_after_eof t e H) as (A & B & C).
    destruct (IH _ A) as (A' & B' & (k & C')). split; [exact A'|]. split; [congruence|].
    destruct C as [C|(v & _ & _ & C)].
    + exists k. rewrite C', C. reflexivity.
    + exists (S k). rewrite C', C. reflexivity.
Qed.

(* once end of stream has been reached (receive side closed, queue drained) the queue stays empty *)
Lemma eof_is_final t es : rclosed (RC t) = true -> rcvList t = [] -> rcvList (run t es) = [].
Proof.
  intros H L. destruct (no_data_after_eof t es H) as (_ & _ & (k & E)). rewrite E, L. apply skipn_nil.
Qed.

(* the receive buffer accounting: rcvBufUsed counts the queued bytes, no queued chunk is empty *)
Fixpoint lsum (l : list (list Z)) : Z := match l with [] => 0 | v :: r => len v + lsum r end.
Definition rcv_buf_inv (t : tcp) : Prop :=
  rcvBufUsed t = lsum (rcvList t) /\ Forall (fun v => v <> []) (rcvList t).

Lemma lsum_app a b : lsum (a ++ b) = lsum a + lsum b.
Proof. induction a as [|x a IH]; cbn [lsum app]; [lia|]. rewrite IH. lia. Qed.
Lemma lsum_zero l : Forall (fun v => v <> []) l -> lsum l = 0 -> l = [].
Proof.
  intros F H. destruct l as [|v l]; [reflexivity|]. exfalso. inversion F as [|? ? NV FL]; subst.
  assert (0 <= lsum l) by (clear; induction l as [|x l IH]; cbn [lsum]; [lia|]; pose proof (len_nonneg x); lia).
  cbn [lsum] in H. pose proof (len_nonneg v). assert (len v = 0) by lia.
  apply NV. apply len_zero_iff. apply Z.eqb_eq. assumption.
Qed.

Lemma readyToRead_buf t d : d <> [] -> rcv_buf_inv t -> rcv_buf_inv (readyToRead t d).
Proof.
  intros D [A B]. unfold rcv_buf_inv, readyToRead. cbn [rcvBufUsed rcvList set]. cbn. rewrite lsum_app, A. cbn [lsum]. split; [lia|].
  apply Forall_app. auto.
Qed.

Lemma rcv_buf_inv_same t t' : rcvBufUsed t' = rcvBufUsed t -> rcvList t' = rcvList t -> rcv_buf_inv t -> rcv_buf_inv t'.
Proof. intros A B. unfold rcv_buf_inv. rewrite A, B. auto. Qed.
Lemma rcv_buf_inv_rview t t' : rview t' = rview t -> rcv_buf_inv t -> rcv_buf_inv t'.
Proof. intros V. apply rdata_of_rview in V. destruct V as (_ & _ & L & B & _). apply rcv_buf_inv_same; auto. Qed.

Lemma dropZ_nonnil k (d : list Z) : 0 <= k < len d -> dropZ k d <> [].
Proof.
  intros K. unfold dropZ. intros E. apply (f_equal (@length Z)) in E. rewrite skipn_length in E.
  unfold len in K. cbn in E. lia.
Qed.

Lemma trim_lt sq sl nxt : 0 <= sl -> inWindow nxt sq sl = true -> 0 <= size sq nxt < sl.
Proof. intros S H. apply Z.ltb_lt in H. revert H. word. Qed.

Lemma consumeSegment_buf t fl d sq fh :
  rcv_buf_inv t -> rcv_buf_inv (fst (fst (consumeSegment t fl d sq (len d) fh))).
Proof.
  intros H. unfold consumeSegment. cbv zeta.
  assert (GO : forall t0 sq0 sl0 (d0 : list Z), rcv_buf_inv t0 ->
    rcv_buf_inv (fst (fst (if has fl fFin then
        let t1 := t0 <| RC := (RC t0) <| rcvNxt := add sq0 sl0 |> |> in
        let t2 := t1 <| RC := (RC t1) <| rcvNxt := u32 (rcvNxt (RC t1) + 1) |> |> in
        let t3 := sendAck t2 in
        let first := if fh && negb (Nat.eqb (length (pending (RC t3))) 0) then 1%nat else 0%nat in
        (t3 <| RC := (RC t3) <| rclosed := true |> <| pending := firstn first (pending (RC t3)) |> |>
            <| rcvClosedE := true |>, true, d0)
      else (t0 <| RC := (RC t0) <| rcvNxt := add sq0 sl0 |> |>, true, d0))))).
  { intros t0 sq0 sl0 d0 E. destruct (has fl fFin); cbv zeta; cbn [fst]; [|exact E].
    match goal with |- context [sendAck ?x] =>
      assert (E3 : rcv_buf_inv (sendAck x)) by (eapply rcv_buf_inv_rview; [apply sendAck_rview|exact E]);
      generalize dependent (sendAck x) end.
    intros t3 E3. exact E3. }
  destruct (0 <? len d) eqn:EP.
  - apply Z.ltb_lt in EP.
    destruct (negb (inWindow (rcvNxt (RC t)) sq (len d))) eqn:EW; [exact H|]. apply negb_false_iff in EW.
    destruct (lessThan sq (rcvNxt (RC t))); apply GO; apply readyToRead_buf; auto.
    + apply dropZ_nonnil. apply trim_lt; [lia|exact EW].
    + intros ->. cbn in EP. lia.
  - destruct (negb (sq =? rcvNxt (RC t))); [exact H|]. apply GO; exact H.
Qed.

Lemma drainPending_buf fuel : forall t, rcv_buf_inv t -> rcv_buf_inv (drainPending fuel t).
Proof.
  induction fuel as [|f IH]; intros t H; [exact H|].
  cbn [drainPending]. destruct (rclosed (RC t)); [exact H|].
  destruct (pending (RC t)) as [|s rest] eqn:EP; [exact H|]. cbv zeta.
  assert (POP : forall t0 (d0 : list Z) hp, rcv_buf_inv t0 ->
     rcv_buf_inv (match pop pless hp with
            | Some (h', _) => drainPending f (t0 <| RC := (RC t0) <| pending := h' |>
                       <| pendUsed := u32 (pendUsed (RC t0) - plogicalLen (p_flags s) d0) |> |>)
            | None => t0 end)).
  { intros t0 d0 hp E. destruct (pop pless hp) as [[h' x]|]; [|exact E]. apply IH. exact E. }
  destruct (lessThan _ _); [apply POP; exact H|].
  pose proof (consumeSegment_buf t (p_flags s) (p_data s) (p_seq s) true H) as CS.
  destruct (consumeSegment t (p_flags s) (p_data s) (p_seq s) (len (p_data s)) true) as [[t1 ok] d'].
  cbn [fst] in CS. destruct ok; [apply POP; exact CS|exact H].
Qed.

Lemma rcvHandle_buf t s : rcv_buf_inv t -> rcv_buf_inv (rcvHandle t s).
Proof.
  intros H. unfold rcvHandle. destruct (rclosed (RC t)); [exact H|]. cbv zeta.
  destruct (negb (acceptable _ _ _)); [eapply rcv_buf_inv_rview; [apply sendAck_rview|exact H]|].
  pose proof (consumeSegment_buf t (s_flags s) (s_data s) (s_seq s) false H) as CS.
  destruct (consumeSegment t (s_flags s) (s_data s) (s_seq s) (len (s_data s)) false) as [[t1 ok] d'].
  cbn [fst] in CS. destruct ok; cbn [negb].
  - apply drainPending_buf. exact CS.
  - destruct (_ || _); [|exact H]. eapply rcv_buf_inv_rview; [apply sendAck_rview|].
    destruct (pendUsed (RC t) <? pendSize (RC t)); exact H.
Qed.

Lemma step_rcv_buf_inv t e : rcv_buf_inv t -> rcv_buf_inv (fst (step t e)).
Proof.
  intros H0. assert (H : rcv_buf_inv (t <| out := [] |>)) by exact H0. clear H0.
  unfold step. cbv zeta. remember (t <| out := [] |>) as t0 eqn:Et. clear Et t. rename t0 into t.
  assert (KL : forall x, rcv_buf_inv x -> rcv_buf_inv (loopExit x)).
  { intros x. apply rcv_buf_inv_same; [apply loopExit_misc|apply loopExit_rcvList]. }
  assert (MA : forall x (c : bool), rcv_buf_inv x -> rcv_buf_inv (if c then sendAck x else x)).
  { intros x c Hx. destruct c; [eapply rcv_buf_inv_rview; [apply sendAck_rview|exact Hx]|exact Hx]. }
  destruct e as [sg nr|d| | |]; cbn [fst].
  - unfold handleSegment. destruct (negb (estate t =? stConnected)); [exact H|].
    destruct (has (s_flags sg) fRst).
    + destruct (acceptable _ _ _); [exact H|]. cbv zeta. apply KL, MA, H.
    + cbv zeta. apply KL, MA. destruct (has (s_flags sg) fAck); [|exact H]. destruct (_ && _); [exact H|].
      eapply rcv_buf_inv_rview; [apply sndHandle_rview|]. apply rcvHandle_buf, H.
  - unfold appWrite. destruct (estate t =? stError); [exact H|].
    destruct (negb (estate t =? stConnected)); [exact H|]. destruct (len d =? 0); [exact H|].
    destruct (sndClosedE t); [exact H|]. cbv zeta. destruct (_ <=? 0); [exact H|]. cbn [fst].
    eapply rcv_buf_inv_rview; [apply sendData_rview|]. exact H.
  - unfold appRead. destruct (_ && _ && _); [exact H|]. destruct (rcvBufUsed t =? 0); [exact H|].
    destruct (rcvList t) as [|v rest] eqn:EL; [exact H|]. cbv zeta. cbn [fst].
    assert (H1 : rcv_buf_inv (t <| rcvList := rest |> <| rcvBufUsed := rcvBufUsed t - len v |>)).
    { destruct H as [A B]. unfold rcv_buf_inv. cbn. rewrite EL in *. cbn in A. inversion B; subst. split; [lia|assumption]. }
    destruct (_ && _ && _); [|exact H1]. apply KL. eapply rcv_buf_inv_rview; [apply nonZeroWindow_rview|exact H1].
  - unfold appShutdownWrite. destruct (negb (estate t =? stConnected)); [exact H|].
    destruct (sndClosedE t); [exact H|]. cbv zeta. cbn [fst]. apply KL.
    match goal with |- context [sendData ?x false] =>
      assert (HX : rcv_buf_inv (sendData x false)) by (eapply rcv_buf_inv_rview; [apply sendData_rview|exact H]) end.
    exact HX.
  - destruct (negb (estate t =? stConnected)); [exact H|].
    pose proof (rtoExpired_rview t false) as V. destruct (rtoExpired t false) as [t1 alive]. cbn [fst] in *.
    assert (H1 : rcv_buf_inv t1) by (eapply rcv_buf_inv_rview; eauto).
    destruct alive; cbn [fst]; [apply KL, H1|exact H1].
Qed.

(* a read on a connected endpoint reports end of stream exactly when the queue is empty and the
   peer's FIN has been consumed; otherwise it returns the first queued chunk or would-block *)
Lemma read_eof_iff t : estate t = stConnected -> rcv_buf_inv t ->
  (snd (step t ERead) = RErr (-6) <-> rcvList t = [] /\ rcvClosedE t = true) /\
  (forall v, snd (step t ERead) = RBytes v <-> exists r, rcvList t = v :: r).
Proof.
  intros EC [A B]. unfold step. cbv zeta. unfold appRead.
  change (estate (t <| out := [] |>)) with (estate t). change (rcvBufUsed (t <| out := [] |>)) with (rcvBufUsed t).
  change (rcvList (t <| out := [] |>)) with (rcvList t). change (rcvClosedE (t <| out := [] |>)) with (rcvClosedE t).
  rewrite EC. change (stConnected =? stConnected) with true. cbn [negb andb orb].
  destruct (rcvBufUsed t =? 0) eqn:E0.
  - apply Z.eqb_eq in E0. rewrite E0 in A. symmetry in A. apply (lsum_zero _ B) in A. rewrite A. cbn [snd].
    split.
    + destruct (rcvClosedE t); split; auto; try (intros [_ X]; discriminate); discriminate.
    + intros v. split; [discriminate|intros [r X]; discriminate].
  - destruct (rcvList t) as [|v rest] eqn:EL.
    + exfalso. cbn in A. apply Z.eqb_neq in E0. contradiction.
    + cbv zeta. cbn [snd]. split.
      * split; [discriminate|intros [X _]; discriminate].
      * intros v0. split; [intros X; inversion X; eauto|intros [r X]; inversion X; reflexivity].
Qed.

Example fresh_rcv_buf_inv iss irs mp wnd : rcv_buf_inv (fresh_conn iss irs mp wnd).
Proof. split; [reflexivity|constructor]. Qed.

(* ------------------------------------------------------------------ statements in explicit form *)
Lemma closed_iff_all_done_explicit t es : close_inv t ->
  let t' := run t es in
  sclosed (SN t') = sndClosedE t' /\ rclosed (RC t') = rcvClosedE t' /\
  (estate t' = stConnected ->
     rclosed (RC t') && sclosed (SN t') && (sndUna (SN t') =? sndNxtList (SN t')) = false) /\
  (estate t' = stClosed ->
     rclosed (RC t') && sclosed (SN t') && (sndUna (SN t') =? sndNxtList (SN t')) = true) /\
  (estate t' = stConnected \/ estate t' = stClosed \/ estate t' = stError).
Proof.
  intros H. cbv zeta. destruct (closed_iff_all_done t es H) as ([A B] & C & D & E).
  unfold rc_eq, exit_cond in *. auto.
Qed.

Lemma zero_window_stall_witness :
  exists t, (exists es, t = run (fresh_conn 1000 5000 1460 30000) es) /\
    estate t = stConnected /\ wunsent (SN t) <> [] /\ sndWnd (SN t) = 0 /\
    sndUna (SN t) = sndNxt (SN t) /\ tstate (SN t) <> tEnabled /\
    forall es', no_segment es' ->
      estate (run t es') = stConnected /\ wunsent (SN (run t es')) <> [] /\
      tstate (SN (run t es')) <> tEnabled /\ Forall pure_ack (run_out t es').
Proof.
  exists stall_state. split; [exists stall_run; reflexivity|].
  pose proof stall_state_stalled as ST.
  assert (G : forall t, stalled t -> estate t = stConnected /\ wunsent (SN t) <> [] /\ sndWnd (SN t) = 0 /\
                                   sndUna (SN t) = sndNxt (SN t) /\ tstate (SN t) <> tEnabled).
  { intros t (A & B & _ & C & D & (w & rest & E & _) & _). rewrite E. repeat split; auto. discriminate. }
  destruct (G _ ST) as (A & B & C & D & E).
  split; [exact A|]. split; [exact B|]. split; [exact C|]. split; [exact D|]. split; [exact E|].
  intros es' NS. destruct (stalled_forever _ es' ST NS) as (ST' & O & _).
  destruct (G _ ST') as (A' & B' & _ & _ & E'). auto.
Qed.
