(* C04, part 6: the sender's write list in stream offsets: retransmissions (fast retransmit included)
   stay within the highest right edge the peer has offered and within maxPayload. *)
From Coq Require Import ZArith List Bool Lia ZifyBool.
From RecordUpdate Require Import RecordSet.
From NP Require Import Model.Seqnum Model.GoHeap Model.Tcp Proofs.SeqnumP Proofs.TcpWndP Proofs.TcpWndRcvP.
Import ListNotations RecordSetNotations.
Open Scope Z_scope.

(* ------------------------------------------------------------------ the write list in stream offsets
   (connections whose write side has not been shut down: every element carries data) *)
Definition fPA := 24.   (* flagAck|flagPsh *)

(* an element that has been sent and sits at stream offset o: at most mp bytes ending at or before E *)
Definition sentEl (b mp E o : Z) (w : wseg) : Prop :=
  w_seq w = seq_of b o /\ w_flags w = fPA /\ 0 < len (w_data w) <= mp /\ o + len (w_data w) <= E.
Definition unsentEl (w : wseg) : Prop := w_flags w = 0 /\ 0 < len (w_data w).
Definition numberedEl (b x : Z) (w : wseg) : Prop :=
  w_seq w = seq_of b x /\ w_flags w = fPA /\ 0 < len (w_data w).

Fixpoint chain (b mp E o : Z) (l : list wseg) (o' : Z) : Prop :=
  match l with
  | [] => o = o'
  | w :: r => sentEl b mp E o w /\ chain b mp E (o + len (w_data w)) r o'
  end.

(* the write list from writeNext on: sent elements up to offset x = sndNxt (after a time-out),
   then at most one numbered but unsent element, then unnumbered ones *)
Fixpoint tail_ok (b mp E x o : Z) (l : list wseg) : Prop :=
  match l with
  | [] => o = x
  | w :: r => (o < x /\ sentEl b mp E o w /\ o + len (w_data w) <= x /\ tail_ok b mp E x (o + len (w_data w)) r)
              \/ (o = x /\ (unsentEl w \/ numberedEl b x w) /\ Forall unsentEl r)
  end.

Lemma sentEl_mono b mp E E' o w : E <= E' -> sentEl b mp E o w -> sentEl b mp E' o w.
Proof. unfold sentEl. intros H (A & B & C & D). split; [exact A|split; [exact B|split; [exact C|lia]]]. Qed.

Lemma chain_mono b mp E E' : E <= E' -> forall l o o', chain b mp E o l o' -> chain b mp E' o l o'.
Proof.
  intros H. induction l as [|w r IH]; intros o o'; cbn [chain]; [tauto|].
  intros (A & B). split; [eapply sentEl_mono; eassumption|apply IH; exact B].
Qed.

Lemma tail_ok_mono b mp E E' x : E <= E' -> forall l o, tail_ok b mp E x o l -> tail_ok b mp E' x o l.
Proof.
  intros H. induction l as [|w r IH]; intros o; cbn [tail_ok]; [tauto|].
  intros [(A & B & C & D)|A]; [left|right; exact A].
  split; [exact A|split; [eapply sentEl_mono; eassumption|split; [exact C|apply IH; exact D]]].
Qed.

Lemma chain_le b mp E : forall l o o', chain b mp E o l o' -> o <= o'.
Proof.
  induction l as [|w r IH]; intros o o'; cbn [chain]; [lia|].
  intros ((_ & _ & L & _) & B). apply IH in B. lia.
Qed.

Lemma tail_ok_le b mp E x : forall l o, tail_ok b mp E x o l -> o <= x.
Proof. induction l as [|w r IH]; intros o; cbn [tail_ok]; [lia|]. intros [(A & _)|(A & _)]; lia. Qed.

Lemma chain_app b mp E : forall l1 l2 o o1 o2,
  chain b mp E o l1 o1 -> chain b mp E o1 l2 o2 -> chain b mp E o (l1 ++ l2) o2.
Proof.
  induction l1 as [|w r IH]; intros l2 o o1 o2; cbn [chain app].
  - intros ->. tauto.
  - intros (A & B) C. split; [exact A|eapply IH; eassumption].
Qed.

Lemma tail_ok_unsent b mp E x l : Forall unsentEl l -> tail_ok b mp E x x l.
Proof.
  destruct l as [|w r]; cbn [tail_ok]; [reflexivity|]. intros H. inversion H; subst.
  right. split; [reflexivity|split; [left; assumption|assumption]].
Qed.

Lemma wlogicalLen_sent b mp E o w : mp <= 65535 -> sentEl b mp E o w -> wlogicalLen w = len (w_data w).
Proof.
  intros Hmp (_ & F & L & _). unfold wlogicalLen. rewrite F.
  change (has fPA fSyn) with false. change (has fPA fFin) with false.
  rewrite !Z.add_0_r. apply u32_small. consts. lia.
Qed.

(* ------------------------------------------------------------------ acknowledged data leaves the list *)
Lemma trim_sent b mp E o w k :
  sentEl b mp E o w -> 0 < k < len (w_data w) ->
  sentEl b mp E (o + k) (mkW (add (w_seq w) k) (w_flags w) (dropZ k (w_data w))) /\
  len (dropZ k (w_data w)) = len (w_data w) - k.
Proof.
  intros (S & F & L & D) Hk.
  assert (Hd : len (dropZ k (w_data w)) = len (w_data w) - k) by (rewrite len_dropZ by lia; lia).
  split; [|exact Hd].
  split; [cbn [w_seq]; rewrite S; apply seq_of_add|]. cbn [w_flags w_data]. rewrite Hd.
  split; [exact F|]. split; lia.
Qed.

Lemma ackLoop_ok b mp E x : mp <= 65535 ->
  forall fuel sent unsent u m ackLeft removed,
  chain b mp E u sent m -> tail_ok b mp E x m unsent ->
  0 <= ackLeft < 2^31 -> u + ackLeft <= x ->
  (length sent + length unsent < fuel)%nat ->
  exists m', chain b mp E (u + ackLeft) (fst (fst (ackLoop fuel sent unsent ackLeft removed))) m' /\
             tail_ok b mp E x m' (snd (fst (ackLoop fuel sent unsent ackLeft removed))).
Proof.
  intros Hmp. induction fuel as [|fuel IH]; intros sent unsent u m ackLeft removed Hc Ht Ha Hx Hf; [lia|].
  cbn [ackLoop]. destruct (0 <? ackLeft) eqn:E0; cbn [negb].
  2:{ assert (ackLeft = 0) by lia. subst. rewrite Z.add_0_r. exists m. split; assumption. }
  destruct sent as [|w sent'].
  - cbn [chain] in Hc. subst m.
    destruct unsent as [|w unsent'].
    { cbn [tail_ok] in Ht. lia. }
    cbn [tail_ok] in Ht. destruct Ht as [(Hlt & Hs & Hle & Ht)|(Heq & _)]; [|lia].
    rewrite (wlogicalLen_sent _ _ _ _ _ Hmp Hs).
    assert (Hpos : 0 < len (w_data w)) by (destruct Hs as (_&_&L&_); lia).
    destruct (ackLeft <? len (w_data w)) eqn:E1; cbn [fst snd].
    + destruct (trim_sent _ _ _ _ _ ackLeft Hs ltac:(lia)) as (Hs' & Hl').
      exists (u + ackLeft). split; [reflexivity|]. cbn [tail_ok]. left. cbn [w_data].
      split; [lia|]. split; [exact Hs'|]. rewrite Hl'. split; [lia|].
      replace (u + ackLeft + (len (w_data w) - ackLeft)) with (u + len (w_data w)) by lia. exact Ht.
    + rewrite (u32_small (ackLeft - len (w_data w))) by (consts; change (2^31) with 2147483648 in *; lia).
      destruct (IH [] unsent' (u + len (w_data w)) (u + len (w_data w)) (ackLeft - len (w_data w)) (removed + 1))
        as (m' & A & B); try (cbn [chain]; reflexivity); try assumption; try lia.
      { cbn [length] in *. lia. }
      exists m'. replace (u + ackLeft) with (u + len (w_data w) + (ackLeft - len (w_data w))) by lia.
      split; assumption.
  - cbn [chain] in Hc. destruct Hc as (Hs & Hc).
    rewrite (wlogicalLen_sent _ _ _ _ _ Hmp Hs).
    assert (Hpos : 0 < len (w_data w)) by (destruct Hs as (_&_&L&_); lia).
    destruct (ackLeft <? len (w_data w)) eqn:E1; cbn [fst snd].
    + destruct (trim_sent _ _ _ _ _ ackLeft Hs ltac:(lia)) as (Hs' & Hl').
      exists m. split; [|exact Ht]. cbn [chain]. split; [exact Hs'|]. cbn [w_data]. rewrite Hl'.
      replace (u + ackLeft + (len (w_data w) - ackLeft)) with (u + len (w_data w)) by lia. exact Hc.
    + rewrite (u32_small (ackLeft - len (w_data w))) by (consts; change (2^31) with 2147483648 in *; lia).
      destruct (IH sent' unsent (u + len (w_data w)) m (ackLeft - len (w_data w)) (removed + 1)) as (m' & A & B);
        try assumption; try lia.
      { cbn [length] in *. lia. }
      exists m'. replace (u + ackLeft) with (u + len (w_data w) + (ackLeft - len (w_data w))) by lia.
      split; assumption.
Qed.

(* ------------------------------------------------------------------ the send loop on the offset view *)
(* a frame whose bytes lie in [u, Ec) and number at most mp *)
Definition SFr (b u Ec mp : Z) (f : frame) : Prop :=
  f_data f = [] \/
  exists o, f_seq f = seq_of b o /\ u <= o /\ o + len (f_data f) <= Ec /\ len (f_data f) <= mp.

Definition SL (b mp E u m x : Z) (t : tcp) : Prop :=
  sndNxt (SN t) = seq_of b x /\ chain b mp E u (wsent (SN t)) m /\ tail_ok b mp E x m (wunsent (SN t)) /\
  x <= u + P30.

Lemma SFr_mono b u Ec Ec' mp f : Ec <= Ec' -> SFr b u Ec mp f -> SFr b u Ec' mp f.
Proof. intros H [A|(o & A & B & C & D)]; [left; exact A|right; exists o; repeat split; try assumption; lia]. Qed.

Lemma iter_shape t s' d fl sq segEnd :
  let t2 := sendSegment (t <| SN := s' |>) d fl sq in
  let t3 := if lessThan (sndNxt (SN t2)) segEnd then t2 <| SN := (SN t2) <| sndNxt := segEnd |> |> else t2 in
  sndNxt (SN t3) = (if lessThan (sndNxt s') segEnd then segEnd else sndNxt s') /\
  wsent (SN t3) = wsent s' /\ wunsent (SN t3) = wunsent s' /\
  exists f, out t3 = out t ++ [f] /\ f_seq f = sq /\ f_data f = d.
Proof.
  cbv zeta. rewrite sendSegment_eq. cbn [SN set sndNxt maxSentAck].
  change (sndNxt (s' <| maxSentAck := rcvNxt (RC (t <| SN := s' |>)) |>)) with (sndNxt s').
  destruct (lessThan (sndNxt s') segEnd); cbn; (repeat split; try reflexivity); eexists; repeat split.
Qed.

Lemma sendLoop_SL b mp E u Ec : 1 <= mp <= 65535 -> u <= Ec <= E -> Ec <= u + P30 ->
  forall fuel t m x, SL b mp E u m x t ->
  exists m' x', SL b mp E u m' x' (sendLoop fuel t (seq_of b Ec) mp) /\ x <= x' /\
                emits (SFr b u Ec mp) t (sendLoop fuel t (seq_of b Ec) mp).
Proof.
  intros Hmp HEc HEc2. induction fuel as [|fuel IH]; intros t m x HSL.
  { exists m, x. cbn [sendLoop]. split; [exact HSL|split; [lia|apply emits_refl]]. }
  cbn [sendLoop].
  destruct (wunsent (SN t)) as [|w rest] eqn:Ew.
  { exists m, x. split; [exact HSL|split; [lia|apply emits_refl]]. }
  destruct (negb (outstanding (SN t) <? cwnd (SN t))).
  { exists m, x. split; [exact HSL|split; [lia|apply emits_refl]]. }
  destruct HSL as (Hx & Hch & Htl & Hxb). rewrite Ew in Htl.
  pose proof (chain_le _ _ _ _ _ _ Hch) as Hum.
  pose proof (tail_ok_le _ _ _ _ _ _ Htl) as Hmx.
  (* the head of the unsent part, numbered: at offset m, with data *)
  set (w1 := if w_flags w =? 0 then mkW (sndNxt (SN t)) (Z.lor fAck fPsh) (w_data w) else w).
  assert (Hw1 : w_seq w1 = seq_of b m /\ w_flags w1 = fPA /\ w_data w1 = w_data w /\ 0 < len (w_data w) /\
                (m < x -> len (w_data w) <= mp /\ m + len (w_data w) <= E /\ m + len (w_data w) <= x)).
  { cbn [tail_ok] in Htl. destruct Htl as [(Hlt & (S1 & S2 & S3 & S4) & Hle & _)|(Heq & Hk & _)].
    - subst w1. rewrite S2. change (fPA =? 0) with false. cbv iota.
      repeat split; try assumption; try lia.
    - subst m. destruct Hk as [(F0 & L0)|(S1 & S2 & S3)].
      + subst w1. rewrite F0. change (0 =? 0) with true. cbv iota. cbn [w_seq w_flags w_data].
        repeat split; try assumption; try reflexivity; lia.
      + subst w1. rewrite S2. change (fPA =? 0) with false. cbv iota.
        repeat split; try assumption; lia. }
  destruct Hw1 as (W1 & W2 & W3 & W4 & W5).
  assert ((len (w_data w1) =? 0) = false) as -> by (rewrite W3; lia).
  rewrite W1. rewrite lessThan_offsets by (unfold P30 in *; consts; lia).
  destruct (m <? Ec) eqn:Ewin; cbn [negb].
  2:{ (* window closed: the numbered element stays at writeNext *)
    exists m, x. split; [|split; [lia|apply emits_same_out; reflexivity]].
    unfold SL. cbn. split; [exact Hx|split; [exact Hch|split; [|exact Hxb]]].
    cbn [tail_ok] in *. destruct Htl as [(Hlt & Hs & Hle & Ht)|(Heq & Hk & Hr)].
    - left. rewrite W3. split; [exact Hlt|split; [|split; [exact Hle|exact Ht]]].
      destruct Hs as (S1 & S2 & S3 & S4). split; [exact W1|split; [exact W2|rewrite W3; split; assumption]].
    - right. split; [exact Heq|split; [|exact Hr]]. right. subst m. split; [exact W1|split; [exact W2|rewrite W3; exact W4]]. }
  rewrite size_offsets by (unfold P30 in *; consts; lia).
  set (available := if mp <? Ec - m then mp else Ec - m).
  assert (Hav : 1 <= available <= mp /\ available <= Ec - m) by (subst available; destruct (mp <? Ec - m) eqn:E1; lia).
  rewrite W3.
  destruct (available <? len (w_data w)) eqn:Esplit.
  - (* split *)
    rewrite W2.
    set (w2 := mkW (seq_of b m) fPA (takeZ available (w_data w))).
    set (w3 := mkW (add (seq_of b m) (u32 available)) fPA (dropZ available (w_data w))).
    assert (L2 : len (w_data w2) = available) by (subst w2; cbn [w_data]; apply len_takeZ_exact; lia).
    assert (L3 : len (w_data w3) = len (w_data w) - available) by (subst w3; cbn [w_data]; rewrite len_dropZ by lia; lia).
    assert (S3seq : w_seq w3 = seq_of b (m + available)).
    { subst w3. cbn [w_seq]. rewrite u32_small by (consts; lia). apply seq_of_add. }
    fold w2 w3.
    match goal with |- context [sendLoop fuel (if lessThan (sndNxt (SN (sendSegment (set SN (fun _ => ?s') t) ?d ?fl ?sq))) ?se then _ else _) _ _] =>
      pose proof (iter_shape t s' d fl sq se) as Hit end.
    cbv zeta in Hit.
    match type of Hit with sndNxt (SN ?T) = _ /\ _ => set (t3 := T) in * end.
    destruct Hit as (N3 & S3 & U3 & f & O3 & F1 & F2).
    cbn [w_data w_flags w_seq] in N3, F1, F2.
    assert (Hse : add (w_seq w2) (u32 (len (w_data w2))) = seq_of b (m + available)).
    { rewrite L2, u32_small by (consts; lia). apply seq_of_add. }
    rewrite Hse in N3.
    change (sndNxt (SN t <| outstanding := outstanding (SN t) + 1 |> <| wsent := wsent (SN t) ++ [w2] |> <| wunsent := w3 :: rest |>))
      with (sndNxt (SN t)) in N3.
    rewrite Hx, lessThan_offsets in N3 by (unfold P30 in *; consts; lia).
    set (x' := Z.max x (m + available)).
    assert (N3' : sndNxt (SN t3) = seq_of b x').
    { rewrite N3. subst x'. destruct (x <? m + available) eqn:E2; f_equal; lia. }
    destruct (IH t3 (m + available) x') as (m2 & x2 & HS2 & Hx2 & HE2).
    { unfold SL. rewrite N3', S3, U3.
      change (wsent (SN t <| outstanding := outstanding (SN t) + 1 |> <| wsent := wsent (SN t) ++ [w2] |> <| wunsent := w3 :: rest |>))
        with (wsent (SN t) ++ [w2]).
      change (wunsent (SN t <| outstanding := outstanding (SN t) + 1 |> <| wsent := wsent (SN t) ++ [w2] |> <| wunsent := w3 :: rest |>))
        with (w3 :: rest).
      split; [reflexivity|]. split; [|split; [|subst x'; lia]].
      - eapply chain_app; [exact Hch|]. cbn [chain]. rewrite L2. split; [|reflexivity].
        split; [reflexivity|split; [reflexivity|split; [lia|lia]]].
      - cbn [tail_ok]. rewrite L3.
        cbn [tail_ok] in Htl. destruct Htl as [(Hlt & Hs & Hle & Ht)|(Heq & Hk & Hr)].
        + destruct (W5 Hlt) as (Q1 & Q2 & Q3). left. assert (x' = x) by (subst x'; lia).
          split; [lia|]. split; [split; [exact S3seq|split; [reflexivity|rewrite L3; split; lia]]|].
          split; [lia|]. replace (m + available + (len (w_data w) - available)) with (m + len (w_data w)) by lia.
          rewrite H. exact Ht.
        + right. assert (x' = m + available) by (subst x'; lia).
          split; [lia|]. split; [|exact Hr]. right. rewrite H.
          split; [exact S3seq|split; [reflexivity|rewrite L3; lia]]. }
    exists m2, x2. split; [exact HS2|]. split; [subst x'; lia|].
    eapply emits_trans; [|exact HE2]. exists [f]. split; [exact O3|]. constructor; [|constructor].
    right. exists m. rewrite F1, F2, L2. repeat split; lia.
  - (* the whole element fits *)
    match goal with |- context [sendLoop fuel (if lessThan (sndNxt (SN (sendSegment (set SN (fun _ => ?s') t) ?d ?fl ?sq))) ?se then _ else _) _ _] =>
      pose proof (iter_shape t s' d fl sq se) as Hit end.
    cbv zeta in Hit.
    match type of Hit with sndNxt (SN ?T) = _ /\ _ => set (t3 := T) in * end.
    destruct Hit as (N3 & S3 & U3 & f & O3 & F1 & F2).
    rewrite W1, W3 in N3. rewrite W1 in F1. rewrite W3 in F2.
    assert (Hse : add (seq_of b m) (u32 (len (w_data w))) = seq_of b (m + len (w_data w))).
    { rewrite u32_small by (unfold P30 in *; consts; lia). apply seq_of_add. }
    rewrite Hse in N3.
    change (sndNxt (SN t <| outstanding := outstanding (SN t) + 1 |> <| wsent := wsent (SN t) ++ [w1] |> <| wunsent := rest |>))
      with (sndNxt (SN t)) in N3.
    rewrite Hx, lessThan_offsets in N3 by (unfold P30 in *; consts; lia).
    set (x' := Z.max x (m + len (w_data w))).
    assert (N3' : sndNxt (SN t3) = seq_of b x').
    { rewrite N3. subst x'. destruct (x <? m + len (w_data w)) eqn:E2; f_equal; lia. }
    destruct (IH t3 (m + len (w_data w)) x') as (m2 & x2 & HS2 & Hx2 & HE2).
    { unfold SL. rewrite N3', S3, U3.
      change (wsent (SN t <| outstanding := outstanding (SN t) + 1 |> <| wsent := wsent (SN t) ++ [w1] |> <| wunsent := rest |>))
        with (wsent (SN t) ++ [w1]).
      change (wunsent (SN t <| outstanding := outstanding (SN t) + 1 |> <| wsent := wsent (SN t) ++ [w1] |> <| wunsent := rest |>))
        with rest.
      split; [reflexivity|]. split; [|split; [|subst x'; lia]].
      - eapply chain_app; [exact Hch|]. cbn [chain]. rewrite W3. split; [|reflexivity].
        split; [exact W1|split; [exact W2|rewrite W3; split; lia]].
      - cbn [tail_ok] in Htl. destruct Htl as [(Hlt & Hs & Hle & Ht)|(Heq & Hk & Hr)].
        + assert (x' = x) by (subst x'; lia). rewrite H. exact Ht.
        + assert (x' = m + len (w_data w)) by (subst x'; lia). rewrite H. apply tail_ok_unsent. exact Hr. }
    exists m2, x2. split; [exact HS2|]. split; [subst x'; lia|].
    eapply emits_trans; [|exact HE2]. exists [f]. split; [exact O3|]. constructor; [|constructor].
    right. exists m. rewrite F1, F2. repeat split; lia.
Qed.
