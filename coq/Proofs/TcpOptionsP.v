(* Lemmas about Model/TcpOptions.v: the option parsers never read outside their input and
   terminate; the encoders produce the RFC wire format; the parsers recover what was encoded. *)
From Coq Require Import ZArith List Bool Lia ZifyBool.
From NP Require Import Model.Bytes Model.TcpOptions Proofs.BytesP.
Import ListNotations.
Open Scope Z_scope.

(* ================= part A: no out-of-bounds read, termination ================= *)

(* one iteration is "good": it makes progress inside the slice, or returns; it never reads
   outside *)
Definition good {St} (i limit : nat) (st : step St) : Prop :=
  match st with
  | Continue i' _ => (i < i' <= limit)%nat
  | Return _ => True
  | StepOOB => False
  end.

Lemma opt_loop_ok {St} (body : nat -> St -> step St) limit :
  (forall i s, (i < limit)%nat -> good i limit (body i s)) ->
  forall fuel i s, (i <= limit)%nat -> (limit < fuel + i)%nat ->
  exists r, opt_loop body limit fuel i s = Ok r.
Proof.
  intros Hbody. induction fuel as [|fuel IH]; intros i s Hi Hf; [lia|].
  cbn [opt_loop]. destruct (Nat.ltb_spec i limit) as [L|L]; [|eexists; reflexivity].
  specialize (Hbody i s L). destruct (body i s) as [i' s'|s'|]; cbn [good] in Hbody.
  - apply IH; lia.
  - eexists; reflexivity.
  - contradiction.
Qed.

Lemma good_rdk {St} b j (k : Z -> step St) i limit :
  bytes_ok b -> (j < length b)%nat -> (forall x, is_byte x -> good i limit (k x)) ->
  good i limit (rdk b j k).
Proof.
  intros Hb Hj Hk. unfold rdk. destruct (nth_error b j) as [x|] eqn:E.
  - apply Hk. apply nth_error_In in E. revert x E. apply Forall_forall. exact Hb.
  - apply nth_error_None in E. lia.
Qed.

Lemma good_rd32k {St} b j (k : Z -> step St) i limit :
  bytes_ok b -> (j + 3 < length b)%nat -> (forall x, good i limit (k x)) ->
  good i limit (rd32k b j k).
Proof.
  intros Hb Hj Hk. unfold rd32k.
  apply good_rdk; [exact Hb|lia|intros b0 _].
  apply good_rdk; [exact Hb|lia|intros b1 _].
  apply good_rdk; [exact Hb|lia|intros b2 _].
  apply good_rdk; [exact Hb|lia|intros b3 _]. apply Hk.
Qed.

Ltac good_tac Hb :=
  repeat match goal with
  | |- good _ _ (rdk _ _ _) => apply good_rdk; [exact Hb|lia|intros ? ?]
  | |- good _ _ (rd32k _ _ _) => apply good_rd32k; [exact Hb|lia|intros ?]
  | |- good _ _ (if (?a <? ?b)%nat then _ else _) => destruct (Nat.ltb_spec a b)
  | |- good _ _ (if ?a =? ?b then _ else _) => destruct (Z.eqb_spec a b)
  | |- good _ _ (if ?c then _ else _) => let E := fresh "E" in destruct c eqn:E
  | |- good _ _ (Return _) => exact I
  | |- good _ _ (Continue _ _) => cbn [good]
  end.

Lemma syn_body_good opts isAck i s :
  bytes_ok opts -> (i < length opts)%nat -> good i (length opts) (syn_body opts isAck (length opts) i s).
Proof.
  intros Hb Hi. unfold syn_body. good_tac Hb; lia.
Qed.

Lemma rd32o_some b i : (i + 3 < length b)%nat -> exists v, rd32o b i = Some v.
Proof.
  intros Hi. unfold rd32o.
  destruct (nth_error b i) eqn:E0; [|apply nth_error_None in E0; lia].
  destruct (nth_error b (i + 1)) eqn:E1; [|apply nth_error_None in E1; lia].
  destruct (nth_error b (i + 2)) eqn:E2; [|apply nth_error_None in E2; lia].
  destruct (nth_error b (i + 3)) eqn:E3; [|apply nth_error_None in E3; lia].
  cbn [obind]. eexists; reflexivity.
Qed.

Lemma rd_blocks_some b : forall n pos, (pos + 8 * n <= length b)%nat ->
  exists bl, rd_blocks b pos n = Some bl.
Proof.
  induction n as [|n IH]; intros pos H; cbn [rd_blocks]; [eexists; reflexivity|].
  destruct (rd32o_some b pos ltac:(lia)) as [st ->].
  destruct (rd32o_some b (pos + 4) ltac:(lia)) as [en ->].
  destruct (IH (pos + 8)%nat ltac:(lia)) as [r ->]. cbn [obind]. eexists; reflexivity.
Qed.

Lemma opts_body_good b i s :
  bytes_ok b -> (i < length b)%nat -> good i (length b) (opts_body b (length b) i s).
Proof.
  intros Hb Hi. unfold opts_body. good_tac Hb; try (unfold is_byte in *; lia).
  (* the SACK case *)
  rename x0 into sl.
  assert (Hsl : 0 <= sl < 256) by assumption.
  apply orb_false_iff in E as [E1 E2]. apply negb_false_iff in E2.
  apply Nat.ltb_ge in E1. apply Z.eqb_eq in E2.
  assert (Hq : 2 <= sl /\ 8 * Z.quot (sl - 2) 8 = sl - 2).
  { pose proof (Z.quot_rem' (sl - 2) 8) as Q. rewrite E2 in Q.
    destruct (Z_lt_le_dec sl 2) as [L|L]; [|lia].
    exfalso. assert (sl = 0 \/ sl = 1) as [-> | ->] by lia; vm_compute in E2; discriminate E2. }
  destruct (rd_blocks_some b (Z.to_nat (Z.quot (sl - 2) 8)) (i + 2)%nat ltac:(lia)) as [bl ->].
  cbn [good]. lia.
Qed.

Theorem parseSynOptions_no_oob opts isAck :
  bytes_ok opts -> exists r, parseSynOptions opts isAck = Ok r.
Proof.
  intros Hb. unfold parseSynOptions. apply opt_loop_ok; [|lia|lia].
  intros i s Hi. apply syn_body_good; assumption.
Qed.

Theorem parseTCPOptions_no_oob b :
  bytes_ok b -> exists r, parseTCPOptions b = Ok r.
Proof.
  intros Hb. unfold parseTCPOptions. apply opt_loop_ok; [|lia|lia].
  intros i s Hi. apply opts_body_good; assumption.
Qed.

(* ================= part B: the encoders produce the wire format ================= *)
Lemma w8_small x : 0 <= x < 256 -> w8 x = x.
Proof. intros H. unfold w8. change (2^8) with 256. apply Z.mod_small. exact H. Qed.

Lemma item_bytes_nonempty it : wf_item it -> (1 <= length (item_bytes it))%nat.
Proof. destruct it; intros H; cbn [item_bytes length app]; lia. Qed.

Lemma flat_map_block_length bl : length (flat_map block_bytes bl) = (8 * length bl)%nat.
Proof.
  induction bl as [|x bl IH]; [reflexivity|].
  cbn [flat_map]. rewrite app_length, IH. cbn [length block_bytes be32 app]. lia.
Qed.

Lemma item_bytes_length it : wf_item it ->
  length (item_bytes it) =
  match it with INop => 1 | IMSS _ => 4 | IWS _ => 3 | ITS _ _ => 10 | ISackPerm => 2
              | ISack bl => 2 + 8 * length bl end%nat.
Proof.
  destruct it; intros H; try reflexivity.
  cbn [item_bytes app length]. rewrite flat_map_block_length. reflexivity.
Qed.

Lemma encode_item_bytes it b : wf_item it -> (length (item_bytes it) <= length b)%nat ->
  encode_item it b =
  (item_bytes it ++ skipn (length (item_bytes it)) b, Z.of_nat (length (item_bytes it))).
Proof.
  intros Hwf Hlen. rewrite (item_bytes_length it Hwf) in *.
  destruct it as [|m|w|v e| |bl]; cbn [encode_item wf_item] in *.
  - destruct b as [|x b]; [cbn [length] in Hlen; lia|]. reflexivity.
  - unfold encodeMSSOption. destruct (Nat.ltb_spec (length b) 4) as [L|L]; [lia|].
    unfold overwrite, item_bytes, w8. change (2^8) with 256.
    rewrite (Z.mod_small m 65536) || idtac. reflexivity.
  - unfold encodeWSOption. destruct (Nat.ltb_spec (length b) 3) as [L|L]; [lia|]. reflexivity.
  - unfold encodeTSOption. destruct (Nat.ltb_spec (length b) 10) as [L|L]; [lia|]. reflexivity.
  - unfold encodeSACKPermittedOption. destruct (Nat.ltb_spec (length b) 2) as [L|L]; [lia|]. reflexivity.
  - destruct Hwf as [Hn _]. unfold encodeSACKBlocks.
    destruct bl as [|b0 bl']; [cbn [length] in Hn; lia|]. set (bl := b0 :: bl') in *.
    cbv zeta.
    assert (E1 : (if 4 <? Z.of_nat (length bl) then 4 else Z.of_nat (length bl)) = Z.of_nat (length bl)).
    { destruct (Z.ltb_spec 4 (Z.of_nat (length bl))); lia. }
    rewrite E1.
    assert (E2 : (if Z.quot (Z.of_nat (length b) - 2) 8 <? Z.of_nat (length bl)
                  then Z.quot (Z.of_nat (length b) - 2) 8 else Z.of_nat (length bl)) = Z.of_nat (length bl)).
    { destruct (Z.ltb_spec (Z.quot (Z.of_nat (length b) - 2) 8) (Z.of_nat (length bl))) as [L|L]; [|reflexivity].
      exfalso. rewrite Z.quot_div_nonneg in L by lia. Z.div_mod_to_equations. lia. }
    rewrite E2.
    destruct (Z.eqb_spec (Z.of_nat (length bl)) 0) as [Z0|Z0]; [lia|].
    rewrite Nat2Z.id, firstn_all, w8_small by lia.
    unfold overwrite. cbn [item_bytes].
    replace (Z.of_nat (length bl) * 8 + 2) with (2 + 8 * Z.of_nat (length bl)) by lia.
    f_equal.
    + do 2 f_equal. rewrite app_length, flat_map_block_length. cbn [length]. lia.
    + lia.
Qed.

Lemma firstn_app_exact {A} (P R : list A) : firstn (length P) (P ++ R) = P.
Proof. rewrite firstn_app, Nat.sub_diag, firstn_all. cbn [firstn]. apply app_nil_r. Qed.

Lemma skipn_app_exact {A} (P R : list A) : skipn (length P) (P ++ R) = R.
Proof. rewrite skipn_app, Nat.sub_diag, skipn_all. reflexivity. Qed.

Lemma emit_item it P R : wf_item it -> (length (item_bytes it) <= length R)%nat ->
  emit (encode_item it) (P ++ R, length P) =
  ((P ++ item_bytes it) ++ skipn (length (item_bytes it)) R, length (P ++ item_bytes it)).
Proof.
  intros Hwf Hlen. unfold emit. rewrite skipn_app_exact, firstn_app_exact.
  rewrite encode_item_bytes by assumption. rewrite Nat2Z.id, app_length, <- app_assoc. reflexivity.
Qed.

Definition wire (items : list item) : list Z := concat (map item_bytes items).

Lemma emit_items_wire items : forall P R,
  Forall wf_item items -> (length (wire items) <= length R)%nat ->
  emit_items items (P ++ R, length P) =
  ((P ++ wire items) ++ skipn (length (wire items)) R, length (P ++ wire items)).
Proof.
  unfold emit_items, wire.
  induction items as [|it items IH]; intros P R Hwf Hlen; cbn [fold_left map concat].
  - rewrite app_nil_r. reflexivity.
  - inversion Hwf as [|? ? Hit Hrest]; subst. cbn [map concat] in Hlen. rewrite app_length in Hlen.
    rewrite emit_item by (try assumption; lia).
    rewrite IH by (try assumption; rewrite skipn_length; lia).
    rewrite skipn_skipn.
    replace (length (item_bytes it ++ concat (map item_bytes items)))
      with (length (concat (map item_bytes items)) + length (item_bytes it))%nat by (rewrite app_length; lia).
    rewrite <- !app_assoc. reflexivity.
Qed.

(* AddTCPOptionPadding pads with NOPs to the next multiple of 4 *)
Lemma addTCPOptionPadding_spec options offset b' p :
  addTCPOptionPadding options offset = Some (b', p) ->
  0 <= p < 4 /\ (Z.of_nat offset + p) mod 4 = 0 /\
  b' = firstn offset options ++ wire (repeat INop (Z.to_nat p)) ++ skipn (offset + Z.to_nat p) options.
Proof.
  unfold addTCPOptionPadding, set_range. cbv zeta.
  set (pad := (- Z.of_nat offset) mod 4).
  rewrite repeat_length.
  destruct (Nat.leb_spec (offset + Z.to_nat pad) (length options)) as [L|L]; [|discriminate].
  cbn [obind]. intros H. injection H as <- <-.
  assert (Hp : 0 <= pad < 4) by (subst pad; apply Z.mod_pos_bound; lia).
  split; [exact Hp|]. split; [subst pad; Z.div_mod_to_equations; lia|].
  do 2 f_equal. unfold wire. clear. induction (Z.to_nat pad) as [|n IH]; [reflexivity|].
  cbn [repeat map concat item_bytes app]. f_equal. exact IH.
Qed.

Lemma make_options_wire prog buf :
  Forall wf_item prog -> (length (wire prog) <= length buf)%nat ->
  Z.of_nat (length (wire prog)) mod 4 = 0 ->
  make_options prog buf = Some (wire prog, 0).
Proof.
  intros Hwf Hlen Hal. unfold make_options.
  pose proof (emit_items_wire prog [] buf Hwf Hlen) as E. cbn [app length] in E. rewrite E.
  unfold addTCPOptionPadding, set_range. cbv zeta.
  assert (P0 : (- Z.of_nat (length (wire prog))) mod 4 = 0) by (Z.div_mod_to_equations; lia).
  rewrite P0. cbn [Z.to_nat repeat length].
  rewrite Nat.add_0_r, app_length, skipn_length.
  destruct (Nat.leb_spec (length (wire prog)) (length (wire prog) + (length buf - length (wire prog)))) as [L|L]; [|lia].
  cbn [obind fst snd app]. rewrite firstn_app_exact, firstn_app_exact. reflexivity.
Qed.

(* ================= part C: the parsers recover what was encoded ================= *)
Lemma rdk_at {St} (P X R : list Z) c x (k : Z -> step St) :
  nth_error X c = Some x -> rdk (P ++ X ++ R) (length P + c) k = k x.
Proof.
  intros H. unfold rdk. rewrite nth_error_app2 by lia.
  replace (length P + c - length P)%nat with c by lia.
  rewrite nth_error_app1 by (apply nth_error_Some; congruence). rewrite H. reflexivity.
Qed.

Lemma rdk_at0 {St} (P X R : list Z) x (k : Z -> step St) :
  nth_error X 0 = Some x -> rdk (P ++ X ++ R) (length P) k = k x.
Proof. intros H. rewrite <- (Nat.add_0_r (length P)) at 1. apply rdk_at. exact H. Qed.

Lemma be32_val v : is_u32 v ->
  match be32 v with
  | [b0; b1; b2; b3] => ((b0 * 256 + b1) * 256 + b2) * 256 + b3 = v
  | _ => False
  end.
Proof.
  unfold is_u32, be32, w8. change (2^32) with 4294967296. change (2^24) with 16777216.
  change (2^16) with 65536. change (2^8) with 256. intros H. Z.div_mod_to_equations. lia.
Qed.

Lemma rd32k_at {St} (P X R : list Z) c v (k : Z -> step St) : is_u32 v ->
  firstn 4 (skipn c X) = be32 v -> rd32k (P ++ X ++ R) (length P + c) k = k v.
Proof.
  intros Hv HX. pose proof (be32_val v Hv) as Hval. rewrite <- HX in Hval.
  destruct (skipn c X) as [|b0 [|b1 [|b2 [|b3 T]]]] eqn:ES; try contradiction.
  cbn [firstn] in Hval.
  assert (N : forall j y, nth_error (skipn c X) j = Some y -> nth_error X (c + j) = Some y).
  { intros j y Hj. rewrite <- (firstn_skipn c X) at 1.
    assert (Lc : length (firstn c X) = c).
    { rewrite firstn_length. apply Nat.min_l.
      destruct (Nat.le_gt_cases c (length X)) as [Q|Q]; [exact Q|].
      rewrite skipn_all2 in ES by lia. discriminate ES. }
    rewrite nth_error_app2 by lia. rewrite Lc. replace (c + j - c)%nat with j by lia. exact Hj. }
  rewrite ES in N. unfold rd32k.
  rewrite (rdk_at P X R c b0) by (rewrite <- (Nat.add_0_r c); apply N; reflexivity).
  rewrite <- !Nat.add_assoc.
  rewrite (rdk_at P X R (c + 1) b1) by (apply N; reflexivity).
  rewrite (rdk_at P X R (c + 2) b2) by (apply N; reflexivity).
  rewrite (rdk_at P X R (c + 3) b3) by (apply N; reflexivity).
  rewrite Hval. reflexivity.
Qed.

Lemma wf_item_bytes it : wf_item it -> bytes_ok (item_bytes it) -> True.
Proof. trivial. Qed.

(* ParseSynOptions on ... ++ item ++ ...: one iteration consumes exactly the item *)
Lemma syn_body_item P it R isAck s : wf_item it ->
  syn_body (P ++ item_bytes it ++ R) isAck (length (P ++ item_bytes it ++ R)) (length P) s =
  Continue (length P + length (item_bytes it)) (apply_syn isAck s it).
Proof.
  intros Hwf. rewrite (item_bytes_length it Hwf).
  assert (Hlim : length (P ++ item_bytes it ++ R) = (length P + (length (item_bytes it) + length R))%nat)
    by (rewrite !app_length; reflexivity).
  rewrite (item_bytes_length it Hwf) in Hlim. rewrite Hlim. clear Hlim.
  unfold syn_body.
  destruct it as [|m|w|v e| |bl]; cbn [wf_item apply_syn] in *.
  - rewrite (rdk_at0 P _ R 1) by reflexivity. reflexivity.
  - rewrite (rdk_at0 P _ R 2) by reflexivity. cbv beta. change (2 =? 0) with false. change (2 =? 1) with false.
    change (2 =? 2) with true. cbv iota.
    destruct (Nat.ltb_spec (length P + (4 + length R)) (length P + 4)) as [L|L]; [lia|].
    rewrite (rdk_at P _ R 1 4) by reflexivity. cbv beta. change (negb (4 =? 4)) with false. cbv iota.
    erewrite (rdk_at P _ R 2) by reflexivity. erewrite (rdk_at P _ R 3) by reflexivity. cbv beta zeta.
    assert (E : w16 (m / 256 mod 256 * 2^8) + m mod 256 = m).
    { unfold w16. change (2^16) with 65536. change (2^8) with 256. Z.div_mod_to_equations. lia. }
    rewrite E. destruct (Z.eqb_spec m 0) as [Z0|Z0]; [lia|]. reflexivity.
  - rewrite (rdk_at0 P _ R 3) by reflexivity. cbv beta. change (3 =? 0) with false. change (3 =? 1) with false.
    change (3 =? 2) with false. change (3 =? 3) with true. cbv iota.
    destruct (Nat.ltb_spec (length P + (3 + length R)) (length P + 3)) as [L|L]; [lia|].
    rewrite (rdk_at P _ R 1 3) by reflexivity. cbv beta. change (negb (3 =? 3)) with false. cbv iota.
    erewrite (rdk_at P _ R 2) by reflexivity. cbv beta zeta.
    rewrite (Z.mod_small w 256) by lia. unfold MaxWndScale.
    destruct (Z.ltb_spec 14 w) as [Q|Q]; [lia|]. reflexivity.
  - destruct Hwf as [Hv He].
    rewrite (rdk_at0 P _ R 8) by reflexivity. cbv beta. change (8 =? 0) with false. change (8 =? 1) with false.
    change (8 =? 2) with false. change (8 =? 3) with false. change (8 =? 8) with true. cbv iota.
    destruct (Nat.ltb_spec (length P + (10 + length R)) (length P + 10)) as [L|L]; [lia|].
    rewrite (rdk_at P _ R 1 10) by reflexivity. cbv beta. change (negb (10 =? 10)) with false. cbv iota.
    rewrite (rd32k_at P _ R 2 v) by (try exact Hv; reflexivity).
    destruct isAck.
    + rewrite (rd32k_at P _ R 6 e) by (try exact He; reflexivity). reflexivity.
    + reflexivity.
  - rewrite (rdk_at0 P _ R 4) by reflexivity. cbv beta. change (4 =? 0) with false. change (4 =? 1) with false.
    change (4 =? 2) with false. change (4 =? 3) with false. change (4 =? 8) with false.
    change (4 =? 4) with true. cbv iota.
    destruct (Nat.ltb_spec (length P + (2 + length R)) (length P + 2)) as [L|L]; [lia|].
    rewrite (rdk_at P _ R 1 2) by reflexivity. reflexivity.
  - destruct Hwf as [Hn _].
    rewrite (rdk_at0 P _ R 5) by reflexivity. cbv beta. change (5 =? 0) with false. change (5 =? 1) with false.
    change (5 =? 2) with false. change (5 =? 3) with false. change (5 =? 8) with false.
    change (5 =? 4) with false. cbv iota.
    destruct (Nat.ltb_spec (length P + (2 + 8 * length bl + length R)) (length P + 2)) as [L|L]; [lia|].
    erewrite (rdk_at P _ R 1) by reflexivity. cbv beta.
    destruct (Z.ltb_spec (2 + 8 * Z.of_nat (length bl)) 2) as [Q|Q]; [lia|]. cbn [orb].
    replace (Z.to_nat (2 + 8 * Z.of_nat (length bl))) with (2 + 8 * length bl)%nat by lia.
    destruct (Nat.ltb_spec (length P + (2 + 8 * length bl + length R)) (length P + (2 + 8 * length bl))) as [L2|L2]; [lia|].
    reflexivity.
Qed.

Lemma wire_cons it items : wire (it :: items) = item_bytes it ++ wire items.
Proof. reflexivity. Qed.

Lemma loop_items {St} (body : list Z -> nat -> nat -> St -> step St) (app : St -> item -> St) :
  (forall P it R s, wf_item it ->
     body (P ++ item_bytes it ++ R) (length (P ++ item_bytes it ++ R)) (length P) s =
     Continue (length P + length (item_bytes it)) (app s it)) ->
  forall items P s fuel, Forall wf_item items -> (length items < fuel)%nat ->
  opt_loop (body (P ++ wire items) (length (P ++ wire items))) (length (P ++ wire items)) fuel (length P) s =
  Ok (fold_left app items s).
Proof.
  intros Hbody. induction items as [|it items IH]; intros P s fuel Hwf Hf.
  - destruct fuel as [|fuel]; [cbn [length] in Hf; lia|]. cbn [opt_loop wire map concat fold_left].
    rewrite app_nil_r. rewrite Nat.ltb_irrefl. reflexivity.
  - inversion Hwf as [|? ? Hit Hrest]; subst.
    destruct fuel as [|fuel]; [lia|]. cbn [length] in Hf. cbn [opt_loop fold_left].
    rewrite wire_cons.
    pose proof (item_bytes_nonempty it Hit) as Hne.
    destruct (Nat.ltb_spec (length P) (length (P ++ item_bytes it ++ wire items))) as [L|L];
      [|rewrite !app_length in L; lia].
    rewrite Hbody by exact Hit.
    specialize (IH (P ++ item_bytes it) (app s it) fuel Hrest ltac:(lia)).
    rewrite <- app_assoc in IH. rewrite <- (app_length P (item_bytes it)). exact IH.
Qed.

Lemma wire_length_ge items : Forall wf_item items -> (length items <= length (wire items))%nat.
Proof.
  induction 1 as [|it items Hit _ IH]; [cbn; lia|].
  rewrite wire_cons, app_length. pose proof (item_bytes_nonempty it Hit). cbn [length]. lia.
Qed.

Theorem parseSynOptions_items items isAck : Forall wf_item items ->
  parseSynOptions (wire items) isAck = Ok (fold_left (apply_syn isAck) items syn_default).
Proof.
  intros Hwf. unfold parseSynOptions.
  pose proof (loop_items (fun opts limit => syn_body opts isAck limit) (apply_syn isAck)
                (fun P it R s H => syn_body_item P it R isAck s H) items [] syn_default
                (S (length (wire items))) Hwf) as H.
  cbn [app length] in H. apply H. pose proof (wire_length_ge items Hwf). lia.
Qed.

(* ---------- ParseTCPOptions ---------- *)
Lemma nth_at (P X R : list Z) c x :
  nth_error X c = Some x -> nth_error (P ++ X ++ R) (length P + c) = Some x.
Proof.
  intros H. rewrite nth_error_app2 by lia.
  replace (length P + c - length P)%nat with c by lia.
  rewrite nth_error_app1 by (apply nth_error_Some; congruence). exact H.
Qed.

Lemma rd32o_at (P R : list Z) v : is_u32 v ->
  rd32o (P ++ be32 v ++ R) (length P) = Some v.
Proof.
  intros Hv. pose proof (be32_val v Hv) as Hval. unfold rd32o.
  destruct (be32 v) as [|b0 [|b1 [|b2 [|b3 [|? ?]]]]] eqn:EB; try contradiction.
  rewrite <- (Nat.add_0_r (length P)) at 1.
  rewrite (nth_at P _ R 0 b0), (nth_at P _ R 1 b1), (nth_at P _ R 2 b2), (nth_at P _ R 3 b3) by reflexivity.
  cbn [obind]. rewrite Hval. reflexivity.
Qed.

Definition u32pair (b : Z * Z) : Prop := is_u32 (fst b) /\ is_u32 (snd b).

Lemma rd_blocks_at bl : forall P R, Forall u32pair bl ->
  rd_blocks (P ++ flat_map block_bytes bl ++ R) (length P) (length bl) = Some bl.
Proof.
  induction bl as [|[st en] bl IH]; intros P R Hbl; [reflexivity|].
  inversion Hbl as [|? ? [Hst Hen] Hrest]; subst. cbn [fst snd] in *.
  cbn [length rd_blocks flat_map]. change (block_bytes (st, en)) with (be32 st ++ be32 en).
  rewrite <- !app_assoc.
  rewrite rd32o_at by exact Hst. cbn [obind].
  assert (E4 : (length P + 4)%nat = length (P ++ be32 st)) by (rewrite app_length; reflexivity).
  rewrite E4.
  replace (P ++ be32 st ++ be32 en ++ flat_map block_bytes bl ++ R)
    with ((P ++ be32 st) ++ be32 en ++ flat_map block_bytes bl ++ R) by (rewrite <- app_assoc; reflexivity).
  rewrite rd32o_at by exact Hen. cbn [obind].
  assert (E8 : (length P + 8)%nat = length ((P ++ be32 st) ++ be32 en)) by (rewrite !app_length; cbn [be32 length]; lia).
  rewrite E8.
  replace ((P ++ be32 st) ++ be32 en ++ flat_map block_bytes bl ++ R)
    with (((P ++ be32 st) ++ be32 en) ++ flat_map block_bytes bl ++ R) by (rewrite <- !app_assoc; reflexivity).
  rewrite IH by exact Hrest. reflexivity.
Qed.

Lemma opts_body_item P it R s : wf_item it ->
  opts_body (P ++ item_bytes it ++ R) (length (P ++ item_bytes it ++ R)) (length P) s =
  Continue (length P + length (item_bytes it)) (apply_opt s it).
Proof.
  intros Hwf. rewrite (item_bytes_length it Hwf).
  assert (Hlim : length (P ++ item_bytes it ++ R) = (length P + (length (item_bytes it) + length R))%nat)
    by (rewrite !app_length; reflexivity).
  rewrite (item_bytes_length it Hwf) in Hlim. rewrite Hlim. clear Hlim.
  unfold opts_body.
  destruct it as [|m|w|v e| |bl]; cbn [wf_item apply_opt] in *.
  - rewrite (rdk_at0 P _ R 1) by reflexivity. reflexivity.
  - rewrite (rdk_at0 P _ R 2) by reflexivity. cbv beta. change (2 =? 0) with false. change (2 =? 1) with false.
    change (2 =? 8) with false. change (2 =? 5) with false. cbv iota.
    destruct (Nat.ltb_spec (length P + (4 + length R)) (length P + 2)) as [L|L]; [lia|].
    rewrite (rdk_at P _ R 1 4) by reflexivity. cbv beta. change (4 <? 2) with false. cbn [orb].
    change (Z.to_nat 4) with 4%nat.
    destruct (Nat.ltb_spec (length P + (4 + length R)) (length P + 4)) as [L2|L2]; [lia|]. reflexivity.
  - rewrite (rdk_at0 P _ R 3) by reflexivity. cbv beta. change (3 =? 0) with false. change (3 =? 1) with false.
    change (3 =? 8) with false. change (3 =? 5) with false. cbv iota.
    destruct (Nat.ltb_spec (length P + (3 + length R)) (length P + 2)) as [L|L]; [lia|].
    rewrite (rdk_at P _ R 1 3) by reflexivity. cbv beta. change (3 <? 2) with false. cbn [orb].
    change (Z.to_nat 3) with 3%nat.
    destruct (Nat.ltb_spec (length P + (3 + length R)) (length P + 3)) as [L2|L2]; [lia|]. reflexivity.
  - destruct Hwf as [Hv He].
    rewrite (rdk_at0 P _ R 8) by reflexivity. cbv beta. change (8 =? 0) with false. change (8 =? 1) with false.
    change (8 =? 8) with true. cbv iota.
    destruct (Nat.ltb_spec (length P + (10 + length R)) (length P + 10)) as [L|L]; [lia|].
    rewrite (rdk_at P _ R 1 10) by reflexivity. cbv beta. change (negb (10 =? 10)) with false. cbv iota.
    rewrite (rd32k_at P _ R 2 v) by (try exact Hv; reflexivity).
    rewrite (rd32k_at P _ R 6 e) by (try exact He; reflexivity). reflexivity.
  - rewrite (rdk_at0 P _ R 4) by reflexivity. cbv beta. change (4 =? 0) with false. change (4 =? 1) with false.
    change (4 =? 8) with false. change (4 =? 5) with false. cbv iota.
    destruct (Nat.ltb_spec (length P + (2 + length R)) (length P + 2)) as [L|L]; [lia|].
    rewrite (rdk_at P _ R 1 2) by reflexivity. cbv beta. change (2 <? 2) with false. cbn [orb].
    change (Z.to_nat 2) with 2%nat.
    destruct (Nat.ltb_spec (length P + (2 + length R)) (length P + 2)) as [L2|L2]; [lia|]. reflexivity.
  - destruct Hwf as [Hn Hbl].
    rewrite (rdk_at0 P _ R 5) by reflexivity. cbv beta. change (5 =? 0) with false. change (5 =? 1) with false.
    change (5 =? 8) with false. change (5 =? 5) with true. cbv iota.
    destruct (Nat.ltb_spec (length P + (2 + 8 * length bl + length R)) (length P + 2)) as [L|L]; [lia|].
    erewrite (rdk_at P _ R 1) by reflexivity. cbv beta zeta.
    replace (2 + 8 * Z.of_nat (length bl) - 2) with (Z.of_nat (length bl) * 8) by lia.
    rewrite Z.rem_mul, Z.quot_mul by lia. change (0 =? 0) with true. cbn [negb].
    replace (Z.to_nat (2 + 8 * Z.of_nat (length bl))) with (2 + 8 * length bl)%nat by lia.
    destruct (Nat.ltb_spec (length P + (2 + 8 * length bl + length R)) (length P + (2 + 8 * length bl))) as [L2|L2]; [lia|].
    cbn [orb]. rewrite Nat2Z.id.
    cbn [item_bytes app].
    replace (P ++ 5 :: 2 + 8 * Z.of_nat (length bl) :: flat_map block_bytes bl ++ R)
      with ((P ++ [5; 2 + 8 * Z.of_nat (length bl)]) ++ flat_map block_bytes bl ++ R)
      by (rewrite <- app_assoc; reflexivity).
    replace (length P + 2)%nat with (length (P ++ [5; 2 + 8 * Z.of_nat (length bl)]))
      by (rewrite app_length; reflexivity).
    rewrite rd_blocks_at; [reflexivity|]. exact Hbl.
Qed.

Theorem parseTCPOptions_items items : Forall wf_item items ->
  parseTCPOptions (wire items) = Ok (fold_left apply_opt items opts_default).
Proof.
  intros Hwf. unfold parseTCPOptions.
  pose proof (loop_items (fun b limit => opts_body b limit) apply_opt
                (fun P it R s H => opts_body_item P it R s H) items [] opts_default
                (S (length (wire items))) Hwf) as H.
  cbn [app length] in H. apply H. pose proof (wire_length_ge items Hwf). lia.
Qed.

(* ================= part D: the two programs of transport/tcp/connect.go ================= *)
Definition wf_syn (o : synOpts) : Prop :=
  1 <= sMSS o < 65536 /\ -1 <= sWS o <= 14 /\ is_u32 (sTSVal o) /\ is_u32 (sTSEcr o).
(* what the receiver of a SYN (isAck = false) / SYN-ACK (isAck = true) must see *)
Definition syn_expected (o : synOpts) (isAck : bool) : synOpts :=
  mkSyn (sMSS o) (sWS o) (sTS o) (if sTS o then sTSVal o else 0)
        (if sTS o && isAck then sTSEcr o else 0) (sSACKPermitted o).

Ltac wf_items :=
  repeat (apply Forall_cons; [cbn [wf_item]; first [exact I | lia | assumption | split; assumption]|]); apply Forall_nil.

Theorem parse_recovers_syn_options o isAck buf :
  wf_syn o -> length buf = maxOptionSize ->
  exists bytes, make_options (syn_program o) buf = Some (bytes, 0) /\
    Z.of_nat (length bytes) mod 4 = 0 /\ (length bytes <= 40)%nat /\
    parseSynOptions bytes isAck = Ok (syn_expected o isAck).
Proof.
  intros (Hm & Hw & Hv & He) Hbuf. exists (wire (syn_program o)).
  destruct o as [mss ws ts tsv tse sp]. cbn [sMSS sWS sTS sTSVal sTSEcr sSACKPermitted] in *.
  unfold syn_program, syn_expected. cbn [sMSS sWS sTS sTSVal sTSEcr sSACKPermitted].
  unfold maxOptionSize in Hbuf.
  destruct ts, sp; cbn [andb app]; destruct (Z.leb_spec 0 ws) as [W|W]; cbn [app];
    (split; [apply make_options_wire;
             [wf_items
             |rewrite Hbuf; cbn [wire map concat item_bytes app length be32]; lia
             |cbn [wire map concat item_bytes app length be32]; reflexivity]|]);
    (split; [cbn [wire map concat item_bytes app length be32]; reflexivity|]);
    (split; [cbn [wire map concat item_bytes app length be32]; lia|]);
    (rewrite parseSynOptions_items by wf_items);
    cbn [fold_left apply_syn syn_default sMSS sWS sTS sTSVal sTSEcr sSACKPermitted];
    try (assert (ws = -1) by lia; subst ws);
    destruct isAck; reflexivity.
Qed.

Lemma emit_items_app a b st : emit_items (a ++ b) st = emit_items b (emit_items a st).
Proof. unfold emit_items. apply fold_left_app. Qed.

(* EncodeSACKBlocks respects the space left: it writes the first l blocks, l the largest
   number <= min(len blocks, 4) with 2 + 8l <= len b *)
Definition sack_fit (nblocks space : nat) : nat :=
  Z.to_nat (Z.min (Z.min (Z.of_nat nblocks) 4) ((Z.of_nat space - 2) / 8)).

Lemma encodeSACKBlocks_trunc blocks b :
  blocks <> [] -> (10 <= length b)%nat ->
  let l := sack_fit (length blocks) (length b) in
  (1 <= l <= 4)%nat /\ (2 + 8 * l <= length b)%nat /\ length (firstn l blocks) = l /\
  (length b < 2 + 8 * (l + 1) \/ l = 4 \/ l = length blocks)%nat /\
  encodeSACKBlocks blocks b = encode_item (ISack (firstn l blocks)) b.
Proof.
  intros Hne Hb l. subst l. unfold sack_fit.
  set (lz := Z.min (Z.min (Z.of_nat (length blocks)) 4) ((Z.of_nat (length b) - 2) / 8)).
  assert (Hlen : (1 <= length blocks)%nat) by (destruct blocks; [congruence|cbn [length]; lia]).
  assert (Hlz : 1 <= lz <= 4 /\ lz <= Z.of_nat (length blocks) /\ 2 + 8 * lz <= Z.of_nat (length b) /\
                (Z.of_nat (length b) < 2 + 8 * (lz + 1) \/ lz = 4 \/ lz = Z.of_nat (length blocks))).
  { subst lz. Z.div_mod_to_equations. lia. }
  assert (Hfl : length (firstn (Z.to_nat lz) blocks) = Z.to_nat lz) by (rewrite firstn_length; lia).
  split; [lia|]. split; [lia|]. split; [exact Hfl|]. split; [lia|].
  cbn [encode_item]. unfold encodeSACKBlocks at 1.
  destruct blocks as [|b0 bl']; [congruence|]. set (blocks := b0 :: bl') in *. cbv zeta.
  rewrite Z.quot_div_nonneg by lia.
  assert (E : (if (Z.of_nat (length b) - 2) / 8 <?
                  (if 4 <? Z.of_nat (length blocks) then 4 else Z.of_nat (length blocks))
               then (Z.of_nat (length b) - 2) / 8
               else (if 4 <? Z.of_nat (length blocks) then 4 else Z.of_nat (length blocks))) = lz).
  { subst lz. destruct (Z.ltb_spec 4 (Z.of_nat (length blocks)));
      match goal with |- context [?a <? ?c] => destruct (Z.ltb_spec a c) end; lia. }
  rewrite E. destruct (Z.eqb_spec lz 0) as [Z0|Z0]; [lia|].
  (* right-hand side: the same encoder on the truncated list, which fits as it is *)
  unfold encodeSACKBlocks.
  destruct (firstn (Z.to_nat lz) blocks) as [|c0 cl] eqn:EF; [cbn [length] in Hfl; lia|].
  cbv zeta. rewrite Hfl, Z.quot_div_nonneg by lia.
  assert (E' : (if (Z.of_nat (length b) - 2) / 8 <?
                  (if 4 <? Z.of_nat (Z.to_nat lz) then 4 else Z.of_nat (Z.to_nat lz))
               then (Z.of_nat (length b) - 2) / 8
               else (if 4 <? Z.of_nat (Z.to_nat lz) then 4 else Z.of_nat (Z.to_nat lz))) = lz).
  { destruct (Z.ltb_spec 4 (Z.of_nat (Z.to_nat lz)));
      match goal with |- context [?a <? ?c] => destruct (Z.ltb_spec a c) end;
      try lia; Z.div_mod_to_equations; lia. }
  rewrite E'. destruct (Z.eqb_spec lz 0) as [Z1|Z1]; [lia|].
  rewrite <- EF. rewrite firstn_firstn, Nat.min_id. reflexivity.
Qed.

Definition wf_opt (tsVal tsEcr : Z) (blocks : list (Z * Z)) : Prop :=
  is_u32 tsVal /\ is_u32 tsEcr /\ Forall u32pair blocks.

(* makeOptions: with timestamps 3 SACK blocks fit after NOP NOP TS NOP NOP, without them 4 *)
Theorem parse_recovers_options tsOk tsVal tsEcr sackPermitted blocks buf :
  wf_opt tsVal tsEcr blocks -> length buf = maxOptionSize ->
  exists bytes, make_options (opt_program tsOk tsVal tsEcr sackPermitted blocks) buf = Some (bytes, 0) /\
    Z.of_nat (length bytes) mod 4 = 0 /\ (length bytes <= 40)%nat /\
    parseTCPOptions bytes =
      Ok (mkOpts tsOk (if tsOk then tsVal else 0) (if tsOk then tsEcr else 0)
                 (if sackPermitted then firstn (if tsOk then 3 else 4) blocks else [])).
Proof.
  intros (Hv & He & Hbl) Hbuf. unfold maxOptionSize in Hbuf.
  set (n := if tsOk then 3%nat else 4%nat).
  (* the program is equivalent to the one with the SACK list already truncated *)
  set (prog' := (if tsOk then [INop; INop; ITS tsVal tsEcr] else []) ++
                (if sackPermitted && negb (Nat.eqb (length blocks) 0)
                 then [INop; INop; ISack (firstn n blocks)] else [])).
  assert (Hprog : make_options (opt_program tsOk tsVal tsEcr sackPermitted blocks) buf = make_options prog' buf).
  { unfold make_options, opt_program, prog'.
    destruct (sackPermitted && negb (Nat.eqb (length blocks) 0)) eqn:ES; [|reflexivity].
    apply andb_true_iff in ES as [_ ES]. apply negb_true_iff, Nat.eqb_neq in ES.
    assert (Hne : blocks <> []) by (intros ->; apply ES; reflexivity).
    set (pre := (if tsOk then [INop; INop; ITS tsVal tsEcr] else []) ++ [INop; INop]).
    change ((if tsOk then [INop; INop; ITS tsVal tsEcr] else []) ++ [INop; INop; ISack blocks])
      with ((if tsOk then [INop; INop; ITS tsVal tsEcr] else []) ++ [INop; INop] ++ [ISack blocks]).
    change ((if tsOk then [INop; INop; ITS tsVal tsEcr] else []) ++ [INop; INop; ISack (firstn n blocks)])
      with ((if tsOk then [INop; INop; ITS tsVal tsEcr] else []) ++ [INop; INop] ++ [ISack (firstn n blocks)]).
    rewrite !app_assoc. fold pre. rewrite !emit_items_app.
    assert (Hpre : Forall wf_item pre) by (subst pre; destruct tsOk; cbn [app]; wf_items).
    assert (Lpre : length (wire pre) = if tsOk then 14%nat else 2%nat) by (subst pre; destruct tsOk; reflexivity).
    pose proof (emit_items_wire pre [] buf Hpre ltac:(rewrite Lpre, Hbuf; destruct tsOk; lia)) as E.
    cbn [app length] in E. rewrite E. clear E.
    unfold emit_items. cbn [fold_left]. unfold emit. rewrite skipn_app_exact.
    set (rest := skipn (length (wire pre)) buf).
    assert (Lrest : length rest = if tsOk then 26%nat else 38%nat).
    { subst rest. rewrite skipn_length, Lpre, Hbuf. destruct tsOk; reflexivity. }
    destruct (encodeSACKBlocks_trunc blocks rest Hne ltac:(rewrite Lrest; destruct tsOk; lia))
      as (_ & _ & _ & _ & ET).
    cbn [encode_item] in *. rewrite ET.
    assert (EN : firstn (sack_fit (length blocks) (length rest)) blocks = firstn n blocks).
    { rewrite Lrest. unfold sack_fit. subst n.
      destruct tsOk.
      - change ((Z.of_nat 26 - 2) / 8) with 3.
        destruct (Nat.le_gt_cases (length blocks) 3) as [Q|Q].
        + rewrite !firstn_all2 by lia. reflexivity.
        + f_equal. lia.
      - change ((Z.of_nat 38 - 2) / 8) with 4.
        destruct (Nat.le_gt_cases (length blocks) 4) as [Q|Q].
        + rewrite !firstn_all2 by lia. reflexivity.
        + f_equal. lia. }
    rewrite EN.
    assert (EI : encodeSACKBlocks (firstn n (firstn n blocks)) rest = encodeSACKBlocks (firstn n blocks) rest)
      by (rewrite firstn_firstn, Nat.min_id; reflexivity).
    reflexivity. }
  rewrite Hprog. exists (wire prog').
  assert (Hn : sackPermitted && negb (Nat.eqb (length blocks) 0) = true ->
               ((1 <= length (firstn n blocks) <= 4)%nat /\ Forall u32pair (firstn n blocks)) /\
               (length (firstn n blocks) <= n)%nat).
  { intros ES. apply andb_true_iff in ES as [_ ES]. apply negb_true_iff, Nat.eqb_neq in ES.
    split; [split|]; [rewrite firstn_length; subst n; destruct tsOk; lia|apply Forall_firstn, Hbl|].
    rewrite firstn_length. lia. }
  assert (Hwf : Forall wf_item prog').
  { subst prog'. destruct tsOk; destruct (sackPermitted && negb (Nat.eqb (length blocks) 0)) eqn:ES;
      cbn [app]; try (destruct (Hn eq_refl) as [Hn1 _]); wf_items. }
  assert (Hlen : exists k, length (wire prog') = (4 * k)%nat /\ (k <= 10)%nat).
  { subst prog'. destruct tsOk; destruct (sackPermitted && negb (Nat.eqb (length blocks) 0)) eqn:ES;
      cbn [app wire map concat item_bytes length be32]; try (destruct (Hn eq_refl) as [[Hn1 _] Hn2]);
      rewrite ?app_nil_r, ?flat_map_block_length.
    - exists (4 + 2 * length (firstn 3 blocks))%nat. subst n. lia.
    - exists 3%nat. lia.
    - exists (1 + 2 * length (firstn 4 blocks))%nat. subst n. lia.
    - exists 0%nat. lia. }
  destruct Hlen as (k & Hk & Hk10).
  split; [apply make_options_wire; [exact Hwf|lia|rewrite Hk; Z.div_mod_to_equations; lia]|].
  split; [rewrite Hk; Z.div_mod_to_equations; lia|]. split; [lia|].
  rewrite parseTCPOptions_items by exact Hwf. f_equal.
  subst prog'. destruct tsOk; destruct sackPermitted; cbn [andb];
    try destruct (Nat.eqb_spec (length blocks) 0) as [Z0|Z0]; cbn [negb app fold_left apply_opt opts_default oTS oTSVal oTSEcr oSACKBlocks];
    try reflexivity;
    (destruct blocks; [reflexivity|cbn [length] in Z0; lia]).
Qed.

(* the hypotheses are satisfiable by non-trivial values *)
Example wf_syn_example : wf_syn (mkSyn 1460 7 true 12345 67890 true).
Proof. unfold wf_syn, is_u32. cbn. lia. Qed.
Example syn_roundtrip_example :
  parseSynOptions (wire (syn_program (mkSyn 1460 7 true 12345 67890 true))) true =
  Ok (mkSyn 1460 7 true 12345 67890 true).
Proof. vm_compute. reflexivity. Qed.
Example wf_items_example :
  Forall wf_item [INop; IMSS 1460; IWS 14; ITS 4294967295 0; ISackPerm; ISack [(1, 2); (4294967295, 0)]].
Proof.
  repeat (apply Forall_cons; [cbn [wf_item]; unfold is_u32; cbn;
          first [exact I | lia | (split; [lia|]; repeat (apply Forall_cons; [cbn; lia|]); apply Forall_nil) | (split; lia)]|]).
  apply Forall_nil.
Qed.
