(* Lemmas for C02, part 2: the orderly close without loss.  Symbolic execution of Model.Tcp.step on
   the closing exchange from any state in which everything written is acknowledged: our FIN, the
   peer's FIN and their acknowledgments in the four possible orders. *)
From Coq Require Import ZArith List Bool Lia ZifyBool.
From RecordUpdate Require Import RecordSet.
From NP Require Import Model.Seqnum Model.GoHeap Model.Tcp Proofs.SeqnumP Proofs.TcpCloseP.
Import ListNotations RecordSetNotations.
Open Scope Z_scope.


(* ------------------------------------------------------------------ (4) the orderly close, no loss *)
Lemma lessThan_succ n : is_u32 n -> lessThan n (add n 1) = true.
Proof. intros. apply Z.leb_le. word. Qed.
Lemma inRange_fin_ack n : is_u32 n -> inRange (u32 (add n 1 - 1)) n (add n 1) = true.
Proof. intros. apply Z.ltb_lt. word. Qed.
Lemma size_succ n : is_u32 n -> size n (add n 1) = 1.
Proof. intros. word. Qed.
Lemma add_0 n : is_u32 n -> add n 0 = n.
Proof. intros. word. Qed.
Lemma u32_id n : is_u32 n -> u32 n = n.
Proof. intros. word. Qed.
Lemma add_succ_ne n : is_u32 n -> (add n 1 =? n) = false.
Proof. intros. apply Z.eqb_neq. word. Qed.
Lemma ne_add_succ n : is_u32 n -> (n =? add n 1) = false.
Proof. intros. apply Z.eqb_neq. word. Qed.
Lemma inRange_empty v n : inRange v n n = false.
Proof. apply Z.ltb_ge. word. Qed.
Lemma acceptable_next rc : is_u32 (rcvNxt rc) -> acceptable rc (rcvNxt rc) 0 = true.
Proof.
  intros U. unfold acceptable. cbv zeta. destruct (size (rcvNxt rc) (rcvAcc rc) =? 0) eqn:E.
  - rewrite !Z.eqb_refl. reflexivity.
  - apply Z.eqb_neq in E. apply orb_true_iff. left. apply Z.ltb_lt. revert E. word.
Qed.


(* ---- the pieces of handleSegment on the segments of a closing exchange ---- *)
Definition maybeAck (x : tcp) : tcp := if negb (rcvNxt (RC x) =? maxSentAck (SN x)) then sendAck x else x.

Lemma handleSegment_ack_path t sg nr :
  estate t = stConnected -> has (s_flags sg) fRst = false -> has (s_flags sg) fAck = true ->
  (tsOk t && negb (s_ts sg)) = false ->
  handleSegment t sg nr false =
  loopExit (maybeAck (sndHandle (rcvHandle t sg) sg (u32 (Z.shiftl (s_wnd sg) (sndWndScale (SN t)))) nr false)).
Proof.
  intros EC R A T. unfold handleSegment. rewrite EC, R, A, T. reflexivity.
Qed.

Lemma set_rcvNxt_eta t : t <| RC := (RC t) <| rcvNxt := rcvNxt (RC t) |> |> = t.
Proof. destruct t as [rc ? ? ? ? ? ? ? ? ? ? ?]. destruct rc. reflexivity. Qed.

Lemma rcvHandle_pure t sg :
  rclosed (RC t) = false -> pending (RC t) = [] -> is_u32 (rcvNxt (RC t)) ->
  s_seq sg = rcvNxt (RC t) -> s_data sg = [] -> has (s_flags sg) fFin = false ->
  rcvHandle t sg = t.
Proof.
  intros RCL PE U SQ SD NF. unfold rcvHandle. rewrite RCL. cbv zeta. rewrite SD, SQ.
  change (len []) with 0. rewrite (acceptable_next _ U). cbn [negb].
  unfold consumeSegment. cbv zeta. change (0 <? 0) with false. cbv iota.
  rewrite Z.eqb_refl. cbn [negb]. rewrite NF. cbn [negb].
  rewrite (add_0 _ U), set_rcvNxt_eta, PE. cbn [length drainPending]. rewrite RCL, PE. reflexivity.
Qed.

(* the state after consuming an in-order FIN *)
Definition fin_consumed (t : tcp) : tcp :=
  let t2 := t <| RC := (RC t) <| rcvNxt := u32 (rcvNxt (RC t) + 1) |> |> in
  let t3 := sendAck t2 in
  t3 <| RC := (RC t3) <| rclosed := true |> <| pending := [] |> |> <| rcvClosedE := true |>.

Lemma rcvHandle_fin t sg :
  rclosed (RC t) = false -> pending (RC t) = [] -> is_u32 (rcvNxt (RC t)) ->
  s_seq sg = rcvNxt (RC t) -> s_data sg = [] -> has (s_flags sg) fFin = true ->
  rcvHandle t sg = fin_consumed t.
Proof.
  intros RCL PE U SQ SD NF. unfold rcvHandle. rewrite RCL. cbv zeta. rewrite SD, SQ.
  change (len []) with 0. rewrite (acceptable_next _ U). cbn [negb].
  unfold consumeSegment. cbv zeta. change (0 <? 0) with false. cbv iota.
  rewrite Z.eqb_refl. cbn [negb]. rewrite NF. cbn [negb andb].
  rewrite (add_0 _ U), set_rcvNxt_eta.
  cbn [fst snd]. unfold fin_consumed. cbv zeta.
  match goal with |- drainPending ?f ?x = ?y => assert (E : x = y) end.
  { reflexivity. }
  rewrite E. cbn [drainPending length pending RC set]. reflexivity.
Qed.

Lemma cda_reset s ack sl wnd :
  frActive s = false ->
  ((ack =? sndUna s) = false \/ (sl =? 0) = false \/ (ack =? sndNxt s) = true) ->
  checkDuplicateAck s ack sl wnd = (s <| dupAck := 0 |>, false).
Proof.
  intros F C. unfold checkDuplicateAck. rewrite F.
  assert (X : negb (ack =? sndUna s) || negb (sl =? 0) || negb (sndWnd s =? wnd) || (ack =? sndNxt s) = true).
  { destruct C as [C|[C|C]]; rewrite C; cbn [negb orb]; rewrite ?orb_true_r; reflexivity. }
  rewrite X. reflexivity.
Qed.

(* a segment that acknowledges nothing new, with nothing waiting to be sent *)
Lemma sndHandle_quiet t sg wnd nr :
  frActive (SN t) = false -> wunsent (SN t) = [] ->
  ((s_ack sg =? sndUna (SN t)) = false \/ (plogicalLen (s_flags sg) (s_data sg) =? 0) = false \/
   (s_ack sg =? sndNxt (SN t)) = true) ->
  inRange (u32 (s_ack sg - 1)) (sndUna (SN t)) (sndNxt (SN t)) = false ->
  (tstate (SN t) = tEnabled \/ sndUna (SN t) = sndNxt (SN t)) ->
  exists s', sndHandle t sg wnd nr false = t <| SN := s' |> /\
    sndUna s' = sndUna (SN t) /\ sndNxt s' = sndNxt (SN t) /\ sndNxtList s' = sndNxtList (SN t) /\
    wsent s' = wsent (SN t) /\ wunsent s' = [] /\ sclosed s' = sclosed (SN t) /\ tstate s' = tstate (SN t) /\
    frActive s' = false /\ maxSentAck s' = maxSentAck (SN t) /\ outstanding s' = outstanding (SN t) /\
    cwnd s' = cwnd (SN t).
Proof.
  intros F WU C IR TM. unfold sndHandle. cbv zeta.
  set (s1 := if negb (tsOk t) && lessThan (rttSeq (SN t)) (s_ack sg)
             then SN t <| rto := if nr <? minRTO then minRTO else nr |> <| rttSeq := sndNxt (SN t) |> else SN t).
  assert (S1 : frActive s1 = false /\ sndUna s1 = sndUna (SN t) /\ sndNxt s1 = sndNxt (SN t) /\
               sndNxtList s1 = sndNxtList (SN t) /\ wsent s1 = wsent (SN t) /\ wunsent s1 = [] /\
               sclosed s1 = sclosed (SN t) /\ tstate s1 = tstate (SN t) /\ maxSentAck s1 = maxSentAck (SN t) /\
               outstanding s1 = outstanding (SN t) /\ cwnd s1 = cwnd (SN t)).
  { subst s1. destruct (negb (tsOk t) && lessThan (rttSeq (SN t)) (s_ack sg)); cbn; auto 12. }
  clearbody s1. destruct S1 as (F1 & U1 & N1 & L1 & WS1 & WU1 & SC1 & T1 & M1 & O1 & C1).
  rewrite (cda_reset s1 (s_ack sg) _ wnd F1) by (rewrite U1, N1; exact C).
  cbn [sndUna sndNxt set]. cbn -[sendData]. rewrite U1, N1, IR.
  rewrite sendData_false. cbv zeta. rewrite sendLoop_nil by (cbn; exact WU1).
  cbn. rewrite T1, U1, N1.
  assert (X : negb (tstate (SN t) =? tEnabled) && negb (sndUna (SN t) =? sndNxt (SN t)) = false).
  { destruct TM as [TM|TM]; rewrite TM; [reflexivity|]. rewrite Z.eqb_refl. apply andb_false_r. }
  rewrite X. eexists. split; [reflexivity|]. cbn. auto 12.
Qed.

Lemma renoCA_keeps s k :
  (renoCA s k) <| cwnd := 0 |> <| caCount := 0 |> = s <| cwnd := 0 |> <| caCount := 0 |>.
Proof. unfold renoCA. cbv zeta. destruct (cwnd s <=? caCount s + k); reflexivity. Qed.
Lemma renoUpdate_keeps s k :
  (renoUpdate s k) <| cwnd := 0 |> <| caCount := 0 |> = s <| cwnd := 0 |> <| caCount := 0 |>.
Proof.
  unfold renoUpdate. destruct (cwnd s <? ssthresh s); [|apply renoCA_keeps]. cbv zeta.
  destruct (ssthresh s <=? cwnd s + k); cbv beta iota zeta.
  - destruct (_ =? 0); [reflexivity|]. rewrite renoCA_keeps. reflexivity.
  - destruct (_ =? 0); [reflexivity|]. rewrite renoCA_keeps. reflexivity.
Qed.

(* the acknowledgment of our FIN arrives while it is the only thing in flight *)
Lemma sndHandle_finack t sg wnd nr n :
  frActive (SN t) = false -> is_u32 n ->
  wsent (SN t) = [mkW n (Z.lor fAck fFin) []] -> wunsent (SN t) = [] ->
  sndUna (SN t) = n -> sndNxt (SN t) = add n 1 -> s_ack sg = add n 1 ->
  exists s', sndHandle t sg wnd nr false = t <| SN := s' |> <| sndBufUsed := sndBufUsed t - 1 |> /\
    sndUna s' = add n 1 /\ sndNxt s' = add n 1 /\ sndNxtList s' = sndNxtList (SN t) /\
    wsent s' = [] /\ wunsent s' = [] /\ sclosed s' = sclosed (SN t) /\ tstate s' <> tEnabled /\
    frActive s' = false /\ maxSentAck s' = maxSentAck (SN t).
Proof.
  intros F UN WS WU HU HN HA. unfold sndHandle. cbv zeta.
  set (s1 := if negb (tsOk t) && lessThan (rttSeq (SN t)) (s_ack sg)
             then SN t <| rto := if nr <? minRTO then minRTO else nr |> <| rttSeq := sndNxt (SN t) |> else SN t).
  assert (S1 : frActive s1 = false /\ sndUna s1 = n /\ sndNxt s1 = add n 1 /\
               sndNxtList s1 = sndNxtList (SN t) /\ wsent s1 = [mkW n (Z.lor fAck fFin) []] /\ wunsent s1 = [] /\
               sclosed s1 = sclosed (SN t) /\ maxSentAck s1 = maxSentAck (SN t)).
  { subst s1. destruct (negb (tsOk t) && lessThan (rttSeq (SN t)) (s_ack sg)); cbn; auto 12. }
  clearbody s1. destruct S1 as (F1 & U1 & N1 & L1 & WS1 & WU1 & SC1 & M1).
  rewrite (cda_reset s1 (s_ack sg) _ wnd F1) by (left; rewrite U1, HA; apply add_succ_ne; exact UN).
  cbn [sndUna sndNxt set]. cbn -[sendData renoUpdate ackLoop]. rewrite U1, N1, HA, (inRange_fin_ack _ UN).
  (* the "timestamp echo" branch only touches rto *)
  set (s5 := if tsOk t && s_tsecr sg then _ else _).
  assert (S5 : frActive s5 = false /\ sndUna s5 = n /\ sndNxt s5 = add n 1 /\
               sndNxtList s5 = sndNxtList (SN t) /\ wsent s5 = [mkW n (Z.lor fAck fFin) []] /\ wunsent s5 = [] /\
               sclosed s5 = sclosed (SN t) /\ maxSentAck s5 = maxSentAck (SN t) /\ tstate s5 <> tEnabled).
  { subst s5. destruct (tsOk t && s_tsecr sg); cbn; rewrite ?F1, ?U1, ?N1, ?L1, ?WS1, ?WU1, ?SC1, ?M1;
      repeat split; auto; destruct (tstate s1 =? tDisabled); discriminate. }
  clearbody s5. destruct S5 as (F5 & U5 & N5 & L5 & WS5 & WU5 & SC5 & M5 & T5).
  rewrite U5, WS5, WU5, (size_succ _ UN).
  (* the FIN element is removed from the write list *)
  cbn [length Nat.add ackLoop]. change (0 <? 1) with true. cbn [negb].
  change (wlogicalLen (mkW n (Z.lor fAck fFin) [])) with 1. change (1 <? 1) with false. cbv iota.
  change (u32 (1 - 1)) with 0. change (0 <? 0) with false. cbn [negb]. cbv iota.
  rewrite F5. cbv iota.
  set (s6 := s5 <| sndUna := add n 1 |> <| wsent := [] |> <| wunsent := [] |> <| outstanding := outstanding s5 - (0 + 1) |>).
  set (s7 := renoUpdate s6 (0 + 1)).
  assert (S7 : s7 <| cwnd := 0 |> <| caCount := 0 |> = s6 <| cwnd := 0 |> <| caCount := 0 |>).
  { subst s7. apply renoUpdate_keeps. }
  set (s8 := if outstanding s7 <? 0 then s7 <| outstanding := 0 |> else s7).
  assert (S8 : frActive s8 = false /\ sndUna s8 = add n 1 /\ sndNxt s8 = add n 1 /\
               sndNxtList s8 = sndNxtList (SN t) /\ wsent s8 = [] /\ wunsent s8 = [] /\
               sclosed s8 = sclosed (SN t) /\ maxSentAck s8 = maxSentAck (SN t) /\ tstate s8 = tstate s5).
  { assert (K : forall f : sndr -> sndr, True) by auto. clear K.
    assert (P7 : frActive s7 = frActive s6 /\ sndUna s7 = sndUna s6 /\ sndNxt s7 = sndNxt s6 /\
                 sndNxtList s7 = sndNxtList s6 /\ wsent s7 = wsent s6 /\ wunsent s7 = wunsent s6 /\
                 sclosed s7 = sclosed s6 /\ maxSentAck s7 = maxSentAck s6 /\ tstate s7 = tstate s6).
    { repeat split.
      - apply (f_equal frActive) in S7; exact S7.
      - apply (f_equal sndUna) in S7; exact S7.
      - apply (f_equal sndNxt) in S7; exact S7.
      - apply (f_equal sndNxtList) in S7; exact S7.
      - apply (f_equal wsent) in S7; exact S7.
      - apply (f_equal wunsent) in S7; exact S7.
      - apply (f_equal sclosed) in S7; exact S7.
      - apply (f_equal maxSentAck) in S7; exact S7.
      - apply (f_equal tstate) in S7; exact S7. }
    destruct P7 as (P1 & P2 & P3 & P4 & P5 & P6 & P7 & P8 & P9).
    subst s8. destruct (outstanding s7 <? 0); cbn; rewrite P1, P2, P3, P4, P5, P6, P7, P8, P9; subst s6; cbn;
      rewrite ?F5, ?N5, ?L5, ?SC5, ?M5; auto 12. }
  clearbody s8. destruct S8 as (F8 & U8 & N8 & L8 & WS8 & WU8 & SC8 & M8 & T8).
  rewrite sendData_false. cbv zeta. rewrite sendLoop_nil by (cbn; exact WU8).
  cbn. rewrite U8, N8, Z.eqb_refl, andb_false_r.
  eexists. split; [reflexivity|]. rewrite T8. auto 12.
Qed.

(* sendData when the only thing queued is the FIN request *)
Lemma set_tstate_eta s x : tstate s = x -> s <| tstate := x |> = s.
Proof. intros <-. destruct s; reflexivity. Qed.

Lemma sendData_fin t n :
  wunsent (SN t) = [mkW 0 0 []] -> outstanding (SN t) < cwnd (SN t) ->
  sndUna (SN t) = n -> sndNxt (SN t) = n -> is_u32 n ->
  exists wnd,
    sendData t false =
    (sendSegment (t <| SN := (SN t) <| wsent := wsent (SN t) ++ [mkW n (Z.lor fAck fFin) []] |> <| wunsent := [] |> |>)
                 [] (Z.lor fAck fFin) n)
      <| SN := (SN t) <| wsent := wsent (SN t) ++ [mkW n (Z.lor fAck fFin) []] |> <| wunsent := [] |>
                      <| maxSentAck := rcvNxt (RC t) |> <| sndNxt := add n 1 |> <| tstate := tEnabled |> |> /\
    out (sendData t false) = out t ++ [mkF n (rcvNxt (RC t)) (Z.lor fAck fFin) wnd []].
Proof.
  intros WU OC HU HN UN. rewrite sendData_false. cbv zeta.
  assert (OC' : (outstanding (SN t) <? cwnd (SN t)) = true) by (apply Z.ltb_lt; exact OC).
  rewrite (sendLoop_fin _ t _ _ (mkW 0 0 []) [] WU OC' eq_refl).
  change (w_seq (numbered (SN t) (mkW 0 0 []))) with (sndNxt (SN t)). rewrite HN.
  match goal with |- context [bump ?x ?y] => set (t2 := x) end.
  assert (S2 : SN t2 = (SN t) <| wsent := wsent (SN t) ++ [mkW n (Z.lor fAck fFin) []] |>
                            <| wunsent := [] |> <| maxSentAck := rcvNxt (RC t) |>).
  { subst t2. rewrite sendSegment_SN. reflexivity. }
  assert (O2 : exists wnd, out t2 = out t ++ [mkF n (rcvNxt (RC t)) (Z.lor fAck fFin) wnd []]).
  { subst t2. match goal with |- context [sendSegment ?a ?b ?c ?d] => destruct (sendSegment_out a b c d) as (wnd & E) end. exists wnd. exact E. }
  destruct O2 as (wnd & O2). exists wnd.
  assert (B : bump t2 (add n 1) = t2 <| SN := (SN t2) <| sndNxt := add n 1 |> |>).
  { unfold bump. rewrite S2. cbn [sndNxt set]. cbn. rewrite HN, (lessThan_succ _ UN). reflexivity. }
  rewrite B. rewrite sendLoop_nil by (rewrite S2; reflexivity).
  cbn [SN set]. cbn -[t2 add]. rewrite S2. cbn -[t2 add]. rewrite HU, (ne_add_succ _ UN). cbn [negb].
  rewrite andb_true_r.
  destruct (tstate (SN t) =? tEnabled) eqn:ET; cbn [negb].
  - apply Z.eqb_eq in ET. split; [|cbn; exact O2].
    f_equal. rewrite set_tstate_eta; [reflexivity|exact ET].
  - split; [reflexivity|cbn; exact O2].
Qed.

Lemma fin_consumed_facts t :
  SN (fin_consumed t) = (SN t) <| maxSentAck := u32 (rcvNxt (RC t) + 1) |> /\
  (exists wnd, out (fin_consumed t) = out t ++ [mkF (sndNxt (SN t)) (u32 (rcvNxt (RC t) + 1)) fAck wnd []]) /\
  rclosed (RC (fin_consumed t)) = true /\ rcvClosedE (fin_consumed t) = true /\
  rcvNxt (RC (fin_consumed t)) = u32 (rcvNxt (RC t) + 1) /\ pending (RC (fin_consumed t)) = [] /\
  estate (fin_consumed t) = estate t /\ tsOk (fin_consumed t) = tsOk t /\ sndClosedE (fin_consumed t) = sndClosedE t.
Proof.
  unfold fin_consumed. cbv zeta.
  set (t2 := t <| RC := (RC t) <| rcvNxt := u32 (rcvNxt (RC t) + 1) |> |>).
  pose proof (sendSegment_SN t2 [] fAck (sndNxt (SN t2))) as S.
  destruct (sendSegment_out t2 [] fAck (sndNxt (SN t2))) as (wnd & O).
  pose proof (sendAck_rview t2) as V. apply rview_fields in V.
  destruct V as (V1 & _ & _ & _ & _ & V6 & V7 & V8 & _). apply rcore_fields in V1. destruct V1 as (V1 & _).
  fold (sendAck t2) in S, O.
  assert (S' : SN (sendAck t2) = (SN t) <| maxSentAck := u32 (rcvNxt (RC t) + 1) |>) by (rewrite S; reflexivity).
  assert (O' : out (sendAck t2) = out t ++ [mkF (sndNxt (SN t)) (u32 (rcvNxt (RC t) + 1)) fAck wnd []]) by (rewrite O; reflexivity).
  assert (E6 : estate (sendAck t2) = estate t) by (rewrite V6; reflexivity).
  assert (E7 : tsOk (sendAck t2) = tsOk t) by (rewrite V7; reflexivity).
  assert (E8 : sndClosedE (sendAck t2) = sndClosedE t) by (rewrite V8; reflexivity).
  assert (E1 : rcvNxt (RC (sendAck t2)) = u32 (rcvNxt (RC t) + 1)) by (rewrite V1; reflexivity).
  generalize dependent (sendAck t2). intros t3 _ _ _ _ _ _ S' O' E6 E7 E8 E1.
  cbn. rewrite S', O', E6, E7, E8, E1. repeat split; eauto.
Qed.

Definition seg_ack (r a wnd : Z) (ts tse : bool) : seg := mkSeg r a fAck wnd [] ts tse.
Definition seg_fin (r a wnd : Z) (ts tse : bool) : seg := mkSeg r a (Z.lor fAck fFin) wnd [] ts tse.

(* everything written is acknowledged and nothing is queued; rcl = the peer has already closed *)
Definition idle_state (n r : Z) (rcl : bool) (t : tcp) : Prop :=
  estate t = stConnected /\ is_u32 n /\ is_u32 r /\
  sndUna (SN t) = n /\ sndNxt (SN t) = n /\ sndNxtList (SN t) = n /\ wsent (SN t) = [] /\ wunsent (SN t) = [] /\
  sclosed (SN t) = false /\ sndClosedE t = false /\ frActive (SN t) = false /\
  outstanding (SN t) < cwnd (SN t) /\
  rcvNxt (RC t) = r /\ rclosed (RC t) = rcl /\ rcvClosedE t = rcl /\ pending (RC t) = [] /\
  maxSentAck (SN t) = r.

(* our FIN (sequence number n) is in flight *)
Definition fin_wait (n r : Z) (rcl : bool) (t : tcp) : Prop :=
  estate t = stConnected /\ is_u32 n /\ is_u32 r /\
  sndUna (SN t) = n /\ sndNxt (SN t) = add n 1 /\ sndNxtList (SN t) = add n 1 /\
  wsent (SN t) = [mkW n (Z.lor fAck fFin) []] /\ wunsent (SN t) = [] /\
  sclosed (SN t) = true /\ sndClosedE t = true /\ frActive (SN t) = false /\ tstate (SN t) = tEnabled /\
  rcvNxt (RC t) = r /\ rclosed (RC t) = rcl /\ rcvClosedE t = rcl /\ pending (RC t) = [] /\
  maxSentAck (SN t) = r.

(* our FIN has been acknowledged, the peer has not closed yet *)
Definition fin_acked (n r : Z) (t : tcp) : Prop :=
  estate t = stConnected /\ is_u32 n /\ is_u32 r /\
  sndUna (SN t) = add n 1 /\ sndNxt (SN t) = add n 1 /\ sndNxtList (SN t) = add n 1 /\
  wsent (SN t) = [] /\ wunsent (SN t) = [] /\
  sclosed (SN t) = true /\ sndClosedE t = true /\ frActive (SN t) = false /\ tstate (SN t) <> tEnabled /\
  rcvNxt (RC t) = r /\ rclosed (RC t) = false /\ rcvClosedE t = false /\ pending (RC t) = [] /\
  maxSentAck (SN t) = r.

Definition is_finack (n r : Z) (f : frame) : Prop :=
  f_seq f = n /\ f_ack f = r /\ f_flags f = Z.lor fAck fFin /\ f_data f = [].
Definition is_pure_ack (n r : Z) (f : frame) : Prop :=
  f_seq f = n /\ f_ack f = r /\ f_flags f = fAck /\ f_data f = [].

Lemma exit_cond_false_r t : rclosed (RC t) = false -> exit_cond t = false.
Proof. intros H. unfold exit_cond. rewrite H. reflexivity. Qed.
Lemma exit_cond_false_u t : (sndUna (SN t) =? sndNxtList (SN t)) = false -> exit_cond t = false.
Proof. intros H. unfold exit_cond. rewrite H. apply andb_false_r. Qed.
Lemma loopExit_closes t : exit_cond t = true -> estate t = stConnected -> loopExit t = t <| estate := stClosed |>.
Proof. intros H E. unfold loopExit. fold (exit_cond t). rewrite H, E. reflexivity. Qed.

#[local] Opaque sendData sendSegment sndHandle rcvHandle.

(* EShutW when everything is acknowledged: exactly one FIN|ACK goes out *)
Lemma shut_when_idle n r rcl t :
  idle_state n r rcl t ->
  let t' := fst (step t EShutW) in
  snd (step t EShutW) = RCount 0 /\ fin_wait n r rcl t' /\ exists f, out t' = [f] /\ is_finack n r f.
Proof.
  intros (EC & UN & UR & A1 & A2 & A3 & A4 & A5 & A6 & A7 & A8 & A9 & B1 & B2 & B3 & B4 & B5).
  unfold step. cbv zeta. unfold appShutdownWrite.
  change (estate (t <| out := [] |>)) with (estate t). change (sndClosedE (t <| out := [] |>)) with (sndClosedE t).
  rewrite EC, A7. change (negb (stConnected =? stConnected)) with false. cbv iota zeta.
  match goal with |- context [sendData ?x false] => set (t1 := x) end.
  destruct (sendData_fin t1 n) as (wnd & E & O); try (subst t1; cbn; auto; fail).
  { subst t1. cbn. rewrite A5. reflexivity. }
  cbn [fst snd]. rewrite E. clear E O.
  match goal with |- context [sendSegment ?a ?b ?c ?d] =>
    destruct (sendSegment_out a b c d) as (w2 & O2); pose proof (sendSegment_rview a b c d) as V;
    set (Y := sendSegment a b c d) in * end.
  apply rview_fields in V. destruct V as (V1 & _ & _ & _ & V5 & V6 & _ & V8 & _).
  apply rcore_fields in V1. destruct V1 as (R1 & R2 & R3 & _).
  assert (F1 : estate Y = stConnected) by (rewrite V6; subst t1; cbn; exact EC).
  assert (F2 : sndClosedE Y = true) by (rewrite V8; subst t1; reflexivity).
  assert (F3 : rcvClosedE Y = rcl) by (rewrite V5; subst t1; cbn; exact B3).
  assert (F4 : rcvNxt (RC Y) = r) by (rewrite R1; subst t1; cbn; exact B1).
  assert (F5 : rclosed (RC Y) = rcl) by (rewrite R2; subst t1; cbn; exact B2).
  assert (F6 : pending (RC Y) = []) by (rewrite R3; subst t1; cbn; exact B4).
  assert (F7 : out Y = [mkF n r (Z.lor fAck fFin) w2 []]) by (rewrite O2; subst t1; cbn; rewrite B1; reflexivity).
  clear O2 V5 V6 V8 R1 R2 R3. clearbody Y.
  match goal with |- context [loopExit ?x] => set (X := x) end.
  assert (XC : exit_cond X = false).
  { abstract (apply exit_cond_false_u; subst X t1; cbn; rewrite A1, A3; apply ne_add_succ; exact UN). }
  rewrite (loopExit_stalled _ XC). split; [abstract reflexivity|]. subst X t1. cbn [fst].
  split.
  - abstract (unfold fin_wait; cbn; rewrite F1, F2, F3, F4, F5, F6, A1, A3, A4, B1; auto 20).
  - abstract (cbn; rewrite F7; eexists; split; [reflexivity|]; unfold is_finack; cbn; auto).
Qed.

Lemma inRange_old n : is_u32 n -> inRange (u32 (n - 1)) n (add n 1) = false.
Proof. intros. apply Z.ltb_ge. word. Qed.
Lemma exit_cond_false_s t : sclosed (SN t) = false -> exit_cond t = false.
Proof. intros H. unfold exit_cond. rewrite H. rewrite andb_false_r. reflexivity. Qed.
Lemma u32_u32 x : is_u32 (u32 x).
Proof. word. Qed.

Lemma fin_wait_intro n r rcl t :
  estate t = stConnected -> is_u32 n -> is_u32 r ->
  sndUna (SN t) = n -> sndNxt (SN t) = add n 1 -> sndNxtList (SN t) = add n 1 ->
  wsent (SN t) = [mkW n (Z.lor fAck fFin) []] -> wunsent (SN t) = [] ->
  sclosed (SN t) = true -> sndClosedE t = true -> frActive (SN t) = false -> tstate (SN t) = tEnabled ->
  rcvNxt (RC t) = r -> rclosed (RC t) = rcl -> rcvClosedE t = rcl -> pending (RC t) = [] ->
  maxSentAck (SN t) = r -> fin_wait n r rcl t.
Proof. intros. unfold fin_wait. auto 20. Qed.
Lemma idle_state_intro n r rcl t :
  estate t = stConnected -> is_u32 n -> is_u32 r ->
  sndUna (SN t) = n -> sndNxt (SN t) = n -> sndNxtList (SN t) = n -> wsent (SN t) = [] -> wunsent (SN t) = [] ->
  sclosed (SN t) = false -> sndClosedE t = false -> frActive (SN t) = false ->
  outstanding (SN t) < cwnd (SN t) ->
  rcvNxt (RC t) = r -> rclosed (RC t) = rcl -> rcvClosedE t = rcl -> pending (RC t) = [] ->
  maxSentAck (SN t) = r -> idle_state n r rcl t.
Proof. intros. unfold idle_state. auto 20. Qed.

(* the acknowledgment of our FIN, peer still open *)
Lemma ack_of_fin n r t wnd ts tse nr :
  fin_wait n r false t -> out t = [] -> (tsOk t && negb ts) = false ->
  let t' := handleSegment t (seg_ack r (add n 1) wnd ts tse) nr false in
  fin_acked n r t' /\ out t' = [].
Proof.
  intros (EC & UN & UR & A1 & A2 & A3 & A4 & A5 & A6 & A7 & A8 & A9 & B1 & B2 & B3 & B4 & B5) OU TS. cbv zeta.
  rewrite handleSegment_ack_path; auto.
  rewrite (rcvHandle_pure t) by (cbn; auto; rewrite B1; auto).
  destruct (sndHandle_finack t (seg_ack r (add n 1) wnd ts tse) (u32 (Z.shiftl wnd (sndWndScale (SN t)))) nr n)
    as (s' & E & C1 & C2 & C3 & C4 & C5 & C6 & C7 & C8 & C9); auto.
  cbn [s_wnd seg_ack]. rewrite E. unfold maybeAck. cbn [RC SN set]. cbn.
  rewrite C9, B1, B5, Z.eqb_refl. cbn [negb].
  rewrite loopExit_stalled by (apply exit_cond_false_r; exact B2).
  abstract (unfold fin_acked; cbn; rewrite C3, A3; repeat split; auto; try congruence; try apply UN; try apply UR).
Qed.

(* the peer's FIN (acknowledging ours) after our FIN has been acknowledged: the connection is done *)
Lemma peer_fin_completes n r t wnd ts tse nr :
  fin_acked n r t -> out t = [] -> (tsOk t && negb ts) = false ->
  let t' := handleSegment t (seg_fin r (add n 1) wnd ts tse) nr false in
  estate t' = stClosed /\ exists f, out t' = [f] /\ is_pure_ack (add n 1) (u32 (r + 1)) f.
Proof.
  intros (EC & UN & UR & A1 & A2 & A3 & A4 & A5 & A6 & A7 & A8 & A9 & B1 & B2 & B3 & B4 & B5) OU TS. cbv zeta.
  rewrite handleSegment_ack_path; auto.
  rewrite (rcvHandle_fin t) by (cbn; auto; rewrite B1; auto).
  destruct (fin_consumed_facts t) as (S & (w & O) & R1 & R2 & R3 & R4 & R5 & R6 & R7).
  set (Y := fin_consumed t) in *. clearbody Y.
  destruct (sndHandle_quiet Y (seg_fin r (add n 1) wnd ts tse) (u32 (Z.shiftl wnd (sndWndScale (SN t)))) nr)
    as (s' & E & C1 & C2 & C3 & C4 & C5 & C6 & C7 & C8 & C9 & _); try (rewrite S; cbn; auto; fail).
  { rewrite S. cbn. rewrite A1, A2. apply inRange_empty. }
  { right. rewrite S. cbn. congruence. }
  cbn [s_wnd seg_fin]. rewrite E. clear E. unfold maybeAck. cbn [RC SN set]. cbn.
  rewrite C9, S, R3. cbn. rewrite Z.eqb_refl. cbn [negb].
  rewrite loopExit_closes.
  - cbn. split; [reflexivity|]. rewrite O, OU. cbn. rewrite A2, B1. eexists. split; [reflexivity|].
    unfold is_pure_ack. cbn. auto.
  - unfold exit_cond. cbn. rewrite R1, C6, C1, C3, S. cbn. rewrite A6, A1, A3, Z.eqb_refl. reflexivity.
  - cbn. rewrite R5. exact EC.
Qed.

(* the peer's FIN arrives while ours is still unacknowledged (simultaneous close) *)
Lemma peer_fin_crosses n r t wnd ts tse nr :
  fin_wait n r false t -> out t = [] -> (tsOk t && negb ts) = false ->
  let t' := handleSegment t (seg_fin r n wnd ts tse) nr false in
  fin_wait n (u32 (r + 1)) true t' /\ exists f, out t' = [f] /\ is_pure_ack (add n 1) (u32 (r + 1)) f.
Proof.
  intros (EC & UN & UR & A1 & A2 & A3 & A4 & A5 & A6 & A7 & A8 & A9 & B1 & B2 & B3 & B4 & B5) OU TS. cbv zeta.
  rewrite handleSegment_ack_path; auto.
  rewrite (rcvHandle_fin t) by (cbn; auto; rewrite B1; auto).
  destruct (fin_consumed_facts t) as (S & (w & O) & R1 & R2 & R3 & R4 & R5 & R6 & R7).
  set (Y := fin_consumed t) in *. clearbody Y.
  destruct (sndHandle_quiet Y (seg_fin r n wnd ts tse) (u32 (Z.shiftl wnd (sndWndScale (SN t)))) nr)
    as (s' & E & C1 & C2 & C3 & C4 & C5 & C6 & C7 & C8 & C9 & _); try (rewrite S; cbn; auto; fail).
  { rewrite S. cbn. rewrite A1, A2. apply inRange_old. exact UN. }
  cbn [s_wnd seg_fin]. rewrite E. clear E. unfold maybeAck. cbn [RC SN set]. cbn.
  rewrite C9, S, R3. cbn. rewrite Z.eqb_refl. cbn [negb].
  rewrite loopExit_stalled.
  2:{ apply exit_cond_false_u. cbn. rewrite C1, C3, S. cbn. rewrite A1, A3. apply ne_add_succ. exact UN. }
  split.
  - abstract (apply fin_wait_intro; cbn; rewrite ?R1, ?R2, ?R3, ?R4, ?R5, ?R7, ?C1, ?C2, ?C3, ?C4, ?C5, ?C6, ?C7, ?C8, ?C9, ?S; cbn;
      rewrite ?B1; auto; apply u32_u32).
  - cbn. rewrite O, OU. cbn. rewrite A2, B1. eexists. split; [reflexivity|]. unfold is_pure_ack. cbn. auto.
Qed.

(* the acknowledgment of our FIN when the peer has already closed: the connection is done *)
Lemma ack_of_fin_completes n r t wnd ts tse nr :
  fin_wait n r true t -> out t = [] -> (tsOk t && negb ts) = false ->
  let t' := handleSegment t (seg_ack r (add n 1) wnd ts tse) nr false in
  estate t' = stClosed /\ out t' = [].
Proof.
  intros (EC & UN & UR & A1 & A2 & A3 & A4 & A5 & A6 & A7 & A8 & A9 & B1 & B2 & B3 & B4 & B5) OU TS. cbv zeta.
  rewrite handleSegment_ack_path; auto.
  rewrite (rcvHandle_closed t) by exact B2.
  destruct (sndHandle_finack t (seg_ack r (add n 1) wnd ts tse) (u32 (Z.shiftl wnd (sndWndScale (SN t)))) nr n)
    as (s' & E & C1 & C2 & C3 & C4 & C5 & C6 & C7 & C8 & C9); auto.
  cbn [s_wnd seg_ack]. rewrite E. unfold maybeAck. cbn [RC SN set]. cbn.
  rewrite C9, B1, B5, Z.eqb_refl. cbn [negb].
  rewrite loopExit_closes; [cbn; auto| |exact EC].
  unfold exit_cond. cbn. rewrite B2, C6, C1, C3, A6, A3, Z.eqb_refl. reflexivity.
Qed.

(* the peer's FIN also acknowledges ours: both directions complete in one step *)
Lemma peer_fin_acks_ours n r t wnd ts tse nr :
  fin_wait n r false t -> out t = [] -> (tsOk t && negb ts) = false ->
  let t' := handleSegment t (seg_fin r (add n 1) wnd ts tse) nr false in
  estate t' = stClosed /\ exists f, out t' = [f] /\ is_pure_ack (add n 1) (u32 (r + 1)) f.
Proof.
  intros (EC & UN & UR & A1 & A2 & A3 & A4 & A5 & A6 & A7 & A8 & A9 & B1 & B2 & B3 & B4 & B5) OU TS. cbv zeta.
  rewrite handleSegment_ack_path; auto.
  rewrite (rcvHandle_fin t) by (cbn; auto; rewrite B1; auto).
  destruct (fin_consumed_facts t) as (S & (w & O) & R1 & R2 & R3 & R4 & R5 & R6 & R7).
  set (Y := fin_consumed t) in *. clearbody Y.
  destruct (sndHandle_finack Y (seg_fin r (add n 1) wnd ts tse) (u32 (Z.shiftl wnd (sndWndScale (SN t)))) nr n)
    as (s' & E & C1 & C2 & C3 & C4 & C5 & C6 & C7 & C8 & C9); try (rewrite S; cbn; auto; fail); auto.
  cbn [s_wnd seg_fin]. rewrite E. clear E. unfold maybeAck. cbn [RC SN set]. cbn.
  rewrite C9, S, R3. cbn. rewrite Z.eqb_refl. cbn [negb].
  rewrite loopExit_closes.
  - cbn. split; [reflexivity|]. rewrite O, OU. cbn. rewrite A2, B1. eexists. split; [reflexivity|].
    unfold is_pure_ack. cbn. auto.
  - unfold exit_cond. cbn. rewrite R1, C6, C1, C3, S. cbn. rewrite A6, A3, Z.eqb_refl. reflexivity.
  - cbn. rewrite R5. exact EC.
Qed.

(* the peer closes first *)
Lemma peer_fin_first n r t wnd ts tse nr :
  idle_state n r false t -> out t = [] -> (tsOk t && negb ts) = false ->
  let t' := handleSegment t (seg_fin r n wnd ts tse) nr false in
  idle_state n (u32 (r + 1)) true t' /\ exists f, out t' = [f] /\ is_pure_ack n (u32 (r + 1)) f.
Proof.
  intros (EC & UN & UR & A1 & A2 & A3 & A4 & A5 & A6 & A7 & A8 & A9 & B1 & B2 & B3 & B4 & B5) OU TS. cbv zeta.
  rewrite handleSegment_ack_path; auto.
  rewrite (rcvHandle_fin t) by (cbn; auto; rewrite B1; auto).
  destruct (fin_consumed_facts t) as (S & (w & O) & R1 & R2 & R3 & R4 & R5 & R6 & R7).
  set (Y := fin_consumed t) in *. clearbody Y.
  destruct (sndHandle_quiet Y (seg_fin r n wnd ts tse) (u32 (Z.shiftl wnd (sndWndScale (SN t)))) nr)
    as (s' & E & C1 & C2 & C3 & C4 & C5 & C6 & C7 & C8 & C9 & C10 & C11); try (rewrite S; cbn; auto; fail).
  { rewrite S. cbn. rewrite A1, A2. apply inRange_empty. }
  { right. rewrite S. cbn. congruence. }
  cbn [s_wnd seg_fin]. rewrite E. clear E. unfold maybeAck. cbn [RC SN set]. cbn.
  rewrite C9, S, R3. cbn. rewrite Z.eqb_refl. cbn [negb].
  rewrite loopExit_stalled.
  2:{ apply exit_cond_false_s. cbn. rewrite C6, S. cbn. exact A6. }
  split.
  - abstract (apply idle_state_intro; cbn; rewrite ?R1, ?R2, ?R3, ?R4, ?R5, ?R7, ?C1, ?C2, ?C3, ?C4, ?C5, ?C6, ?C8, ?C9, ?C10, ?C11, ?S; cbn;
      rewrite ?B1; auto; apply u32_u32).
  - cbn. rewrite O, OU. cbn. rewrite A2, B1. eexists. split; [reflexivity|]. unfold is_pure_ack. cbn. auto.
Qed.

Definition clr (t : tcp) : tcp := t <| out := [] |>.
Lemma step_tsOk t e : tsOk (fst (step t e)) = tsOk t.
Proof.
  unfold step. cbv zeta. change (tsOk t) with (tsOk (t <| out := [] |>)).
  remember (t <| out := [] |>) as t0 eqn:Et. clear Et t. rename t0 into t.
  assert (KL : forall x, tsOk (loopExit x) = tsOk x) by (intros x; apply loopExit_misc).
  assert (MA : forall x (c : bool), tsOk (if c then sendAck x else x) = tsOk x).
  { intros x c. destruct c; [|reflexivity]. pose proof (sendAck_rview x) as V. apply rview_fields in V. tauto. }
  destruct e as [sg nr|d| | |]; cbn [fst].
  - unfold handleSegment. destruct (negb (estate t =? stConnected)); [reflexivity|].
    destruct (has (s_flags sg) fRst).
    + destruct (acceptable _ _ _); [reflexivity|]. cbv zeta. rewrite KL, MA. reflexivity.
    + cbv zeta. rewrite KL, MA. destruct (has (s_flags sg) fAck); [|reflexivity]. destruct (tsOk t && _); [reflexivity|].
      pose proof (sndHandle_rview (rcvHandle t sg) sg (u32 (Z.shiftl (s_wnd sg) (sndWndScale (SN t)))) nr false) as V.
      apply rview_fields in V. destruct V as (_ & _ & _ & _ & _ & _ & V & _). rewrite V.
      pose proof (rcvHandle_sview t sg) as V2. apply sview_fields in V2. tauto.
  - unfold appWrite. destruct (estate t =? stError); [reflexivity|].
    destruct (negb (estate t =? stConnected)); [reflexivity|]. destruct (len d =? 0); [reflexivity|].
    destruct (sndClosedE t); [reflexivity|]. cbv zeta. destruct (_ <=? 0); [reflexivity|]. cbn [fst].
    match goal with |- tsOk (sendData ?x false) = _ => pose proof (sendData_rview x false) as V end.
    apply rview_fields in V. destruct V as (_ & _ & _ & _ & _ & _ & V & _). rewrite V. reflexivity.
  - unfold appRead. destruct (_ && _ && _); [reflexivity|]. destruct (rcvBufUsed t =? 0); [reflexivity|].
    destruct (rcvList t) as [|v rest]; [reflexivity|]. cbv zeta. cbn [fst].
    destruct (_ && _ && _); [|reflexivity]. rewrite KL.
    match goal with |- tsOk (nonZeroWindow ?x) = _ => pose proof (nonZeroWindow_rview x) as V end.
    apply rview_fields in V. destruct V as (_ & _ & _ & _ & _ & _ & V & _). rewrite V. reflexivity.
  - unfold appShutdownWrite. destruct (negb (estate t =? stConnected)); [reflexivity|].
    destruct (sndClosedE t); [reflexivity|]. cbv zeta. cbn [fst]. rewrite KL.
    match goal with |- context [sendData ?x false] => pose proof (sendData_rview x false) as V end.
    apply rview_fields in V. destruct V as (_ & _ & _ & _ & _ & _ & V & _). cbn. rewrite V. reflexivity.
  - destruct (negb (estate t =? stConnected)); [reflexivity|].
    pose proof (rtoExpired_rview t false) as V. destruct (rtoExpired t false) as [t1 alive]. cbn [fst] in *.
    apply rview_fields in V. destruct V as (_ & _ & _ & _ & _ & _ & V & _).
    destruct alive; cbn [fst]; [rewrite KL|cbn]; exact V.
Qed.

Lemma out_cleared t : out (clr t) = [].
Proof. reflexivity. Qed.

Lemma step_ESeg t sg nr : fst (step t (ESeg sg nr)) = handleSegment (clr t) sg nr false.
Proof. reflexivity. Qed.

(* (4a) we close first; the peer acknowledges our FIN, then sends its own *)
Theorem orderly_close_active n r t ts w1 e1 nr1 w2 e2 nr2 :
  idle_state n r false t -> (tsOk t && negb ts) = false ->
  let es := [EShutW; ESeg (seg_ack r (add n 1) w1 ts e1) nr1; ESeg (seg_fin r (add n 1) w2 ts e2) nr2] in
  estate (run t es) = stClosed /\
  exists f1 f2, run_out t es = [f1; f2] /\ is_finack n r f1 /\ is_pure_ack (add n 1) (u32 (r + 1)) f2.
Proof.
  intros I TS. cbv zeta.
  destruct (shut_when_idle n r false t I) as (_ & W1 & (f1 & O1 & F1)).
  remember (fst (step t EShutW)) as t1 eqn:Et1.
  assert (TS1 : (tsOk t1 && negb ts) = false) by (rewrite Et1, step_tsOk; exact TS).
  assert (W1' : fin_wait n r false (clr t1)) by exact W1.
  destruct (ack_of_fin n r (clr t1) w1 ts e1 nr1 W1' (out_cleared t1) TS1) as (W2 & O2).
  match type of W2 with context [handleSegment (clr ?x) ?sg ?nr false] => pose proof (step_ESeg x sg nr) as SE; rewrite <- SE in W2, O2; clear SE end. remember (fst (step t1 (ESeg (seg_ack r (add n 1) w1 ts e1) nr1))) as t2 eqn:Et2.
  assert (TS2 : (tsOk t2 && negb ts) = false) by (rewrite Et2, step_tsOk; exact TS1).
  assert (W2' : fin_acked n r (clr t2)) by exact W2.
  destruct (peer_fin_completes n r (clr t2) w2 ts e2 nr2 W2' (out_cleared t2) TS2) as (W3 & (f2 & O3 & F2)).
  match type of W3 with context [handleSegment (clr ?x) ?sg ?nr false] => pose proof (step_ESeg x sg nr) as SE; rewrite <- SE in W3, O3; clear SE end.
  rewrite !run_cons. cbn [run fold_left run_out]. rewrite <- ?Et1. rewrite <- ?Et2. split; [exact W3|].
  exists f1, f2. rewrite O1, O2, O3. auto.
Qed.

(* (4b) the peer closes first; we then shut down and the peer acknowledges our FIN *)
Theorem orderly_close_passive n r t ts w1 e1 nr1 w2 e2 nr2 :
  idle_state n r false t -> (tsOk t && negb ts) = false ->
  let es := [ESeg (seg_fin r n w1 ts e1) nr1; EShutW; ESeg (seg_ack (u32 (r + 1)) (add n 1) w2 ts e2) nr2] in
  estate (run t es) = stClosed /\
  exists f1 f2, run_out t es = [f1; f2] /\ is_pure_ack n (u32 (r + 1)) f1 /\ is_finack n (u32 (r + 1)) f2.
Proof.
  intros I TS. cbv zeta.
  assert (I' : idle_state n r false (clr t)) by exact I.
  destruct (peer_fin_first n r (clr t) w1 ts e1 nr1 I' (out_cleared t) TS) as (W1 & (f1 & O1 & F1)).
  match type of W1 with context [handleSegment (clr ?x) ?sg ?nr false] => pose proof (step_ESeg x sg nr) as SE; rewrite <- SE in W1, O1; clear SE end. remember (fst (step t (ESeg (seg_fin r n w1 ts e1) nr1))) as t1 eqn:Et1.
  assert (TS1 : (tsOk t1 && negb ts) = false) by (rewrite Et1, step_tsOk; exact TS).
  destruct (shut_when_idle n (u32 (r + 1)) true t1 W1) as (_ & W2 & (f2 & O2 & F2)).
  remember (fst (step t1 EShutW)) as t2 eqn:Et2.
  assert (TS2 : (tsOk t2 && negb ts) = false) by (rewrite Et2, step_tsOk; exact TS1).
  assert (W2' : fin_wait n (u32 (r + 1)) true (clr t2)) by exact W2.
  destruct (ack_of_fin_completes n (u32 (r + 1)) (clr t2) w2 ts e2 nr2 W2' (out_cleared t2) TS2) as (W3 & O3).
  match type of W3 with context [handleSegment (clr ?x) ?sg ?nr false] => pose proof (step_ESeg x sg nr) as SE; rewrite <- SE in W3, O3; clear SE end.
  rewrite !run_cons. cbn [run fold_left run_out]. rewrite <- ?Et1. rewrite <- ?Et2. split; [exact W3|].
  exists f1, f2. rewrite O1, O2, O3. auto.
Qed.

(* (4c) simultaneous close: both FINs cross, then the peer acknowledges ours *)
Theorem orderly_close_simultaneous n r t ts w1 e1 nr1 w2 e2 nr2 :
  idle_state n r false t -> (tsOk t && negb ts) = false ->
  let es := [EShutW; ESeg (seg_fin r n w1 ts e1) nr1; ESeg (seg_ack (u32 (r + 1)) (add n 1) w2 ts e2) nr2] in
  estate (run t es) = stClosed /\
  exists f1 f2, run_out t es = [f1; f2] /\ is_finack n r f1 /\ is_pure_ack (add n 1) (u32 (r + 1)) f2.
Proof.
  intros I TS. cbv zeta.
  destruct (shut_when_idle n r false t I) as (_ & W1 & (f1 & O1 & F1)).
  remember (fst (step t EShutW)) as t1 eqn:Et1.
  assert (TS1 : (tsOk t1 && negb ts) = false) by (rewrite Et1, step_tsOk; exact TS).
  assert (W1' : fin_wait n r false (clr t1)) by exact W1.
  destruct (peer_fin_crosses n r (clr t1) w1 ts e1 nr1 W1' (out_cleared t1) TS1) as (W2 & (f2 & O2 & F2)).
  match type of W2 with context [handleSegment (clr ?x) ?sg ?nr false] => pose proof (step_ESeg x sg nr) as SE; rewrite <- SE in W2, O2; clear SE end. remember (fst (step t1 (ESeg (seg_fin r n w1 ts e1) nr1))) as t2 eqn:Et2.
  assert (TS2 : (tsOk t2 && negb ts) = false) by (rewrite Et2, step_tsOk; exact TS1).
  assert (W2' : fin_wait n (u32 (r + 1)) true (clr t2)) by exact W2.
  destruct (ack_of_fin_completes n (u32 (r + 1)) (clr t2) w2 ts e2 nr2 W2' (out_cleared t2) TS2) as (W3 & O3).
  match type of W3 with context [handleSegment (clr ?x) ?sg ?nr false] => pose proof (step_ESeg x sg nr) as SE; rewrite <- SE in W3, O3; clear SE end.
  rewrite !run_cons. cbn [run fold_left run_out]. rewrite <- ?Et1. rewrite <- ?Et2. split; [exact W3|].
  exists f1, f2. rewrite O1, O2, O3. auto.
Qed.

(* (4d) the peer answers our FIN with a FIN that acknowledges it *)
Theorem orderly_close_fin_ack n r t ts w1 e1 nr1 :
  idle_state n r false t -> (tsOk t && negb ts) = false ->
  let es := [EShutW; ESeg (seg_fin r (add n 1) w1 ts e1) nr1] in
  estate (run t es) = stClosed /\
  exists f1 f2, run_out t es = [f1; f2] /\ is_finack n r f1 /\ is_pure_ack (add n 1) (u32 (r + 1)) f2.
Proof.
  intros I TS. cbv zeta.
  destruct (shut_when_idle n r false t I) as (_ & W1 & (f1 & O1 & F1)).
  remember (fst (step t EShutW)) as t1 eqn:Et1.
  assert (TS1 : (tsOk t1 && negb ts) = false) by (rewrite Et1, step_tsOk; exact TS).
  assert (W1' : fin_wait n r false (clr t1)) by exact W1.
  destruct (peer_fin_acks_ours n r (clr t1) w1 ts e1 nr1 W1' (out_cleared t1) TS1) as (W2 & (f2 & O2 & F2)).
  match type of W2 with context [handleSegment (clr ?x) ?sg ?nr false] => pose proof (step_ESeg x sg nr) as SE; rewrite <- SE in W2, O2; clear SE end.
  rewrite !run_cons. cbn [run fold_left run_out]. rewrite <- ?Et1. split; [exact W2|].
  exists f1, f2. rewrite O1, O2. auto.
Qed.

Example fresh_idle iss irs mp wnd : idle_state (u32 (iss + 1)) (u32 (irs + 1)) false (fresh_conn iss irs mp wnd).
Proof.
  apply idle_state_intro; try reflexivity; try apply u32_u32.
Qed.

(* a non-trivial instance: 30 bytes written, sent and acknowledged, then the closing exchange *)
Definition after_transfer : tcp :=
  run (fresh_conn 1000 5000 1460 30000)
      [EWrite (repeat 7 30); ESeg (mkSeg 5001 1031 fAck 30000 [] false false) 300000000].
Example idle_after_transfer : idle_state 1031 5001 false after_transfer.
Proof. apply idle_state_intro; try (vm_compute; reflexivity); vm_compute; (split; [discriminate|reflexivity]). Qed.
Example close_after_transfer :
  estate (run after_transfer [EShutW; ESeg (seg_ack 5001 1032 30000 false false) 300000000;
                              ESeg (seg_fin 5001 1032 30000 false false) 300000000]) = stClosed.
Proof. vm_compute. reflexivity. Qed.
