(* Lemmas about Model/TcpHs.v: handshake discipline, resets for strays, SYN-cookie algebra. *)
From Coq Require Import ZArith List Bool Lia.
From NP Require Import Model.Seqnum Model.TcpHs Proofs.SeqnumP.
Import ListNotations.
Open Scope Z_scope.

Definition st_of (r : hstate * list hframe * Z) : hstate := fst (fst r).
Definition fr_of (r : hstate * list hframe * Z) : list hframe := snd (fst r).
Definition err_of (r : hstate * list hframe * Z) : Z := snd r.

(* the reset the property asks for: RST|ACK, sequence number = the offending acknowledgement number
   (0 if the segment carried no ACK), acknowledging the segment *)
Definition reset_for (s : hseg) : hframe :=
  mkHF (Z.lor fRst fAck) (if has (hs_flags s) fAck then hs_ack s else 0) (add (hs_seq s) (hlogicalLen s)) 0 None.

Ltac dbool :=
  repeat match goal with
         | |- context [if ?b then _ else _] => let E := fresh "E" in destruct b eqn:E; cbn [negb andb orb fst snd st_of fr_of err_of h_state setState] in *
         end.

(* ---------------------------------------------------------------- active open *)
Lemma synSent_completes_iff h s ni :
  h_state h = stSynSent ->
  (h_state (st_of (hsHandle h s ni)) = stCompleted <->
   has (hs_flags s) fRst = false /\ has (hs_flags s) fSyn = true /\ has (hs_flags s) fAck = true
   /\ hs_ack s = u32 (h_iss h + 1)).
Proof.
  intros Hst. unfold hsHandle, st_of. cbn [h_state]. rewrite Hst. cbn [Z.eqb stSynSent stSynRcvd Pos.eqb].
  unfold synSentState, checkAck. cbn [h_iss h_state].
  destruct (has (hs_flags s) fRst) eqn:ER.
  - dbool; cbn; rewrite ?Hst; split; intros H; try discriminate; destruct H as (H & _); discriminate.
  - destruct (has (hs_flags s) fAck) eqn:EA; destruct (Z.eqb_spec (hs_ack s) (u32 (h_iss h + 1))) as [EQ|NE];
      cbn [negb andb fst snd]; destruct (has (hs_flags s) fSyn) eqn:ES; cbn [negb andb fst snd h_state setState];
      rewrite ?Hst; split; intros H; try discriminate; try reflexivity; try tauto;
      try (repeat split; assumption);
      try (destruct H as (_ & H1 & H2 & H3); congruence).
Qed.

(* hsHandle = window bookkeeping, then the state's handler *)
Definition updWnd (h : hstate) (s : hseg) : hstate :=
  mkH (h_state h) (h_active h) (h_flags h) (h_ackNum h) (h_iss h) (h_rcvWnd h)
      (if negb (has (hs_flags s) fSyn) && (0 <? h_sndWndScale h)
       then u32 (Z.shiftl (hs_wnd s) (h_sndWndScale h)) else hs_wnd s)
      (h_mss h) (h_sndWndScale h) (h_rcvWndScale h) (h_tsOk h) (h_sack h) (h_stackSack h) (h_mtuMss h).

Lemma hsHandle_sent h s ni : h_state h = stSynSent -> hsHandle h s ni = synSentState (updWnd h s) s.
Proof. intros H. unfold hsHandle, updWnd. cbn [h_state]. rewrite H. reflexivity. Qed.
Lemma hsHandle_rcvd h s ni : h_state h = stSynRcvd -> hsHandle h s ni = synRcvdState (updWnd h s) s ni.
Proof. intros H. unfold hsHandle, updWnd. cbn [h_state]. rewrite H. reflexivity. Qed.
Lemma hsHandle_done h s ni : h_state h = stCompleted -> hsHandle h s ni = (updWnd h s, [], 0).
Proof. intros H. unfold hsHandle, updWnd. cbn [h_state]. rewrite H. reflexivity. Qed.

(* a handshake segment (no RST) whose ACK acknowledges anything else than our SYN: exactly one
   reset whose sequence number is that acknowledgement number, no state change, no error *)
Lemma wrong_ack_reset h s ni :
  (h_state h = stSynSent \/ h_state h = stSynRcvd) ->
  has (hs_flags s) fRst = false -> has (hs_flags s) fAck = true -> hs_ack s <> u32 (h_iss h + 1) ->
  fr_of (hsHandle h s ni) = [reset_for s] /\ err_of (hsHandle h s ni) = 0 /\
  h_state (st_of (hsHandle h s ni)) = h_state h /\ h_iss (st_of (hsHandle h s ni)) = h_iss h /\
  h_ackNum (st_of (hsHandle h s ni)) = h_ackNum h.
Proof.
  intros Hst ER EA NE.
  assert (Hneq : (hs_ack s =? u32 (h_iss h + 1)) = false) by (apply Z.eqb_neq; exact NE).
  destruct Hst as [Hst|Hst].
  - rewrite (hsHandle_sent h s ni Hst). unfold synSentState, checkAck, st_of, fr_of, err_of, reset_for, updWnd.
    cbn [h_iss h_state h_ackNum]. rewrite ER, EA, Hneq. cbn. rewrite ?EA. repeat split; reflexivity.
  - rewrite (hsHandle_rcvd h s ni Hst). unfold synRcvdState, checkAck, st_of, fr_of, err_of, reset_for, updWnd.
    cbn [h_iss h_state h_ackNum]. rewrite ER, EA, Hneq. cbn. rewrite ?EA. repeat split; reflexivity.
Qed.

(* ---------------------------------------------------------------- passive open (SYN-RCVD) *)
Lemma synRcvd_completes_iff h s ni :
  h_state h = stSynRcvd ->
  (h_state (st_of (hsHandle h s ni)) = stCompleted <->
   has (hs_flags s) fRst = false /\ has (hs_flags s) fAck = true /\ hs_ack s = u32 (h_iss h + 1)
   /\ (has (hs_flags s) fSyn = true -> hs_seq s = u32 (h_ackNum h - 1))
   /\ (h_tsOk h = true -> hs_hasts s = true)).
Proof.
  intros Hst. rewrite (hsHandle_rcvd h s ni Hst). unfold synRcvdState, checkAck, st_of, updWnd.
  cbn [h_iss h_state h_ackNum h_rcvWnd h_tsOk h_active].
  destruct (has (hs_flags s) fRst) eqn:ER.
  - destruct (inWindow (hs_seq s) (h_ackNum h) (h_rcvWnd h)); cbn [fst snd h_state]; rewrite Hst;
      split; intros H; try discriminate; destruct H as (H & _); discriminate.
  - destruct (has (hs_flags s) fAck) eqn:EA; destruct (Z.eqb_spec (hs_ack s) (u32 (h_iss h + 1))) as [EQ|NE];
      cbn [negb andb fst snd h_state].
    + (* ACK, right number *)
      destruct (has (hs_flags s) fSyn) eqn:ES; destruct (Z.eqb_spec (hs_seq s) (u32 (h_ackNum h - 1))) as [EQ2|NE2];
        cbn [negb andb fst snd h_state].
      * destruct (h_tsOk h) eqn:ET; destruct (hs_hasts s) eqn:EH; cbn [negb andb fst snd h_state setState]; rewrite ?Hst;
          split; intros H; try discriminate; try reflexivity; try (repeat split; auto; fail);
          destruct H as (_ & _ & _ & _ & H); specialize (H eq_refl); discriminate.
      * destruct (h_active h); cbn [fst snd h_state]; rewrite ?Hst; split; intros H; try discriminate;
          destruct H as (_ & _ & _ & H & _); specialize (H eq_refl); contradiction.
      * destruct (h_tsOk h) eqn:ET; destruct (hs_hasts s) eqn:EH; cbn [negb andb fst snd h_state setState]; rewrite ?Hst;
          split; intros H; try discriminate; try reflexivity; try (repeat split; auto; intros; discriminate);
          destruct H as (_ & _ & _ & _ & H); specialize (H eq_refl); discriminate.
      * destruct (h_tsOk h) eqn:ET; destruct (hs_hasts s) eqn:EH; cbn [negb andb fst snd h_state setState]; rewrite ?Hst;
          split; intros H; try discriminate; try reflexivity; try (repeat split; auto; intros; discriminate);
          destruct H as (_ & _ & _ & _ & H); specialize (H eq_refl); discriminate.
    + rewrite Hst. split; intros H; try discriminate. destruct H as (_ & _ & H & _). contradiction.
    + (* no ACK *)
      destruct (has (hs_flags s) fSyn) eqn:ES; destruct (Z.eqb_spec (hs_seq s) (u32 (h_ackNum h - 1))) as [EQ2|NE2];
        cbn [negb andb fst snd h_state]; try (destruct (h_active h)); cbn [fst snd h_state]; rewrite ?Hst;
        split; intros H; try discriminate; destruct H as (_ & H & _); discriminate.
    + destruct (has (hs_flags s) fSyn) eqn:ES; destruct (Z.eqb_spec (hs_seq s) (u32 (h_ackNum h - 1))) as [EQ2|NE2];
        cbn [negb andb fst snd h_state]; try (destruct (h_active h)); cbn [fst snd h_state]; rewrite ?Hst;
        split; intros H; try discriminate; destruct H as (_ & H & _); discriminate.
Qed.

(* ---------------------------------------------------------------- one step, any state *)
Lemma complete_needs_ack_step h s ni :
  h_state h <> stCompleted -> h_state (st_of (hsHandle h s ni)) = stCompleted ->
  has (hs_flags s) fRst = false /\ has (hs_flags s) fAck = true /\ hs_ack s = u32 (h_iss h + 1).
Proof.
  intros Hn Hc.
  destruct (Z.eqb_spec (h_state h) stSynSent) as [E0|N0].
  - apply (synSent_completes_iff h s ni E0) in Hc. tauto.
  - destruct (Z.eqb_spec (h_state h) stSynRcvd) as [E1|N1].
    + apply (synRcvd_completes_iff h s ni E1) in Hc. tauto.
    + exfalso. apply Hn. revert Hc. unfold hsHandle, st_of. cbn [h_state].
      apply Z.eqb_neq in N0, N1. rewrite N0, N1. cbn [fst h_state]. tauto.
Qed.

Lemma iss_after_step h s ni :
  h_iss (st_of (hsHandle h s ni)) = h_iss h \/ h_iss (st_of (hsHandle h s ni)) = ni.
Proof.
  destruct (Z.eqb_spec (h_state h) stSynRcvd) as [E1|N1].
  - rewrite (hsHandle_rcvd h s ni E1). unfold synRcvdState, checkAck, st_of, updWnd. cbn [h_iss h_state h_ackNum h_rcvWnd h_tsOk h_active].
    dbool; cbn [fst snd h_iss setState]; auto.
  - destruct (Z.eqb_spec (h_state h) stSynSent) as [E0|N0].
    + rewrite (hsHandle_sent h s ni E0). unfold synSentState, checkAck, enableOpts, st_of, updWnd. cbn [h_iss h_state h_ackNum h_rcvWnd h_tsOk h_active].
      dbool; cbn [fst snd h_iss setState]; auto.
    + left. unfold hsHandle, st_of. cbn [h_state]. apply Z.eqb_neq in N0, N1. rewrite N0, N1. reflexivity.
Qed.

(* ---------------------------------------------------------------- whole histories *)
(* whatever segments arrive in whatever order, the handshake completes only if one of them (not
   a RST) acknowledged exactly ISS+1 for an ISS the stack was using (the initial one, or the one
   drawn by a restart) *)
Lemma hsRun_completes_needs_ack ss : forall h,
  h_state h <> stCompleted -> h_state (st_of (hsRun h ss)) = stCompleted ->
  exists s iss', In s (map fst ss) /\ In iss' (h_iss h :: map snd ss) /\
    has (hs_flags s) fRst = false /\ has (hs_flags s) fAck = true /\ hs_ack s = u32 (iss' + 1).
Proof.
  induction ss as [|[s ni] rest IH]; intros h Hn Hc.
  - cbn in Hc. contradiction.
  - cbn [hsRun] in Hc. apply Z.eqb_neq in Hn as Hn'. rewrite Hn' in Hc.
    destruct (hsHandle h s ni) as [[h1 fr] err] eqn:EH.
    assert (Hst1 : st_of (hsHandle h s ni) = h1) by (rewrite EH; reflexivity).
    destruct (Z.eqb_spec (h_state h1) stCompleted) as [C1|NC1].
    + exists s, (h_iss h). pose proof (complete_needs_ack_step h s ni Hn) as Hk. rewrite Hst1 in Hk.
      specialize (Hk C1). cbn [map fst snd In]. tauto.
    + assert (Hc' : h_state (st_of (hsRun h1 rest)) = stCompleted).
      { destruct (negb (err =? 0)).
        - cbn [st_of fst] in Hc. contradiction.
        - destruct (hsRun h1 rest) as [[h2 fr2] err2]. cbn [st_of fst] in *. exact Hc. }
      destruct (IH h1 NC1 Hc') as (s' & iss' & Hin & Hiss & Hr & Ha & Hk).
      exists s', iss'. cbn [map fst snd]. split; [right; exact Hin|]. split; [|tauto].
      destruct Hiss as [Hiss|Hiss].
      * pose proof (iss_after_step h s ni) as Hi. rewrite Hst1 in Hi. cbn [In]. destruct Hi as [Hi|Hi]; rewrite <- Hiss, Hi; auto.
      * cbn [In]. auto.
Qed.

(* a passive handshake never restarts: the ISS is the one in the SYN-ACK *)
Lemma passive_iss_const h s ni : h_active h = false -> h_state h = stSynRcvd ->
  let h1 := st_of (hsHandle h s ni) in
  h_iss h1 = h_iss h /\ h_active h1 = false /\ (h_state h1 = stSynRcvd \/ h_state h1 = stCompleted).
Proof.
  intros Ha Hs. rewrite (hsHandle_rcvd h s ni Hs). unfold synRcvdState, checkAck, st_of, updWnd.
  cbn [h_iss h_state h_ackNum h_rcvWnd h_tsOk h_active]. rewrite Ha, Hs.
  dbool; cbn [fst snd h_iss h_active h_state setState]; auto.
Qed.

Lemma hsRun_passive_completes ss : forall h,
  h_active h = false -> h_state h = stSynRcvd -> h_state (st_of (hsRun h ss)) = stCompleted ->
  exists s, In s (map fst ss) /\ has (hs_flags s) fRst = false /\ has (hs_flags s) fAck = true
            /\ hs_ack s = u32 (h_iss h + 1).
Proof.
  induction ss as [|[s ni] rest IH]; intros h Ha Hs Hc.
  - cbn in Hc. rewrite Hs in Hc. discriminate.
  - cbn [hsRun] in Hc. rewrite Hs in Hc. cbn [Z.eqb stSynRcvd stCompleted Pos.eqb] in Hc.
    destruct (hsHandle h s ni) as [[h1 fr] err] eqn:EH.
    assert (Hst1 : st_of (hsHandle h s ni) = h1) by (rewrite EH; reflexivity).
    pose proof (passive_iss_const h s ni Ha Hs) as (Hi & Ha1 & Hs1). rewrite Hst1 in Hi, Ha1, Hs1.
    destruct Hs1 as [Hs1|Hs1].
    + assert (Hc' : h_state (st_of (hsRun h1 rest)) = stCompleted).
      { destruct (negb (err =? 0)).
        - cbn [st_of fst] in Hc. rewrite Hs1 in Hc. discriminate.
        - destruct (hsRun h1 rest) as [[h2 fr2] err2]. cbn [st_of fst] in *. exact Hc. }
      destruct (IH h1 Ha1 Hs1 Hc') as (s' & Hin & Hr & Hk & He).
      exists s'. cbn [map fst]. rewrite Hi in He. split; [right; exact Hin|tauto].
    + exists s. assert (Hn : h_state h <> stCompleted) by (rewrite Hs; discriminate).
      pose proof (complete_needs_ack_step h s ni Hn) as Hk. rewrite Hst1 in Hk. specialize (Hk Hs1).
      cbn [map fst In]. tauto.
Qed.

(* ---------------------------------------------------------------- no socket *)
Lemma unknown_rst_never_answered s : has (hs_flags s) fRst = true -> unknownDestination s = [].
Proof. intros H. unfold unknownDestination. rewrite H. reflexivity. Qed.

Lemma unknown_one_reset s : has (hs_flags s) fRst = false ->
  unknownDestination s = [reset_for s].
Proof. intros H. unfold unknownDestination. rewrite H. reflexivity. Qed.

Lemma reset_for_fields s :
  hf_flags (reset_for s) = 20 /\ hf_wnd (reset_for s) = 0 /\
  hf_seq (reset_for s) = (if has (hs_flags s) fAck then hs_ack s else 0) /\
  hf_ack (reset_for s) = (hs_seq s + hs_len s + (if has (hs_flags s) fSyn then 1 else 0)
                          + (if has (hs_flags s) fFin then 1 else 0)) mod 2^32.
Proof.
  unfold reset_for, add, hlogicalLen, u32. cbn [hf_flags hf_wnd hf_seq hf_ack]. repeat split.
  rewrite Zplus_mod_idemp_r. f_equal. lia.
Qed.

(* ---------------------------------------------------------------- SYN cookies: 32-bit algebra over an abstract hash *)
Lemma land_hashMask x : Z.land x hashMask = x mod 2^24.
Proof. change hashMask with (Z.ones 24). apply Z.land_ones. lia. Qed.
Lemma land_tsMask x : Z.land x tsMask = x mod 2^8.
Proof. change tsMask with (Z.ones 8). apply Z.land_ones. lia. Qed.
Lemma shiftr_tsOffset x : Z.shiftr x tsOffset = x / 2^24.
Proof. unfold tsOffset. apply Z.shiftr_div_pow2. lia. Qed.
Lemma shiftl_tsOffset x : Z.shiftl x tsOffset = x * 2^24.
Proof. unfold tsOffset. apply Z.shiftl_mul_pow2. lia. Qed.

Ltac cookie_norm :=
  unfold createCookie, isCookieValid, u32, maxTSDiff in *;
  rewrite ?land_hashMask, ?land_tsMask, ?shiftr_tsOffset, ?shiftl_tsOffset in *;
  change (2^32) with 4294967296 in *; change (2^24) with 16777216 in *; change (2^8) with 256 in *.

Section CookieP.
  Variable H : Z -> Z -> Z.

  (* what the decoder extracts from a cookie *)
  Lemma cookie_decode ts seq data :
    0 <= ts < 256 -> 0 <= data < 2^24 ->
    let v := u32 (createCookie H ts seq data - H 0 0 - seq) in
    Z.shiftr v tsOffset = ts /\ Z.land (u32 (v - H ts 1)) hashMask = data.
  Proof.
    intros Hts Hd. cbv zeta. cookie_norm. split; Z.div_mod_to_equations; lia.
  Qed.

  (* a cookie created in slot ts is valid in slots ts, ts+1, ts+2 (mod 256) and yields its data *)
  Lemma cookie_roundtrip ts ts' seq data :
    0 <= ts < 256 -> 0 <= data < 2^24 -> Z.land (u32 (ts' - ts)) tsMask <= maxTSDiff ->
    isCookieValid H ts' (createCookie H ts seq data) seq = Some data.
  Proof.
    intros Hts Hd Hdiff. pose proof (cookie_decode ts seq data Hts Hd) as [E1 E2]. cbv zeta in E1, E2.
    unfold isCookieValid. rewrite E1.
    destruct (Z.ltb_spec maxTSDiff (Z.land (u32 (ts' - ts)) tsMask)) as [L|L]; [lia|].
    rewrite E2. reflexivity.
  Qed.

  (* the decoder accepts exactly the cookies createCookie can produce for this peer sequence number in
     one of the three most recent time slots *)
  Lemma cookie_valid_only c ts' seq d :
    isCookieValid H ts' c seq = Some d ->
    exists cts, 0 <= cts < 256 /\ Z.land (u32 (ts' - cts)) tsMask <= maxTSDiff /\ 0 <= d < 2^24 /\
                u32 c = createCookie H cts seq d.
  Proof.
    unfold isCookieValid. set (v := u32 (c - H 0 0 - seq)). set (cts := Z.shiftr v tsOffset).
    destruct (Z.ltb_spec maxTSDiff (Z.land (u32 (ts' - cts)) tsMask)) as [L|L]; [discriminate|].
    intros E. injection E as E. exists cts. subst d.
    assert (Hv : 0 <= v < 2^32) by (unfold v, u32; apply Z.mod_pos_bound; lia).
    assert (Hc : 0 <= cts < 256).
    { unfold cts. rewrite shiftr_tsOffset. change (2^24) with 16777216. change (2^32) with 4294967296 in Hv.
      Z.div_mod_to_equations. lia. }
    split; [exact Hc|]. split; [exact L|]. split.
    - rewrite land_hashMask. apply Z.mod_pos_bound. lia.
    - unfold cts, v in *. clear L. cookie_norm. Z.div_mod_to_equations. lia.
  Qed.

  Lemma cookie_valid_iff c ts' seq d : 0 <= c < 2^32 ->
    (isCookieValid H ts' c seq = Some d <->
     exists cts, 0 <= cts < 256 /\ Z.land (u32 (ts' - cts)) tsMask <= maxTSDiff /\ 0 <= d < 2^24 /\
                 c = createCookie H cts seq d).
  Proof.
    intros Hc. split.
    - intros E. destruct (cookie_valid_only c ts' seq d E) as (cts & A & B & C & D).
      exists cts. repeat split; try tauto. rewrite <- D. unfold u32. symmetry. apply Z.mod_small. exact Hc.
    - intros (cts & A & B & C & D). subst c. apply cookie_roundtrip; assumption.
  Qed.

  (* the listener: what creates a connection *)
  Lemma listen_accept_only cm ts rcvWnd mtuMss s iss irs mss t :
    listenHandle H cm ts rcvWnd mtuMss s = LAccept iss irs mss t ->
    hs_flags s = fAck /\ iss = u32 (hs_ack s - 1) /\ irs = u32 (hs_seq s - 1) /\
    exists d, isCookieValid H ts iss irs = Some d /\ 0 <= d < 4 /\ mss = nth (Z.to_nat d) mssTable 0.
  Proof.
    unfold listenHandle. destruct (Z.eqb_spec (hs_flags s) fSyn) as [E|NE].
    - destruct (negb cm); discriminate.
    - destruct (Z.eqb_spec (hs_flags s) fAck) as [EA|NA]; [|discriminate].
      destruct (isCookieValid H ts (u32 (hs_ack s - 1)) (u32 (hs_seq s - 1))) as [d|] eqn:EV; [|discriminate].
      destruct (Z.ltb_spec d 4) as [L|L]; [|discriminate].
      intros E. injection E as <- <- <- <-. repeat split; try assumption.
      exists d. split; [exact EV|]. split; [|reflexivity].
      apply cookie_valid_only in EV. destruct EV as (_ & _ & _ & D & _). lia.
  Qed.

  Lemma listen_other_flags_ignored cm ts rcvWnd mtuMss s :
    hs_flags s <> fSyn -> hs_flags s <> fAck -> listenHandle H cm ts rcvWnd mtuMss s = LIgnore.
  Proof.
    intros A B. unfold listenHandle. apply Z.eqb_neq in A, B. rewrite A, B. reflexivity.
  Qed.

  (* in cookie mode the SYN-ACK acknowledges the SYN and carries the cookie as its sequence number *)
  Lemma listen_syn_cookie ts rcvWnd mtuMss s :
    hs_flags s = fSyn ->
    exists f, listenHandle H true ts rcvWnd mtuMss s = LCookieSynAck f /\
              hf_flags f = Z.lor fSyn fAck /\ hf_ack f = u32 (hs_seq s + 1) /\
              hf_seq f = createCookie H ts (hs_seq s) (encodeMSS (so_mss (hs_opts s))).
  Proof.
    intros E. unfold listenHandle. rewrite E. cbn [Z.eqb fSyn Pos.eqb negb]. eexists. split; [reflexivity|].
    cbn [hf_flags hf_ack hf_seq]. auto.
  Qed.
End CookieP.

(* an acknowledgement of cookie+2 instead of cookie+1 is accepted when the SYN's MSS class was 0:
   the low bits of the cookie carry the MSS class, so neighbouring values decode to other classes *)
Lemma cookie_lowbits_refuted :
  exists (H : Z -> Z -> Z) ts seq c', 
    c' <> createCookie H ts seq 0 /\ isCookieValid H ts c' seq = Some 1.
Proof.
  exists (fun _ _ => 0), 5, 1000, (createCookie (fun _ _ => 0) 5 1000 0 + 1). split.
  - lia.
  - vm_compute. reflexivity.
Qed.
