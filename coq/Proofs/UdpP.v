(* Lemmas about Model/Udp.v (protocol/transport/udp/endpoint.go). *)
From Coq Require Import ZArith List Bool Lia ZifyBool.
From NP Require Import Model.Bytes Model.Checksum Model.HdrTransport Model.Udp.
From NP Require Import Proofs.BytesP Proofs.ChecksumP.
Import ListNotations.
Open Scope Z_scope.

(* ===================================================================== header reads *)

Lemma nth_error_nth_lt {A} (l : list A) i d : (i < length l)%nat -> nth_error l i = Some (nth i l d).
Proof. revert i. induction l as [|x l IH]; intros [|i] H; cbn in *; try lia; [reflexivity|apply IH; lia]. Qed.

Lemma nth_firstn {A} (l : list A) : forall n i d, (i < n)%nat -> nth i (firstn n l) d = nth i l d.
Proof.
  induction l as [|x l IH]; intros [|n] [|i] d H; cbn; try reflexivity; try lia. apply IH. lia.
Qed.

Lemma get16_firstn first vv i :
  (i + 2 <= first)%nat -> (first <= length vv)%nat ->
  get16 (firstn first vv) i = Some (nth i vv 0 * 256 + nth (S i) vv 0).
Proof.
  intros Hi Hf. unfold get16, obind.
  assert (L : length (firstn first vv) = first) by (rewrite firstn_length; lia).
  rewrite (nth_error_nth_lt _ i 0), (nth_error_nth_lt _ (S i) 0) by lia.
  rewrite !nth_firstn by lia. reflexivity.
Qed.

Lemma len_nonneg b : 0 <= len b.
Proof. unfold len. lia. Qed.

(* CapLength then TrimFront = the bytes 8 .. Length-1 *)
Lemma cap_trim_payload (vv : list Z) (n : Z) :
  8 <= n -> skipn (Z.to_nat 8) (firstn (Z.to_nat n) vv) = firstn (Z.to_nat n - 8) (skipn 8 vv).
Proof.
  intros Hn. change (Z.to_nat 8) with 8%nat.
  rewrite firstn_skipn_comm. f_equal. f_equal. lia.
Qed.

(* ===================================================================== HandlePacket *)

Definition accept_cond (e : endpoint) (vv : list Z) : bool :=
  rcvReady e && negb (rcvClosed e) && (rcvBufSize e <? rcvBufSizeMax e) && length_ok vv.

(* HandlePacket, closed form: with the view the stack guarantees it never panics; it either leaves
   the endpoint exactly as it was or appends ONE packet = (NIC, network source, header source port,
   bytes 8..Length-1) and adds that payload's size *)
Lemma handlePacket_spec e nic remote first vv :
  (8 <= first <= length vv)%nat ->
  handlePacket e nic remote first vv =
  Some (if accept_cond e vv
        then set_rcv e (rcvList e ++ [mkPkt (mkFA nic remote (f_sport vv)) (f_payload vv)])
                     (rcvBufSize e + len (f_payload vv))
        else e).
Proof.
  intros Hf. unfold handlePacket, udp_length, udp_sourcePort.
  rewrite !get16_firstn by lia. cbn [obind].
  unfold accept_cond, length_ok, f_length, f_sport, f_payload, UDPMinimumSize.
  set (L := nth 4 vv 0 * 256 + nth 5 vv 0).
  destruct (Z.ltb_spec (len vv) L) as [A|A]; cbn [orb].
  { replace (L <=? len vv) with false by lia. rewrite !andb_false_r. reflexivity. }
  destruct (Z.ltb_spec L 8) as [B|B].
  { replace (8 <=? L) with false by lia. cbn [andb]. rewrite !andb_false_r. reflexivity. }
  replace (8 <=? L) with true by lia. replace (L <=? len vv) with true by lia.
  cbn [andb]. rewrite andb_true_r.
  rewrite cap_trim_payload by lia.
  destruct (rcvReady e); cbn [negb orb andb]; [|reflexivity].
  destruct (rcvClosed e); cbn [negb orb andb]; [reflexivity|].
  destruct (Z.leb_spec (rcvBufSizeMax e) (rcvBufSize e)) as [C|C].
  - replace (rcvBufSize e <? rcvBufSizeMax e) with false by lia. reflexivity.
  - replace (rcvBufSize e <? rcvBufSizeMax e) with true by lia. reflexivity.
Qed.

(* a rejected arrival leaves every field untouched: dropped whole *)
Lemma handlePacket_reject e nic remote first vv :
  (8 <= first <= length vv)%nat -> accept_cond e vv = false ->
  handlePacket e nic remote first vv = Some e.
Proof. intros Hf Hc. rewrite handlePacket_spec by exact Hf. rewrite Hc. reflexivity. Qed.

(* without the view guarantee the header accessor panics (index out of range) *)
Lemma handlePacket_short_view_panics e nic remote vv :
  handlePacket e nic remote 5 vv = None.
Proof.
  unfold handlePacket, udp_length, get16, obind.
  destruct (nth_error (firstn 5 vv) 4) as [h|]; [|reflexivity].
  assert (N : nth_error (firstn 5 vv) 5 = None).
  { apply nth_error_None. rewrite firstn_length. lia. }
  rewrite N. reflexivity.
Qed.

(* ===================================================================== abstraction and invariant *)

Definition dg_of_pkt (p : udpPacket) : dgram := dg_of (senderAddress p) (pdata p).

Definition is_closed (s : endpointState) : bool := match s with stateClosed => true | _ => false end.

Definition abs (e : endpoint) : fifo :=
  mkFifo (rcvReady e) (is_closed (state e)) (rcvClosed e) (rcvBufSizeMax e) (map dg_of_pkt (rcvList e)).

(* rcvBufSize is the number of payload bytes queued; the flags agree with the state *)
Definition inv (e : endpoint) : Prop :=
  rcvBufSize e = qbytes (map dg_of_pkt (rcvList e)) /\
  match state e with
  | stateInitial => rcvReady e = false /\ shutWrite e = false
  | stateBound | stateConnected => rcvReady e = true
  | stateClosed => rcvClosed e = true /\ rcvList e = [] /\ shutWrite e = true
  end.

Lemma qbytes_app a b : qbytes (a ++ b) = qbytes a + qbytes b.
Proof. induction a as [|d a IH]; cbn [qbytes app fold_right] in *; [reflexivity|]. unfold qbytes in *. lia. Qed.

Lemma qbytes_nonneg q : 0 <= qbytes q.
Proof. induction q as [|d q IH]; cbn [qbytes fold_right] in *; [lia|]. unfold qbytes in IH. pose proof (len_nonneg (d_payload d)). lia. Qed.

Lemma inv_new max : inv (newEndpoint max).
Proof. unfold inv, newEndpoint. cbn. auto. Qed.

Definition opt_list {A} (o : option A) : list A := match o with Some a => [a] | None => [] end.

Lemma accept_cond_abs e vv : inv e -> accept_cond e vv = fifo_accepts (abs e) vv.
Proof.
  intros [Hs _]. unfold accept_cond, fifo_accepts, abs. cbn [q_bound q_closed q_items q_max].
  rewrite Hs. reflexivity.
Qed.

(* one step of the model refines one step of the bounded FIFO *)
Ltac four := split; [|split; [|split; [|discriminate]]].

Lemma step_arrive e nic remote first vv :
  inv e -> (8 <= first <= length vv)%nat ->
  let '(e', r) := step e (OArrive nic remote first vv) in
  let '(s', rd, ac) := fifo_step (abs e) (OArrive nic remote first vv) in
  inv e' /\ abs e' = s' /\ reads_of [r] = opt_list rd /\ r <> OutPanic.
Proof.
  intros Hinv Hok. pose proof Hinv as [Hsz Hst]. cbn [step fifo_step].
  rewrite handlePacket_spec by exact Hok.
  rewrite <- accept_cond_abs by exact Hinv.
  destruct (accept_cond e vv) eqn:Hc; four; try assumption; try reflexivity.
  - split.
    + cbn [set_rcv rcvBufSize rcvList]. rewrite map_app, qbytes_app.
      cbn [map qbytes fold_right dg_of_pkt dg_of d_payload pdata]. rewrite Hsz. unfold qbytes. lia.
    + cbn [set_rcv state rcvReady shutWrite rcvClosed rcvList]. destruct (state e); try exact Hst.
      destruct Hst as (Hcl & _). unfold accept_cond in Hc. rewrite Hcl in Hc.
      rewrite andb_false_r in Hc. discriminate Hc.
  - unfold abs. cbn [set_rcv rcvReady state rcvClosed rcvBufSizeMax rcvList]. rewrite map_app. reflexivity.
Qed.

Definition refines_step (e : endpoint) (o : op) : Prop :=
  let '(e', r) := step e o in
  let '(s', rd, ac) := fifo_step (abs e) o in
  inv e' /\ abs e' = s' /\ reads_of [r] = opt_list rd /\ r <> OutPanic.

Lemma step_read e : inv e -> refines_step e ORead.
Proof.
  intros Hinv. pose proof Hinv as [Hsz Hst]. unfold refines_step. cbn [step fifo_step]. unfold read.
  destruct (rcvList e) as [|p rest] eqn:Hl.
  - change (q_items (abs e)) with (map dg_of_pkt (rcvList e)). rewrite Hl. cbn [map]. four; try assumption; try reflexivity.
  - change (q_items (abs e)) with (map dg_of_pkt (rcvList e)). rewrite Hl. cbn [map]. four; try reflexivity.
    split.
    + cbn [set_rcv rcvBufSize rcvList]. rewrite Hsz.
      cbn [map qbytes fold_right dg_of_pkt dg_of d_payload]. unfold qbytes. lia.
    + cbn [set_rcv state rcvReady shutWrite rcvClosed rcvList]. destruct (state e); try exact Hst.
      destruct Hst as (_ & Hl' & _). discriminate Hl'.
Qed.

Lemma step_control e typ : inv e -> refines_step e (OControl typ).
Proof. intros Hinv. unfold refines_step. cbn [step fifo_step]. four; try assumption; reflexivity. Qed.

Lemma step_close e : inv e -> refines_step e OClose.
Proof.
  intros Hinv. unfold refines_step. cbn [step fifo_step]. four; try reflexivity.
  split; cbn; auto.
Qed.

Lemma step_shutdown e rd wr : inv e -> refines_step e (OShutdown rd wr).
Proof.
  intros Hinv. pose proof Hinv as [Hsz Hst]. unfold refines_step. cbn [step fifo_step].
  unfold shutdown. cbn [abs q_bound q_dead q_closed q_max q_items].
  destruct (state e) eqn:Hs; cbn [is_closed negb andb].
  - destruct Hst as (Hr & Hw). rewrite Hr. cbn [andb]. four; try assumption; reflexivity.
  - rewrite Hst. cbn [andb]. destruct rd; four; try reflexivity;
      try (split; cbn [set_shutdown rcvBufSize rcvList state rcvReady]; [exact Hsz|rewrite Hs; exact Hst]);
      try (unfold abs; cbn [set_shutdown rcvReady state rcvClosed rcvBufSizeMax rcvList]; rewrite Hs, ?Hst; reflexivity).
  - rewrite Hst. cbn [andb]. destruct rd; four; try reflexivity;
      try (split; cbn [set_shutdown rcvBufSize rcvList state rcvReady]; [exact Hsz|rewrite Hs; exact Hst]);
      try (unfold abs; cbn [set_shutdown rcvReady state rcvClosed rcvBufSizeMax rcvList]; rewrite Hs, ?Hst; reflexivity).
  - rewrite andb_false_r. cbn [andb]. four; try assumption; reflexivity.
Qed.

Lemma step_bind e res : inv e -> refines_step e (OBind res).
Proof.
  intros Hinv. pose proof Hinv as [Hsz Hst]. unfold refines_step. cbn [step fifo_step].
  unfold bindLocked. cbn [abs q_bound q_dead q_closed q_max q_items].
  destruct (state e) eqn:Hs; cbn [is_closed negb andb].
  - destruct Hst as (Hr & Hw). rewrite Hr. cbn [negb andb]. destruct res as [err|port]; cbn [ok_res].
    + four; try assumption; reflexivity.
    + four; try reflexivity;
        try (split; cbn; [exact Hsz|reflexivity]); try (unfold abs; cbn; rewrite ?Hs; reflexivity).
  - rewrite Hst. cbn [negb andb]. four; try assumption; reflexivity.
  - rewrite Hst. cbn [negb andb]. four; try assumption; reflexivity.
  - rewrite andb_false_r. cbn [andb]. four; try assumption; reflexivity.
Qed.

Lemma step_connect e port res : inv e -> refines_step e (OConnect port res).
Proof.
  intros Hinv. pose proof Hinv as [Hsz Hst]. unfold refines_step. cbn [step fifo_step].
  unfold connect. cbn [abs q_bound q_dead q_closed q_max q_items].
  destruct (Z.eqb_spec port 0) as [P|P]; cbn [negb andb].
  { four; try assumption; reflexivity. }
  destruct (state e) eqn:Hs; cbn [is_closed negb andb];
    try (destruct res as [err|[r lport]]; cbn [ok_res];
         [four; try assumption; reflexivity
         |four; try reflexivity; try assumption; try (split; cbn; [exact Hsz|reflexivity]); try (unfold abs; cbn; reflexivity)]).
Qed.

(* ---- Write touches the receive side only through the implicit bind of a fresh socket ---- *)
Definition bound_ep (e : endpoint) (port : Z) : endpoint :=
  mkEP true (rcvList e) (rcvBufSizeMax e) (rcvBufSize e) (rcvClosed e) (rcvIcmp e) (rcvIcmpMsg e)
       stateBound (shutRead e) (shutWrite e) port (dstPort e) (eroute e) (multicastTTL e).

Definition write_binds (e : endpoint) (more : bool) (env : writeEnv) (v : list Z) : option Z :=
  match state e, we_bind env with
  | stateInitial, inr p =>
      if negb more && (len v <=? 65535) && negb (shutWrite e) then Some p else None
  | _, _ => None
  end.

Lemma write_gen_endpoint b e more to env v :
  fst (write_gen b e more to env v) =
  match write_binds e more env v with Some p => bound_ep e p | None => e end.
Proof.
  unfold write_gen, write_binds, prepareForWrite, bindLocked, bound_ep.
  destruct more; cbn [negb andb fst]; [destruct (state e), (we_bind env); reflexivity|].
  destruct (Z.ltb_spec 65535 (len v)) as [A|A].
  { replace (len v <=? 65535) with false by lia. cbn [andb fst]. destruct (state e), (we_bind env); reflexivity. }
  replace (len v <=? 65535) with true by lia. cbn [andb].
  destruct (shutWrite e); cbn [negb fst]; [destruct (state e), (we_bind env); reflexivity|].
  destruct (state e); [destruct (we_bind env) as [berr|port]|..];
    repeat match goal with
           | |- context [if ?c then _ else _] => destruct c
           | |- context [match ?x with inl _ => _ | inr _ => _ end] => destruct x
           | |- context [match ?x with Some _ => _ | None => _ end] => destruct x
           | |- context [let '(_, _) := ?x in _] => destruct x
           end; reflexivity.
Qed.

Lemma write_gen_no_reads b e more to env v :
  reads_of [OutWrite (snd (write_gen b e more to env v))] = [].
Proof. reflexivity. Qed.

Lemma step_write e more to env v : inv e -> refines_step e (OWrite more to env v).
Proof.
  intros Hinv. pose proof Hinv as [Hsz Hst]. unfold refines_step. cbn [step fifo_step].
  unfold write. destruct (write_gen true e more to env v) as [e' r] eqn:Hw.
  assert (He : e' = match write_binds e more env v with Some p => bound_ep e p | None => e end).
  { rewrite <- (write_gen_endpoint true e more to env v). rewrite Hw. reflexivity. }
  clear Hw. unfold write_binds in He. cbn [abs q_bound q_dead q_closed q_max q_items].
  destruct (state e) eqn:Hs; cbn [is_closed negb andb].
  - destruct Hst as (Hr & Hsw). rewrite Hr, Hsw in *. cbn [negb andb] in *. rewrite andb_true_r in He.
    destruct (we_bind env) as [berr|port]; cbn [ok_res].
    + rewrite andb_false_r. subst e'. four; try assumption; reflexivity.
    + rewrite andb_true_r. destruct (negb more && (len v <=? 65535)); subst e'.
      * four; try reflexivity; try (split; cbn; [exact Hsz|reflexivity]); try (unfold abs; cbn; rewrite ?Hs; reflexivity).
      * four; try assumption; reflexivity.
  - rewrite Hst. cbn [negb andb]. subst e'. four; try assumption; reflexivity.
  - rewrite Hst. cbn [negb andb]. subst e'. four; try assumption; reflexivity.
  - rewrite !andb_false_r. cbn [andb]. subst e'. four; try assumption; reflexivity.
Qed.

Lemma step_refines e o : inv e -> arrival_ok o -> refines_step e o.
Proof.
  intros Hinv Hok. destruct o.
  - apply step_arrive; assumption.
  - apply step_control; assumption.
  - apply step_read; assumption.
  - apply step_shutdown; assumption.
  - apply step_close; assumption.
  - apply step_bind; assumption.
  - apply step_connect; assumption.
  - apply step_write; assumption.
Qed.

(* ===================================================================== histories *)

Definition run_f (acc : endpoint * list out) (o : op) : endpoint * list out :=
  let '(e', r) := step (fst acc) o in (e', snd acc ++ [r]).

Lemma run_gen ops : forall e pre,
  fold_left run_f ops (e, pre) = (fst (run ops e), pre ++ snd (run ops e)).
Proof.
  unfold run. fold run_f.
  induction ops as [|o ops IH]; intros e pre; cbn [fold_left].
  - cbn [fst snd]. rewrite app_nil_r. reflexivity.
  - unfold run_f at 2 4 6. cbn [fst snd]. destruct (step e o) as [e1 r]. cbn [app].
    rewrite (IH e1 (pre ++ [r])), (IH e1 [r]). cbn [fst snd]. rewrite <- app_assoc. reflexivity.
Qed.

Lemma run_nil e : run [] e = (e, []).
Proof. reflexivity. Qed.

Lemma run_cons o ops e :
  run (o :: ops) e = (fst (run ops (fst (step e o))), snd (step e o) :: snd (run ops (fst (step e o)))).
Proof.
  unfold run at 1. fold run_f. cbn [fold_left]. unfold run_f at 2. cbn [fst snd app].
  destruct (step e o) as [e1 r]. cbn [fst snd]. rewrite run_gen. reflexivity.
Qed.

Lemma reads_of_cons r outs : reads_of (r :: outs) = reads_of [r] ++ reads_of outs.
Proof. unfold reads_of. cbn [flat_map]. rewrite app_nil_r. reflexivity. Qed.

(* the model refines the bounded FIFO over every history: same successful reads in the same order,
   final queue = final abstract queue, invariant kept, no panic *)
Lemma run_refines ops : forall e,
  inv e -> Forall arrival_ok ops ->
  inv (fst (run ops e)) /\
  abs (fst (run ops e)) = fst (fst (fifo_run ops (abs e))) /\
  reads_of (snd (run ops e)) = snd (fst (fifo_run ops (abs e))) /\
  ~ In OutPanic (snd (run ops e)).
Proof.
  induction ops as [|o ops IH]; intros e Hinv Hok.
  - cbn. auto.
  - inversion Hok as [|? ? Ho Hrest]; subst.
    pose proof (step_refines e o Hinv Ho) as Hs. unfold refines_step in Hs.
    rewrite run_cons. cbn [fifo_run fst snd].
    destruct (step e o) as [e1 r]. destruct (fifo_step (abs e) o) as [[s1 rd] ac].
    destruct Hs as (Hi1 & Ha1 & Hr1 & Hp1). cbn [fst snd].
    destruct (IH e1 Hi1 Hrest) as (Hi2 & Ha2 & Hr2 & Hp2). rewrite Ha1 in *.
    destruct (fifo_run ops s1) as [[s2 rs] acc]. cbn [fst snd] in *.
    split; [exact Hi2|split; [exact Ha2|split]].
    + rewrite reads_of_cons, Hr1, Hr2. destruct rd; reflexivity.
    + intros [E|I]; [exact (Hp1 E)|exact (Hp2 I)].
Qed.

(* ---- facts about the abstract FIFO alone ---- *)

Lemma fifo_closed_stays ops : forall s,
  q_closed s = true ->
  q_closed (fst (fst (fifo_run ops s))) = true /\ snd (fifo_run ops s) = [].
Proof.
  induction ops as [|o ops IH]; intros s Hc; [cbn; auto|].
  cbn [fifo_run].
  assert (H1 : q_closed (fst (fst (fifo_step s o))) = true /\ snd (fifo_step s o) = None).
  { destruct o; cbn [fifo_step]; unfold fifo_accepts; rewrite ?Hc; cbn [negb andb]; rewrite ?andb_false_r; cbn [fst snd]; auto.
    - destruct (q_items s); auto.
    - destruct (_ && _ && rd); auto.
    - destruct (_ && _ && ok_res res); auto.
    - destruct (_ && _ && ok_res res); auto.
    - destruct (_ && _ && _ && _ && ok_res (we_bind env)); auto. }
  destruct (fifo_step s o) as [[s1 rd] ac]. cbn [fst snd] in H1. destruct H1 as (Hc1 & ->).
  destruct (IH s1 Hc1) as (Hc2 & Ha2). destruct (fifo_run ops s1) as [[s2 rs] acc]. cbn [fst snd] in *.
  subst acc. auto.
Qed.

Lemma fifo_closed_empty ops : forall s,
  q_closed s = true -> q_items s = [] ->
  snd (fst (fifo_run ops s)) = [] /\ q_items (fst (fst (fifo_run ops s))) = [].
Proof.
  induction ops as [|o ops IH]; intros s Hc He; [cbn; auto|].
  cbn [fifo_run].
  assert (H1 : q_closed (fst (fst (fifo_step s o))) = true /\ q_items (fst (fst (fifo_step s o))) = [] /\
               snd (fst (fifo_step s o)) = None).
  { destruct o; cbn [fifo_step]; unfold fifo_accepts; rewrite ?Hc, ?He; cbn [negb andb]; rewrite ?andb_false_r; cbn [fst snd]; auto.
    - destruct (_ && _ && rd); auto.
    - destruct (_ && _ && ok_res res); auto.
    - destruct (_ && _ && ok_res res); auto.
    - destruct (_ && _ && _ && _ && ok_res (we_bind env)); auto. }
  destruct (fifo_step s o) as [[s1 rd] ac]. cbn [fst snd] in H1. destruct H1 as (Hc1 & He1 & ->).
  destruct (IH s1 Hc1 He1) as (Hr2 & Hq2). destruct (fifo_run ops s1) as [[s2 rs] acc]. cbn [fst snd] in *.
  subst rs. auto.
Qed.

(* FIFO, at most once, in order: what was queued at the start followed by what is accepted during
   the history = what the successful reads returned, then what is still queued, then what a Close
   discarded *)
Lemma fifo_order ops : forall s,
  exists lost,
    q_items s ++ snd (fifo_run ops s) =
    snd (fst (fifo_run ops s)) ++ q_items (fst (fst (fifo_run ops s))) ++ lost.
Proof.
  induction ops as [|o ops IH]; intros s.
  - exists []. cbn. rewrite !app_nil_r. reflexivity.
  - cbn [fifo_run]. destruct o; cbn [fifo_step].
    + (* arrival *)
      destruct (fifo_accepts s vv).
      * match goal with |- context [fifo_run ops ?s1] => destruct (IH s1) as [lost Hl]; destruct (fifo_run ops s1) as [[s2 rs] acc] end.
        cbn [fst snd q_items] in *. exists lost. rewrite <- Hl, <- app_assoc. reflexivity.
      * destruct (IH s) as [lost Hl]. destruct (fifo_run ops s) as [[s2 rs] acc]. exists lost. exact Hl.
    + destruct (IH s) as [lost Hl]. destruct (fifo_run ops s) as [[s2 rs] acc]. exists lost. exact Hl.
    + (* read *)
      destruct (q_items s) as [|d rest] eqn:Hq.
      * destruct (IH s) as [lost Hl]. destruct (fifo_run ops s) as [[s2 rs] acc]. exists lost.
        rewrite Hq in Hl. exact Hl.
      * match goal with |- context [fifo_run ops ?s1] => destruct (IH s1) as [lost Hl]; destruct (fifo_run ops s1) as [[s2 rs] acc] end.
        cbn [fst snd q_items] in *. exists lost. cbn [app]. rewrite Hl. reflexivity.
    + (* shutdown *)
      destruct (_ && _ && rd).
      * match goal with |- context [fifo_run ops ?s1] => destruct (IH s1) as [lost Hl]; destruct (fifo_run ops s1) as [[s2 rs] acc] end.
        exists lost. exact Hl.
      * destruct (IH s) as [lost Hl]. destruct (fifo_run ops s) as [[s2 rs] acc]. exists lost. exact Hl.
    + (* close *)
      match goal with |- context [fifo_run ops ?s1] =>
        destruct (fifo_closed_empty ops s1 eq_refl eq_refl) as (Hr & Hq);
        destruct (fifo_closed_stays ops s1 eq_refl) as (_ & Ha);
        destruct (fifo_run ops s1) as [[s2 rs] acc] end.
      cbn [fst snd] in *. subst. exists (q_items s). rewrite Hq. cbn [app]. rewrite app_nil_r. reflexivity.
    + destruct (_ && _ && ok_res res).
      * match goal with |- context [fifo_run ops ?s1] => destruct (IH s1) as [lost Hl]; destruct (fifo_run ops s1) as [[s2 rs] acc] end.
        exists lost. exact Hl.
      * destruct (IH s) as [lost Hl]. destruct (fifo_run ops s) as [[s2 rs] acc]. exists lost. exact Hl.
    + destruct (_ && _ && ok_res res).
      * match goal with |- context [fifo_run ops ?s1] => destruct (IH s1) as [lost Hl]; destruct (fifo_run ops s1) as [[s2 rs] acc] end.
        exists lost. exact Hl.
      * destruct (IH s) as [lost Hl]. destruct (fifo_run ops s) as [[s2 rs] acc]. exists lost. exact Hl.
    + destruct (_ && _ && _ && _ && ok_res (we_bind env)).
      * match goal with |- context [fifo_run ops ?s1] => destruct (IH s1) as [lost Hl]; destruct (fifo_run ops s1) as [[s2 rs] acc] end.
        exists lost. exact Hl.
      * destruct (IH s) as [lost Hl]. destruct (fifo_run ops s) as [[s2 rs] acc]. exists lost. exact Hl.
Qed.

(* ===================================================================== receive-side theorems *)

(* datagrams accepted over a history by a socket created with capacity [max] *)
Definition accepted (ops : list op) (max : Z) : list dgram := snd (fifo_run ops (fifo_new max)).

Lemma abs_new max : abs (newEndpoint max) = fifo_new max.
Proof. reflexivity. Qed.

Lemma prefix_firstn {A} (a b : list A) : a = firstn (length a) (a ++ b).
Proof. rewrite firstn_app, Nat.sub_diag, firstn_all. cbn [firstn]. rewrite app_nil_r. reflexivity. Qed.

(* udp_fifo_whole: for every history on a fresh socket of any capacity, the model never panics,
   its successful reads are exactly the abstract FIFO's reads, its final queue and flags are the
   abstract ones, rcvBufSize is the number of queued payload bytes, and
   accepted = returned ++ still queued ++ discarded by Close.  In particular the k-th successful
   Read returns the k-th accepted datagram. *)
Lemma fifo_whole ops max :
  Forall arrival_ok ops ->
  let e := fst (run ops (newEndpoint max)) in
  let outs := snd (run ops (newEndpoint max)) in
  let s := fst (fst (fifo_run ops (fifo_new max))) in
  ~ In OutPanic outs /\
  reads_of outs = snd (fst (fifo_run ops (fifo_new max))) /\
  abs e = s /\
  rcvBufSize e = qbytes (q_items s) /\
  (exists lost, accepted ops max = reads_of outs ++ q_items s ++ lost) /\
  reads_of outs = firstn (length (reads_of outs)) (accepted ops max).
Proof.
  intros Hok. cbv zeta.
  destruct (run_refines ops (newEndpoint max) (inv_new max) Hok) as (Hi & Ha & Hr & Hp).
  rewrite abs_new in *.
  destruct (fifo_order ops (fifo_new max)) as [lost Hl]. cbn [fifo_new q_items app] in Hl.
  split; [exact Hp|]. split; [exact Hr|]. split; [exact Ha|]. split.
  { destruct Hi as (Hsz & _). rewrite Hsz, <- Ha. reflexivity. }
  assert (Hacc : accepted ops max = reads_of (snd (run ops (newEndpoint max))) ++
                 q_items (fst (fst (fifo_run ops (fifo_new max)))) ++ lost).
  { unfold accepted. rewrite Hl, Hr. reflexivity. }
  split; [exists lost; exact Hacc|]. rewrite Hacc. apply prefix_firstn.
Qed.

(* the same from any reachable state: the refinement itself *)
Lemma refines_fifo ops e :
  inv e -> Forall arrival_ok ops ->
  inv (fst (run ops e)) /\
  abs (fst (run ops e)) = fst (fst (fifo_run ops (abs e))) /\
  reads_of (snd (run ops e)) = snd (fst (fifo_run ops (abs e))) /\
  ~ In OutPanic (snd (run ops e)).
Proof. intros. apply run_refines; assumption. Qed.

(* each accepted datagram is one arrival's (NIC, network source, header source port, bytes
   8..Length-1), each arrival is used at most once, order is kept *)
Inductive subseq {A} : list A -> list A -> Prop :=
| ss_nil : subseq [] []
| ss_skip x l m : subseq l m -> subseq l (x :: m)
| ss_take x l m : subseq l m -> subseq (x :: l) (x :: m).

Definition arrivals (ops : list op) : list dgram :=
  flat_map (fun o => match o with
                     | OArrive nic remote _ b => [mkDg nic remote (f_sport b) (f_payload b)]
                     | _ => [] end) ops.

Lemma accepted_subseq ops : forall s, subseq (snd (fifo_run ops s)) (arrivals ops).
Proof.
  induction ops as [|o ops IH]; intros s; [constructor|].
  cbn [fifo_run arrivals flat_map].
  destruct o; cbn [fifo_step app];
    try (match goal with |- context [if ?c then _ else _] => destruct c end);
    try (match goal with |- context [match q_items s with _ => _ end] => destruct (q_items s) end);
    match goal with |- context [fifo_run ops ?s1] => specialize (IH s1); destruct (fifo_run ops s1) as [[s2 rs] acc] end;
    cbn [snd] in *; try exact IH; constructor; exact IH.
Qed.

Lemma accepted_from_arrivals ops max : subseq (accepted ops max) (arrivals ops).
Proof. apply accepted_subseq. Qed.

(* one arrival, from any consistent state: accepted iff bound, read side open, queued bytes below
   the maximum and 8 <= Length <= size; then exactly one packet is appended and rcvBufSize grows by
   the payload size; otherwise nothing at all changes *)
Lemma arrival_accept_iff e nic remote first vv :
  inv e -> (8 <= first <= length vv)%nat ->
  exists e', handlePacket e nic remote first vv = Some e' /\
  if fifo_accepts (abs e) vv
  then rcvList e' = rcvList e ++ [mkPkt (mkFA nic remote (f_sport vv)) (f_payload vv)] /\
       rcvBufSize e' = rcvBufSize e + len (f_payload vv) /\
       e' = set_rcv e (rcvList e') (rcvBufSize e')
  else e' = e.
Proof.
  intros Hinv Hf. rewrite handlePacket_spec by exact Hf. rewrite <- accept_cond_abs by exact Hinv.
  eexists. split; [reflexivity|]. destruct (accept_cond e vv); [|reflexivity].
  cbn [set_rcv rcvList rcvBufSize]. auto.
Qed.

(* empty datagrams: Length = 8 is accepted like any other, queued as an empty message, and Read
   returns it as data (nil error, empty view, the sender's address), which is not ErrWouldBlock *)
Lemma empty_datagram_delivered e nic remote first vv :
  inv e -> (8 <= first <= length vv)%nat -> f_length vv = 8 -> rcvList e = [] ->
  fifo_accepts (abs e) vv = true ->
  exists e1, handlePacket e nic remote first vv = Some e1 /\
             snd (read e1) = RData (mkFA nic remote (f_sport vv)) [] /\
             rcvBufSize e1 = rcvBufSize e /\
             fifo_accepts (abs e1) vv = true.
Proof.
  intros Hinv Hf HL Hq Hacc.
  rewrite handlePacket_spec by exact Hf. rewrite accept_cond_abs, Hacc by exact Hinv.
  eexists. split; [reflexivity|].
  assert (Hp : f_payload vv = []). { unfold f_payload. rewrite HL. reflexivity. }
  rewrite Hp, Hq. cbn [app]. split; [reflexivity|]. split; [cbn; lia|].
  revert Hacc. unfold fifo_accepts, abs. cbn. rewrite Hq. cbn. auto.
Qed.

(* rcvBufSize never goes negative and exceeds the maximum by less than one datagram *)
Definition arrival_bytes (o : op) : Prop :=
  match o with OArrive _ _ _ vv => bytes_ok vv | _ => True end.

Lemma nth_byte (l : list Z) i : bytes_ok l -> 0 <= nth i l 0 < 256.
Proof.
  intros H. destruct (Nat.lt_ge_cases i (length l)) as [L|L].
  - unfold bytes_ok in H. rewrite Forall_forall in H. apply H, nth_In, L.
  - rewrite nth_overflow by exact L. lia.
Qed.

Lemma f_payload_len b : bytes_ok b -> 0 <= len (f_payload b) <= 65527.
Proof.
  intros Hb. unfold f_payload, f_length, len. rewrite firstn_length.
  pose proof (nth_byte b 4 Hb). pose proof (nth_byte b 5 Hb). lia.
Qed.

Definition size_bound (s : fifo) : Prop := qbytes (q_items s) <= Z.max 0 (q_max s + 65526).

Lemma qbytes_tail d q : qbytes q <= qbytes (d :: q).
Proof. cbn [qbytes fold_right]. pose proof (len_nonneg (d_payload d)). unfold qbytes. lia. Qed.

Lemma fifo_step_bound s o : arrival_bytes o -> size_bound s -> size_bound (fst (fst (fifo_step s o))) /\ q_max (fst (fst (fifo_step s o))) = q_max s.
Proof.
  unfold size_bound. intros Hb Hs.
  destruct o; cbn [fifo_step];
    try (match goal with |- context [if ?c then _ else _] => destruct c eqn:Hc end); cbn [fst q_items q_max]; auto.
  - rewrite qbytes_app. cbn [qbytes fold_right d_payload]. cbn [arrival_bytes] in Hb.
    pose proof (f_payload_len vv Hb). unfold fifo_accepts in Hc. split; [|reflexivity]. lia.
  - destruct (q_items s) as [|d rest] eqn:Hq; cbn [fst q_items q_max]; [rewrite Hq; auto|].
    split; [|reflexivity]. pose proof (qbytes_tail d rest). lia.
  - cbn [qbytes fold_right]. split; [lia|reflexivity].
Qed.

Lemma fifo_run_bound ops : forall s, Forall arrival_bytes ops -> size_bound s ->
  size_bound (fst (fst (fifo_run ops s))) /\ q_max (fst (fst (fifo_run ops s))) = q_max s.
Proof.
  induction ops as [|o ops IH]; intros s Hb Hs; [cbn; auto|].
  inversion Hb as [|? ? Ho Hrest]; subst. cbn [fifo_run].
  destruct (fifo_step_bound s o Ho Hs) as (H1 & M1).
  destruct (fifo_step s o) as [[s1 rd] ac]. cbn [fst] in *.
  destruct (IH s1 Hrest H1) as (H2 & M2). destruct (fifo_run ops s1) as [[s2 rs] acc]. cbn [fst] in *.
  split; [exact H2|congruence].
Qed.

Lemma rcvbuf_accounting ops max :
  Forall arrival_ok ops -> Forall arrival_bytes ops ->
  let e := fst (run ops (newEndpoint max)) in
  rcvBufSize e = qbytes (map dg_of_pkt (rcvList e)) /\
  0 <= rcvBufSize e <= Z.max 0 (max + 65526) /\ rcvBufSizeMax e = max.
Proof.
  intros Hok Hb. cbv zeta.
  destruct (run_refines ops (newEndpoint max) (inv_new max) Hok) as ((Hsz & _) & Ha & _ & _).
  rewrite abs_new in Ha.
  assert (H0 : size_bound (fifo_new max)) by (unfold size_bound; cbn; lia).
  destruct (fifo_run_bound ops (fifo_new max) Hb H0) as (Hbd & Hm).
  rewrite <- Ha in Hbd, Hm. unfold size_bound in Hbd. cbn [abs q_items q_max fifo_new] in Hbd, Hm.
  split; [exact Hsz|]. rewrite Hsz. split; [|exact Hm].
  pose proof (qbytes_nonneg (map dg_of_pkt (rcvList (fst (run ops (newEndpoint max)))))). rewrite Hm in Hbd. lia.
Qed.

(* the overshoot is real: the test is on what is already queued, not on what the arrival adds *)
Lemma rcvbuf_overshoot_example :
  exists vv, bytes_ok vv /\
    let e := fst (run [OBind (inr 53); OArrive 1 [10;0;0;2] 8 vv] (newEndpoint 1)) in
    rcvBufSize e = 4 /\ rcvBufSizeMax e = 1.
Proof.
  exists [0;7; 0;53; 0;12; 0;0; 1;2;3;4]. split.
  - apply bytes_okb_ok. reflexivity.
  - vm_compute. auto.
Qed.

(* a concrete history: the hypotheses are satisfiable and every branch of the FIFO is taken: two
   senders, an empty datagram, a datagram with trailing bytes beyond its length field, one dropped
   because the buffer is full, one with a length field below 8, reads in order, then ErrWouldBlock *)
Example fifo_example :
  let ops := [OBind (inr 53);
              OArrive 1 [10;0;0;2] 8 [15;160; 0;53; 0;8; 0;0];
              OArrive 2 [10;0;0;3] 12 [15;161; 0;53; 0;11; 0;0; 7;8;9; 200;201];
              OArrive 1 [10;0;0;2] 9 [15;160; 0;53; 0;9; 0;0; 1];
              OArrive 1 [10;0;0;2] 9 [15;160; 0;53; 0;7; 0;0; 1];
              ORead; ORead; ORead] in
  Forall arrival_ok ops /\
  reads_of (snd (run ops (newEndpoint 3))) =
    [mkDg 1 [10;0;0;2] 4000 []; mkDg 2 [10;0;0;3] 4001 [7;8;9]] /\
  accepted ops 3 = [mkDg 1 [10;0;0;2] 4000 []; mkDg 2 [10;0;0;3] 4001 [7;8;9]] /\
  last (snd (run ops (newEndpoint 3))) OutNone = OutRead (RErr ErrWouldBlock).
Proof.
  cbv zeta. split; [|split; [|split]]; try (vm_compute; reflexivity).
  repeat constructor; cbn; lia.
Qed.

(* ---- shutdown of the read side ---- *)
Lemma shutdown_read_effect e wr :
  (state e = stateBound \/ state e = stateConnected) ->
  let e1 := fst (shutdown e true wr) in
  snd (shutdown e true wr) = ErrNil /\ rcvClosed e1 = true /\ rcvList e1 = rcvList e /\ rcvBufSize e1 = rcvBufSize e.
Proof. intros [H|H]; unfold shutdown; rewrite H; cbn; auto. Qed.

(* once the read side is closed: every arrival is dropped whole, what was queued stays readable in
   order (then Read fails), nothing new is ever queued *)
Lemma read_closed_drops e ops :
  inv e -> rcvClosed e = true -> Forall arrival_ok ops ->
  let e' := fst (run ops e) in
  rcvClosed e' = true /\
  (exists lost, map dg_of_pkt (rcvList e) = reads_of (snd (run ops e)) ++ map dg_of_pkt (rcvList e') ++ lost) /\
  snd (fifo_run ops (abs e)) = [].
Proof.
  intros Hinv Hc Hok. cbv zeta.
  destruct (run_refines ops e Hinv Hok) as (_ & Ha & Hr & _).
  destruct (fifo_closed_stays ops (abs e) Hc) as (Hc' & Hacc).
  destruct (fifo_order ops (abs e)) as [lost Hl].
  rewrite Hacc, app_nil_r, <- Hr, <- Ha in Hl. rewrite <- Ha in Hc'.
  split; [exact Hc'|]. split; [exists lost; exact Hl|exact Hacc].
Qed.

Lemma closed_arrival_dropped e nic remote first vv :
  (8 <= first <= length vv)%nat -> rcvClosed e = true -> handlePacket e nic remote first vv = Some e.
Proof.
  intros Hf Hc. apply handlePacket_reject; [exact Hf|]. unfold accept_cond. rewrite Hc. cbn [negb].
  rewrite andb_false_r. reflexivity.
Qed.

Lemma read_after_closed_empty e : rcvClosed e = true -> rcvList e = [] -> read e = (e, RErr ErrClosedForReceive).
Proof. intros Hc Hq. unfold read. rewrite Hq, Hc. reflexivity. Qed.

(* ---- the behaviour before the repair of HandlePacket ---- *)
Lemma trailing_bytes_old_refuted :
  exists e vv e', bytes_ok vv /\ length vv = 18%nat /\ f_length vv = 12 /\
    handlePacket_old e 1 [10;0;0;2] 18 vv = Some e' /\
    (exists p, rcvList e' = [p] /\ length (pdata p) = 10%nat /\ pdata p <> f_payload vv) /\
    (* the current code delivers the 4 bytes the length field delimits *)
    (exists e'' p, handlePacket e 1 [10;0;0;2] 18 vv = Some e'' /\ rcvList e'' = [p] /\ pdata p = f_payload vv /\
                   length (pdata p) = 4%nat).
Proof.
  exists (fst (bindLocked (newEndpoint 100) (inr 53))), [0;7; 0;53; 0;12; 0;0; 1;2;3;4; 5;6;7;8;9;10].
  eexists. split; [apply bytes_okb_ok; reflexivity|]. split; [reflexivity|]. split; [reflexivity|].
  split; [vm_compute; reflexivity|]. split.
  - eexists. split; [reflexivity|]. split; [reflexivity|]. vm_compute. discriminate.
  - eexists. eexists. split; [vm_compute; reflexivity|]. split; [reflexivity|]. split; reflexivity.
Qed.

(* a length field below 8 was accepted by the old test as well (and TrimFront(8) then ate payload
   bytes of nothing): the current code rejects it *)
Lemma short_length_old_refuted :
  exists e vv e', bytes_ok vv /\ f_length vv = 3 /\
    handlePacket_old e 1 [10;0;0;2] 12 vv = Some e' /\ length (rcvList e') = 1%nat /\
    handlePacket e 1 [10;0;0;2] 12 vv = Some e.
Proof.
  exists (fst (bindLocked (newEndpoint 100) (inr 53))), [0;7; 0;53; 0;3; 0;0; 1;2;3;4].
  eexists. split; [apply bytes_okb_ok; reflexivity|]. split; [reflexivity|].
  split; [vm_compute; reflexivity|]. split; reflexivity.
Qed.

(* the phantom read: Read returns (empty view, nil) from an EMPTY queue only after a control message
   of a type other than the two the network layers pass (ipv4/icmp.go, ipv6/icmp.go) *)
Lemma read_nil_error_only_unknown_control e :
  rcvList e = [] -> snd (read e) = RErr 0 -> rcvIcmp e = true /\ rcvIcmpMsg e = 0 /\ rcvClosed e = false.
Proof.
  intros Hq. unfold read. rewrite Hq. cbn [snd].
  destruct (rcvClosed e); [discriminate|]. destruct (rcvIcmp e); [|discriminate].
  intros H. injection H as H. auto.
Qed.

Definition control_ok (o : op) : Prop :=
  match o with OControl typ => typ = 0 \/ typ = 1 | _ => True end.

Definition icmp_inv (e : endpoint) : Prop := rcvIcmp e = true -> rcvIcmpMsg e <> 0.

Lemma step_icmp_inv e o : control_ok o -> icmp_inv e -> icmp_inv (fst (step e o)).
Proof.
  unfold icmp_inv. intros Hc Hi.
  destruct o; cbn [step control_ok] in *.
  - destruct (handlePacket e nic remote first vv) as [e'|] eqn:H; cbn [fst]; [|exact Hi].
    unfold handlePacket in H. destruct (udp_length _) as [l|]; cbn [obind] in H; [|discriminate].
    destruct (_ || _) in H; [injection H as <-; exact Hi|].
    destruct (_ || _ || _) in H; [injection H as <-; exact Hi|].
    destruct (udp_sourcePort _); cbn [obind] in H; [|discriminate]. injection H as <-. exact Hi.
  - cbn [fst handleControlPacket set_icmp rcvIcmp rcvIcmpMsg]. intros _. destruct Hc as [->| ->]; cbn; discriminate.
  - unfold read. destruct (rcvList e); cbn [fst]; exact Hi.
  - unfold shutdown. destruct (state e); cbn [fst]; exact Hi.
  - exact Hi.
  - unfold bindLocked. destruct (state e); try exact Hi. destruct res; exact Hi.
  - unfold connect. destruct (port =? 0); [exact Hi|]. destruct (state e); try exact Hi; destruct res as [|[? ?]]; exact Hi.
  - unfold write. pose proof (write_gen_endpoint true e more to env v) as Hw.
    destruct (write_gen true e more to env v) as [e' r]. cbn [fst] in *. subst e'.
    destruct (write_binds e more env v); exact Hi.
Qed.

Lemma no_phantom_read ops : forall e,
  Forall control_ok ops -> icmp_inv e -> ~ In (OutRead (RErr 0)) (snd (run ops e)).
Proof.
  induction ops as [|o ops IH]; intros e Hc Hi; [cbn; auto|].
  inversion Hc as [|? ? Ho Hrest]; subst. rewrite run_cons. cbn [snd].
  pose proof (step_icmp_inv e o Ho Hi) as Hi1.
  intros [E|I]; [|exact (IH _ Hrest Hi1 I)].
  destruct o; cbn [step] in E; try discriminate.
  - destruct (handlePacket _ _ _ _ _); discriminate.
  - unfold read in E. destruct (rcvList e) eqn:Hq; cbn [snd] in E; [|discriminate].
    injection E as E. destruct (rcvClosed e); [discriminate|]. destruct (rcvIcmp e) eqn:Hic; [|discriminate].
    exact (Hi Hic E).
  - destruct (shutdown _ _ _); discriminate.
  - destruct (bindLocked _ _); discriminate.
  - destruct (connect _ _ _); discriminate.
  - destruct (write _ _ _ _ _); discriminate.
Qed.

(* ===================================================================== send side *)

Definition hdr_bytes (lp rp L c : Z) : list Z :=
  [w8 (lp / 2^8); w8 lp; w8 (rp / 2^8); w8 rp; w8 (L / 2^8); w8 L; w8 (c / 2^8); w8 c].

Definition W (l : list Z) : Z := zsum (be_words l).

(* the checksum value sendUDP stores (before complementing): pseudo header, payload, length, header *)
Definition udp_xsum (src dst v : list Z) (lp rp L : Z) : Z :=
  checksum (hdr_bytes lp rp L 0)
    (checksum [w8 (L / 2^8); w8 L]
       (checksum v (pseudoHeaderChecksum UDPProtocolNumber src dst))).

Lemma sendUDP_eq r v lp rp ttl :
  sendUDP r v lp rp ttl =
  let L := w16 (UDPMinimumSize + len v) in
  Some (mkSeg (r_netProto r) (r_local r) (r_remote r) ttl
          (hdr_bytes lp rp L (if r_offload r then 0 else lnot16 (udp_xsum (r_local r) (r_remote r) v lp rp L)) ++ v)).
Proof.
  unfold sendUDP. cbv zeta. set (L := w16 (UDPMinimumSize + len v)).
  assert (E : udp_encode (repeat 0 8) (mkUDP lp rp L 0) = Some (hdr_bytes lp rp L 0)) by reflexivity.
  rewrite E. cbn [obind]. destruct (r_offload r); cbn [obind]; [reflexivity|].
  unfold udp_calculateChecksum, checksum_chunks. cbn [fold_left].
  assert (G : getN (hdr_bytes lp rp L 0) 0 8 = Some (hdr_bytes lp rp L 0)) by reflexivity.
  rewrite G. cbn [obind].
  unfold udp_xsum.
  match goal with |- context [lnot16 ?X] => generalize (lnot16 X) end. intros c.
  assert (S : udp_setChecksum (hdr_bytes lp rp L 0) c = Some (hdr_bytes lp rp L c)) by reflexivity.
  rewrite S. reflexivity.
Qed.

Lemma oc_norm_0 : oc_norm 0 = 0.
Proof. reflexivity. Qed.

Lemma W_nonneg l : bytes_ok l -> 0 <= W l.
Proof. intros H. unfold W. pose proof (zsum_bound _ (be_words_u16 l H)). lia. Qed.

Lemma checksum_step buf x :
  bytes_ok buf -> 0 <= x -> len buf <= 131072 -> checksum buf (oc_norm x) = oc_norm (x + W buf).
Proof.
  intros Hb Hx Hl. rewrite checksum_closed; [|exact Hb|apply oc_norm_u16, Hx|exact Hl].
  unfold total. fold (W buf). apply oc_norm_add; [exact Hx|apply W_nonneg, Hb].
Qed.

Lemma W_app_even a b : Nat.even (length a) = true -> W (a ++ b) = W a + W b.
Proof. intros He. unfold W. rewrite be_words_app_even by exact He. apply zsum_app. Qed.

Lemma hdr_bytes_ok lp rp L c : bytes_ok (hdr_bytes lp rp L c).
Proof. unfold hdr_bytes. repeat constructor; apply w8_byte. Qed.

Lemma W_hdr lp rp L c : is_u16 lp -> is_u16 rp -> is_u16 L -> is_u16 c ->
  W (hdr_bytes lp rp L c) = lp + rp + L + c.
Proof.
  unfold is_u16. intros Hl Hr HL Hc. unfold W, hdr_bytes. cbn [be_words zsum fold_right].
  rewrite !be16_rt by assumption. lia.
Qed.

Definition wf_addr (a : list Z) : Prop := bytes_ok a /\ Nat.even (length a) = true /\ (length a <= 16)%nat.

(* closed form of the value sendUDP computes *)
Lemma udp_xsum_closed src dst v lp rp L :
  wf_addr src -> wf_addr dst -> bytes_ok v -> len v <= 65535 ->
  is_u16 lp -> is_u16 rp -> is_u16 L ->
  udp_xsum src dst v lp rp L = oc_norm (W src + W dst + 17 + W v + L + (lp + rp + L)).
Proof.
  intros (Bs & Es & Ls) (Bd & Ed & Ld) Bv Lv Hlp Hrp HL.
  pose proof (W_nonneg src Bs) as Ns. pose proof (W_nonneg dst Bd) as Nd. pose proof (W_nonneg v Bv) as Nv.
  unfold udp_xsum, pseudoHeaderChecksum, UDPProtocolNumber.
  change (checksum src 0) with (checksum src (oc_norm 0)).
  rewrite (checksum_step src 0) by (try assumption; unfold len; lia).
  rewrite (checksum_step dst) by (try assumption; unfold len; lia).
  assert (B17 : bytes_ok [0; w8 17]) by (repeat constructor; try apply w8_byte; unfold is_byte; lia).
  rewrite (checksum_step [0; w8 17]) by (try assumption; unfold len; cbn [length]; lia).
  assert (W17 : W [0; w8 17] = 17) by reflexivity.
  assert (WL : W [w8 (L / 2^8); w8 L] = L).
  { unfold W. cbn [be_words zsum fold_right]. unfold is_u16 in HL. rewrite be16_rt by assumption. lia. }
  rewrite W17.
  rewrite (checksum_step v) by (try assumption; lia).
  assert (BL : bytes_ok [w8 (L / 2^8); w8 L]) by (repeat constructor; apply w8_byte).
  rewrite (checksum_step [w8 (L / 2^8); w8 L]); [|exact BL|lia|unfold len; cbn [length]; lia].
  rewrite WL.
  rewrite (checksum_step (hdr_bytes lp rp L 0));
    [|apply hdr_bytes_ok|unfold is_u16 in *; lia|unfold len, hdr_bytes; cbn [length]; lia].
  rewrite W_hdr by (try assumption; unfold is_u16; lia).
  f_equal. lia.
Qed.

Lemma rfc_sum_closed buf : bytes_ok buf -> rfc1071_sum buf 0 = oc_norm (W buf).
Proof.
  intros Hb. unfold rfc1071_sum. rewrite rfc_fold_closed; [reflexivity|unfold is_u16; lia|apply be_words_u16, Hb].
Qed.

Lemma len_hdr_app lp rp L c v : len (hdr_bytes lp rp L c ++ v) = 8 + len v.
Proof. unfold len. rewrite app_length. cbn [hdr_bytes length]. lia. Qed.

(* the emitted segment verifies under the RFC 768 pseudo header (and under the RFC 2460 one):
   the one's-complement sum over pseudo header, UDP header (checksum field included) and data,
   computed by the RFC 1071 definition, is 0xffff *)
Lemma segment_checksum_verifies src dst v lp rp :
  wf_addr src -> wf_addr dst -> bytes_ok v -> len v <= 65527 -> is_u16 lp -> is_u16 rp ->
  let L := 8 + len v in
  let seg := hdr_bytes lp rp L (lnot16 (udp_xsum src dst v lp rp L)) ++ v in
  rfc1071_sum (pseudo4 src dst seg) 0 = 65535 /\ rfc1071_sum (pseudo6 src dst seg) 0 = 65535.
Proof.
  intros Hs Hd Bv Lv Hlp Hrp L seg.
  pose proof (len_nonneg v) as N0.
  assert (HL : is_u16 L) by (unfold is_u16, L; lia).
  assert (Hx := udp_xsum_closed src dst v lp rp L Hs Hd Bv ltac:(lia) Hlp Hrp HL).
  destruct Hs as (Bs & Es & Ls). destruct Hd as (Bd & Ed & Ld).
  pose proof (W_nonneg src Bs) as Ns. pose proof (W_nonneg dst Bd) as Nd. pose proof (W_nonneg v Bv) as Nv.
  set (T := W src + W dst + 17 + W v + L + (lp + rp + L)) in *.
  assert (NT : 0 <= T) by (unfold T, is_u16 in *; lia).
  set (c := lnot16 (udp_xsum src dst v lp rp L)) in *.
  assert (Hc : is_u16 c).
  { unfold c. rewrite Hx. pose proof (oc_norm_u16 T NT). unfold lnot16, is_u16 in *. lia. }
  assert (Lseg : len seg = L) by (unfold seg; rewrite len_hdr_app; reflexivity).
  assert (Bseg : bytes_ok seg) by (unfold seg; apply Forall_app; split; [apply hdr_bytes_ok|exact Bv]).
  assert (Wseg : W seg = lp + rp + L + c + W v).
  { unfold seg. rewrite W_app_even by reflexivity. rewrite W_hdr by assumption. reflexivity. }
  assert (BL : is_byte (L / 256) /\ is_byte (L mod 256)).
  { unfold is_byte, is_u16 in *. split; Z.div_mod_to_equations; lia. }
  assert (EL : L / 256 * 256 + L mod 256 = L) by (Z.div_mod_to_equations; lia).
  assert (Fin : oc_norm (T + c) = 65535).
  { unfold c. rewrite Hx. apply oc_norm_complement, NT. }
  split.
  - unfold pseudo4. rewrite Lseg. rewrite rfc_sum_closed.
    + rewrite W_app_even by exact Es. rewrite W_app_even by exact Ed.
      rewrite (W_app_even [0; 17; L / 256; L mod 256]) by reflexivity. rewrite Wseg.
      unfold W at 3. cbn [be_words zsum fold_right]. rewrite <- Fin. f_equal. unfold T. lia.
    + apply Forall_app; split; [exact Bs|]. apply Forall_app; split; [exact Bd|].
      apply Forall_app; split; [|exact Bseg]. destruct BL. repeat (apply Forall_cons; [unfold is_byte in *; lia|]). apply Forall_nil.
  - unfold pseudo6. rewrite Lseg. rewrite rfc_sum_closed.
    + rewrite W_app_even by exact Es. rewrite W_app_even by exact Ed.
      rewrite (W_app_even [0; 0; L / 256; L mod 256; 0; 0; 0; 17]) by reflexivity. rewrite Wseg.
      unfold W at 3. cbn [be_words zsum fold_right]. rewrite <- Fin. f_equal. unfold T. lia.
    + apply Forall_app; split; [exact Bs|]. apply Forall_app; split; [exact Bd|].
      apply Forall_app; split; [|exact Bseg]. destruct BL. repeat (apply Forall_cons; [unfold is_byte in *; lia|]). apply Forall_nil.
Qed.

Lemma hdr_fields lp rp L c v : is_u16 lp -> is_u16 rp -> is_u16 L -> is_u16 c ->
  let seg := hdr_bytes lp rp L c ++ v in
  f_sport seg = lp /\ f_dport seg = rp /\ f_length seg = L /\ f_checksum seg = c /\ skipn 8 seg = v /\
  firstn 8 seg = hdr_bytes lp rp L c.
Proof.
  unfold is_u16. intros Hl Hr HL Hc. cbv zeta. unfold f_sport, f_dport, f_length, f_checksum, hdr_bytes.
  cbn [app nth skipn firstn]. rewrite !be16_rt by assumption. repeat split; reflexivity.
Qed.

(* ---- Write ---- *)

Definition wf_route (r : route) : Prop := wf_addr (r_local r) /\ wf_addr (r_remote r).

(* the route and destination port Write uses (when it gets that far) *)
Definition route_used (e : endpoint) (to : option Z) (env : writeEnv) : option (route * Z) :=
  match to with
  | None => Some (eroute e, dstPort e)
  | Some port => match we_route env with inr r => Some (r, port) | inl _ => None end
  end.

(* well-formed inputs: ports are 16-bit, addresses are even-length byte strings, an error answer
   of an oracle is a non-nil error *)
Definition wf_write (e : endpoint) (to : option Z) (env : writeEnv) : Prop :=
  is_u16 (localPort e) /\ (forall p, we_bind env = inr p -> is_u16 p) /\
  (forall r p, route_used e to env = Some (r, p) -> wf_route r /\ is_u16 p) /\
  (forall err, we_route env = inl err -> err <> 0).

(* what a Write that emits looks like *)
Definition one_packet (lport : Z) (r : route) (dport : Z) (v : list Z) (sg : segment) : Prop :=
  sg_netProto sg = r_netProto r /\ sg_src sg = r_local r /\ sg_dst sg = r_remote r /\
  length (sg_bytes sg) = (8 + length v)%nat /\
  f_sport (sg_bytes sg) = lport /\ f_dport (sg_bytes sg) = dport /\
  f_length (sg_bytes sg) = 8 + len v /\
  skipn 8 (sg_bytes sg) = v /\
  (r_offload r = false ->
   rfc1071_sum (pseudo4 (sg_src sg) (sg_dst sg) (sg_bytes sg)) 0 = 65535 /\
   rfc1071_sum (pseudo6 (sg_src sg) (sg_dst sg) (sg_bytes sg)) 0 = 65535).

Lemma sendUDP_one_packet r v lp rp ttl :
  wf_route r -> bytes_ok v -> len v <= 65527 -> is_u16 lp -> is_u16 rp ->
  exists sg, sendUDP r v lp rp ttl = Some sg /\ one_packet lp r rp v sg /\ sg_ttl sg = ttl.
Proof.
  intros (Hl & Hr) Bv Lv Hlp Hrp. rewrite sendUDP_eq. cbv zeta.
  pose proof (len_nonneg v) as N0.
  assert (EL : w16 (UDPMinimumSize + len v) = 8 + len v).
  { unfold w16, UDPMinimumSize. change (2^16) with 65536. apply Z.mod_small. lia. }
  rewrite EL. set (L := 8 + len v). eexists. split; [reflexivity|]. split; [|reflexivity].
  assert (HL : is_u16 L) by (unfold is_u16, L; lia).
  set (c := if r_offload r then 0 else lnot16 (udp_xsum (r_local r) (r_remote r) v lp rp L)).
  assert (Hc : is_u16 c).
  { unfold c. destruct (r_offload r); [unfold is_u16; lia|].
    rewrite (udp_xsum_closed _ _ v lp rp L Hl Hr Bv ltac:(lia) Hlp Hrp HL).
    match goal with |- is_u16 (lnot16 (oc_norm ?T)) => assert (NT : 0 <= T) end.
    { destruct Hl as (Bl & _). destruct Hr as (Br & _).
      pose proof (W_nonneg _ Bl). pose proof (W_nonneg _ Br). pose proof (W_nonneg _ Bv). unfold is_u16 in *. lia. }
    pose proof (oc_norm_u16 _ NT). unfold lnot16, is_u16 in *. lia. }
  destruct (hdr_fields lp rp L c v Hlp Hrp HL Hc) as (F1 & F2 & F3 & F4 & F5 & F6).
  unfold one_packet. cbn [sg_netProto sg_src sg_dst sg_bytes].
  split; [reflexivity|]. split; [reflexivity|]. split; [reflexivity|].
  split; [rewrite app_length; reflexivity|]. split; [exact F1|]. split; [exact F2|].
  split; [exact F3|]. split; [exact F5|].
  intros Hoff. unfold c. rewrite Hoff. apply (segment_checksum_verifies _ _ v lp rp Hl Hr Bv Lv Hlp Hrp).
Qed.

Lemma maxPayload_le p : maxPayload p <= 65527.
Proof. unfold maxPayload, UDPMinimumSize, IPv4MinimumSize. destruct (p =? IPv4ProtocolNumber); lia. Qed.

(* postcondition of one Write *)
Definition write_post (e' : endpoint) (to : option Z) (env : writeEnv) (v : list Z) (r : writeResult) : Prop :=
  w_panic r = false /\
  ((w_emitted r = [] /\ w_n r = 0 /\ w_err r <> 0) \/
   (exists sg rt dport,
      w_emitted r = [sg] /\ route_used e' to env = Some (rt, dport) /\
      len v <= maxPayload (r_netProto rt) /\
      one_packet (localPort e') rt dport v sg /\
      ((w_err r = 0 /\ w_n r = len v) \/ (w_err r <> 0 /\ w_n r = 0 /\ w_err r = we_lower env)))).

Lemma werr_post e' to env v err : err <> 0 -> write_post e' to env v (werr err).
Proof. intros H. split; [reflexivity|left]. cbn. auto. Qed.

Lemma prepare_props e has_to env :
  is_u16 (localPort e) -> (forall p, we_bind env = inr p -> is_u16 p) ->
  let e1 := fst (prepareForWrite e has_to env) in
  eroute e1 = eroute e /\ dstPort e1 = dstPort e /\ is_u16 (localPort e1).
Proof.
  intros Hl Hb. unfold prepareForWrite, bindLocked.
  destruct (state e); cbn [fst]; auto.
  destruct (we_bind env) as [berr|port] eqn:Hbe.
  - destruct (berr =? 0); cbn [fst]; auto.
  - cbn [ErrNil Z.eqb fst eroute dstPort localPort]. auto.
Qed.

(* udp_write_one_packet: whatever the state and the answers of the rest of the stack, Write never
   panics and either hands NOTHING to the network layer and returns an error with count 0, or hands
   over exactly ONE segment: ports = the socket's local port and the destination's port, length field
   8 + n, payload = the written bytes, n at most the maximum for the route's protocol, checksum
   verifying; it then returns n (or, if the lower layers failed, their error with count 0). *)
Lemma write_one_packet e more to env v :
  bytes_ok v -> wf_write e to env ->
  write_post (fst (write e more to env v)) to env v (snd (write e more to env v)).
Proof.
  intros Bv (Hlp & Hbind & Hroute & Hrerr). unfold write, write_gen.
  destruct more; [apply werr_post; discriminate|].
  destruct (Z.ltb_spec 65535 (len v)) as [A|A]; [apply werr_post; discriminate|].
  destruct (shutWrite e); [apply werr_post; discriminate|].
  pose proof (prepare_props e (match to with Some _ => true | None => false end) env Hlp Hbind) as Hp.
  destruct (prepareForWrite e _ env) as [e1 err]. cbn [fst] in Hp. destruct Hp as (Pr & Pd & Pl).
  destruct (Z.eqb_spec err 0) as [E0|E0]; cbn [negb]; [|apply werr_post; exact E0].
  assert (RU : route_used e1 to env = route_used e to env).
  { unfold route_used. rewrite Pr, Pd. reflexivity. }
  assert (K : forall rt dport, route_used e to env = Some (rt, dport) ->
    write_post e1 to env v
      (snd (if negb (we_resolve env =? 0) then (e1, werr (we_resolve env))
            else if true && (maxPayload (r_netProto rt) <? len v) then (e1, werr ErrMessageTooLong)
            else match sendUDP rt v (localPort e1) dport
                         (if isV4Multicast (r_remote rt) || isV6Multicast (r_remote rt)
                          then multicastTTL e1 else r_defaultTTL rt) with
                 | None => (e1, mkWR [] 0 0 true)
                 | Some sg => if we_lower env =? 0 then (e1, mkWR [sg] (len v) ErrNil false)
                              else (e1, mkWR [sg] 0 (we_lower env) false)
                 end)) /\
    fst (if negb (we_resolve env =? 0) then (e1, werr (we_resolve env))
            else if true && (maxPayload (r_netProto rt) <? len v) then (e1, werr ErrMessageTooLong)
            else match sendUDP rt v (localPort e1) dport
                         (if isV4Multicast (r_remote rt) || isV6Multicast (r_remote rt)
                          then multicastTTL e1 else r_defaultTTL rt) with
                 | None => (e1, mkWR [] 0 0 true)
                 | Some sg => if we_lower env =? 0 then (e1, mkWR [sg] (len v) ErrNil false)
                              else (e1, mkWR [sg] 0 (we_lower env) false)
                 end) = e1).
  { intros rt dport Hru. destruct (Hroute rt dport Hru) as (Wr & Wp).
    destruct (Z.eqb_spec (we_resolve env) 0) as [R0|R0]; cbn [negb fst snd];
      [|split; [apply werr_post; exact R0|reflexivity]].
    cbn [andb]. destruct (Z.ltb_spec (maxPayload (r_netProto rt)) (len v)) as [M|M]; cbn [fst snd];
      [split; [apply werr_post; discriminate|reflexivity]|].
    pose proof (maxPayload_le (r_netProto rt)) as ML.
    destruct (sendUDP_one_packet rt v (localPort e1) dport
                (if isV4Multicast (r_remote rt) || isV6Multicast (r_remote rt)
                 then multicastTTL e1 else r_defaultTTL rt) Wr Bv ltac:(lia) Pl Wp) as (sg & Hs & Hone & _).
    rewrite Hs.
    destruct (Z.eqb_spec (we_lower env) 0) as [L0|L0]; cbn [fst snd]; (split; [|reflexivity]).
    - split; [reflexivity|right]. exists sg, rt, dport. cbn [w_emitted w_err w_n].
      rewrite RU. split; [reflexivity|]. split; [exact Hru|]. split; [exact M|]. split; [exact Hone|].
      left. split; reflexivity.
    - split; [reflexivity|right]. exists sg, rt, dport. cbn [w_emitted w_err w_n].
      rewrite RU. split; [reflexivity|]. split; [exact Hru|]. split; [exact M|]. split; [exact Hone|].
      right. split; [exact L0|]. split; reflexivity. }
  destruct to as [port|].
  - unfold route_used in K. destruct (we_route env) as [rerr|rt] eqn:Hrt.
    + cbn [fst snd]. apply werr_post. apply Hrerr. reflexivity.
    + destruct (K rt port eq_refl) as (K1 & K2). rewrite K2. exact K1.
  - unfold route_used in K. destruct (K (eroute e) (dstPort e) eq_refl) as (K1 & K2).
    rewrite Pr, Pd. rewrite K2. exact K1.
Qed.

(* when Write gets as far as sending: connected, or an explicit destination on a bound socket, or on a
   fresh socket whose implicit bind succeeds *)
Definition can_send (e : endpoint) (to : option Z) (env : writeEnv) : Prop :=
  shutWrite e = false /\
  (state e = stateConnected \/
   (to <> None /\ (state e = stateBound \/ (state e = stateInitial /\ exists p, we_bind env = inr p)))).

Lemma prepare_ok e to env :
  can_send e to env -> snd (prepareForWrite e (match to with Some _ => true | None => false end) env) = 0.
Proof.
  intros (_ & [Hc|(Ht & [Hb|(Hi & p & Hp)])]); unfold prepareForWrite, bindLocked.
  - rewrite Hc. reflexivity.
  - rewrite Hb. destruct to; [reflexivity|contradiction].
  - rewrite Hi, Hp. cbn. destruct to; [reflexivity|contradiction].
Qed.

(* the size limit is exact: up to the maximum one packet goes out, above it ErrMessageTooLong and
   nothing is emitted *)
Lemma write_size_limit e to env v rt dport :
  bytes_ok v -> wf_write e to env -> can_send e to env ->
  route_used e to env = Some (rt, dport) -> we_resolve env = 0 ->
  let r := snd (write e false to env v) in
  if len v <=? maxPayload (r_netProto rt)
  then exists sg, w_emitted r = [sg] /\ skipn 8 (sg_bytes sg) = v /\ f_length (sg_bytes sg) = 8 + len v
  else w_emitted r = [] /\ w_n r = 0 /\ w_err r = ErrMessageTooLong.
Proof.
  intros Bv Hwf Hcs Hru Hres. cbv zeta.
  pose proof (write_one_packet e false to env v Bv Hwf) as Hpost.
  pose proof (prepare_ok e to env Hcs) as Hprep.
  destruct Hwf as (Hlp & Hbind & Hroute & Hrerr).
  pose proof (prepare_props e (match to with Some _ => true | None => false end) env Hlp Hbind) as Hp.
  pose proof (maxPayload_le (r_netProto rt)) as ML.
  revert Hpost. unfold write, write_gen. destruct Hcs as (Hsw & _). rewrite Hsw.
  destruct (Z.ltb_spec 65535 (len v)) as [A|A].
  { intros _. replace (len v <=? maxPayload (r_netProto rt)) with false by lia. cbn. auto. }
  destruct (prepareForWrite e _ env) as [e1 err]. cbn [fst snd] in *. subst err. cbn [Z.eqb negb].
  destruct Hp as (Pr & Pd & Pl).
  assert (RD : match to with
               | Some port => match we_route env with inl err => inl err | inr r => inr (r, port) end
               | None => inr (eroute e1, dstPort e1)
               end = inr (rt, dport)).
  { unfold route_used in Hru. destruct to as [port|].
    - destruct (we_route env); [discriminate Hru|]. injection Hru as -> ->. reflexivity.
    - injection Hru as <- <-. rewrite Pr, Pd. reflexivity. }
  rewrite RD, Hres. cbn [Z.eqb negb andb].
  destruct (Z.ltb_spec (maxPayload (r_netProto rt)) (len v)) as [M|M].
  - intros _. replace (len v <=? maxPayload (r_netProto rt)) with false by lia. cbn. auto.
  - replace (len v <=? maxPayload (r_netProto rt)) with true by lia.
    intros (_ & [(Hem & _)|(sg & rt' & dport' & Hem & _ & _ & Hone & _)]).
    + exfalso. revert Hem. destruct (sendUDP _ _ _ _ _) eqn:Hs.
      * destruct (we_lower env =? 0); cbn; discriminate.
      * destruct (Hroute rt dport Hru) as (Wr & Wp).
        destruct (sendUDP_one_packet rt v (localPort e1) dport
                    (if isV4Multicast (r_remote rt) || isV6Multicast (r_remote rt)
                     then multicastTTL e1 else r_defaultTTL rt) Wr Bv ltac:(lia) Pl Wp) as (sg & Hs' & _).
        rewrite Hs' in Hs. discriminate Hs.
    + exists sg. split; [exact Hem|]. destruct Hone as (_ & _ & _ & _ & _ & _ & HL & HP & _). auto.
Qed.

(* after Shutdown(ShutdownWrite) or Close: the write is refused, nothing is emitted, nothing changes *)
Lemma shutdown_write_refuses e to env v :
  shutWrite e = true -> len v <= 65535 ->
  write e false to env v = (e, mkWR [] 0 ErrClosedForSend false).
Proof.
  intros Hs Hl. unfold write, write_gen. replace (65535 <? len v) with false by lia. rewrite Hs. reflexivity.
Qed.

Lemma shutdown_write_effect e rd :
  (state e = stateBound \/ state e = stateConnected) -> shutWrite (fst (shutdown e rd true)) = true.
Proof. intros [H|H]; unfold shutdown; rewrite H; cbn; apply orb_true_r. Qed.

Lemma close_refuses_both e : shutWrite (close e) = true /\ rcvClosed (close e) = true /\ rcvList (close e) = [].
Proof. cbn. auto. Qed.

(* ---- concrete runs: the hypotheses above are satisfiable, the success branch is reachable ---- *)
Definition ex_route4 : route := mkRoute IPv4ProtocolNumber [10;0;0;1] [10;0;0;2] 255 false.
Definition ex_env : writeEnv := mkWEnv (inr 40000) (inr ex_route4) 0 0.
Definition ex_conn : endpoint := fst (connect (newEndpoint 32768) 53 (inr (ex_route4, 40000))).

Example write_example :
  wf_write ex_conn None ex_env /\ can_send ex_conn None ex_env /\
  snd (write ex_conn false None ex_env [104; 105; 33]) =
  mkWR [mkSeg IPv4ProtocolNumber [10;0;0;1] [10;0;0;2] 255
          [156;64; 0;53; 0;11; 197;246; 104;105;33]] 3 0 false.
Proof.
  split; [|split].
  - split; [unfold is_u16; cbn; lia|]. split; [intros p H; injection H as <-; unfold is_u16; lia|].
    split.
    + intros r p H. injection H as <- <-. split; [|unfold is_u16; cbn; lia].
      split; (split; [apply bytes_okb_ok; reflexivity|split; [reflexivity|cbn; lia]]).
    + intros err H. discriminate H.
  - split; [reflexivity|left; reflexivity].
  - vm_compute. reflexivity.
Qed.

(* ---- the behaviour before the repair of Write ---- *)
(* without the bound, a 65530-byte write was accepted: one segment whose UDP length field says 2 *)
Definition first_seg (r : writeResult) : segment := hd (mkSeg 0 [] [] 0 []) (w_emitted r).

Lemma write_wrap_old_refuted :
  exists v, bytes_ok v /\ len v = 65530 /\
    let r := snd (write_old ex_conn false None ex_env v) in
    w_err r = 0 /\ w_n r = 65530 /\ Z.of_nat (length (w_emitted r)) = 1 /\
    f_length (sg_bytes (first_seg r)) = 2 /\ len (sg_bytes (first_seg r)) = 65538 /\
    (* the current code refuses *)
    snd (write ex_conn false None ex_env v) = mkWR [] 0 ErrMessageTooLong false.
Proof.
  exists (repeat 7 (Z.to_nat 65530)). split; [|split].
  - apply Forall_forall. intros x Hx. apply repeat_spec in Hx. subst x. unfold is_byte. lia.
  - unfold len. rewrite repeat_length. lia.
  - cbv zeta. repeat split; vm_compute; reflexivity.
Qed.

(* ---- checksum zero ---- *)
(* RFC 768: "If the computed checksum is zero, it is transmitted as all ones".  sendUDP stores the
   complement as computed: when the one's-complement sum is 0xffff the field goes out as 0, which an
   IPv4 receiver reads as "no checksum" and an IPv6 receiver must discard (RFC 2460 8.1).  The
   segment still sums to 0xffff, so it "verifies" in the sense of the theorem above. *)
Lemma write_checksum_zero_possible :
  exists v, bytes_ok v /\
    exists sg, w_emitted (snd (write ex_conn false None ex_env v)) = [sg] /\
               f_checksum (sg_bytes sg) = 0 /\
               rfc1071_sum (pseudo4 (sg_src sg) (sg_dst sg) (sg_bytes sg)) 0 = 65535.
Proof.
  exists [79; 98]. split; [apply bytes_okb_ok; reflexivity|].
  eexists. split; [vm_compute; reflexivity|]. split; vm_compute; reflexivity.
Qed.
