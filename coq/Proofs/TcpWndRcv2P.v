(* C04, part 3: the receiver invariant between events, one event, histories. *)
From Coq Require Import ZArith List Bool Lia ZifyBool.
From RecordUpdate Require Import RecordSet.
From NP Require Import Model.Seqnum Model.GoHeap Model.Tcp Proofs.SeqnumP Proofs.TcpWndP Proofs.TcpWndHeapP Proofs.TcpWndRcvP.
Import ListNotations RecordSetNotations.
Open Scope Z_scope.

(* the accounting of the pending heap: pendUsed is an upper bound of what is queued *)
Definition PU (t : tcp) : Prop :=
  pendSum t <= pendUsed (RC t) /\ pendUsed (RC t) <= pendSize (RC t) + P17 /\ 0 <= pendSize (RC t) <= P28.

Lemma plogicalLen_small fl d :
  len d < 2^31 -> plogicalLen fl d = len d + (if has fl fSyn then 1 else 0) + (if has fl fFin then 1 else 0).
Proof.
  intros H. unfold plogicalLen. apply u32_small. pose proof (len_nonneg d).
  consts. change (2^31) with 2147483648 in *. destruct (has fl fSyn), (has fl fFin); lia.
Qed.

Lemma PU_drain fuel : forall t, PU t -> PU (drainPending fuel t).
Proof.
  induction fuel as [|fuel IH]; intros t HP; [exact HP|]. rewrite drainPending_S.
  destruct (rclosed (RC t)); [exact HP|].
  destruct (pending (RC t)) as [|hd rest] eqn:Ep; [exact HP|].
  destruct HP as (H1 & H2 & H3).
  assert (Hps : pendSum t = pll hd + sumf pll rest) by (unfold pendSum; rewrite Ep; reflexivity).
  pose proof (pll_nonneg hd) as Hh0. pose proof (sumf_nonneg pll rest pll_nonneg) as Hr0.
  assert (Pop : forall t0 dd, len dd <= len (p_data hd) ->
            pendUsed (RC t0) = pendUsed (RC t) -> pendSize (RC t0) = pendSize (RC t) ->
            (pending (RC t0) = pending (RC t) \/ exists j, pending (RC t0) = firstn j (pending (RC t))) ->
            PU (popIt fuel hd t0 dd)).
  { intros t0 dd Hdd Hu0 Hz0 Hp0. unfold popIt.
    assert (Hsum0 : pendSum t0 <= pendSum t).
    { unfold pendSum. destruct Hp0 as [->|(j & ->)]; [lia|apply sumf_firstn_le; exact pll_nonneg]. }
    destruct (pop pless (pending (RC t0))) as [[h' x]|] eqn:Epop.
    - destruct (pop_spec pless pll _ _ _ Epop) as (Hhd & Hsm & _).
      assert (Hx : x = hd /\ sumf pll h' <= sumf pll rest).
      { destruct Hp0 as [Hp0|(j & Hp0)]; rewrite Hp0, Ep in *.
        - cbn in Hhd. inversion Hhd. subst x. cbn [sumf] in Hsm. split; [reflexivity|lia].
        - destruct j; cbn in Hhd; [discriminate|]. inversion Hhd. subst x. split; [reflexivity|].
          cbn [firstn sumf] in Hsm. pose proof (sumf_firstn_le pll pll_nonneg j rest). lia. }
      destruct Hx as (-> & Hle2).
      apply IH. unfold PU, pendSum. cbn. rewrite Hu0, Hz0.
      pose proof (len_nonneg dd) as Hd0.
      assert (Hpl : plogicalLen (p_flags hd) dd <= pll hd /\ 0 <= plogicalLen (p_flags hd) dd).
      { rewrite plogicalLen_small.
        - unfold pll. destruct (has _ fSyn), (has _ fFin); lia.
        - unfold pll in *. unfold P17, P28 in *. change (2^31) with 2147483648.
          destruct (has (p_flags hd) fSyn), (has (p_flags hd) fFin); lia. }
      rewrite u32_small by (unfold P17, P28 in *; consts; lia).
      repeat split; lia.
    - unfold PU. rewrite Hu0, Hz0. repeat split; lia. }
  destruct (lessThan _ _).
  - apply Pop; [lia|reflexivity|reflexivity|left; reflexivity].
  - pose proof (consume_shape t (p_flags hd) (p_data hd) (p_seq hd) (len (p_data hd)) true) as Hsh.
    destruct (consumeSegment t (p_flags hd) (p_data hd) (p_seq hd) (len (p_data hd)) true) as [[t1 ok] d'].
    cbv zeta in Hsh. cbn [fst snd] in Hsh.
    destruct Hsh as (Hf & Hld & Hpu & Hpz & Hcase).
    destruct ok; [|exact (conj H1 (conj H2 H3))].
    apply Pop; try assumption.
    destruct Hcase as [(_ & P1 & _)|(_ & j & P1)]; [left; exact P1|right; exists j; exact P1].
Qed.

Lemma PU_rc_same t t' : rc_same t t' -> PU t -> PU t'.
Proof.
  intros (_&_&_&P&U&Z&_) H. unfold PU, pendSum in *. rewrite P, U, Z. exact H.
Qed.

Lemma sumf_le_firstn_pend t t1 :
  (pending (RC t1) = pending (RC t) \/ exists j, pending (RC t1) = firstn j (pending (RC t))) ->
  pendSum t1 <= pendSum t.
Proof.
  unfold pendSum. intros [->|(j & ->)]; [lia|apply sumf_firstn_le; exact pll_nonneg].
Qed.

Lemma K_sendAck b s k B n0 a0 E0 t :
  0 <= s <= 14 -> k = 2^s - 1 -> 0 <= B <= P29 -> K b s k B n0 a0 E0 t -> K b s k 0 n0 a0 E0 (sendAck t).
Proof. intros. unfold sendAck. eapply K_sendSegment; eassumption. Qed.
Lemma K_up b s k B n0 a0 E0 t : B <= P29 -> K b s k B n0 a0 E0 t -> K b s k P29 n0 a0 E0 t.
Proof. intros. eapply K_weaken; eassumption. Qed.
Lemma P29_pos : 0 <= 0 <= P29. Proof. unfold P29. lia. Qed.

Lemma rcvHandle_K b s k n0 a0 E0 t sg :
  0 <= s <= 14 -> k = 2^s - 1 -> out t = [] -> len (s_data sg) <= 65535 ->
  K b s k 0 n0 a0 E0 t -> PU t ->
  K b s k P29 n0 a0 E0 (rcvHandle t sg) /\ PU (rcvHandle t sg).
Proof.
  intros Hs Hk Ho Hl HK HP. unfold rcvHandle.
  destruct (rclosed (RC t)) eqn:Ecl.
  { split; [eapply K_weaken; [|exact HK]; unfold P29; lia|exact HP]. }
  destruct (negb (acceptable _ _ _)).
  { split.
    - apply (K_up b s k 0); [apply P29_pos|]. apply (K_sendAck b s k 0 n0 a0 E0 _ Hs Hk P29_pos). exact HK.
    - eapply PU_rc_same; [apply sends_rc_same, sendAck_sends|exact HP]. }
  pose proof (consume_shape t (s_flags sg) (s_data sg) (s_seq sg) (len (s_data sg)) false) as Hsh.
  pose proof (fin1_bounds (s_flags sg)) as Hfin. pose proof (len_nonneg (s_data sg)) as Hd0.
  assert (Hc : K b s k (0 + len (s_data sg) + fin1 (s_flags sg)) n0 a0 E0
             (fst (fst (consumeSegment t (s_flags sg) (s_data sg) (s_seq sg) (len (s_data sg)) false)))).
  { apply K_consume; try assumption; unfold P29; lia. }
  destruct (consumeSegment t (s_flags sg) (s_data sg) (s_seq sg) (len (s_data sg)) false) as [[t1 ok] d'].
  cbv zeta in Hsh. cbn [fst snd] in Hsh, Hc.
  destruct Hsh as (Hf & Hld & Hpu & Hpz & Hcase).
  destruct HP as (P1 & P2 & P3).
  pose proof (sumf_nonneg pll (pending (RC t)) pll_nonneg) as Q0. fold (pendSum t) in Q0.
  destruct ok; cbn [negb].
  - (* consumed: drain the heap *)
    assert (Hs1 : pendSum t1 <= pendSum t).
    { apply sumf_le_firstn_pend. destruct Hcase as [(_ & Q & _)|(_ & j & Q)]; [left; exact Q|right; exists j; exact Q]. }
    assert (HP1 : PU t1) by (unfold PU; rewrite Hpu, Hpz; repeat split; lia).
    destruct (K_drain b s k n0 a0 E0 (S (length (pending (RC t1)))) Hs Hk t1
                (0 + len (s_data sg) + fin1 (s_flags sg))) as (B' & HB' & Hsum & HK'); try assumption.
    + lia.
    + unfold P29, P28, P17 in *. lia.
    + destruct Hcase as [(O1 & _ & _)|(C1 & _)]; [left; rewrite O1; exact Ho|right; exact C1].
    + split; [|apply PU_drain; exact HP1].
      eapply K_weaken; [|exact HK'].
      pose proof (sumf_nonneg pll (pending (RC (drainPending (S (length (pending (RC t1)))) t1))) pll_nonneg) as Q.
      fold (pendSum (drainPending (S (length (pending (RC t1)))) t1)) in Q.
      unfold P29, P28, P17 in *. lia.
  - (* not consumed: park it *)
    specialize (Hf eq_refl). subst t1.
    destruct (_ || _); [|split; [eapply K_weaken; [|exact HK]; unfold P29; lia|unfold PU; repeat split; lia]].
    cbv zeta.
    destruct (pendUsed (RC t) <? pendSize (RC t)) eqn:Epu.
    + split.
      * apply (K_up b s k 0); [apply P29_pos|]. apply (K_sendAck b s k 0 n0 a0 E0 _ Hs Hk P29_pos).
        apply K_pend. exact HK.
      * eapply PU_rc_same; [apply sends_rc_same, sendAck_sends|].
        unfold PU, pendSum. cbn. rewrite sumf_push. unfold pll at 2. cbn [p_data p_flags].
        rewrite plogicalLen_small by (change (2^31) with 2147483648; lia).
        fold (pendSum t).
        rewrite u32_small; [|unfold P17, P28 in *; consts; destruct (has _ fSyn), (has _ fFin); lia].
        unfold P17, P28 in *. destruct (has _ fSyn), (has _ fFin); repeat split; lia.
    + split.
      * apply (K_up b s k 0); [apply P29_pos|]. apply (K_sendAck b s k 0 n0 a0 E0 _ Hs Hk P29_pos). exact HK.
      * eapply PU_rc_same; [apply sends_rc_same, sendAck_sends|]. unfold PU; repeat split; lia.
Qed.

(* ------------------------------------------------------------------ the invariant between events *)
(* right edge advertised by the most recent segment, read off the state *)
Definition adv_edge (t : tcp) : Z :=
  let s := rcvWndScale (RC t) in
  add (maxSentAck (SN t)) (Z.shiftl (adv_wnd (maxSentAck (SN t)) (rcvAcc (RC t)) s) s).

Definition RInvAt (b n a : Z) (t : tcp) : Prop :=
  rcvNxt (RC t) = seq_of b n /\ maxSentAck (SN t) = seq_of b n /\ rcvAcc (RC t) = seq_of b a /\
  0 <= rcvWndScale (RC t) <= 14 /\ n <= a <= n + P30 /\ 0 <= rcvBufSize t <= P30 /\
  rcvBufUsed t = len (concat (rcvList t)) /\ a - n <= Z.max 0 (rcvBufSize t - rcvBufUsed t) /\ PU t.

Lemma adv_edge_off b N a t :
  maxSentAck (SN t) = seq_of b N -> rcvAcc (RC t) = seq_of b a -> 0 <= a - N < 2^32 ->
  adv_edge t = seq_of b (N + Z.shiftl (wnd_of (a - N) (rcvWndScale (RC t))) (rcvWndScale (RC t))).
Proof.
  intros H1 H2 H3. unfold adv_edge, adv_wnd. cbv zeta. rewrite H1, H2.
  change (u32 (seq_of b a - seq_of b N)) with (size (seq_of b N) (seq_of b a)).
  rewrite size_offsets by exact H3. apply seq_of_add.
Qed.

Lemma RInv_K b n a t : RInvAt b n a t ->
  K b (rcvWndScale (RC t)) (2 ^ rcvWndScale (RC t) - 1) 0 n a (adv_edge t) (t <| out := [] |>).
Proof.
  intros (H1 & H2 & H3 & H4 & H5 & H6 & H7 & H8 & H9).
  exists n, n, a. cbn. repeat split; try assumption; try lia.
  - apply adv_edge_off; try assumption. unfold P30 in *. consts. lia.
  - constructor.
Qed.

Lemma K_RInv b s k B n0 a0 E0 t :
  K b s k B n0 a0 E0 t -> 0 <= B <= P29 -> 0 <= s <= 14 -> PU t -> maxSentAck (SN t) = rcvNxt (RC t) ->
  exists n a, n0 <= n /\ a0 <= a /\ RInvAt b n a t /\ last_edge s E0 (out t) = adv_edge t /\
              monok s k E0 (out t) /\ Forall (FrOK b s n0 a0 a (rcvBufUsed t) (rcvBufSize t)) (out t).
Proof.
  intros (N & n & a & HN & Hn & Ha & Hsc & H0 & H1 & H2 & H3 & Hsz & HU & HJ & Hm & Hl & Hf) HB Hs HP He.
  assert (N = n).
  { apply (seq_of_inj b). - rewrite <- HN, <- Hn. exact He. - unfold P29 in *. change (2^31) with 2147483648. lia. }
  subst N. exists n, a. split; [lia|]. split; [lia|]. split; [|split; [|split; assumption]].
  - unfold RInvAt. rewrite Hsc.
    refine (conj Hn (conj HN (conj Ha (conj Hs (conj _ (conj Hsz (conj HU (conj HJ HP)))))))). lia.
  - rewrite Hl. symmetry. rewrite <- Hsc. apply adv_edge_off; try assumption. unfold P30 in *. consts. lia.
Qed.

(* loopExit only touches estate *)
Lemma loopExit_cases t : loopExit t = t \/ loopExit t = t <| estate := stClosed |>.
Proof. unfold loopExit. destruct (_ && _); [|left; reflexivity]. destruct (estate t =? stError); [left|right]; reflexivity. Qed.

Lemma K_loopExit b s k B n0 a0 E0 t : K b s k B n0 a0 E0 t -> K b s k B n0 a0 E0 (loopExit t).
Proof. intros H. destruct (loopExit_cases t) as [->| ->]; [exact H|]. destruct H as (N & n & a & H). exists N, n, a. exact H. Qed.
Lemma K_abort b s k B n0 a0 E0 t : K b s k B n0 a0 E0 t -> K b s k B n0 a0 E0 (abortOnReset t).
Proof. intros H. destruct H as (N & n & a & H). exists N, n, a. exact H. Qed.
Lemma PU_abort t : PU t -> PU (abortOnReset t).
Proof. intros H. exact H. Qed.
Lemma PU_loopExit t : PU t -> PU (loopExit t).
Proof. intros H. destruct (loopExit_cases t) as [->| ->]; exact H. Qed.
Lemma loopExit_RC t : RC (loopExit t) = RC t.
Proof. destruct (loopExit_cases t) as [->| ->]; reflexivity. Qed.

(* the closing "if rcvNxt != maxSentAck { sendAck }" of handleSegments *)
Lemma K_fixup b s k B n0 a0 E0 t :
  0 <= s <= 14 -> k = 2^s - 1 -> 0 <= B <= P29 -> K b s k B n0 a0 E0 t -> PU t ->
  let t2 := if negb (rcvNxt (RC t) =? maxSentAck (SN t)) then sendAck t else t in
  K b s k B n0 a0 E0 t2 /\ PU t2 /\ maxSentAck (SN t2) = rcvNxt (RC t2).
Proof.
  intros Hs Hk HB HK HP. cbv zeta.
  destruct (rcvNxt (RC t) =? maxSentAck (SN t)) eqn:E; cbn [negb].
  - apply Z.eqb_eq in E. split; [exact HK|split; [exact HP|symmetry; exact E]].
  - split; [|split].
    + eapply K_weaken; [|eapply K_sendAck; eassumption]. lia.
    + eapply PU_rc_same; [apply sends_rc_same, sendAck_sends|exact HP].
    + unfold sendAck. rewrite sendSegment_eq. cbn. reflexivity.
Qed.

(* ------------------------------------------------------------------ one event, receiver side *)
Definition isReset (f : frame) : Prop := f_flags f = Z.lor fAck fRst /\ f_wnd f = 0 /\ f_data f = [].

(* what one event does, seen from the peer of the receiver: frames l emitted through sendSegment,
   possibly followed by the single RST of resetConnection, after which the connection is dead *)
Definition StepOK (b n a : Z) (t t' : tcp) : Prop :=
  let s := rcvWndScale (RC t) in
  exists n' a' l r,
    n <= n' /\ a <= a' /\ RInvAt b n' a' t' /\ rcvWndScale (RC t') = s /\ out t' = l ++ r /\
    (r = [] \/ exists f, r = [f] /\ isReset f /\ estate t' = stError) /\
    monok s (2^s - 1) (adv_edge t) l /\ last_edge s (adv_edge t) l = adv_edge t' /\
    Forall (FrOK b s n a a' (rcvBufUsed t') (rcvBufSize t')) l.

Lemma StepOK_close b n a t t' :
  let s := rcvWndScale (RC t) in
  forall B, K b s (2^s - 1) B n a (adv_edge t) t' -> 0 <= B <= P29 -> 0 <= s <= 14 -> PU t' ->
  maxSentAck (SN t') = rcvNxt (RC t') -> StepOK b n a t t'.
Proof.
  cbv zeta. intros B HK HB Hs HP He.
  assert (Hsc : rcvWndScale (RC t') = rcvWndScale (RC t)) by (destruct HK as (?&?&?&_&_&_&Q&_); exact Q).
  destruct (K_RInv _ _ _ _ _ _ _ _ HK HB Hs HP He) as (n' & a' & H1 & H2 & H3 & H4 & H5 & H6).
  exists n', a', (out t'), []. rewrite app_nil_r.
  split; [lia|]. split; [lia|]. split; [exact H3|]. split; [exact Hsc|]. split; [reflexivity|].
  split; [left; reflexivity|]. split; [exact H5|]. split; [exact H4|exact H6].
Qed.

Lemma StepOK_reset b n a t t1 :
  let s := rcvWndScale (RC t) in
  forall B, K b s (2^s - 1) B n a (adv_edge t) t1 -> 0 <= B <= P29 -> 0 <= s <= 14 -> PU t1 ->
  maxSentAck (SN t1) = rcvNxt (RC t1) -> StepOK b n a t (resetConnection t1).
Proof.
  cbv zeta. intros B HK HB Hs HP He.
  assert (Hsc : rcvWndScale (RC t1) = rcvWndScale (RC t)) by (destruct HK as (?&?&?&_&_&_&Q&_); exact Q).
  destruct (K_RInv _ _ _ _ _ _ _ _ HK HB Hs HP He) as (n' & a' & H1 & H2 & H3 & H4 & H5 & H6).
  exists n', a', (out t1), [mkF (sndUna (SN t1)) (rcvNxt (RC t1)) (Z.lor fAck fRst) 0 []].
  unfold resetConnection.
  split; [lia|]. split; [lia|]. split; [exact H3|]. split; [exact Hsc|]. split; [reflexivity|].
  split; [right; eexists; split; [reflexivity|split; [repeat split|reflexivity]]|].
  split; [exact H5|]. split; [exact H4|exact H6].
Qed.

Lemma P29_self : 0 <= P29 <= P29. Proof. unfold P29. lia. Qed.

Lemma StepOK_finish b n a t t1 :
  let s := rcvWndScale (RC t) in
  K b s (2^s - 1) P29 n a (adv_edge t) t1 -> 0 <= s <= 14 -> PU t1 ->
  StepOK b n a t (loopExit (if negb (rcvNxt (RC t1) =? maxSentAck (SN t1)) then sendAck t1 else t1)).
Proof.
  cbv zeta. intros HK Hs HP.
  destruct (K_fixup _ _ _ _ _ _ _ _ Hs eq_refl P29_self HK HP) as (K2 & P2 & E2).
  set (t2 := if negb _ then sendAck t1 else t1) in *.
  apply (StepOK_close b n a t (loopExit t2) P29); [apply K_loopExit; exact K2|apply P29_self|exact Hs|
    apply PU_loopExit; exact P2|rewrite loopExit_SN, loopExit_RC; exact E2].
Qed.

Lemma handleSegment_StepOK b n a t sg r idle :
  RInvAt b n a t -> len (s_data sg) <= 65535 ->
  StepOK b n a t (handleSegment (t <| out := [] |>) sg r idle).
Proof.
  intros HR Hl. pose proof (RInv_K b n a t HR) as K0.
  assert (Hs : 0 <= rcvWndScale (RC t) <= 14) by (destruct HR as (_&_&_&Q&_); exact Q).
  assert (P0 : PU (t <| out := [] |>)) by (destruct HR as (_&_&_&_&_&_&_&_&Q); exact Q).
  assert (E0 : maxSentAck (SN (t <| out := [] |>)) = rcvNxt (RC (t <| out := [] |>))).
  { destruct HR as (Q1&Q2&_). cbn. congruence. }
  set (t0 := t <| out := [] |>) in *.
  assert (K0' : K b (rcvWndScale (RC t)) (2 ^ rcvWndScale (RC t) - 1) P29 n a (adv_edge t) t0)
    by (eapply K_up; [|exact K0]; apply P29_pos).
  unfold handleSegment.
  destruct (negb (estate t0 =? stConnected)).
  { apply (StepOK_close b n a t t0 0); [exact K0|apply P29_pos|exact Hs|exact P0|exact E0]. }
  destruct (has (s_flags sg) fRst).
  { destruct (acceptable _ _ _).
    - apply (StepOK_close b n a t (abortOnReset t0) 0); [apply K_abort; exact K0|apply P29_pos|exact Hs|apply PU_abort; exact P0|exact E0].
    - apply StepOK_finish; assumption. }
  cbv zeta.
  set (t1 := if has (s_flags sg) fAck then _ else t0).
  assert (H1 : K b (rcvWndScale (RC t)) (2 ^ rcvWndScale (RC t) - 1) P29 n a (adv_edge t) t1 /\ PU t1).
  { subst t1. destruct (has (s_flags sg) fAck); [|split; assumption].
    destruct (tsOk t0 && negb (s_ts sg)); [split; assumption|].
    destruct (rcvHandle_K b _ _ n a (adv_edge t) t0 sg Hs eq_refl eq_refl Hl K0 P0) as (K1 & P1).
    split.
    - eapply K_sends; [exact Hs|reflexivity|apply P29_self|apply sndHandle_sends|exact K1].
    - eapply PU_rc_same; [apply sends_rc_same, sndHandle_sends|exact P1]. }
  destruct H1 as (K1 & P1). apply StepOK_finish; assumption.
Qed.

Lemma appWrite_sends t d idle : sends t (fst (appWrite t d idle)).
Proof.
  unfold appWrite.
  destruct (estate t =? stError); [apply sends_refl|].
  destruct (negb (estate t =? stConnected)); [apply sends_refl|].
  destruct (len d =? 0); [apply sends_refl|].
  destruct (sndClosedE t); [apply sends_refl|].
  cbv zeta. destruct (_ <=? 0); [apply sends_refl|]. cbn [fst].
  match goal with |- sends t (sendData ?T idle) => apply (sends_neu t T); [|apply sendData_sends] end.
  unfold rneutral. cbn. repeat split.
Qed.

Lemma appShutdownWrite_pre t idle :
  exists t2, sends t t2 /\ (fst (appShutdownWrite t idle) = t \/
     fst (appShutdownWrite t idle) = loopExit (t2 <| SN := (SN t2) <| sclosed := true |> |>)).
Proof.
  unfold appShutdownWrite.
  destruct (negb (estate t =? stConnected)); [exists t; split; [apply sends_refl|left; reflexivity]|].
  destruct (sndClosedE t); [exists t; split; [apply sends_refl|left; reflexivity]|].
  cbv zeta. cbn [fst].
  match goal with |- context [sendData ?T idle] => exists (sendData T idle); split;
    [apply (sends_neu t T); [|apply sendData_sends]|right; reflexivity] end.
  unfold rneutral. cbn. repeat split.
Qed.

Lemma rtoExpired_sends t idle : sends t (fst (rtoExpired t idle)).
Proof.
  unfold rtoExpired. cbv zeta.
  destruct (tstate (SN t) =? tOrphaned); [apply sends_one_neu, rneutral_SN; reflexivity|].
  destruct (negb (tstate (SN t) =? tEnabled)); [apply sends_refl|].
  destruct (maxRTO <=? _); [apply sends_one_neu, rneutral_SN; reflexivity|].
  cbn [fst].
  match goal with |- sends t (sendData ?T idle) => apply (sends_neu t T); [|apply sendData_sends] end.
  apply rneutral_SN. unfold reduceSsthresh. destruct (frActive _); reflexivity.
Qed.

Lemma K_read b s k B n0 a0 E0 t v rest :
  rcvList t = v :: rest ->
  K b s k B n0 a0 E0 t -> K b s k B n0 a0 E0 (t <| rcvList := rest |> <| rcvBufUsed := rcvBufUsed t - len v |>).
Proof.
  intros Hv (N & n & a & HN & Hn & Ha & Hsc & H0 & H1 & H2 & H3 & Hsz & HU & HJ & Hm & Hl & Hf).
  pose proof (len_nonneg v). exists N, n, a. cbn.
  rewrite Hv in HU. cbn [concat] in HU. rewrite len_app in HU.
  repeat split; try assumption; try lia.
  eapply Forall_impl; [|exact Hf]. intros f Hg. eapply FrOK_mono; [apply Z.le_refl| |exact Hg]. lia.
Qed.

Lemma appRead_StepOK b n a t :
  RInvAt b n a t -> StepOK b n a t (fst (fst (appRead (t <| out := [] |>)))).
Proof.
  intros HR. pose proof (RInv_K b n a t HR) as K0.
  assert (Hs : 0 <= rcvWndScale (RC t) <= 14) by (destruct HR as (_&_&_&Q&_); exact Q).
  assert (P0 : PU (t <| out := [] |>)) by (destruct HR as (_&_&_&_&_&_&_&_&Q); exact Q).
  assert (E0 : maxSentAck (SN (t <| out := [] |>)) = rcvNxt (RC (t <| out := [] |>))).
  { destruct HR as (Q1&Q2&_). cbn. congruence. }
  set (t0 := t <| out := [] |>) in *.
  assert (Done : StepOK b n a t t0)
    by (apply (StepOK_close b n a t t0 0); [exact K0|apply P29_pos|exact Hs|exact P0|exact E0]).
  unfold appRead.
  destruct (_ && _ && _); [exact Done|].
  destruct (rcvBufUsed t0 =? 0); [exact Done|].
  destruct (rcvList t0) as [|v rest] eqn:Ev; [exact Done|].
  cbv zeta. cbn [fst].
  pose proof (K_read _ _ _ _ _ _ _ t0 v rest Ev K0) as K1.
  set (t1 := t0 <| rcvList := rest |> <| rcvBufUsed := rcvBufUsed t0 - len v |>) in *.
  assert (P1 : PU t1) by exact P0.
  assert (E1 : maxSentAck (SN t1) = rcvNxt (RC t1)) by exact E0.
  destruct (_ && _ && _).
  - unfold nonZeroWindow. destruct (negb _).
    + apply (StepOK_close b n a t (loopExit t1) 0); [apply K_loopExit; exact K1|apply P29_pos|exact Hs|
        apply PU_loopExit; exact P1|rewrite loopExit_SN, loopExit_RC; exact E1].
    + apply (StepOK_close b n a t (loopExit (sendAck t1)) 0);
        [apply K_loopExit; eapply K_sendAck; [exact Hs|reflexivity|apply P29_pos|exact K1]|apply P29_pos|exact Hs| |].
      * apply PU_loopExit. eapply PU_rc_same; [apply sends_rc_same, sendAck_sends|exact P1].
      * rewrite loopExit_SN, loopExit_RC. unfold sendAck. rewrite sendSegment_eq. reflexivity.
  - apply (StepOK_close b n a t t1 0); [exact K1|apply P29_pos|exact Hs|exact P1|exact E1].
Qed.

Lemma sends_ack_eq t t' : sends t t' -> maxSentAck (SN t) = rcvNxt (RC t) -> maxSentAck (SN t') = rcvNxt (RC t').
Proof.
  induction 1 as [t|t d fl sq t' H IH|t t1 t' Hn H IH]; intros E; [exact E| |].
  - apply IH. rewrite sendSegment_eq. reflexivity.
  - apply IH. destruct Hn as (R & _ & _ & _ & _ & M & _). rewrite R, M. exact E.
Qed.

Definition ev_ok (e : event) : Prop :=
  match e with ESeg sg _ => len (s_data sg) <= 65535 | _ => True end.

Lemma StepOK_sends b n a t t' :
  RInvAt b n a t -> sends (t <| out := [] |>) t' -> StepOK b n a t t'.
Proof.
  intros HR Hsd. pose proof (RInv_K b n a t HR) as K0.
  assert (Hs : 0 <= rcvWndScale (RC t) <= 14) by (destruct HR as (_&_&_&Q&_); exact Q).
  assert (P0 : PU (t <| out := [] |>)) by (destruct HR as (_&_&_&_&_&_&_&_&Q); exact Q).
  assert (E0 : maxSentAck (SN (t <| out := [] |>)) = rcvNxt (RC (t <| out := [] |>))).
  { destruct HR as (Q1&Q2&_). cbn. congruence. }
  apply (StepOK_close b n a t t' 0); [|apply P29_pos|exact Hs| |].
  - eapply K_sends; [exact Hs|reflexivity|apply P29_pos|exact Hsd|exact K0].
  - eapply PU_rc_same; [apply sends_rc_same; exact Hsd|exact P0].
  - eapply sends_ack_eq; eassumption.
Qed.

Lemma StepOK_loopExit b n a t t' : StepOK b n a t t' -> estate t' <> stError -> StepOK b n a t (loopExit t').
Proof.
  intros H He. destruct (loopExit_cases t') as [->| ->]; [exact H|].
  destruct H as (n' & a' & l & r & H1 & H2 & H3 & Hsc & H4 & H5 & H6 & H7 & H8).
  exists n', a', l, r. split; [exact H1|]. split; [exact H2|]. split; [exact H3|]. split; [exact Hsc|].
  split; [exact H4|]. split; [|split; [exact H6|split; [exact H7|exact H8]]].
  destruct H5 as [->|(f & _ & _ & E)]; [left; reflexivity|contradiction].
Qed.

Theorem rcv_step b n a t e : RInvAt b n a t -> ev_ok e -> StepOK b n a t (fst (step t e)).
Proof.
  intros HR Hev. unfold step. destruct e as [sg r|d| | |]; cbn [fst].
  - apply handleSegment_StepOK; assumption.
  - pose proof (appWrite_sends (t <| out := [] |>) d false) as Hs.
    destruct (appWrite (t <| out := [] |>) d false) as [t1 nn]. cbn [fst] in *.
    apply StepOK_sends; assumption.
  - pose proof (appRead_StepOK b n a t HR) as H.
    destruct (appRead (t <| out := [] |>)) as [[t1 v] err]. exact H.
  - destruct (appShutdownWrite_pre (t <| out := [] |>) false) as (t2 & Hs & Hc).
    destruct (appShutdownWrite (t <| out := [] |>) false) as [t1 nn]. cbn [fst] in *.
    apply StepOK_sends; [exact HR|]. destruct Hc as [-> | ->]; [apply sends_refl|].
    eapply sends_trans; [exact Hs|].
    eapply sends_neu; [apply (rneutral_SN t2 ((SN t2) <| sclosed := true |>)); reflexivity|].
    apply sends_one_neu, loopExit_neutral.
  - destruct (negb (estate (t <| out := [] |>) =? stConnected)); cbn [fst].
    { apply StepOK_sends; [exact HR|apply sends_refl]. }
    pose proof (rtoExpired_sends (t <| out := [] |>) false) as Hs.
    destruct (rtoExpired (t <| out := [] |>) false) as [t1 alive]. cbn [fst] in *.
    destruct alive.
    + apply StepOK_sends; [exact HR|]. eapply sends_trans; [exact Hs|]. apply sends_one_neu, loopExit_neutral.
    + pose proof (RInv_K b n a t HR) as K0.
      assert (Hsc : 0 <= rcvWndScale (RC t) <= 14) by (destruct HR as (_&_&_&Q&_); exact Q).
      assert (P0 : PU (t <| out := [] |>)) by (destruct HR as (_&_&_&_&_&_&_&_&Q); exact Q).
      assert (E0 : maxSentAck (SN (t <| out := [] |>)) = rcvNxt (RC (t <| out := [] |>))).
      { destruct HR as (Q1&Q2&_). cbn. congruence. }
      apply (StepOK_reset b n a t t1 0); [|apply P29_pos|exact Hsc| |].
      * eapply K_sends; [exact Hsc|reflexivity|apply P29_pos|exact Hs|exact K0].
      * eapply PU_rc_same; [apply sends_rc_same; exact Hs|exact P0].
      * eapply sends_ack_eq; eassumption.
Qed.

(* ------------------------------------------------------------------ histories *)
(* after a reset nothing is ever emitted again *)
Lemma dead_step t e : estate t = stError -> out (fst (step t e)) = [] /\ estate (fst (step t e)) = stError.
Proof.
  intros He. unfold step. destruct e as [sg r|d| | |]; cbn [fst].
  - unfold handleSegment. cbn [estate set]. rewrite He. cbn. split; [reflexivity|exact He].
  - unfold appWrite. cbn [estate set]. rewrite He. cbn. split; [reflexivity|exact He].
  - unfold appRead. cbn [estate set rcvBufUsed rcvList]. rewrite He. cbn.
    destruct (rcvBufUsed t =? 0); cbn; [split; [reflexivity|exact He]|].
    destruct (rcvList t) as [|v rest]; cbn; [split; [reflexivity|exact He]|].
    rewrite andb_false_r. cbn. split; [reflexivity|exact He].
  - unfold appShutdownWrite. cbn [estate set]. rewrite He. cbn. split; [reflexivity|exact He].
  - cbn [estate set]. rewrite He. cbn. split; [reflexivity|exact He].
Qed.

Lemma dead_run es : forall t, estate t = stError -> run_out t es = [].
Proof.
  induction es as [|e es IH]; intros t He; cbn [run_out]; [reflexivity|].
  destruct (dead_step t e He) as (O & E). rewrite O, (IH _ E). reflexivity.
Qed.

Definition FrRun (b s n a' : Z) (f : frame) : Prop :=
  exists nf af, f_ack f = seq_of b nf /\ f_wnd f = wnd_of (af - nf) s /\ n <= nf <= af /\ af <= a'.

Lemma run_cons t e es : run t (e :: es) = run (fst (step t e)) es.
Proof. reflexivity. Qed.

Lemma dead_run_estate es : forall t, estate t = stError -> estate (run t es) = stError.
Proof.
  induction es as [|e es IH]; intros t He; [exact He|]. rewrite run_cons. apply IH. apply dead_step. exact He.
Qed.

Theorem rcv_run b : forall es n a t,
  RInvAt b n a t -> Forall ev_ok es ->
  let s := rcvWndScale (RC t) in
  exists n' a' l r,
    n <= n' /\ a <= a' /\ RInvAt b n' a' (run t es) /\ run_out t es = l ++ r /\
    (r = [] \/ exists f, r = [f] /\ isReset f /\ estate (run t es) = stError) /\
    monok s (2^s - 1) (adv_edge t) l /\ Forall (FrRun b s n a') l.
Proof.
  induction es as [|e es IH]; intros n a t HR Hev; cbv zeta.
  - exists n, a, [], []. split; [lia|]. split; [lia|]. split; [exact HR|]. split; [reflexivity|].
    split; [left; reflexivity|]. split; [exact I|constructor].
  - inversion Hev as [|e' es' He Hes]; subst.
    destruct (rcv_step b n a t e HR He) as (n1 & a1 & l1 & r1 & A1 & A2 & A3 & Asc & A4 & A5 & A6 & A7 & A8).
    cbn [run_out]. rewrite run_cons. set (t1 := fst (step t e)) in *.
    assert (F1 : forall a', a1 <= a' -> Forall (FrRun b (rcvWndScale (RC t)) n a') l1).
    { intros a' Ha'. eapply Forall_impl; [|exact A8]. intros f (nf & af & B1 & B2 & B3 & B4 & _).
      exists nf, af. repeat split; try assumption; lia. }
    destruct (IH n1 a1 t1 A3 Hes) as (n2 & a2 & l2 & r2 & C1 & C2 & C3 & C4 & C5 & C6 & C7).
    rewrite Asc in C6, C7.
    destruct A5 as [->|(f & -> & Hf & Hdead)].
    + rewrite app_nil_r in A4.
      exists n2, a2, (l1 ++ l2), r2. rewrite A4, C4, app_assoc.
      split; [lia|]. split; [lia|]. split; [exact C3|]. split; [reflexivity|]. split; [exact C5|].
      split.
      * apply monok_app. split; [exact A6|]. rewrite A7. exact C6.
      * apply Forall_app. split; [apply F1; lia|].
        eapply Forall_impl; [|exact C7]. intros g (nf & af & B1 & B2 & B3 & B4).
        exists nf, af. repeat split; try assumption; lia.
    + rewrite (dead_run es t1 Hdead), app_nil_r, A4.
      exists n2, a2, l1, [f].
      split; [lia|]. split; [lia|]. split; [exact C3|]. split; [reflexivity|].
      split; [right; exists f; split; [reflexivity|split; [exact Hf|apply dead_run_estate; exact Hdead]]|].
      split; [exact A6|apply F1; lia].
Qed.
