(* C05, part 3: initial window, retransmission time-out (one segment, doubling, termination),
   fast retransmit / fast recovery, and the documented timer finding (the fast retransmit does
   not re-arm the retransmission timer). *)
From Coq Require Import ZArith List Bool Lia ZifyBool.
From RecordUpdate Require Import RecordSet.
From NP Require Import Model.Seqnum Model.GoHeap Model.Tcp Proofs.SeqnumP Proofs.TcpCcP Proofs.TcpCcInvP.
Import ListNotations RecordSetNotations.
Open Scope Z_scope.

(* ------------------------------------------------------------------ initial window *)

(* events that involve neither an ACK-bearing segment nor a time-out *)
Definition noAck (e : event) : bool :=
  match e with
  | ESeg sg _ => negb (has (s_flags sg) fAck)
  | ERto => false
  | _ => true
  end.

Lemma quiet_out0 t0 t' : out t0 = [] -> quiet t0 t' -> dcount (out t') = 0.
Proof. intros E (_ & _ & fs & O & D). rewrite O, E. exact D. Qed.

Lemma step_noAck t e :
  noAck e = true ->
  let t' := fst (step t e) in
  cwnd (SN t') = cwnd (SN t) /\
  outstanding (SN t) <= outstanding (SN t') <= Z.max (outstanding (SN t)) (cwnd (SN t)) /\
  dcount (out t') <= outstanding (SN t') - outstanding (SN t).
Proof.
  intros NA. unfold step. set (t0 := t <| out := [] |>).
  assert (O0 : out t0 = []) by reflexivity.
  assert (QQ : forall t', quiet t0 t' ->
     cwnd (SN t') = cwnd (SN t) /\
     outstanding (SN t) <= outstanding (SN t') <= Z.max (outstanding (SN t)) (cwnd (SN t)) /\
     dcount (out t') <= outstanding (SN t') - outstanding (SN t)).
  { intros t' Q. pose proof (quiet_out0 _ _ O0 Q) as D. destruct Q as (C & _). coref C.
    change (SN t0) with (SN t) in *. rewrite D, Hcw, Hout. lia. }
  assert (SD : forall t1, out t1 = [] -> cwnd (SN t1) = cwnd (SN t) -> outstanding (SN t1) = outstanding (SN t) ->
     cwnd (SN (sendData t1 false)) = cwnd (SN t) /\
     outstanding (SN t) <= outstanding (SN (sendData t1 false)) <= Z.max (outstanding (SN t)) (cwnd (SN t)) /\
     dcount (out (sendData t1 false)) <= outstanding (SN (sendData t1 false)) - outstanding (SN t)).
  { intros t1 E1 E2 E3. pose proof (sendData_spec t1) as S. cbv zeta in S.
    destruct S as (L & _ & _ & O & _ & fs & OF & DC & _). loopf L. cbn in *.
    rewrite OF, E1. cbn [app]. rewrite Hcw, E2. rewrite E2, E3 in O. rewrite E3 in DC. lia. }
  destruct e as [sg newRto|d| | |]; cbn [noAck] in NA; try discriminate; cbv zeta.
  - cbn [fst]. unfold handleSegment.
    destruct (negb (estate t0 =? stConnected)); [apply QQ, quiet_refl|].
    destruct (has (s_flags sg) fRst).
    { destruct (acceptable _ _ _); [|apply QQ, tail_quiet].
      (* the connection is aborted: nothing of the sender changes, no data frame (by computation,
         whatever the abort emits) *)
      match goal with |- cwnd (SN ?r) = _ /\ _ =>
        assert (RR : SN r = SN t0 /\ dcount (out r) = 0) by (split; reflexivity);
        destruct RR as (R1 & R2); rewrite R1, R2; change (SN t0) with (SN t); lia end. }
    apply negb_true_iff in NA. rewrite NA. apply QQ, tail_quiet.
  - unfold appWrite.
    destruct (estate t0 =? stError); [apply QQ, quiet_refl|].
    destruct (negb (estate t0 =? stConnected)); [apply QQ, quiet_refl|].
    destruct (len d =? 0); [apply QQ, quiet_refl|].
    destruct (sndClosedE t0); [apply QQ, quiet_refl|]. cbv zeta.
    destruct (sndBufSize t0 - sndBufUsed t0 <=? 0); [apply QQ, quiet_refl|].
    destruct (_ <? 0); cbn [fst]; apply SD; reflexivity.
  - pose proof (appRead_quiet t0) as Q.
    destruct (appRead t0) as [[t1 v] err]. cbn [fst] in *. apply QQ, Q.
  - unfold appShutdownWrite.
    destruct (negb (estate t0 =? stConnected)); [apply QQ, quiet_refl|].
    destruct (sndClosedE t0); [apply QQ, quiet_refl|]. cbv zeta. cbn [fst].
    rewrite loopExit_SN, loopExit_out. cbn [SN out set].
    match goal with |- context [sendData ?x false] => pose proof (SD x eq_refl eq_refl eq_refl) as S end.
    cbn in *. exact S.
Qed.

(* initial_window_10: whatever is written, at most cwnd - outstanding (= 10 for a fresh sender)
   data segments are emitted before the first ACK-bearing segment or time-out *)
Lemma initial_window es : forall t,
  forallb noAck es = true -> 0 <= outstanding (SN t) <= cwnd (SN t) ->
  dcount (run_out t es) <= cwnd (SN t) - outstanding (SN t).
Proof.
  induction es as [|e r IH]; intros t NA O; cbn [run_out].
  - cbn. lia.
  - cbn [forallb] in NA. apply andb_true_iff in NA. destruct NA as (NA & NR).
    pose proof (step_noAck t e NA) as S. cbv zeta in S. destruct S as (S1 & S2 & S3).
    rewrite dcount_app. specialize (IH (fst (step t e)) NR). rewrite S1 in IH.
    specialize (IH ltac:(lia)). lia.
Qed.

Lemma initial_window_10 t es :
  fresh_sender (SN t) -> forallb noAck es = true -> dcount (run_out t es) <= 10.
Proof.
  intros (H1 & H2 & H3 & _) NA. pose proof (initial_window es t NA) as I.
  rewrite H1, H3 in I. unfold InitialCwnd in I. lia.
Qed.

(* ------------------------------------------------------------------ retransmission time-out *)

Definition live (t : tcp) : Prop := estate t = stConnected /\ tstate (SN t) = tEnabled.

(* the sender state handed to sendData by a real expiry *)
Definition rtoReset (s : sndr) : sndr :=
  let s0 := s <| tstate := tDisabled |> in
  let s1 := s0 <| rto := rto s0 * 2 |> in
  let s2 := if frActive s1 then leaveFastRecovery s1 else s1 in
  let s3 := s2 <| frLast := u32 (sndNxt s2 - 1) |> in
  let s4 := (reduceSsthresh s3) <| cwnd := 1 |> in
  s4 <| outstanding := 0 |> <| wunsent := wsent s4 ++ wunsent s4 |> <| wsent := [] |>.

Lemma step_rto_live t :
  live t -> rto (SN t) < maxRTO ->
  fst (step t ERto) = loopExit (sendData (t <| out := [] |> <| SN := rtoReset (SN t) |>) false).
Proof.
  intros (E & T) R.
  assert (EM : (maxRTO <=? rto (SN t)) = false) by (apply Z.leb_gt; exact R).
  unfold step. change (estate (t <| out := [] |>)) with (estate t). rewrite E.
  change (negb (stConnected =? stConnected)) with false. cbv iota.
  unfold rtoExpired. cbv zeta. change (SN (t <| out := [] |>)) with (SN t). rewrite T.
  change (tEnabled =? tOrphaned) with false. change (negb (tEnabled =? tEnabled)) with false. cbv iota.
  change (rto (SN t <| tstate := tDisabled |>)) with (rto (SN t)). rewrite EM. reflexivity.
Qed.

Lemma step_rto_dead t :
  live t -> maxRTO <= rto (SN t) ->
  estate (fst (step t ERto)) = stError /\
  out (fst (step t ERto)) = [mkF (sndUna (SN t)) (rcvNxt (RC t)) (Z.lor fAck fRst) 0 []].
Proof.
  intros (E & T) R.
  assert (EM : (maxRTO <=? rto (SN t)) = true) by (apply Z.leb_le; exact R).
  unfold step. change (estate (t <| out := [] |>)) with (estate t). rewrite E.
  change (negb (stConnected =? stConnected)) with false. cbv iota.
  unfold rtoExpired. cbv zeta. change (SN (t <| out := [] |>)) with (SN t). rewrite T.
  change (tEnabled =? tOrphaned) with false. change (negb (tEnabled =? tEnabled)) with false. cbv iota.
  change (rto (SN t <| tstate := tDisabled |>)) with (rto (SN t)). rewrite EM. split; reflexivity.
Qed.

Lemma rtoReset_fields s :
  rto (rtoReset s) = rto s * 2 /\ cwnd (rtoReset s) = 1 /\ outstanding (rtoReset s) = 0 /\
  frActive (rtoReset s) = false /\
  ssthresh (rtoReset s) = Z.max 2 (Z.quot (outstanding s) 2) /\
  wsent (rtoReset s) = [] /\ wunsent (rtoReset s) = wsent s ++ wunsent s /\
  sndUna (rtoReset s) = sndUna s /\ sndNxt (rtoReset s) = sndNxt s /\ sndWnd (rtoReset s) = sndWnd s /\
  maxPayload (rtoReset s) = maxPayload s /\ tstate (rtoReset s) = tDisabled /\
  frLast (rtoReset s) = u32 (sndNxt s - 1).
Proof.
  unfold rtoReset. cbv zeta.
  destruct (frActive (s <| tstate := tDisabled |> <| rto := rto (s <| tstate := tDisabled |>) * 2 |>)) eqn:E;
    cbn in E; cbn -[Z.mul Z.quot Z.max]; rewrite ?E; repeat split; try reflexivity;
    destruct (Z.quot (outstanding s) 2 <? 2) eqn:E2; lia.
Qed.

Lemma sendLoop_closed fuel t endv limit :
  cwnd (SN t) <= outstanding (SN t) -> sendLoop fuel t endv limit = t.
Proof.
  intros H. destruct fuel; cbn [sendLoop]; [reflexivity|].
  destruct (wunsent (SN t)); [reflexivity|].
  destruct (outstanding (SN t) <? cwnd (SN t)) eqn:E; [lia|]. reflexivity.
Qed.

(* rto_one_segment_and_doubling *)
Lemma rto_step t :
  live t -> rto (SN t) < maxRTO ->
  let t' := fst (step t ERto) in
  rto (SN t') = 2 * rto (SN t) /\ cwnd (SN t') = 1 /\ frActive (SN t') = false /\
  ssthresh (SN t') = Z.max 2 (Z.quot (outstanding (SN t)) 2) /\
  sndUna (SN t') = sndUna (SN t) /\
  0 <= outstanding (SN t') <= 1 /\ dcount (out t') <= outstanding (SN t') /\
  (1 <= maxPayload (SN t) -> dcount (out t') = outstanding (SN t')) /\
  (tstate (SN t') = if sndUna (SN t) =? sndNxt (SN t') then tDisabled else tEnabled).
Proof.
  intros L R. cbv zeta. rewrite (step_rto_live t L R).
  rewrite loopExit_SN, loopExit_out.
  set (t1 := t <| out := [] |> <| SN := rtoReset (SN t) |>).
  pose proof (sendData_spec t1) as S. cbv zeta in S.
  destruct S as (LF & _ & _ & O & TS & fs & OF & DC & DCe). loopfT LF.
  change (SN t1) with (rtoReset (SN t)) in *. change (out t1) with (@nil frame) in OF.
  destruct (rtoReset_fields (SN t)) as (F1 & F2 & F3 & F4 & F5 & F6 & F7 & F8 & F9 & F10 & F11 & F12 & F13).
  rewrite OF. cbn [app]. rewrite F3, F2 in O. rewrite F3 in DC, DCe. rewrite F11 in DCe.
  rewrite F12, F8 in TS. change (tDisabled =? tEnabled) with false in TS. cbv iota in TS.
  repeat split; try lia; try congruence.
Qed.

(* one iteration of the send loop on an already numbered data segment inside the window *)
Lemma sendLoop_data_step f t endv limit w rest :
  wunsent (SN t) = w :: rest -> outstanding (SN t) < cwnd (SN t) ->
  w_flags w <> 0 -> w_data w <> [] -> lessThan (w_seq w) endv = true ->
  let available := if limit <? size (w_seq w) endv then limit else size (w_seq w) endv in
  let w2 := if available <? len (w_data w) then mkW (w_seq w) (w_flags w) (takeZ available (w_data w)) else w in
  let rest' := if available <? len (w_data w)
               then mkW (add (w_seq w) (u32 available)) (w_flags w) (dropZ available (w_data w)) :: rest else rest in
  sendLoop (S f) t endv limit =
  sendLoop f (xmit t ((SN t) <| outstanding := outstanding (SN t) + 1 |> <| wsent := wsent (SN t) ++ [w2] |>
                             <| wunsent := rest' |>)
                   (w_data w2) (w_flags w2) (w_seq w2) (add (w_seq w2) (u32 (len (w_data w2))))) endv limit.
Proof.
  intros WU OC FL DT LT. cbv zeta. cbn [sendLoop]. cbv zeta. rewrite WU.
  destruct (outstanding (SN t) <? cwnd (SN t)) eqn:E; [|lia]. cbn [negb].
  destruct (w_flags w =? 0) eqn:EF; [lia|].
  assert (LD : len (w_data w) =? 0 = false).
  { destruct (len (w_data w) =? 0) eqn:E2; [|reflexivity]. exfalso. apply DT, len_zero_nil. lia. }
  rewrite LD, LT. cbn [negb].
  destruct ((if limit <? size (w_seq w) endv then limit else size (w_seq w) endv) <? len (w_data w));
    unfold xmit; cbv beta zeta iota; cbn [fst snd w_seq w_flags w_data]; reflexivity.
Qed.

(* when the head of the write list is a data segment that was already transmitted (numbered) and
   the peer's window still covers its start, the expiry emits exactly one frame: that segment,
   or its window/MSS-limited prefix *)
Lemma sendData_out_loop t :
  out (sendData t false) =
  out (sendLoop (S (wbytes (wunsent (SN t)))) t (add (sndUna (SN t)) (sndWnd (SN t))) (maxPayload (SN t))).
Proof.
  unfold sendData. cbv zeta. rewrite andb_false_r. cbn [andb].
  replace (t <| SN := SN t |>) with t by (destruct t; reflexivity).
  match goal with |- out (if ?c then _ else _) = _ => destruct c end; reflexivity.
Qed.

(* with room for exactly one more segment the loop emits exactly one frame *)
Lemma sendLoop_one f t endv limit w rest :
  wunsent (SN t) = w :: rest -> outstanding (SN t) + 1 = cwnd (SN t) ->
  w_flags w <> 0 -> w_data w <> [] -> lessThan (w_seq w) endv = true ->
  let avail := Z.min limit (size (w_seq w) endv) in
  exists ak wn,
    out (sendLoop (S f) t endv limit) =
    out t ++ [mkF (w_seq w) ak (w_flags w) wn (if avail <? len (w_data w) then takeZ avail (w_data w) else w_data w)].
Proof.
  intros WU OC FL DT LT. cbv zeta.
  rewrite (sendLoop_data_step f t endv limit w rest WU ltac:(lia) FL DT LT).
  assert (AV : (if limit <? size (w_seq w) endv then limit else size (w_seq w) endv) = Z.min limit (size (w_seq w) endv)).
  { destruct (limit <? size (w_seq w) endv) eqn:E; lia. }
  rewrite AV. clear AV. set (avail := Z.min limit (size (w_seq w) endv)).
  match goal with |- context [xmit ?a ?b ?c ?d ?e ?f] =>
    destruct (xmit_spec a b c d e f) as (L3 & O3 & _ & _ & ak & wn & F3'); set (t3 := xmit a b c d e f) in * end.
  assert (CL : cwnd (SN t3) <= outstanding (SN t3)).
  { loopf L3. rewrite O3, Hcw. cbn -[Z.add]. lia. }
  clearbody t3. rewrite (sendLoop_closed f t3 endv limit CL).
  exists ak, wn. rewrite F3'. destruct (avail <? len (w_data w)); reflexivity.
Qed.

Lemma rto_emits_head t w rest :
  live t -> rto (SN t) < maxRTO ->
  wsent (SN t) ++ wunsent (SN t) = w :: rest ->
  w_flags w <> 0 -> w_data w <> [] ->
  lessThan (w_seq w) (add (sndUna (SN t)) (sndWnd (SN t))) = true ->
  let avail := Z.min (maxPayload (SN t)) (size (w_seq w) (add (sndUna (SN t)) (sndWnd (SN t)))) in
  exists ak wn,
    out (fst (step t ERto)) =
      [mkF (w_seq w) ak (w_flags w) wn (if avail <? len (w_data w) then takeZ avail (w_data w) else w_data w)].
Proof.
  intros L R WL FL DT LT. cbv zeta. rewrite (step_rto_live t L R). rewrite loopExit_out.
  destruct (rtoReset_fields (SN t)) as (F1 & F2 & F3 & F4 & F5 & F6 & F7 & F8 & F9 & F10 & F11 & F12 & F13).
  remember (t <| out := [] |> <| SN := rtoReset (SN t) |>) as t1 eqn:ET1.
  assert (S1 : SN t1 = rtoReset (SN t)) by (rewrite ET1; reflexivity).
  assert (O1 : out t1 = []) by (rewrite ET1; reflexivity).
  clear ET1. rewrite sendData_out_loop.
  assert (WU : wunsent (SN t1) = w :: rest) by (rewrite S1, F7; exact WL).
  assert (OC : outstanding (SN t1) + 1 = cwnd (SN t1)) by (rewrite S1, F3, F2; lia).
  assert (LT1 : lessThan (w_seq w) (add (sndUna (SN t1)) (sndWnd (SN t1))) = true) by (rewrite S1, F8, F10; exact LT).
  destruct (sendLoop_one (wbytes (wunsent (SN t1))) t1 _ (maxPayload (SN t1)) w rest WU OC FL DT LT1) as (ak & wn & E).
  exists ak, wn. rewrite E, O1. cbn [app]. rewrite S1, F8, F10, F11. reflexivity.
Qed.

Lemma run_snoc t es e : run t (es ++ [e]) = fst (step (run t es) e).
Proof. unfold run. rewrite fold_left_app. reflexivity. Qed.

Lemma repeat_snoc {A} (x : A) n : repeat x (S n) = repeat x n ++ [x].
Proof. induction n; cbn in *; [reflexivity|]. rewrite <- IHn. reflexivity. Qed.

(* the state after n expiries with a silent peer *)
Definition silent (n : nat) (t : tcp) : tcp := run t (repeat ERto n).

Lemma silent_S n t : silent (S n) t = fst (step (silent n t) ERto).
Proof. unfold silent. rewrite repeat_snoc, run_snoc. reflexivity. Qed.

(* rto_backoff_terminates: while the peer stays silent every expiry doubles rto, and no more than
   ten expiries can happen on a live connection (200 ms * 2^9 > 60 s): the next one resets it *)
Lemma rto_backoff t n :
  minRTO <= rto (SN t) ->
  (forall i, (i < n)%nat -> live (silent i t)) ->
  (forall j, (j < n)%nat -> rto (SN (silent j t)) = rto (SN t) * 2 ^ Z.of_nat j) /\ (n <= 10)%nat.
Proof.
  intros M LV.
  assert (DB : forall j, (j < n)%nat -> rto (SN (silent j t)) = rto (SN t) * 2 ^ Z.of_nat j).
  { induction j as [|j IH]; intros Hj.
    - unfold silent. cbn. lia.
    - specialize (IH ltac:(lia)). pose proof (LV j ltac:(lia)) as Lj. pose proof (LV (S j) Hj) as LS.
      destruct (Z_lt_le_dec (rto (SN (silent j t))) maxRTO) as [LT|GE].
      + pose proof (rto_step (silent j t) Lj LT) as RS. cbv zeta in RS. destruct RS as (RS & _).
        rewrite silent_S, RS, IH. rewrite Nat2Z.inj_succ, Z.pow_succ_r by lia. lia.
      + destruct (step_rto_dead (silent j t) Lj GE) as (ED & _).
        rewrite <- silent_S in ED. destruct LS as (LS & _). rewrite ED in LS. discriminate. }
  split; [exact DB|].
  destruct (le_lt_dec n 10) as [|GT]; [assumption|]. exfalso.
  pose proof (DB 9%nat ltac:(lia)) as R9. pose proof (LV 9%nat ltac:(lia)) as L9.
  pose proof (LV 10%nat ltac:(lia)) as L10.
  assert (GE : maxRTO <= rto (SN (silent 9 t))).
  { rewrite R9. unfold maxRTO, minRTO in *. change (2 ^ Z.of_nat 9) with 512. lia. }
  destruct (step_rto_dead (silent 9 t) L9 GE) as (ED & _).
  rewrite <- silent_S in ED. destruct L10 as (L10 & _). rewrite ED in L10. discriminate.
Qed.

(* ------------------------------------------------------------------ fast retransmit / fast recovery *)

(* sender.handleRcvdSegment in pieces: the RTT sample, the ACK processing, and everything up to
   (not including) the final sendData *)
Definition hs1 (t : tcp) (sg : seg) (newRto : Z) : sndr :=
  let s0 := SN t in
  let clampRto := if newRto <? minRTO then minRTO else newRto in
  if negb (tsOk t) && lessThan (rttSeq s0) (s_ack sg)
  then s0 <| rto := clampRto |> <| rttSeq := sndNxt s0 |> else s0.

Definition ackPart (t : tcp) (s3 : sndr) (sg : seg) (newRto : Z) : tcp :=
  let clampRto := if newRto <? minRTO then minRTO else newRto in
  let ack := s_ack sg in
  let t3 := t <| SN := s3 |> in
  if inRange (u32 (ack - 1)) (sndUna s3) (sndNxt s3) then
    let s4 := s3 <| dupAck := 0 |> <| tstate := if tstate s3 =? tDisabled then tDisabled else tOrphaned |> in
    let s5 := if tsOk t && s_tsecr sg then s4 <| rto := clampRto |> else s4 in
    let acked := size (sndUna s5) ack in
    let '(sent', unsent', removed) :=
      ackLoop (S (length (wsent s5) + length (wunsent s5))) (wsent s5) (wunsent s5) acked 0 in
    let s6 := s5 <| sndUna := ack |> <| wsent := sent' |> <| wunsent := unsent' |>
                 <| outstanding := outstanding s5 - removed |> in
    let s7 := if frActive s6 then s6 else renoUpdate s6 removed in
    let s8 := if outstanding s7 <? 0 then s7 <| outstanding := 0 |> else s7 in
    t3 <| SN := s8 |> <| sndBufUsed := sndBufUsed t3 - acked |>
  else t3.

Definition preSend (t : tcp) (sg : seg) (wnd : Z) (newRto : Z) : tcp :=
  let r := checkDuplicateAck (hs1 t sg newRto) (s_ack sg) (seglen sg) wnd in
  let t4 := ackPart t ((fst r) <| sndWnd := wnd |>) sg newRto in
  if snd r then resendSegment t4 else t4.

Lemma sndHandle_preSend t sg wnd newRto idle :
  sndHandle t sg wnd newRto idle = sendData (preSend t sg wnd newRto) idle.
Proof.
  unfold sndHandle, preSend, hs1, ackPart, seglen. cbv zeta.
  destruct (checkDuplicateAck _ _ _ _) as [s2 rtx]. reflexivity.
Qed.

Lemma step_processed t sg newRto :
  processed t sg = true ->
  let t1 := sndHandle (rcvHandle (t <| out := [] |>) sg) sg (wndOf t sg) newRto false in
  fst (step t (ESeg sg newRto)) =
    loopExit (if negb (rcvNxt (RC t1) =? maxSentAck (SN t1)) then sendAck t1 else t1).
Proof.
  unfold processed. intros P.
  apply andb_true_iff in P. destruct P as (P & P4).
  apply andb_true_iff in P. destruct P as (P & P3).
  apply andb_true_iff in P. destruct P as (P1 & P2).
  apply negb_true_iff in P2, P4.
  cbv zeta. unfold step. cbn [fst]. unfold handleSegment.
  change (estate (t <| out := [] |>)) with (estate t). change (tsOk (t <| out := [] |>)) with (tsOk t).
  rewrite P1, P2, P3, P4. cbn [negb]. reflexivity.
Qed.

(* hs1 changes rto and rttSeq only *)
Definition same_but_rtt (s s' : sndr) : Prop :=
  s' <| rto := 0 |> <| rttSeq := 0 |> = s <| rto := 0 |> <| rttSeq := 0 |>.

Lemma same_but_rtt_fields s s' : same_but_rtt s s' ->
  dupAck s' = dupAck s /\ frActive s' = frActive s /\ frFirst s' = frFirst s /\ frLast s' = frLast s /\
  frMaxCwnd s' = frMaxCwnd s /\ cwnd s' = cwnd s /\ ssthresh s' = ssthresh s /\ caCount s' = caCount s /\
  outstanding s' = outstanding s /\ sndWnd s' = sndWnd s /\ sndUna s' = sndUna s /\ sndNxt s' = sndNxt s /\
  wsent s' = wsent s /\ wunsent s' = wunsent s /\ tstate s' = tstate s.
Proof.
  intros H. destruct s, s'. unfold same_but_rtt in H. cbn in H. inversion H. subst. cbn. repeat split.
Qed.
Ltac rttf H :=
  let H' := fresh in
  pose proof (same_but_rtt_fields _ _ H) as H';
  destruct H' as (?Rdup & ?Rfra & ?Rfrf & ?Rfrl & ?Rfrm & ?Rcw & ?Rss & ?Rca & ?Rout & ?Rwn & ?Run & ?Rnx &
                  ?Rwse & ?Rwun & ?Rts).

Lemma hs1_same t sg newRto : same_but_rtt (SN t) (hs1 t sg newRto).
Proof. unfold hs1. cbv zeta. destruct (_ && _); reflexivity. Qed.

Lemma inRange_self_false a n : inRange (u32 (a - 1)) a n = false.
Proof.
  unfold inRange. apply Z.ltb_ge. unfold u32. rewrite Zminus_mod_idemp_l.
  replace (a - 1 - a) with (-1) by lia. change ((-1) mod 2^32) with (2^32 - 1).
  pose proof (Z.mod_pos_bound (n - a) (2^32) ltac:(lia)). lia.
Qed.

Lemma ackPart_noadv t s3 sg newRto :
  inRange (u32 (s_ack sg - 1)) (sndUna s3) (sndNxt s3) = false -> ackPart t s3 sg newRto = t <| SN := s3 |>.
Proof. intros H. unfold ackPart. cbv zeta. rewrite H. reflexivity. Qed.

(* the write list after k bytes were newly acknowledged (spec vocabulary) *)
Fixpoint trimmed (l : list wseg) (k : Z) : list wseg :=
  match l with
  | [] => []
  | w :: r => if 0 <? k then
                (if k <? wlogicalLen w then mkW (add (w_seq w) k) (w_flags w) (dropZ k (w_data w)) :: r
                 else trimmed r (k - wlogicalLen w))
              else l
  end.

Lemma ackLoop_lists fuel : forall sent unsent k r,
  (length sent + length unsent < fuel)%nat -> 0 <= k < 2^32 ->
  fst (fst (ackLoop fuel sent unsent k r)) ++ snd (fst (ackLoop fuel sent unsent k r)) = trimmed (sent ++ unsent) k.
Proof.
  induction fuel as [|f IH]; intros sent unsent k r Hf Hk; [lia|].
  cbn [ackLoop]. destruct (0 <? k) eqn:EK; cbn [negb].
  2:{ destruct sent, unsent; cbn [app trimmed fst snd]; rewrite ?EK; reflexivity. }
  destruct sent as [|w sent'].
  - destruct unsent as [|w unsent']; cbn [app trimmed fst snd]; [reflexivity|]. rewrite EK.
    pose proof (wlogicalLen_range w) as R.
    destruct (k <? wlogicalLen w) eqn:EL; cbn [fst snd app]; [reflexivity|].
    rewrite IH; [|cbn in *; lia|unfold u32; rewrite Z.mod_small; lia].
    cbn [app]. unfold u32. rewrite Z.mod_small by lia. reflexivity.
  - cbn [app trimmed]. rewrite EK.
    pose proof (wlogicalLen_range w) as R.
    destruct (k <? wlogicalLen w) eqn:EL; cbn [fst snd app]; [reflexivity|].
    rewrite IH; [|cbn in *; lia|unfold u32; rewrite Z.mod_small; lia].
    unfold u32. rewrite Z.mod_small by lia. reflexivity.
Qed.

Lemma trimmed_0 l : trimmed l 0 = l.
Proof. destruct l; reflexivity. Qed.

Lemma renoUpdate_keeps s n :
  dupAck (renoUpdate s n) = dupAck s /\ tstate (renoUpdate s n) = tstate s /\
  wsent (renoUpdate s n) = wsent s /\ wunsent (renoUpdate s n) = wunsent s /\
  sndUna (renoUpdate s n) = sndUna s /\ frFirst (renoUpdate s n) = frFirst s /\ frLast (renoUpdate s n) = frLast s /\
  frActive (renoUpdate s n) = frActive s /\ ssthresh (renoUpdate s n) = ssthresh s.
Proof.
  unfold renoUpdate, renoCA. cbv zeta.
  repeat match goal with |- context [if ?c then _ else _] => destruct c end; cbn; repeat split.
Qed.

(* what the ACK processing does when the ACK acknowledges new data *)
Lemma ackPart_adv t s3 sg newRto :
  inRange (u32 (s_ack sg - 1)) (sndUna s3) (sndNxt s3) = true ->
  let t4 := ackPart t s3 sg newRto in
  out t4 = out t /\ tsOk t4 = tsOk t /\
  wsent (SN t4) ++ wunsent (SN t4) = trimmed (wsent s3 ++ wunsent s3) (size (sndUna s3) (s_ack sg)) /\
  sndUna (SN t4) = s_ack sg /\ dupAck (SN t4) = 0 /\
  tstate (SN t4) = (if tstate s3 =? tDisabled then tDisabled else tOrphaned) /\
  frFirst (SN t4) = frFirst s3 /\ frLast (SN t4) = frLast s3 /\ frActive (SN t4) = frActive s3 /\
  ssthresh (SN t4) = ssthresh s3 /\
  (frActive s3 = true -> cwnd (SN t4) = cwnd s3) /\
  (frActive s3 = false -> 1 <= cwnd s3 -> 0 <= caCount s3 -> 1 <= ssthresh s3 ->
     cwnd s3 <= cwnd (SN t4) <= cwnd s3 + caCount s3 / cwnd s3 +
                                  covered (wsent s3 ++ wunsent s3) (size (sndUna s3) (s_ack sg))).
Proof.
  intros IR. cbv zeta. unfold ackPart. cbv zeta. rewrite IR.
  set (clampRto := if newRto <? minRTO then minRTO else newRto).
  set (s4 := s3 <| dupAck := 0 |> <| tstate := if tstate s3 =? tDisabled then tDisabled else tOrphaned |>).
  set (s5 := if tsOk t && s_tsecr sg then s4 <| rto := clampRto |> else s4).
  assert (W5 : wsent s5 = wsent s3 /\ wunsent s5 = wunsent s3 /\ sndUna s5 = sndUna s3 /\
               frActive s5 = frActive s3 /\ frFirst s5 = frFirst s3 /\ cwnd s5 = cwnd s3 /\
               ssthresh s5 = ssthresh s3 /\ frLast s5 = frLast s3 /\ caCount s5 = caCount s3 /\ dupAck s5 = 0 /\
               tstate s5 = (if tstate s3 =? tDisabled then tDisabled else tOrphaned)).
  { subst s5 s4. destruct (tsOk t && s_tsecr sg); cbn; auto 12. }
  destruct W5 as (W5 & X5 & U5 & F5 & FF5 & C5 & SS5 & L5 & CA5 & D5 & T5). clearbody s5. clear s4.
  rewrite W5, X5, U5.
  pose proof (ackLoop_lists (S (length (wsent s3) + length (wunsent s3))) (wsent s3) (wunsent s3)
                (size (sndUna s3) (s_ack sg)) 0 ltac:(lia)
                ltac:(unfold size, u32; apply Z.mod_pos_bound; lia)) as AL.
  pose proof (ackLoop_removed (S (length (wsent s3) + length (wunsent s3))) (wsent s3) (wunsent s3)
                (size (sndUna s3) (s_ack sg)) 0 ltac:(lia)
                ltac:(unfold size, u32; apply Z.mod_pos_bound; lia)) as AR.
  destruct (ackLoop (S (length (wsent s3) + length (wunsent s3))) (wsent s3) (wunsent s3)
              (size (sndUna s3) (s_ack sg)) 0) as [[sent' unsent'] removed].
  cbn [fst snd] in AL, AR. rewrite Z.add_0_l in AR. rewrite <- AL, <- AR.
  pose proof (covered_nonneg (wsent s3 ++ wunsent s3) (size (sndUna s3) (s_ack sg))) as CN. rewrite <- AR in CN.
  set (s6 := s5 <| sndUna := s_ack sg |> <| wsent := sent' |> <| wunsent := unsent' |>
                <| outstanding := outstanding s5 - removed |>).
  assert (E6 : wsent s6 = sent' /\ wunsent s6 = unsent' /\ sndUna s6 = s_ack sg /\
               frActive s6 = frActive s3 /\ frFirst s6 = frFirst s3 /\ cwnd s6 = cwnd s3 /\
               ssthresh s6 = ssthresh s3 /\ frLast s6 = frLast s3 /\ caCount s6 = caCount s3 /\ dupAck s6 = 0 /\
               tstate s6 = (if tstate s3 =? tDisabled then tDisabled else tOrphaned)).
  { subst s6. cbn. auto 12. }
  destruct E6 as (E1 & E2 & E3 & E4 & E5 & E6 & E7 & E8 & E9 & E10 & E11). clearbody s6.
  set (s7 := if frActive s6 then s6 else renoUpdate s6 removed).
  assert (E7' : wsent s7 = sent' /\ wunsent s7 = unsent' /\ sndUna s7 = s_ack sg /\
               frActive s7 = frActive s3 /\ frFirst s7 = frFirst s3 /\
               ssthresh s7 = ssthresh s3 /\ frLast s7 = frLast s3 /\ dupAck s7 = 0 /\
               tstate s7 = (if tstate s3 =? tDisabled then tDisabled else tOrphaned) /\
               (frActive s3 = true -> cwnd s7 = cwnd s3) /\
               (frActive s3 = false -> 1 <= cwnd s3 -> 0 <= caCount s3 -> 1 <= ssthresh s3 ->
                  cwnd s3 <= cwnd s7 <= cwnd s3 + caCount s3 / cwnd s3 + removed)).
  { subst s7. destruct (frActive s6) eqn:EF.
    - repeat split; try congruence; intros; congruence.
    - destruct (renoUpdate_keeps s6 removed) as (K1 & K2 & K3 & K4 & K5 & K6 & K7 & K8 & K9).
      pose proof (renoUpdate_pot s6 removed) as RP. cbv zeta in RP. unfold psi in RP. rewrite E6, E9, E7 in RP.
      repeat split; try congruence; intros; try congruence.
      + destruct RP as (R1 & _); lia.
      + destruct RP as (R1 & R2 & R3 & _); try lia.
        assert (0 <= caCount (renoUpdate s6 removed) / cwnd (renoUpdate s6 removed)) by (apply Z.div_pos; lia).
        lia. }
  clearbody s7.
  destruct E7' as (G1 & G2 & G3 & G4 & G5 & G6 & G7 & G8 & G9 & G10 & G11).
  destruct (outstanding s7 <? 0); cbn [SN out tsOk set wsent wunsent sndUna dupAck tstate frFirst frLast frActive ssthresh cwnd];
    (split; [reflexivity|]); (split; [reflexivity|]); cbn; repeat split; try congruence; auto;
    intros; specialize (G11 ltac:(assumption) ltac:(assumption) ltac:(assumption) ltac:(assumption)); lia.
Qed.

Lemma cda_third s ack wnd :
  frActive s = false -> dupAck s = 2 -> ack = sndUna s -> sndUna s <> sndNxt s -> wnd = sndWnd s ->
  lessThan (frLast s) ack = true ->
  checkDuplicateAck s ack 0 wnd = ((enterFastRecovery (reduceSsthresh (s <| dupAck := dupAck s + 1 |>))) <| dupAck := 0 |>, true).
Proof.
  intros F D A N W L. unfold checkDuplicateAck. rewrite F.
  subst ack wnd. rewrite !Z.eqb_refl. cbn [negb orb].
  destruct (sndUna s =? sndNxt s) eqn:E; [lia|].
  cbn [dupAck set]. rewrite D. change (2 + 1 <? nDupAckThreshold) with false. cbv iota.
  change (frLast (s <| dupAck := 2 + 1 |>)) with (frLast s). rewrite L. reflexivity.
Qed.

Definition third_dupack (t : tcp) (sg : seg) : Prop :=
  processed t sg = true /\ frActive (SN t) = false /\ dupAck (SN t) = 2 /\ sndUna (SN t) <> sndNxt (SN t) /\
  lessThan (frLast (SN t)) (sndUna (SN t)) = true /\
  s_ack sg = sndUna (SN t) /\ seglen sg = 0 /\ wndOf t sg = sndWnd (SN t).

(* the state of the sender right after the third duplicate ACK, before sendData *)
Lemma preSend_third t sg wnd newRto :
  frActive (SN t) = false -> dupAck (SN t) = 2 -> sndUna (SN t) <> sndNxt (SN t) ->
  lessThan (frLast (SN t)) (sndUna (SN t)) = true ->
  s_ack sg = sndUna (SN t) -> seglen sg = 0 -> wnd = sndWnd (SN t) ->
  let t5 := preSend t sg wnd newRto in
  match wsent (SN t) ++ wunsent (SN t) with
  | w :: _ => exists ak wn, out t5 = out t ++ [mkF (w_seq w) ak (w_flags w) wn (w_data w)]
  | [] => out t5 = out t
  end /\
  frActive (SN t5) = true /\ ssthresh (SN t5) = Z.max 2 (Z.quot (outstanding (SN t)) 2) /\
  cwnd (SN t5) = ssthresh (SN t5) + 3 /\ frFirst (SN t5) = sndUna (SN t) /\
  frLast (SN t5) = u32 (sndNxt (SN t) - 1) /\ frMaxCwnd (SN t5) = cwnd (SN t5) + outstanding (SN t) /\
  dupAck (SN t5) = 0 /\
  sndUna (SN t5) = sndUna (SN t) /\ sndNxt (SN t5) = sndNxt (SN t) /\ tstate (SN t5) = tstate (SN t) /\
  outstanding (SN t5) = outstanding (SN t) /\ tsOk t5 = tsOk t.
Proof.
  intros F D N L A SL W. cbv zeta. unfold preSend. cbv zeta.
  pose proof (hs1_same t sg newRto) as HS. rttf HS. set (s1 := hs1 t sg newRto) in *. clearbody s1.
  rewrite SL. rewrite (cda_third s1 (s_ack sg) wnd); try congruence.
  cbn [fst snd].
  set (s3 := (enterFastRecovery (reduceSsthresh (s1 <| dupAck := dupAck s1 + 1 |>))) <| dupAck := 0 |> <| sndWnd := wnd |>).
  assert (E3 : sndUna s3 = sndUna (SN t) /\ sndNxt s3 = sndNxt (SN t) /\ wsent s3 = wsent (SN t) /\
               wunsent s3 = wunsent (SN t) /\ frActive s3 = true /\
               ssthresh s3 = Z.max 2 (Z.quot (outstanding (SN t)) 2) /\ cwnd s3 = ssthresh s3 + 3 /\
               frFirst s3 = sndUna (SN t) /\ frLast s3 = u32 (sndNxt (SN t) - 1) /\
               frMaxCwnd s3 = cwnd s3 + outstanding (SN t) /\ dupAck s3 = 0 /\ tstate s3 = tstate (SN t) /\
               outstanding s3 = outstanding (SN t)).
  { subst s3. cbn -[Z.quot Z.max Z.add]. rewrite Rout, Run, Rnx, Rwse, Rwun, Rts.
    repeat split; try reflexivity.
    destruct (Z.quot (outstanding (SN t)) 2 <? 2) eqn:E; lia. }
  destruct E3 as (E1 & E2 & E3 & E4 & E5 & E6 & E7 & E8 & E9 & E10 & E11 & E12 & E13). clearbody s3.
  rewrite ackPart_noadv by (rewrite E1, <- A; apply inRange_self_false).
  destruct (resendSegment_spec (t <| SN := s3 |>)) as (RC1 & RT & _ & RO).
  coref RC1. cbn [SN out tsOk set] in *.
  change (wsent (s3 <| rttSeq := sndNxt s3 |>)) with (wsent s3) in *.
  rewrite E3, E4 in RO.
  split; [exact RO|].
  cbn in Hdup, Hfra, Hfrf, Hfrl, Hfrm, Hcw, Hss, Hout, Hun, Hnx, Hts.
  repeat split; congruence.
Qed.

(* fast_retransmit_on_third_dupack *)
Lemma fast_retransmit t sg newRto w rest :
  third_dupack t sg -> wsent (SN t) ++ wunsent (SN t) = w :: rest ->
  let t' := fst (step t (ESeg sg newRto)) in
  (exists pre post ak wn, out t' = pre ++ mkF (w_seq w) ak (w_flags w) wn (w_data w) :: post /\ dcount pre = 0) /\
  frActive (SN t') = true /\ ssthresh (SN t') = Z.max 2 (Z.quot (outstanding (SN t)) 2) /\
  cwnd (SN t') = ssthresh (SN t') + 3 /\ frFirst (SN t') = sndUna (SN t) /\
  frLast (SN t') = u32 (sndNxt (SN t) - 1) /\ dupAck (SN t') = 0 /\ sndUna (SN t') = sndUna (SN t) /\
  (tstate (SN t) = tEnabled -> tstate (SN t') = tEnabled).
Proof.
  intros (P & F & D & N & L & A & SL & W) WL. cbv zeta.
  rewrite (step_processed t sg newRto P). cbv zeta.
  set (t0 := t <| out := [] |>). set (tr := rcvHandle t0 sg).
  destruct (rcvHandle_quiet t0 sg) as (QC & _ & pre & QO & QD). fold tr in QC, QO.
  change (out t0) with (@nil frame) in QO. cbn [app] in QO. clearbody tr.
  coref QC. change (SN t0) with (SN t) in *.
  rewrite sndHandle_preSend.
  pose proof (preSend_third tr sg (wndOf t sg) newRto) as PT. cbv zeta in PT.
  rewrite Hfra, Hdup, Hun, Hnx, Hfrl, Hwse, Hwun, Hout, Hts, Hwn, WL in PT.
  specialize (PT F D N L A SL W).
  set (t5 := preSend tr sg (wndOf t sg) newRto) in *. clearbody t5.
  destruct PT as ((ak & wn & O5) & P1 & P2 & P3 & P4 & P5 & P6 & P7 & P8 & P9 & P10 & P11 & P12).
  pose proof (sendData_spec t5) as SD. cbv zeta in SD.
  destruct SD as (LF & _ & _ & _ & TS & fs & OF & _). set (t6 := sendData t5 false) in *. clearbody t6.
  destruct (tail_quiet t6) as (TC & _ & post & TO & _).
  match goal with |- context [loopExit ?x] => set (t7 := loopExit x) in * end. clearbody t7.
  loopfT LF. coref TC.
  split.
  - exists pre, (fs ++ post), ak, wn. split; [|exact QD].
    rewrite TO, OF, O5, QO. rewrite <- !app_assoc. reflexivity.
  - repeat split; try congruence.
    intros TE. rewrite Hts0, TS, P10, TE. reflexivity.
Qed.

(* bytes newly acknowledged by this segment *)
Definition newlyAcked (s : sndr) (sg : seg) : Z :=
  if inRange (u32 (s_ack sg - 1)) (sndUna s) (sndNxt s) then size (sndUna s) (s_ack sg) else 0.

Definition partial_ack (t : tcp) (sg : seg) : Prop :=
  processed t sg = true /\ frActive (SN t) = true /\
  inRange (s_ack sg) (sndUna (SN t)) (u32 (sndNxt (SN t) + 1)) = true /\
  lessThan (frLast (SN t)) (s_ack sg) = false /\
  seglen sg = 0 /\ wndOf t sg = sndWnd (SN t) /\ s_ack sg <> frFirst (SN t).

Lemma preSend_partial t sg wnd newRto w rest :
  frActive (SN t) = true ->
  inRange (s_ack sg) (sndUna (SN t)) (u32 (sndNxt (SN t) + 1)) = true ->
  lessThan (frLast (SN t)) (s_ack sg) = false ->
  seglen sg = 0 -> wnd = sndWnd (SN t) -> s_ack sg <> frFirst (SN t) ->
  trimmed (wsent (SN t) ++ wunsent (SN t)) (newlyAcked (SN t) sg) = w :: rest ->
  let t5 := preSend t sg wnd newRto in
  (exists ak wn, out t5 = out t ++ [mkF (w_seq w) ak (w_flags w) wn (w_data w)]) /\
  frActive (SN t5) = true /\ frFirst (SN t5) = s_ack sg /\ cwnd (SN t5) = cwnd (SN t) /\
  ssthresh (SN t5) = ssthresh (SN t) /\ frLast (SN t5) = frLast (SN t).
Proof.
  intros F IR L SL W NF WL. cbv zeta. unfold preSend. cbv zeta.
  pose proof (hs1_same t sg newRto) as HS. rttf HS. set (s1 := hs1 t sg newRto) in *. clearbody s1.
  rewrite SL.
  assert (CD : checkDuplicateAck s1 (s_ack sg) 0 wnd = (s1 <| frFirst := s_ack sg |> <| dupAck := 0 |>, true)).
  { unfold checkDuplicateAck. rewrite Rfra, F, Run, Rnx, IR, Rfrl, L, Rwn, W, !Z.eqb_refl, Rfrf. cbn [negb orb].
    destruct (s_ack sg =? frFirst (SN t)) eqn:E; [lia|]. reflexivity. }
  rewrite CD. cbn [fst snd].
  set (s3 := s1 <| frFirst := s_ack sg |> <| dupAck := 0 |> <| sndWnd := wnd |>).
  assert (E3 : sndUna s3 = sndUna (SN t) /\ sndNxt s3 = sndNxt (SN t) /\ wsent s3 = wsent (SN t) /\
               wunsent s3 = wunsent (SN t) /\ frActive s3 = true /\ frFirst s3 = s_ack sg /\
               cwnd s3 = cwnd (SN t) /\ ssthresh s3 = ssthresh (SN t) /\ frLast s3 = frLast (SN t)).
  { subst s3. cbn. repeat split; congruence. }
  destruct E3 as (E1 & E2 & E3 & E4 & E5 & E6 & E7 & E8 & E9). clearbody s3.
  unfold newlyAcked in WL.
  destruct (inRange (u32 (s_ack sg - 1)) (sndUna (SN t)) (sndNxt (SN t))) eqn:EI.
  - pose proof (ackPart_adv t s3 sg newRto) as AP. cbv zeta in AP.
    rewrite E1, E2 in AP. specialize (AP EI).
    set (t4 := ackPart t s3 sg newRto) in *. clearbody t4.
    destruct AP as (A1 & A2 & A3 & A4 & A5 & A6 & A7 & A8 & A9 & A10 & A11 & _).
    rewrite E3, E4, WL in A3.
    destruct (resendSegment_spec t4) as (RC1 & _ & _ & RO).
    rewrite A3 in RO. destruct RO as (ak & wn & RO).
    coref RC1. cbn in Hfra, Hfrf, Hcw, Hss, Hfrl.
    split; [exists ak, wn; rewrite RO, A1; reflexivity|].
    specialize (A11 E5). repeat split; congruence.
  - rewrite trimmed_0 in WL.
    rewrite ackPart_noadv by (rewrite E1, E2; exact EI).
    destruct (resendSegment_spec (t <| SN := s3 |>)) as (RC1 & _ & _ & RO).
    cbn [SN out set] in RO. rewrite E3, E4, WL in RO. destruct RO as (ak & wn & RO).
    coref RC1. cbn in Hfra, Hfrf, Hcw, Hss, Hfrl.
    split; [exists ak, wn; exact RO|]. repeat split; congruence.
Qed.

(* partial ACK during fast recovery: the new head of the write list is retransmitted at once *)
Lemma partial_ack_retransmits t sg newRto w rest :
  partial_ack t sg ->
  trimmed (wsent (SN t) ++ wunsent (SN t)) (newlyAcked (SN t) sg) = w :: rest ->
  let t' := fst (step t (ESeg sg newRto)) in
  (exists pre post ak wn, out t' = pre ++ mkF (w_seq w) ak (w_flags w) wn (w_data w) :: post /\ dcount pre = 0) /\
  frActive (SN t') = true /\ frFirst (SN t') = s_ack sg /\ cwnd (SN t') = cwnd (SN t) /\
  ssthresh (SN t') = ssthresh (SN t) /\ frLast (SN t') = frLast (SN t).
Proof.
  intros (P & F & IR & L & SL & W & NF) WL. cbv zeta.
  rewrite (step_processed t sg newRto P). cbv zeta.
  set (t0 := t <| out := [] |>). set (tr := rcvHandle t0 sg).
  destruct (rcvHandle_quiet t0 sg) as (QC & _ & pre & QO & QD). fold tr in QC, QO.
  change (out t0) with (@nil frame) in QO. cbn [app] in QO. clearbody tr.
  coref QC. change (SN t0) with (SN t) in *.
  rewrite sndHandle_preSend.
  pose proof (preSend_partial tr sg (wndOf t sg) newRto w rest) as PT. cbv zeta in PT.
  unfold newlyAcked in *.
  rewrite Hfra, Hun, Hnx, Hfrl, Hwse, Hwun, Hwn, Hfrf, Hcw, Hss in PT.
  specialize (PT F IR L SL W NF WL).
  set (t5 := preSend tr sg (wndOf t sg) newRto) in *. clearbody t5.
  destruct PT as ((ak & wn & O5) & P1 & P2 & P3 & P4 & P5).
  pose proof (sendData_spec t5) as SD. cbv zeta in SD.
  destruct SD as (LF & _ & _ & _ & TS & fs & OF & _). set (t6 := sendData t5 false) in *. clearbody t6.
  destruct (tail_quiet t6) as (TC & _ & post & TO & _).
  match goal with |- context [loopExit ?x] => set (t7 := loopExit x) in * end. clearbody t7.
  loopfT LF. coref TC.
  split.
  - exists pre, (fs ++ post), ak, wn. split; [|exact QD].
    rewrite TO, OF, O5, QO. rewrite <- !app_assoc. reflexivity.
  - repeat split; congruence.
Qed.

Definition recovery_ack (t : tcp) (sg : seg) : Prop :=
  processed t sg = true /\ frActive (SN t) = true /\
  inRange (s_ack sg) (sndUna (SN t)) (u32 (sndNxt (SN t) + 1)) = true /\
  lessThan (frLast (SN t)) (s_ack sg) = true.

Lemma preSend_leave t sg wnd newRto :
  frActive (SN t) = true ->
  inRange (s_ack sg) (sndUna (SN t)) (u32 (sndNxt (SN t) + 1)) = true ->
  lessThan (frLast (SN t)) (s_ack sg) = true ->
  2 <= ssthresh (SN t) -> 0 <= caCount (SN t) ->
  let t5 := preSend t sg wnd newRto in
  frActive (SN t5) = false /\ ssthresh (SN t5) = ssthresh (SN t) /\ dupAck (SN t5) = 0 /\
  ssthresh (SN t) <= cwnd (SN t5) <= ssthresh (SN t) + caCount (SN t) / ssthresh (SN t) + ackedSegs (SN t) sg.
Proof.
  intros F IR L SS CA. cbv zeta. unfold preSend. cbv zeta.
  pose proof (hs1_same t sg newRto) as HS. rttf HS. set (s1 := hs1 t sg newRto) in *. clearbody s1.
  assert (CD : checkDuplicateAck s1 (s_ack sg) (seglen sg) wnd = (leaveFastRecovery s1, false)).
  { unfold checkDuplicateAck. rewrite Rfra, F, Run, Rnx, IR, Rfrl, L. reflexivity. }
  rewrite CD. cbn [fst snd].
  set (s3 := (leaveFastRecovery s1) <| sndWnd := wnd |>).
  assert (E3 : sndUna s3 = sndUna (SN t) /\ sndNxt s3 = sndNxt (SN t) /\ wsent s3 = wsent (SN t) /\
               wunsent s3 = wunsent (SN t) /\ frActive s3 = false /\ dupAck s3 = 0 /\
               cwnd s3 = ssthresh (SN t) /\ ssthresh s3 = ssthresh (SN t) /\ caCount s3 = caCount (SN t)).
  { subst s3. cbn. repeat split; congruence. }
  destruct E3 as (E1 & E2 & E3 & E4 & E5 & E6 & E7 & E8 & E9). clearbody s3.
  assert (D0 : 0 <= caCount (SN t) / ssthresh (SN t)) by (apply Z.div_pos; lia).
  unfold ackedSegs.
  destruct (inRange (u32 (s_ack sg - 1)) (sndUna (SN t)) (sndNxt (SN t))) eqn:EI.
  - pose proof (ackPart_adv t s3 sg newRto) as AP. cbv zeta in AP.
    rewrite E1, E2 in AP. specialize (AP EI).
    set (t4 := ackPart t s3 sg newRto) in *. clearbody t4.
    destruct AP as (A1 & A2 & A3 & A4 & A5 & A6 & A7 & A8 & A9 & A10 & _ & A12).
    specialize (A12 E5 ltac:(clear - E7 SS; lia) ltac:(clear - E9 CA; lia) ltac:(clear - E8 SS; lia)).
    rewrite E3, E4, E7, E9 in A12.
    split; [congruence|]. split; [congruence|]. split; [congruence|]. clear - A12. lia.
  - rewrite ackPart_noadv by (rewrite E1, E2; exact EI). cbn [SN set].
    split; [congruence|]. split; [congruence|]. split; [congruence|]. rewrite E7. clear - D0. lia.
Qed.

(* recovery ends on the first ACK beyond fr.last: cwnd deflates to ssthresh (then grows by the
   regular congestion-avoidance update for the segments this ACK newly acknowledged) *)
Lemma recovery_ends t sg newRto :
  recovery_ack t sg -> 2 <= ssthresh (SN t) -> 0 <= caCount (SN t) ->
  let t' := fst (step t (ESeg sg newRto)) in
  frActive (SN t') = false /\ ssthresh (SN t') = ssthresh (SN t) /\ dupAck (SN t') = 0 /\
  ssthresh (SN t) <= cwnd (SN t') <= ssthresh (SN t) + caCount (SN t) / ssthresh (SN t) + ackedSegs (SN t) sg.
Proof.
  intros (P & F & IR & L) SS CA. cbv zeta.
  rewrite (step_processed t sg newRto P). cbv zeta.
  set (t0 := t <| out := [] |>). set (tr := rcvHandle t0 sg).
  destruct (rcvHandle_quiet t0 sg) as (QC & _). fold tr in QC. clearbody tr.
  coref QC. change (SN t0) with (SN t) in *.
  rewrite sndHandle_preSend.
  pose proof (preSend_leave tr sg (wndOf t sg) newRto) as PT. cbv zeta in PT. unfold ackedSegs in *.
  rewrite Hfra, Hun, Hnx, Hfrl, Hwse, Hwun, Hca, Hss in PT.
  specialize (PT F IR L SS CA).
  set (t5 := preSend tr sg (wndOf t sg) newRto) in *. clearbody t5.
  destruct PT as (P1 & P2 & P3 & P4).
  pose proof (sendData_spec t5) as SD. cbv zeta in SD.
  destruct SD as (LF & _). set (t6 := sendData t5 false) in *. clearbody t6.
  destruct (tail_quiet t6) as (TC & _).
  match goal with |- context [loopExit ?x] => set (t7 := loopExit x) in * end. clearbody t7.
  loopfT LF. coref TC.
  assert (CW : cwnd (SN t7) = cwnd (SN t5)) by congruence.
  split; [congruence|]. split; [congruence|]. split; [congruence|].
  rewrite CW. clear - P4. lia.
Qed.

(* fast_retransmit_does_not_rearm (documents finding F11).  The model's timer has no clock: a
   re-arm is the transition "not enabled -> enabled" made by sendData's guard
   [!resendTimer.enabled() && sndUna != sndNxt].  On the fast-retransmit step nothing disables
   the timer (that only happens when an ACK advances sndUna), so an enabled timer stays enabled
   with its OLD deadline: [tstate] is unchanged by everything before sendData, and sendData's
   arming guard is false. *)
Lemma fast_retransmit_does_not_rearm t sg newRto :
  third_dupack t sg -> tstate (SN t) = tEnabled ->
  tstate (SN (preSend (rcvHandle (t <| out := [] |>) sg) sg (wndOf t sg) newRto)) = tEnabled /\
  tstate (SN (fst (step t (ESeg sg newRto)))) = tEnabled.
Proof.
  intros (P & F & D & N & L & A & SL & W) TE.
  rewrite (step_processed t sg newRto P). cbv zeta.
  set (t0 := t <| out := [] |>). set (tr := rcvHandle t0 sg).
  destruct (rcvHandle_quiet t0 sg) as (QC & _). fold tr in QC. clearbody tr.
  coref QC. change (SN t0) with (SN t) in *.
  rewrite sndHandle_preSend.
  pose proof (preSend_third tr sg (wndOf t sg) newRto) as PT. cbv zeta in PT.
  rewrite Hfra, Hdup, Hun, Hnx, Hfrl, Hwn, Hts in PT.
  specialize (PT F D N L A SL W).
  set (t5 := preSend tr sg (wndOf t sg) newRto) in *. clearbody t5.
  destruct PT as (_ & _ & _ & _ & _ & _ & _ & _ & _ & _ & P10 & _).
  assert (T5 : tstate (SN t5) = tEnabled) by congruence.
  split; [exact T5|].
  pose proof (sendData_spec t5) as SD. cbv zeta in SD.
  destruct SD as (_ & _ & _ & _ & TS & _). set (t6 := sendData t5 false) in *. clearbody t6.
  destruct (tail_quiet t6) as (TC & _).
  match goal with |- context [loopExit ?x] => set (t7 := loopExit x) in * end. clearbody t7.
  coref TC. rewrite Hts0, TS, T5. reflexivity.
Qed.

Lemma cda_keeps s ack sl wnd :
  let r := checkDuplicateAck s ack sl wnd in
  sndUna (fst r) = sndUna s /\ sndNxt (fst r) = sndNxt s /\ tstate (fst r) = tstate s.
Proof.
  cbv zeta. unfold checkDuplicateAck.
  repeat match goal with |- context [if ?c then _ else _] => destruct c end; cbn; auto.
Qed.

(* contrast: an ACK that acknowledges new data DOES pass through "timer not enabled"
   (resendTimer.disable() in handleRcvdSegment), so that sendData re-arms it with a fresh rto *)
Lemma new_ack_disables_timer t sg wnd newRto :
  inRange (u32 (s_ack sg - 1)) (sndUna (SN t)) (sndNxt (SN t)) = true ->
  tstate (SN t) = tEnabled ->
  tstate (SN (preSend t sg wnd newRto)) = tOrphaned.
Proof.
  intros IR TE. unfold preSend. cbv zeta.
  pose proof (hs1_same t sg newRto) as HS. rttf HS. set (s1 := hs1 t sg newRto) in *. clearbody s1.
  pose proof (cda_keeps s1 (s_ack sg) (seglen sg) wnd) as CK. cbv zeta in CK.
  destruct (checkDuplicateAck s1 (s_ack sg) (seglen sg) wnd) as [s2 rtx]. cbn [fst snd] in *.
  destruct CK as (K1 & K2 & K3).
  pose proof (ackPart_adv t (s2 <| sndWnd := wnd |>) sg newRto) as AP. cbv zeta in AP.
  change (sndUna (s2 <| sndWnd := wnd |>)) with (sndUna s2) in AP.
  change (sndNxt (s2 <| sndWnd := wnd |>)) with (sndNxt s2) in AP.
  change (tstate (s2 <| sndWnd := wnd |>)) with (tstate s2) in AP.
  rewrite K1, K2, K3, Run, Rnx, Rts, TE in AP. specialize (AP IR).
  set (t4 := ackPart t (s2 <| sndWnd := wnd |>) sg newRto) in *. clearbody t4.
  destruct AP as (_ & _ & _ & _ & _ & A6 & _).
  change (tEnabled =? tDisabled) with false in A6. cbv iota in A6.
  destruct rtx; [|exact A6].
  destruct (resendSegment_spec t4) as (RC1 & _). coref RC1. cbn in Hts. congruence.
Qed.
