(* C05, part 3: initial window, retransmission time-out (one segment, doubling, termination),
   fast retransmit / fast recovery, and the documented timer finding (the fast retransmit does
   not re-arm the retransmission timer). *)
From Coq Require Import ZArith List Bool Lia ZifyBool.
From RecordUpdate Require Import RecordSet.
From NP Require Import Model.Seqnum Model.GoHeap Model.Tcp Proofs.SeqnumP Proofs.TcpCcP Proofs.TcpCcInvP.
Import ListNotations RecordSetNotations.
Open Scope Z_scope.

(* ------------------------------------------------------------------ initial window *)

(* events that involve neither an ACK-bearing segment nor a time-out *)
Definition noAck (e : event) : bool :=
  match e with
  | ESeg sg _ => negb (has (s_flags sg) fAck)
  | ERto => false
  | _ => true
  end.

Lemma quiet_out0 t0 t' : out t0 = [] -> quiet t0 t' -> dcount (out t') = 0.
Proof. intros E (_ & _ & fs & O & D). rewrite O, E. exact D. Qed.

Lemma step_noAck t e :
  noAck e = true ->
  let t' := fst (step t e) in
  cwnd (SN t') = cwnd (SN t) /\
  outstanding (SN t) <= outstanding (SN t') <= Z.max (outstanding (SN t)) (cwnd (SN t)) /\
  dcount (out t') <= outstanding (SN t') - outstanding (SN t).
Proof.
  intros NA. unfold step. set (t0 := t <| out := [] |>).
  assert (O0 : out t0 = []) by reflexivity.
  assert (QQ : forall t', quiet t0 t' ->
     cwnd (SN t') = cwnd (SN t) /\
     outstanding (SN t) <= outstanding (SN t') <= Z.max (outstanding (SN t)) (cwnd (SN t)) /\
     dcount (out t') <= outstanding (SN t') - outstanding (SN t)).
  { intros t' Q. pose proof (quiet_out0 _ _ O0 Q) as D. destruct Q as (C & _). coref C.
    change (SN t0) with (SN t) in *. rewrite D, Hcw, Hout. lia. }
  assert (SD : forall t1, out t1 = [] -> cwnd (SN t1) = cwnd (SN t) -> outstanding (SN t1) = outstanding (SN t) ->
     cwnd (SN (sendData t1 false)) = cwnd (SN t) /\
     outstanding (SN t) <= outstanding (SN (sendData t1 false)) <= Z.max (outstanding (SN t)) (cwnd (SN t)) /\
     dcount (out (sendData t1 false)) <= outstanding (SN (sendData t1 false)) - outstanding (SN t)).
  { intros t1 E1 E2 E3. pose proof (sendData_spec t1) as S. cbv zeta in S.
    destruct S as (L & _ & _ & O & _ & fs & OF & DC & _). loopf L. cbn in *.
    rewrite OF, E1. cbn [app]. rewrite Hcw, E2. rewrite E2, E3 in O. rewrite E3 in DC. lia. }
  destruct e as [sg newRto|d| | |]; cbn [noAck] in NA; try discriminate; cbv zeta.
  - cbn [fst]. unfold handleSegment.
    destruct (negb (estate t0 =? stConnected)); [apply QQ, quiet_refl|].
    destruct (has (s_flags sg) fRst).
    { destruct (acceptable _ _ _); [|apply QQ, tail_quiet].
      unfold resetConnection. cbn. change (dcount _) with 0. lia. }
    apply negb_true_iff in NA. rewrite NA. apply QQ, tail_quiet.
  - unfold appWrite.
    destruct (estate t0 =? stError); [apply QQ, quiet_refl|].
    destruct (negb (estate t0 =? stConnected)); [apply QQ, quiet_refl|].
    destruct (len d =? 0); [apply QQ, quiet_refl|].
    destruct (sndClosedE t0); [apply QQ, quiet_refl|]. cbv zeta.
    destruct (sndBufSize t0 - sndBufUsed t0 <=? 0); [apply QQ, quiet_refl|].
    destruct (_ <? 0); cbn [fst]; apply SD; reflexivity.
  - pose proof (appRead_quiet t0) as Q.
    destruct (appRead t0) as [[t1 v] err]. cbn [fst] in *. apply QQ, Q.
  - unfold appShutdownWrite.
    destruct (negb (estate t0 =? stConnected)); [apply QQ, quiet_refl|].
    destruct (sndClosedE t0); [apply QQ, quiet_refl|]. cbv zeta. cbn [fst].
    rewrite loopExit_SN, loopExit_out. cbn [SN out set].
    match goal with |- context [sendData ?x false] => pose proof (SD x eq_refl eq_refl eq_refl) as S end.
    cbn in *. exact S.
Qed.

(* initial_window_10: whatever is written, at most cwnd - outstanding (= 10 for a fresh sender)
   data segments are emitted before the first ACK-bearing segment or time-out *)
Lemma initial_window es : forall t,
  forallb noAck es = true -> 0 <= outstanding (SN t) <= cwnd (SN t) ->
  dcount (run_out t es) <= cwnd (SN t) - outstanding (SN t).
Proof.
  induction es as [|e r IH]; intros t NA O; cbn [run_out].
  - cbn. lia.
  - cbn [forallb] in NA. apply andb_true_iff in NA. destruct NA as (NA & NR).
    pose proof (step_noAck t e NA) as S. cbv zeta in S. destruct S as (S1 & S2 & S3).
    rewrite dcount_app. specialize (IH (fst (step t e)) NR). rewrite S1 in IH.
    specialize (IH ltac:(lia)). lia.
Qed.

Lemma initial_window_10 t es :
  fresh_sender (SN t) -> forallb noAck es = true -> dcount (run_out t es) <= 10.
Proof.
  intros (H1 & H2 & H3 & _) NA. pose proof (initial_window es t NA) as I.
  rewrite H1, H3 in I. unfold InitialCwnd in I. lia.
Qed.

(* ------------------------------------------------------------------ retransmission time-out *)

Definition live (t : tcp) : Prop := estate t = stConnected /\ tstate (SN t) = tEnabled.

(* the sender state handed to sendData by a real expiry *)
Definition rtoReset (s : sndr) : sndr :=
  let s0 := s <| tstate := tDisabled |> in
  let s1 := s0 <| rto := rto s0 * 2 |> in
  let s2 := if frActive s1 then leaveFastRecovery s1 else s1 in
  let s3 := s2 <| frLast := u32 (sndNxt s2 - 1) |> in
  let s4 := (reduceSsthresh s3) <| cwnd := 1 |> in
  s4 <| outstanding := 0 |> <| wunsent := wsent s4 ++ wunsent s4 |> <| wsent := [] |>.

Lemma step_rto_live t :
  live t -> rto (SN t) < maxRTO ->
  fst (step t ERto) = loopExit (sendData (t <| out := [] |> <| SN := rtoReset (SN t) |>) false).
Proof.
  intros (E & T) R.
  assert (EM : (maxRTO <=? rto (SN t)) = false) by (apply Z.leb_gt; exact R).
  unfold step. change (estate (t <| out := [] |>)) with (estate t). rewrite E.
  change (negb (stConnected =? stConnected)) with false. cbv iota.
  unfold rtoExpired. cbv zeta. change (SN (t <| out := [] |>)) with (SN t). rewrite T.
  change (tEnabled =? tOrphaned) with false. change (negb (tEnabled =? tEnabled)) with false. cbv iota.
  change (rto (SN t <| tstate := tDisabled |>)) with (rto (SN t)). rewrite EM. reflexivity.
Qed.

Lemma step_rto_dead t :
  live t -> maxRTO <= rto (SN t) ->
  estate (fst (step t ERto)) = stError /\
  out (fst (step t ERto)) = [mkF (sndUna (SN t)) (rcvNxt (RC t)) (Z.lor fAck fRst) 0 []].
Proof.
  intros (E & T) R.
  assert (EM : (maxRTO <=? rto (SN t)) = true) by (apply Z.leb_le; exact R).
  unfold step. change (estate (t <| out := [] |>)) with (estate t). rewrite E.
  change (negb (stConnected =? stConnected)) with false. cbv iota.
  unfold rtoExpired. cbv zeta. change (SN (t <| out := [] |>)) with (SN t). rewrite T.
  change (tEnabled =? tOrphaned) with false. change (negb (tEnabled =? tEnabled)) with false. cbv iota.
  change (rto (SN t <| tstate := tDisabled |>)) with (rto (SN t)). rewrite EM. split; reflexivity.
Qed.

Lemma rtoReset_fields s :
  rto (rtoReset s) = rto s * 2 /\ cwnd (rtoReset s) = 1 /\ outstanding (rtoReset s) = 0 /\
  frActive (rtoReset s) = false /\
  ssthresh (rtoReset s) = Z.max 2 (Z.quot (outstanding s) 2) /\
  wsent (rtoReset s) = [] /\ wunsent (rtoReset s) = wsent s ++ wunsent s /\
  sndUna (rtoReset s) = sndUna s /\ sndNxt (rtoReset s) = sndNxt s /\ sndWnd (rtoReset s) = sndWnd s /\
  maxPayload (rtoReset s) = maxPayload s /\ tstate (rtoReset s) = tDisabled /\
  frLast (rtoReset s) = u32 (sndNxt s - 1).
Proof.
  unfold rtoReset. cbv zeta.
  destruct (frActive (s <| tstate := tDisabled |> <| rto := rto (s <| tstate := tDisabled |>) * 2 |>)) eqn:E;
    cbn in E; cbn -[Z.mul Z.quot Z.max]; rewrite ?E; repeat split; try reflexivity;
    destruct (Z.quot (outstanding s) 2 <? 2) eqn:E2; lia.
Qed.

Lemma sendLoop_closed fuel t endv limit :
  cwnd (SN t) <= outstanding (SN t) -> sendLoop fuel t endv limit = t.
Proof.
  intros H. destruct fuel; cbn [sendLoop]; [reflexivity|].
  destruct (wunsent (SN t)); [reflexivity|].
  destruct (outstanding (SN t) <? cwnd (SN t)) eqn:E; [lia|]. reflexivity.
Qed.

(* rto_one_segment_and_doubling *)
Lemma rto_step t :
  live t -> rto (SN t) < maxRTO ->
  let t' := fst (step t ERto) in
  rto (SN t') = 2 * rto (SN t) /\ cwnd (SN t') = 1 /\ frActive (SN t') = false /\
  ssthresh (SN t') = Z.max 2 (Z.quot (outstanding (SN t)) 2) /\
  sndUna (SN t') = sndUna (SN t) /\
  0 <= outstanding (SN t') <= 1 /\ dcount (out t') <= outstanding (SN t') /\
  (1 <= maxPayload (SN t) -> dcount (out t') = outstanding (SN t')) /\
  (tstate (SN t') = if sndUna (SN t) =? sndNxt (SN t') then tDisabled else tEnabled).
Proof.
  intros L R. cbv zeta. rewrite (step_rto_live t L R).
  rewrite loopExit_SN, loopExit_out.
  set (t1 := t <| out := [] |> <| SN := rtoReset (SN t) |>).
  pose proof (sendData_spec t1) as S. cbv zeta in S.
  destruct S as (LF & _ & _ & O & TS & fs & OF & DC & DCe). loopfT LF.
  change (SN t1) with (rtoReset (SN t)) in *. change (out t1) with (@nil frame) in OF.
  destruct (rtoReset_fields (SN t)) as (F1 & F2 & F3 & F4 & F5 & F6 & F7 & F8 & F9 & F10 & F11 & F12 & F13).
  rewrite OF. cbn [app]. rewrite F3, F2 in O. rewrite F3 in DC, DCe. rewrite F11 in DCe.
  rewrite F12, F8 in TS. change (tDisabled =? tEnabled) with false in TS. cbv iota in TS.
  repeat split; try lia; try congruence.
  - intros M. specialize (DCe M). lia.
Qed.

(* when the head of the write list is a data segment that was already transmitted (numbered) and
   the peer's window still covers its start, the expiry emits exactly one frame: that segment,
   or its window/MSS-limited prefix *)
Lemma rto_emits_head t w rest :
  live t -> rto (SN t) < maxRTO ->
  wsent (SN t) ++ wunsent (SN t) = w :: rest ->
  w_flags w <> 0 -> w_data w <> [] -> 1 <= maxPayload (SN t) ->
  lessThan (w_seq w) (add (sndUna (SN t)) (sndWnd (SN t))) = true ->
  let avail := Z.min (maxPayload (SN t)) (size (w_seq w) (add (sndUna (SN t)) (sndWnd (SN t)))) in
  exists ak wn,
    out (fst (step t ERto)) =
      [mkF (w_seq w) ak (w_flags w) wn (if avail <? len (w_data w) then takeZ avail (w_data w) else w_data w)].
Proof.
  intros L R WL FL DT MP LT. cbv zeta. rewrite (step_rto_live t L R). rewrite loopExit_out.
  destruct (rtoReset_fields (SN t)) as (F1 & F2 & F3 & F4 & F5 & F6 & F7 & F8 & F9 & F10 & F11 & F12 & F13).
  set (t1 := t <| out := [] |> <| SN := rtoReset (SN t) |>).
  assert (OUT : exists ak wn,
     out (sendLoop (S (wbytes (wunsent (SN t1)))) t1 (add (sndUna (SN t1)) (sndWnd (SN t1))) (maxPayload (SN t1))) =
      [mkF (w_seq w) ak (w_flags w) wn
         (if Z.min (maxPayload (SN t)) (size (w_seq w) (add (sndUna (SN t)) (sndWnd (SN t)))) <? len (w_data w)
          then takeZ (Z.min (maxPayload (SN t)) (size (w_seq w) (add (sndUna (SN t)) (sndWnd (SN t))))) (w_data w)
          else w_data w)]).
  { cbn [sendLoop]. cbv zeta. change (SN t1) with (rtoReset (SN t)).
    rewrite F7, WL, F3, F2, F8, F10, F11. cbn [Z.ltb Z.compare negb].
    destruct (w_flags w =? 0) eqn:EF; [lia|].
    assert (LD : len (w_data w) =? 0 = false).
    { destruct (len (w_data w) =? 0) eqn:E; [|reflexivity]. exfalso. apply DT, len_zero_nil. lia. }
    rewrite LD, LT. cbn [negb].
    set (endv := add (sndUna (SN t)) (sndWnd (SN t))).
    set (available := if maxPayload (SN t) <? size (w_seq w) endv then maxPayload (SN t) else size (w_seq w) endv).
    assert (AV : available = Z.min (maxPayload (SN t)) (size (w_seq w) endv)).
    { subst available. destruct (maxPayload (SN t) <? size (w_seq w) endv) eqn:E; lia. }
    rewrite <- AV.
    destruct (available <? len (w_data w)) eqn:EA.
    - match goal with |- context [sendLoop _ ?x endv _] =>
        match x with (if lessThan _ ?se then _ else _) =>
          change x with (xmit t1 ((rtoReset (SN t)) <| outstanding := 0 + 1 |> <| wsent := wsent (rtoReset (SN t)) ++ [mkW (w_seq w) (w_flags w) (takeZ available (w_data w))] |>
                                  <| wunsent := mkW (add (w_seq w) (u32 available)) (w_flags w) (dropZ available (w_data w)) :: rest |>)
                           (takeZ available (w_data w)) (w_flags w) (w_seq w) se) end end.
      match goal with |- context [xmit ?a ?b ?c ?d ?e ?f] =>
        destruct (xmit_spec a b c d e f) as (L3 & O3 & _ & _ & ak & wn & F3'); set (t3 := xmit a b c d e f) in * end.
      rewrite sendLoop_closed.
      + exists ak, wn. rewrite F3'. reflexivity.
      + loopf L3. cbn in *. rewrite O3, Hcw, F2. lia.
    - match goal with |- context [sendLoop _ ?x endv _] =>
        match x with (if lessThan _ ?se then _ else _) =>
          change x with (xmit t1 ((rtoReset (SN t)) <| outstanding := 0 + 1 |> <| wsent := wsent (rtoReset (SN t)) ++ [w] |>
                                  <| wunsent := rest |>)
                           (w_data w) (w_flags w) (w_seq w) se) end end.
      match goal with |- context [xmit ?a ?b ?c ?d ?e ?f] =>
        destruct (xmit_spec a b c d e f) as (L3 & O3 & _ & _ & ak & wn & F3'); set (t3 := xmit a b c d e f) in * end.
      rewrite sendLoop_closed.
      + exists ak, wn. rewrite F3'. reflexivity.
      + loopf L3. cbn in *. rewrite O3, Hcw, F2. lia. }
  destruct OUT as (ak & wn & OUT). exists ak, wn.
  unfold sendData. cbv zeta. rewrite andb_false_r. cbn [andb].
  replace (t1 <| SN := SN t1 |>) with t1 by reflexivity.
  match goal with |- out (if ?c then _ else _) = _ => destruct c end; cbn [out set]; exact OUT.
Qed.

Lemma run_snoc t es e : run t (es ++ [e]) = fst (step (run t es) e).
Proof. unfold run. rewrite fold_left_app. reflexivity. Qed.

Lemma repeat_snoc {A} (x : A) n : repeat x (S n) = repeat x n ++ [x].
Proof. induction n; cbn in *; [reflexivity|]. rewrite <- IHn. reflexivity. Qed.

(* the state after n expiries with a silent peer *)
Definition silent (n : nat) (t : tcp) : tcp := run t (repeat ERto n).

Lemma silent_S n t : silent (S n) t = fst (step (silent n t) ERto).
Proof. unfold silent. rewrite repeat_snoc, run_snoc. reflexivity. Qed.

(* rto_backoff_terminates: while the peer stays silent every expiry doubles rto, and no more than
   ten expiries can happen on a live connection (200 ms * 2^9 > 60 s): the next one resets it *)
Lemma rto_backoff t n :
  minRTO <= rto (SN t) ->
  (forall i, (i < n)%nat -> live (silent i t)) ->
  (forall j, (j < n)%nat -> rto (SN (silent j t)) = rto (SN t) * 2 ^ Z.of_nat j) /\ (n <= 10)%nat.
Proof.
  intros M LV.
  assert (DB : forall j, (j < n)%nat -> rto (SN (silent j t)) = rto (SN t) * 2 ^ Z.of_nat j).
  { induction j as [|j IH]; intros Hj.
    - unfold silent. cbn. lia.
    - specialize (IH ltac:(lia)). pose proof (LV j ltac:(lia)) as Lj. pose proof (LV (S j) Hj) as LS.
      destruct (Z_lt_le_dec (rto (SN (silent j t))) maxRTO) as [LT|GE].
      + pose proof (rto_step (silent j t) Lj LT) as RS. cbv zeta in RS. destruct RS as (RS & _).
        rewrite silent_S, RS, IH. rewrite Nat2Z.inj_succ, Z.pow_succ_r by lia. lia.
      + destruct (step_rto_dead (silent j t) Lj GE) as (ED & _).
        rewrite <- silent_S in ED. destruct LS as (LS & _). rewrite ED in LS. discriminate. }
  split; [exact DB|].
  destruct (le_lt_dec n 10) as [|GT]; [assumption|]. exfalso.
  pose proof (DB 9%nat ltac:(lia)) as R9. pose proof (LV 9%nat ltac:(lia)) as L9.
  pose proof (LV 10%nat ltac:(lia)) as L10.
  assert (GE : maxRTO <= rto (SN (silent 9 t))).
  { rewrite R9. unfold maxRTO, minRTO in *. change (2 ^ Z.of_nat 9) with 512. lia. }
  destruct (step_rto_dead (silent 9 t) L9 GE) as (ED & _).
  rewrite <- silent_S in ED. destruct L10 as (L10 & _). rewrite ED in L10. discriminate.
Qed.
