(* C05, part 3: initial window, retransmission time-out (one segment, doubling, termination),
   fast retransmit / fast recovery, and the documented timer finding (the fast retransmit does
   not re-arm the retransmission timer). *)
From Coq Require Import ZArith List Bool Lia ZifyBool.
From RecordUpdate Require Import RecordSet.
From NP Require Import Model.Seqnum Model.GoHeap Model.Tcp Proofs.SeqnumP Proofs.TcpCcP Proofs.TcpCcInvP.
Import ListNotations RecordSetNotations.
Open Scope Z_scope.

(* ------------------------------------------------------------------ initial window *)

(* events that involve neither an ACK-bearing segment nor a time-out *)
Definition noAck (e : event) : bool :=
  match e with
  | ESeg sg _ => negb (has (s_flags sg) fAck)
  | ERto => false
  | _ => true
  end.

Lemma quiet_out0 t0 t' : out t0 = [] -> quiet t0 t' -> dcount (out t') = 0.
Proof. intros E (_ & _ & fs & O & D). rewrite O, E. exact D. Qed.

Lemma step_noAck t e :
  noAck e = true ->
  let t' := fst (step t e) in
  cwnd (SN t') = cwnd (SN t) /\
  outstanding (SN t) <= outstanding (SN t') <= Z.max (outstanding (SN t)) (cwnd (SN t)) /\
  dcount (out t') <= outstanding (SN t') - outstanding (SN t).
Proof.
  intros NA. unfold step. set (t0 := t <| out := [] |>).
  assert (O0 : out t0 = []) by reflexivity.
  assert (QQ : forall t', quiet t0 t' ->
     cwnd (SN t') = cwnd (SN t) /\
     outstanding (SN t) <= outstanding (SN t') <= Z.max (outstanding (SN t)) (cwnd (SN t)) /\
     dcount (out t') <= outstanding (SN t') - outstanding (SN t)).
  { intros t' Q. pose proof (quiet_out0 _ _ O0 Q) as D. destruct Q as (C & _). coref C.
    change (SN t0) with (SN t) in *. rewrite D, Hcw, Hout. lia. }
  assert (SD : forall t1, out t1 = [] -> cwnd (SN t1) = cwnd (SN t) -> outstanding (SN t1) = outstanding (SN t) ->
     cwnd (SN (sendData t1 false)) = cwnd (SN t) /\
     outstanding (SN t) <= outstanding (SN (sendData t1 false)) <= Z.max (outstanding (SN t)) (cwnd (SN t)) /\
     dcount (out (sendData t1 false)) <= outstanding (SN (sendData t1 false)) - outstanding (SN t)).
  { intros t1 E1 E2 E3. pose proof (sendData_spec t1) as S. cbv zeta in S.
    destruct S as (L & _ & _ & O & _ & fs & OF & DC & _). loopf L. cbn in *.
    rewrite OF, E1. cbn [app]. rewrite Hcw, E2. rewrite E2, E3 in O. rewrite E3 in DC. lia. }
  destruct e as [sg newRto|d| | |]; cbn [noAck] in NA; try discriminate; cbv zeta.
  - cbn [fst]. unfold handleSegment.
    destruct (negb (estate t0 =? stConnected)); [apply QQ, quiet_refl|].
    destruct (has (s_flags sg) fRst).
    { destruct (acceptable _ _ _); [|apply QQ, tail_quiet].
      unfold resetConnection. cbn. change (dcount _) with 0. lia. }
    apply negb_true_iff in NA. rewrite NA. apply QQ, tail_quiet.
  - unfold appWrite.
    destruct (estate t0 =? stError); [apply QQ, quiet_refl|].
    destruct (negb (estate t0 =? stConnected)); [apply QQ, quiet_refl|].
    destruct (len d =? 0); [apply QQ, quiet_refl|].
    destruct (sndClosedE t0); [apply QQ, quiet_refl|]. cbv zeta.
    destruct (sndBufSize t0 - sndBufUsed t0 <=? 0); [apply QQ, quiet_refl|].
    destruct (_ <? 0); cbn [fst]; apply SD; reflexivity.
  - pose proof (appRead_quiet t0) as Q.
    destruct (appRead t0) as [[t1 v] err]. cbn [fst] in *. apply QQ, Q.
  - unfold appShutdownWrite.
    destruct (negb (estate t0 =? stConnected)); [apply QQ, quiet_refl|].
    destruct (sndClosedE t0); [apply QQ, quiet_refl|]. cbv zeta. cbn [fst].
    rewrite loopExit_SN, loopExit_out. cbn [SN out set].
    match goal with |- context [sendData ?x false] => pose proof (SD x eq_refl eq_refl eq_refl) as S end.
    cbn in *. exact S.
Qed.

(* initial_window_10: whatever is written, at most cwnd - outstanding (= 10 for a fresh sender)
   data segments are emitted before the first ACK-bearing segment or time-out *)
Lemma initial_window es : forall t,
  forallb noAck es = true -> 0 <= outstanding (SN t) <= cwnd (SN t) ->
  dcount (run_out t es) <= cwnd (SN t) - outstanding (SN t).
Proof.
  induction es as [|e r IH]; intros t NA O; cbn [run_out].
  - cbn. lia.
  - cbn [forallb] in NA. apply andb_true_iff in NA. destruct NA as (NA & NR).
    pose proof (step_noAck t e NA) as S. cbv zeta in S. destruct S as (S1 & S2 & S3).
    rewrite dcount_app. specialize (IH (fst (step t e)) NR). rewrite S1 in IH.
    specialize (IH ltac:(lia)). lia.
Qed.

Lemma initial_window_10 t es :
  fresh_sender (SN t) -> forallb noAck es = true -> dcount (run_out t es) <= 10.
Proof.
  intros (H1 & H2 & H3 & _) NA. pose proof (initial_window es t NA) as I.
  rewrite H1, H3 in I. unfold InitialCwnd in I. lia.
Qed.

(* ------------------------------------------------------------------ retransmission time-out *)

Definition live (t : tcp) : Prop := estate t = stConnected /\ tstate (SN t) = tEnabled.

(* the sender state handed to sendData by a real expiry *)
Definition rtoReset (s : sndr) : sndr :=
  let s0 := s <| tstate := tDisabled |> in
  let s1 := s0 <| rto := rto s0 * 2 |> in
  let s2 := if frActive s1 then leaveFastRecovery s1 else s1 in
  let s3 := s2 <| frLast := u32 (sndNxt s2 - 1) |> in
  let s4 := (reduceSsthresh s3) <| cwnd := 1 |> in
  s4 <| outstanding := 0 |> <| wunsent := wsent s4 ++ wunsent s4 |> <| wsent := [] |>.

Lemma step_rto_live t :
  live t -> rto (SN t) < maxRTO ->
  fst (step t ERto) = loopExit (sendData (t <| out := [] |> <| SN := rtoReset (SN t) |>) false).
Proof.
  intros (E & T) R.
  assert (EM : (maxRTO <=? rto (SN t)) = false) by (apply Z.leb_gt; exact R).
  unfold step. change (estate (t <| out := [] |>)) with (estate t). rewrite E.
  change (negb (stConnected =? stConnected)) with false. cbv iota.
  unfold rtoExpired. cbv zeta. change (SN (t <| out := [] |>)) with (SN t). rewrite T.
  change (tEnabled =? tOrphaned) with false. change (negb (tEnabled =? tEnabled)) with false. cbv iota.
  change (rto (SN t <| tstate := tDisabled |>)) with (rto (SN t)). rewrite EM. reflexivity.
Qed.

Lemma step_rto_dead t :
  live t -> maxRTO <= rto (SN t) ->
  estate (fst (step t ERto)) = stError /\
  out (fst (step t ERto)) = [mkF (sndUna (SN t)) (rcvNxt (RC t)) (Z.lor fAck fRst) 0 []].
Proof.
  intros (E & T) R.
  assert (EM : (maxRTO <=? rto (SN t)) = true) by (apply Z.leb_le; exact R).
  unfold step. change (estate (t <| out := [] |>)) with (estate t). rewrite E.
  change (negb (stConnected =? stConnected)) with false. cbv iota.
  unfold rtoExpired. cbv zeta. change (SN (t <| out := [] |>)) with (SN t). rewrite T.
  change (tEnabled =? tOrphaned) with false. change (negb (tEnabled =? tEnabled)) with false. cbv iota.
  change (rto (SN t <| tstate := tDisabled |>)) with (rto (SN t)). rewrite EM. split; reflexivity.
Qed.

Lemma rtoReset_fields s :
  rto (rtoReset s) = rto s * 2 /\ cwnd (rtoReset s) = 1 /\ outstanding (rtoReset s) = 0 /\
  frActive (rtoReset s) = false /\
  ssthresh (rtoReset s) = Z.max 2 (Z.quot (outstanding s) 2) /\
  wsent (rtoReset s) = [] /\ wunsent (rtoReset s) = wsent s ++ wunsent s /\
  sndUna (rtoReset s) = sndUna s /\ sndNxt (rtoReset s) = sndNxt s /\ sndWnd (rtoReset s) = sndWnd s /\
  maxPayload (rtoReset s) = maxPayload s /\ tstate (rtoReset s) = tDisabled /\
  frLast (rtoReset s) = u32 (sndNxt s - 1).
Proof.
  unfold rtoReset. cbv zeta.
  destruct (frActive (s <| tstate := tDisabled |> <| rto := rto (s <| tstate := tDisabled |>) * 2 |>)) eqn:E;
    cbn in E; cbn -[Z.mul Z.quot Z.max]; rewrite ?E; repeat split; try reflexivity;
    destruct (Z.quot (outstanding s) 2 <? 2) eqn:E2; lia.
Qed.

Lemma sendLoop_closed fuel t endv limit :
  cwnd (SN t) <= outstanding (SN t) -> sendLoop fuel t endv limit = t.
Proof.
  intros H. destruct fuel; cbn [sendLoop]; [reflexivity|].
  destruct (wunsent (SN t)); [reflexivity|].
  destruct (outstanding (SN t) <? cwnd (SN t)) eqn:E; [lia|]. reflexivity.
Qed.

(* rto_one_segment_and_doubling *)
Lemma rto_step t :
  live t -> rto (SN t) < maxRTO ->
  let t' := fst (step t ERto) in
  rto (SN t') = 2 * rto (SN t) /\ cwnd (SN t') = 1 /\ frActive (SN t') = false /\
  ssthresh (SN t') = Z.max 2 (Z.quot (outstanding (SN t)) 2) /\
  sndUna (SN t') = sndUna (SN t) /\
  0 <= outstanding (SN t') <= 1 /\ dcount (out t') <= outstanding (SN t') /\
  (1 <= maxPayload (SN t) -> dcount (out t') = outstanding (SN t')) /\
  (tstate (SN t') = if sndUna (SN t) =? sndNxt (SN t') then tDisabled else tEnabled).
Proof.
  intros L R. cbv zeta. rewrite (step_rto_live t L R).
  rewrite loopExit_SN, loopExit_out.
  set (t1 := t <| out := [] |> <| SN := rtoReset (SN t) |>).
  pose proof (sendData_spec t1) as S. cbv zeta in S.
  destruct S as (LF & _ & _ & O & TS & fs & OF & DC & DCe). loopfT LF.
  change (SN t1) with (rtoReset (SN t)) in *. change (out t1) with (@nil frame) in OF.
  destruct (rtoReset_fields (SN t)) as (F1 & F2 & F3 & F4 & F5 & F6 & F7 & F8 & F9 & F10 & F11 & F12 & F13).
  rewrite OF. cbn [app]. rewrite F3, F2 in O. rewrite F3 in DC, DCe. rewrite F11 in DCe.
  rewrite F12, F8 in TS. change (tDisabled =? tEnabled) with false in TS. cbv iota in TS.
  repeat split; try lia; try congruence.
Qed.

(* when the head of the write list is a data segment that was already transmitted (numbered) and
   the peer's window still covers its start, the expiry emits exactly one frame: that segment,
   or its window/MSS-limited prefix *)
Lemma rto_emits_head t w rest :
  live t -> rto (SN t) < maxRTO ->
  wsent (SN t) ++ wunsent (SN t) = w :: rest ->
  w_flags w <> 0 -> w_data w <> [] -> 1 <= maxPayload (SN t) ->
  lessThan (w_seq w) (add (sndUna (SN t)) (sndWnd (SN t))) = true ->
  let avail := Z.min (maxPayload (SN t)) (size (w_seq w) (add (sndUna (SN t)) (sndWnd (SN t)))) in
  exists ak wn,
    out (fst (step t ERto)) =
      [mkF (w_seq w) ak (w_flags w) wn (if avail <? len (w_data w) then takeZ avail (w_data w) else w_data w)].
Proof.
  intros L R WL FL DT MP LT. cbv zeta. rewrite (step_rto_live t L R). rewrite loopExit_out.
  destruct (rtoReset_fields (SN t)) as (F1 & F2 & F3 & F4 & F5 & F6 & F7 & F8 & F9 & F10 & F11 & F12 & F13).
  set (t1 := t <| out := [] |> <| SN := rtoReset (SN t) |>).
  assert (OUT : exists ak wn,
     out (sendLoop (S (wbytes (wunsent (SN t1)))) t1 (add (sndUna (SN t1)) (sndWnd (SN t1))) (maxPayload (SN t1))) =
      [mkF (w_seq w) ak (w_flags w) wn
         (if Z.min (maxPayload (SN t)) (size (w_seq w) (add (sndUna (SN t)) (sndWnd (SN t)))) <? len (w_data w)
          then takeZ (Z.min (maxPayload (SN t)) (size (w_seq w) (add (sndUna (SN t)) (sndWnd (SN t))))) (w_data w)
          else w_data w)]).
  { cbn [sendLoop]. cbv zeta. change (SN t1) with (rtoReset (SN t)).
    rewrite F7, WL, F3, F2, F8, F10, F11. cbn [Z.ltb Z.compare negb].
    destruct (w_flags w =? 0) eqn:EF; [lia|].
    assert (LD : len (w_data w) =? 0 = false).
    { destruct (len (w_data w) =? 0) eqn:E; [|reflexivity]. exfalso. apply DT, len_zero_nil. lia. }
    rewrite LD, LT. cbn [negb].
    set (endv := add (sndUna (SN t)) (sndWnd (SN t))).
    set (available := if maxPayload (SN t) <? size (w_seq w) endv then maxPayload (SN t) else size (w_seq w) endv).
    assert (AV : available = Z.min (maxPayload (SN t)) (size (w_seq w) endv)).
    { subst available. destruct (maxPayload (SN t) <? size (w_seq w) endv) eqn:E; lia. }
    rewrite <- AV.
    destruct (available <? len (w_data w)) eqn:EA.
    - match goal with |- context [sendLoop _ ?x endv _] =>
        match x with (if lessThan _ ?se then _ else _) =>
          change x with (xmit t1 ((rtoReset (SN t)) <| outstanding := 0 + 1 |> <| wsent := wsent (rtoReset (SN t)) ++ [mkW (w_seq w) (w_flags w) (takeZ available (w_data w))] |>
                                  <| wunsent := mkW (add (w_seq w) (u32 available)) (w_flags w) (dropZ available (w_data w)) :: rest |>)
                           (takeZ available (w_data w)) (w_flags w) (w_seq w) se) end end.
      match goal with |- context [xmit ?a ?b ?c ?d ?e ?f] =>
        destruct (xmit_spec a b c d e f) as (L3 & O3 & _ & _ & ak & wn & F3'); set (t3 := xmit a b c d e f) in * end.
      rewrite sendLoop_closed.
      + exists ak, wn. rewrite F3'. reflexivity.
      + loopf L3. cbn in *. rewrite O3, Hcw, F2. lia.
    - match goal with |- context [sendLoop _ ?x endv _] =>
        match x with (if lessThan _ ?se then _ else _) =>
          change x with (xmit t1 ((rtoReset (SN t)) <| outstanding := 0 + 1 |> <| wsent := wsent (rtoReset (SN t)) ++ [w] |>
                                  <| wunsent := rest |>)
                           (w_data w) (w_flags w) (w_seq w) se) end end.
      match goal with |- context [xmit ?a ?b ?c ?d ?e ?f] =>
        destruct (xmit_spec a b c d e f) as (L3 & O3 & _ & _ & ak & wn & F3'); set (t3 := xmit a b c d e f) in * end.
      rewrite sendLoop_closed.
      + exists ak, wn. rewrite F3'. reflexivity.
      + loopf L3. cbn in *. rewrite O3, Hcw, F2. lia. }
  destruct OUT as (ak & wn & OUT). exists ak, wn.
  unfold sendData. cbv zeta. rewrite andb_false_r. cbn [andb].
  replace (t1 <| SN := SN t1 |>) with t1 by reflexivity.
  match goal with |- out (if ?c then _ else _) = _ => destruct c end; cbn [out set]; exact OUT.
Qed.

Lemma run_snoc t es e : run t (es ++ [e]) = fst (step (run t es) e).
Proof. unfold run. rewrite fold_left_app. reflexivity. Qed.

Lemma repeat_snoc {A} (x : A) n : repeat x (S n) = repeat x n ++ [x].
Proof. induction n; cbn in *; [reflexivity|]. rewrite <- IHn. reflexivity. Qed.

(* the state after n expiries with a silent peer *)
Definition silent (n : nat) (t : tcp) : tcp := run t (repeat ERto n).

Lemma silent_S n t : silent (S n) t = fst (step (silent n t) ERto).
Proof. unfold silent. rewrite repeat_snoc, run_snoc. reflexivity. Qed.

(* rto_backoff_terminates: while the peer stays silent every expiry doubles rto, and no more than
   ten expiries can happen on a live connection (200 ms * 2^9 > 60 s): the next one resets it *)
Lemma rto_backoff t n :
  minRTO <= rto (SN t) ->
  (forall i, (i < n)%nat -> live (silent i t)) ->
  (forall j, (j < n)%nat -> rto (SN (silent j t)) = rto (SN t) * 2 ^ Z.of_nat j) /\ (n <= 10)%nat.
Proof.
  intros M LV.
  assert (DB : forall j, (j < n)%nat -> rto (SN (silent j t)) = rto (SN t) * 2 ^ Z.of_nat j).
  { induction j as [|j IH]; intros Hj.
    - unfold silent. cbn. lia.
    - specialize (IH ltac:(lia)). pose proof (LV j ltac:(lia)) as Lj. pose proof (LV (S j) Hj) as LS.
      destruct (Z_lt_le_dec (rto (SN (silent j t))) maxRTO) as [LT|GE].
      + pose proof (rto_step (silent j t) Lj LT) as RS. cbv zeta in RS. destruct RS as (RS & _).
        rewrite silent_S, RS, IH. rewrite Nat2Z.inj_succ, Z.pow_succ_r by lia. lia.
      + destruct (step_rto_dead (silent j t) Lj GE) as (ED & _).
        rewrite <- silent_S in ED. destruct LS as (LS & _). rewrite ED in LS. discriminate. }
  split; [exact DB|].
  destruct (le_lt_dec n 10) as [|GT]; [assumption|]. exfalso.
  pose proof (DB 9%nat ltac:(lia)) as R9. pose proof (LV 9%nat ltac:(lia)) as L9.
  pose proof (LV 10%nat ltac:(lia)) as L10.
  assert (GE : maxRTO <= rto (SN (silent 9 t))).
  { rewrite R9. unfold maxRTO, minRTO in *. change (2 ^ Z.of_nat 9) with 512. lia. }
  destruct (step_rto_dead (silent 9 t) L9 GE) as (ED & _).
  rewrite <- silent_S in ED. destruct L10 as (L10 & _). rewrite ED in L10. discriminate.
Qed.

(* ------------------------------------------------------------------ fast retransmit / fast recovery *)

(* sender.handleRcvdSegment up to (not including) its final sendData *)
Definition preSend (t : tcp) (sg : seg) (wnd : Z) (newRto : Z) : tcp :=
  let s0 := SN t in
  let clampRto := if newRto <? minRTO then minRTO else newRto in
  let s1 := if negb (tsOk t) && lessThan (rttSeq s0) (s_ack sg)
            then s0 <| rto := clampRto |> <| rttSeq := sndNxt s0 |> else s0 in
  let segLog := plogicalLen (s_flags sg) (s_data sg) in
  let '(s2, rtx) := checkDuplicateAck s1 (s_ack sg) segLog wnd in
  let s3 := s2 <| sndWnd := wnd |> in
  let ack := s_ack sg in
  let t3 := t <| SN := s3 |> in
  let t4 :=
    if inRange (u32 (ack - 1)) (sndUna s3) (sndNxt s3) then
      let s4 := s3 <| dupAck := 0 |> <| tstate := if tstate s3 =? tDisabled then tDisabled else tOrphaned |> in
      let s5 := if tsOk t && s_tsecr sg then s4 <| rto := clampRto |> else s4 in
      let acked := size (sndUna s5) ack in
      let '(sent', unsent', removed) :=
        ackLoop (S (length (wsent s5) + length (wunsent s5))) (wsent s5) (wunsent s5) acked 0 in
      let s6 := s5 <| sndUna := ack |> <| wsent := sent' |> <| wunsent := unsent' |>
                   <| outstanding := outstanding s5 - removed |> in
      let s7 := if frActive s6 then s6 else renoUpdate s6 removed in
      let s8 := if outstanding s7 <? 0 then s7 <| outstanding := 0 |> else s7 in
      t3 <| SN := s8 |> <| sndBufUsed := sndBufUsed t3 - acked |>
    else t3 in
  if rtx then resendSegment t4 else t4.

Lemma sndHandle_preSend t sg wnd newRto idle :
  sndHandle t sg wnd newRto idle = sendData (preSend t sg wnd newRto) idle.
Proof. reflexivity. Qed.

Lemma step_processed t sg newRto :
  processed t sg = true ->
  let t1 := sndHandle (rcvHandle (t <| out := [] |>) sg) sg (wndOf t sg) newRto false in
  fst (step t (ESeg sg newRto)) =
    loopExit (if negb (rcvNxt (RC t1) =? maxSentAck (SN t1)) then sendAck t1 else t1).
Proof.
  unfold processed. intros P.
  apply andb_true_iff in P. destruct P as (P & P4).
  apply andb_true_iff in P. destruct P as (P & P3).
  apply andb_true_iff in P. destruct P as (P1 & P2).
  apply negb_true_iff in P2, P4.
  cbv zeta. unfold step. cbn [fst]. unfold handleSegment.
  change (estate (t <| out := [] |>)) with (estate t). change (tsOk (t <| out := [] |>)) with (tsOk t).
  rewrite P1, P2, P3, P4. cbn [negb]. reflexivity.
Qed.

Lemma inRange_self_false a n : inRange (u32 (a - 1)) a n = false.
Proof.
  unfold inRange. apply Z.ltb_ge. unfold u32. rewrite Zminus_mod_idemp_l.
  replace (a - 1 - a) with (-1) by lia. change ((-1) mod 2^32) with (2^32 - 1).
  pose proof (Z.mod_pos_bound (n - a) (2^32) ltac:(lia)). lia.
Qed.

Lemma cda_third s ack wnd :
  frActive s = false -> dupAck s = 2 -> ack = sndUna s -> sndUna s <> sndNxt s -> wnd = sndWnd s ->
  lessThan (frLast s) ack = true ->
  checkDuplicateAck s ack 0 wnd = ((enterFastRecovery (reduceSsthresh (s <| dupAck := dupAck s + 1 |>))) <| dupAck := 0 |>, true).
Proof.
  intros F D A N W L. unfold checkDuplicateAck. rewrite F.
  subst ack wnd. rewrite !Z.eqb_refl. cbn [negb orb].
  destruct (sndUna s =? sndNxt s) eqn:E; [lia|].
  cbn [dupAck set]. rewrite D. change (2 + 1 <? nDupAckThreshold) with false. cbv iota.
  change (frLast (s <| dupAck := 2 + 1 |>)) with (frLast s). rewrite L. reflexivity.
Qed.

Definition third_dupack (t : tcp) (sg : seg) : Prop :=
  processed t sg = true /\ frActive (SN t) = false /\ dupAck (SN t) = 2 /\ sndUna (SN t) <> sndNxt (SN t) /\
  lessThan (frLast (SN t)) (sndUna (SN t)) = true /\
  s_ack sg = sndUna (SN t) /\ seglen sg = 0 /\ wndOf t sg = sndWnd (SN t).

(* the state of the sender right after the third duplicate ACK, before sendData *)
Lemma preSend_third t sg wnd newRto w rest :
  frActive (SN t) = false -> dupAck (SN t) = 2 -> sndUna (SN t) <> sndNxt (SN t) ->
  lessThan (frLast (SN t)) (sndUna (SN t)) = true ->
  s_ack sg = sndUna (SN t) -> seglen sg = 0 -> wnd = sndWnd (SN t) ->
  wsent (SN t) ++ wunsent (SN t) = w :: rest ->
  let t5 := preSend t sg wnd newRto in
  (exists ak wn, out t5 = out t ++ [mkF (w_seq w) ak (w_flags w) wn (w_data w)]) /\
  frActive (SN t5) = true /\ ssthresh (SN t5) = Z.max 2 (Z.quot (outstanding (SN t)) 2) /\
  cwnd (SN t5) = ssthresh (SN t5) + 3 /\ frFirst (SN t5) = sndUna (SN t) /\
  frLast (SN t5) = u32 (sndNxt (SN t) - 1) /\ frMaxCwnd (SN t5) = cwnd (SN t5) + outstanding (SN t) /\
  dupAck (SN t5) = 0 /\
  sndUna (SN t5) = sndUna (SN t) /\ sndNxt (SN t5) = sndNxt (SN t) /\ tstate (SN t5) = tstate (SN t) /\
  outstanding (SN t5) = outstanding (SN t) /\ tsOk t5 = tsOk t.
Proof.
  intros F D N L A SL W WL. cbv zeta. unfold preSend. cbv zeta.
  set (clampRto := if newRto <? minRTO then minRTO else newRto).
  set (s1 := if negb (tsOk t) && lessThan (rttSeq (SN t)) (s_ack sg)
             then (SN t) <| rto := clampRto |> <| rttSeq := sndNxt (SN t) |> else SN t).
  assert (S1 : frActive s1 = false /\ dupAck s1 = 2 /\ sndUna s1 = sndUna (SN t) /\ sndNxt s1 = sndNxt (SN t) /\
               frLast s1 = frLast (SN t) /\ sndWnd s1 = sndWnd (SN t) /\ outstanding s1 = outstanding (SN t) /\
               wsent s1 = wsent (SN t) /\ wunsent s1 = wunsent (SN t) /\ tstate s1 = tstate (SN t)).
  { subst s1. destruct (negb (tsOk t) && lessThan (rttSeq (SN t)) (s_ack sg)); cbn; auto 12. }
  destruct S1 as (F1 & D1 & U1 & N1 & L1 & W1 & O1 & WS1 & WU1 & T1).
  fold (seglen sg). rewrite SL.
  rewrite (cda_third s1 (s_ack sg) wnd); try congruence.
  cbn [sndUna sndNxt set enterFastRecovery reduceSsthresh].
  match goal with |- context [inRange ?a ?b ?c] =>
    replace (inRange a b c) with false
      by (symmetry; replace b with (s_ack sg) by (cbn; congruence); apply inRange_self_false) end.
  match goal with |- context [resendSegment ?x] => set (t4 := x) end.
  destruct (resendSegment_spec t4) as (RC1 & RT & _ & RO).
  assert (W4 : wsent (SN t4) ++ wunsent (SN t4) = w :: rest).
  { subst t4. cbn. rewrite WS1, WU1. exact WL. }
  rewrite W4 in RO. destruct RO as (ak & wn & RO).
  coref RC1. subst t4. cbn -[Z.quot Z.max Z.add] in *.
  rewrite F1, D1, U1, N1, O1, T1 in *.
  split; [exists ak, wn; exact RO|].
  repeat split; try assumption; try congruence.
  - rewrite Hss. destruct (Z.quot (outstanding (SN t)) 2 <? 2) eqn:E; lia.
  - rewrite Hcw, Hss. reflexivity.
  - rewrite Hfrm, Hcw, Hss. reflexivity.
Qed.

(* fast_retransmit_on_third_dupack *)
Lemma fast_retransmit t sg newRto w rest :
  third_dupack t sg -> wsent (SN t) ++ wunsent (SN t) = w :: rest ->
  let t' := fst (step t (ESeg sg newRto)) in
  (exists pre post ak wn, out t' = pre ++ mkF (w_seq w) ak (w_flags w) wn (w_data w) :: post /\ dcount pre = 0) /\
  frActive (SN t') = true /\ ssthresh (SN t') = Z.max 2 (Z.quot (outstanding (SN t)) 2) /\
  cwnd (SN t') = ssthresh (SN t') + 3 /\ frFirst (SN t') = sndUna (SN t) /\
  frLast (SN t') = u32 (sndNxt (SN t) - 1) /\ dupAck (SN t') = 0 /\ sndUna (SN t') = sndUna (SN t) /\
  (tstate (SN t) = tEnabled -> tstate (SN t') = tEnabled).
Proof.
  intros (P & F & D & N & L & A & SL & W) WL. cbv zeta.
  rewrite (step_processed t sg newRto P). cbv zeta.
  set (t0 := t <| out := [] |>). set (tr := rcvHandle t0 sg).
  destruct (rcvHandle_quiet t0 sg) as (QC & _ & pre & QO & QD). fold tr in QC, QO.
  change (out t0) with (@nil frame) in QO. cbn [app] in QO.
  coref QC. change (SN t0) with (SN t) in *.
  rewrite sndHandle_preSend.
  pose proof (preSend_third tr sg (wndOf t sg) newRto w rest) as PT. cbv zeta in PT.
  rewrite Hfra, Hdup, Hun, Hnx, Hfrl, Hwse, Hwun, Hout, Hts in PT.
  specialize (PT F D N L A SL W WL).
  set (t5 := preSend tr sg (wndOf t sg) newRto) in *.
  destruct PT as ((ak & wn & O5) & P1 & P2 & P3 & P4 & P5 & P6 & P7 & P8 & P9 & P10 & P11 & P12).
  pose proof (sendData_spec t5) as SD. cbv zeta in SD.
  destruct SD as (LF & _ & _ & _ & TS & fs & OF & _). set (t6 := sendData t5 false) in *.
  match goal with |- context [loopExit ?x] => destruct (tail_quiet t6) as (TC & _ & post & TO & _); set (t7 := loopExit x) in * end.
  loopfT LF. clear Hts. coref TC.
  split.
  - exists pre, (fs ++ post), ak, wn. split; [|exact QD].
    rewrite TO, OF, O5, QO. rewrite <- !app_assoc. reflexivity.
  - repeat split; try congruence.
    intros TE. rewrite Hts0, TS, P10, TE. reflexivity.
Qed.

(* the write list after k bytes were newly acknowledged (spec vocabulary) *)
Fixpoint trimmed (l : list wseg) (k : Z) : list wseg :=
  match l with
  | [] => []
  | w :: r => if 0 <? k then
                (if k <? wlogicalLen w then mkW (add (w_seq w) k) (w_flags w) (dropZ k (w_data w)) :: r
                 else trimmed r (k - wlogicalLen w))
              else l
  end.

Lemma ackLoop_lists fuel : forall sent unsent k r,
  (length sent + length unsent < fuel)%nat -> 0 <= k < 2^32 ->
  fst (fst (ackLoop fuel sent unsent k r)) ++ snd (fst (ackLoop fuel sent unsent k r)) = trimmed (sent ++ unsent) k.
Proof.
  induction fuel as [|f IH]; intros sent unsent k r Hf Hk; [lia|].
  cbn [ackLoop]. destruct (0 <? k) eqn:EK; cbn [negb].
  2:{ destruct sent, unsent; cbn [app trimmed fst snd]; rewrite ?EK; reflexivity. }
  destruct sent as [|w sent'].
  - destruct unsent as [|w unsent']; cbn [app trimmed fst snd]; [reflexivity|]. rewrite EK.
    pose proof (wlogicalLen_range w) as R.
    destruct (k <? wlogicalLen w) eqn:EL; cbn [fst snd app]; [reflexivity|].
    rewrite IH; [|cbn in *; lia|unfold u32; rewrite Z.mod_small; lia].
    cbn [app]. unfold u32. rewrite Z.mod_small by lia. reflexivity.
  - cbn [app trimmed]. rewrite EK.
    pose proof (wlogicalLen_range w) as R.
    destruct (k <? wlogicalLen w) eqn:EL; cbn [fst snd app]; [reflexivity|].
    rewrite IH; [|cbn in *; lia|unfold u32; rewrite Z.mod_small; lia].
    unfold u32. rewrite Z.mod_small by lia. reflexivity.
Qed.

(* bytes newly acknowledged by this segment *)
Definition newlyAcked (s : sndr) (sg : seg) : Z :=
  if inRange (u32 (s_ack sg - 1)) (sndUna s) (sndNxt s) then size (sndUna s) (s_ack sg) else 0.

Lemma trimmed_0 l : trimmed l 0 = l.
Proof. destruct l; reflexivity. Qed.

Definition partial_ack (t : tcp) (sg : seg) : Prop :=
  processed t sg = true /\ frActive (SN t) = true /\
  inRange (s_ack sg) (sndUna (SN t)) (u32 (sndNxt (SN t) + 1)) = true /\
  lessThan (frLast (SN t)) (s_ack sg) = false /\
  seglen sg = 0 /\ wndOf t sg = sndWnd (SN t) /\ s_ack sg <> frFirst (SN t).

Lemma preSend_partial t sg wnd newRto w rest :
  frActive (SN t) = true ->
  inRange (s_ack sg) (sndUna (SN t)) (u32 (sndNxt (SN t) + 1)) = true ->
  lessThan (frLast (SN t)) (s_ack sg) = false ->
  seglen sg = 0 -> wnd = sndWnd (SN t) -> s_ack sg <> frFirst (SN t) ->
  trimmed (wsent (SN t) ++ wunsent (SN t)) (newlyAcked (SN t) sg) = w :: rest ->
  let t5 := preSend t sg wnd newRto in
  (exists ak wn, out t5 = out t ++ [mkF (w_seq w) ak (w_flags w) wn (w_data w)]) /\
  frActive (SN t5) = true /\ frFirst (SN t5) = s_ack sg /\ cwnd (SN t5) = cwnd (SN t) /\
  ssthresh (SN t5) = ssthresh (SN t) /\ frLast (SN t5) = frLast (SN t).
Proof.
  intros F IR L SL W NF WL. cbv zeta. unfold preSend. cbv zeta.
  set (clampRto := if newRto <? minRTO then minRTO else newRto).
  set (s1 := if negb (tsOk t) && lessThan (rttSeq (SN t)) (s_ack sg)
             then (SN t) <| rto := clampRto |> <| rttSeq := sndNxt (SN t) |> else SN t).
  assert (S1 : frActive s1 = true /\ sndUna s1 = sndUna (SN t) /\ sndNxt s1 = sndNxt (SN t) /\
               frLast s1 = frLast (SN t) /\ sndWnd s1 = sndWnd (SN t) /\ frFirst s1 = frFirst (SN t) /\
               wsent s1 = wsent (SN t) /\ wunsent s1 = wunsent (SN t) /\ cwnd s1 = cwnd (SN t) /\
               ssthresh s1 = ssthresh (SN t)).
  { subst s1. destruct (negb (tsOk t) && lessThan (rttSeq (SN t)) (s_ack sg)); cbn; auto 12. }
  destruct S1 as (F1 & U1 & N1 & L1 & W1 & FF1 & WS1 & WU1 & C1 & SS1).
  fold (seglen sg). rewrite SL.
  assert (CD : checkDuplicateAck s1 (s_ack sg) 0 wnd = (s1 <| frFirst := s_ack sg |> <| dupAck := 0 |>, true)).
  { unfold checkDuplicateAck. rewrite F1, U1, N1, IR, L1, L, W1, W, Z.eqb_refl, FF1. cbn [negb orb].
    destruct (s_ack sg =? frFirst (SN t)) eqn:E; [lia|]. reflexivity. }
  rewrite CD. cbn [sndUna sndNxt set].
  change (sndUna (s1 <| frFirst := s_ack sg |> <| dupAck := 0 |> <| sndWnd := wnd |>)) with (sndUna s1).
  change (sndNxt (s1 <| frFirst := s_ack sg |> <| dupAck := 0 |> <| sndWnd := wnd |>)) with (sndNxt s1).
  rewrite U1, N1. unfold newlyAcked in WL.
  destruct (inRange (u32 (s_ack sg - 1)) (sndUna (SN t)) (sndNxt (SN t))) eqn:EI.
  - set (sA := s1 <| frFirst := s_ack sg |> <| dupAck := 0 |> <| sndWnd := wnd |> <| dupAck := 0 |>
                  <| tstate := if tstate (s1 <| frFirst := s_ack sg |> <| dupAck := 0 |> <| sndWnd := wnd |>) =? tDisabled
                               then tDisabled else tOrphaned |>).
    set (s5 := if tsOk t && s_tsecr sg then sA <| rto := clampRto |> else sA).
    assert (W5 : wsent s5 = wsent (SN t) /\ wunsent s5 = wunsent (SN t) /\ sndUna s5 = sndUna (SN t) /\
                 frActive s5 = true /\ frFirst s5 = s_ack sg /\ cwnd s5 = cwnd (SN t) /\
                 ssthresh s5 = ssthresh (SN t) /\ frLast s5 = frLast (SN t)).
    { subst s5 sA. destruct (tsOk t && s_tsecr sg); cbn; auto 12. }
    destruct W5 as (W5 & X5 & U5 & F5 & FF5 & C5 & SS5 & L5). rewrite W5, X5, U5.
    pose proof (ackLoop_lists (S (length (wsent (SN t)) + length (wunsent (SN t)))) (wsent (SN t)) (wunsent (SN t))
                  (size (sndUna (SN t)) (s_ack sg)) 0 ltac:(lia)
                  ltac:(unfold size, u32; apply Z.mod_pos_bound; lia)) as AL.
    destruct (ackLoop (S (length (wsent (SN t)) + length (wunsent (SN t)))) (wsent (SN t)) (wunsent (SN t))
                (size (sndUna (SN t)) (s_ack sg)) 0) as [[sent' unsent'] removed].
    cbn [fst snd] in AL. rewrite WL in AL.
    cbn [frActive set]. 
    change (frActive (s5 <| sndUna := s_ack sg |> <| wsent := sent' |> <| wunsent := unsent' |>
                        <| outstanding := outstanding s5 - removed |>)) with (frActive s5).
    rewrite F5.
    match goal with |- context [resendSegment ?x] => set (t4 := x) end.
    destruct (resendSegment_spec t4) as (RC1 & _ & _ & RO).
    assert (W4 : wsent (SN t4) ++ wunsent (SN t4) = w :: rest).
    { subst t4. cbn [SN set]. match goal with |- context [if ?c then _ else _] => destruct c end; cbn; exact AL. }
    rewrite W4 in RO. destruct RO as (ak & wn & RO).
    coref RC1.
    assert (E4 : out t4 = out t /\ frActive (SN t4) = true /\ frFirst (SN t4) = s_ack sg /\ cwnd (SN t4) = cwnd (SN t) /\
                 ssthresh (SN t4) = ssthresh (SN t) /\ frLast (SN t4) = frLast (SN t)).
    { subst t4. cbn [SN set out]. match goal with |- context [if ?c then _ else _] => destruct c end; cbn; auto 10. }
    destruct E4 as (E41 & E42 & E43 & E44 & E45 & E46).
    split; [exists ak, wn; rewrite RO, E41; reflexivity|].
    cbn in Hfra, Hfrf, Hcw, Hss, Hfrl. repeat split; congruence.
  - rewrite trimmed_0 in WL.
    match goal with |- context [resendSegment ?x] => set (t4 := x) end.
    destruct (resendSegment_spec t4) as (RC1 & _ & _ & RO).
    assert (W4 : wsent (SN t4) ++ wunsent (SN t4) = w :: rest).
    { subst t4. cbn. rewrite WS1, WU1. exact WL. }
    rewrite W4 in RO. destruct RO as (ak & wn & RO).
    coref RC1. subst t4. cbn in *.
    split; [exists ak, wn; exact RO|]. repeat split; congruence.
Qed.

(* partial ACK during fast recovery: the new head of the write list is retransmitted at once *)
Lemma partial_ack_retransmits t sg newRto w rest :
  partial_ack t sg ->
  trimmed (wsent (SN t) ++ wunsent (SN t)) (newlyAcked (SN t) sg) = w :: rest ->
  let t' := fst (step t (ESeg sg newRto)) in
  (exists pre post ak wn, out t' = pre ++ mkF (w_seq w) ak (w_flags w) wn (w_data w) :: post /\ dcount pre = 0) /\
  frActive (SN t') = true /\ frFirst (SN t') = s_ack sg /\ cwnd (SN t') = cwnd (SN t) /\
  ssthresh (SN t') = ssthresh (SN t) /\ frLast (SN t') = frLast (SN t).
Proof.
  intros (P & F & IR & L & SL & W & NF) WL. cbv zeta.
  rewrite (step_processed t sg newRto P). cbv zeta.
  set (t0 := t <| out := [] |>). set (tr := rcvHandle t0 sg).
  destruct (rcvHandle_quiet t0 sg) as (QC & _ & pre & QO & QD). fold tr in QC, QO.
  change (out t0) with (@nil frame) in QO. cbn [app] in QO.
  coref QC. change (SN t0) with (SN t) in *.
  rewrite sndHandle_preSend.
  pose proof (preSend_partial tr sg (wndOf t sg) newRto w rest) as PT. cbv zeta in PT.
  unfold newlyAcked in PT.
  rewrite Hfra, Hun, Hnx, Hfrl, Hwse, Hwun, Hwn, Hfrf, Hcw, Hss in PT.
  specialize (PT F IR L SL W NF WL).
  set (t5 := preSend tr sg (wndOf t sg) newRto) in *.
  destruct PT as ((ak & wn & O5) & P1 & P2 & P3 & P4 & P5).
  pose proof (sendData_spec t5) as SD. cbv zeta in SD.
  destruct SD as (LF & _ & _ & _ & TS & fs & OF & _). set (t6 := sendData t5 false) in *.
  match goal with |- context [loopExit ?x] => destruct (tail_quiet t6) as (TC & _ & post & TO & _); set (t7 := loopExit x) in * end.
  loopfT LF. clear Hts. coref TC.
  split.
  - exists pre, (fs ++ post), ak, wn. split; [|exact QD].
    rewrite TO, OF, O5, QO. rewrite <- !app_assoc. reflexivity.
  - repeat split; congruence.
Qed.

Definition recovery_ack (t : tcp) (sg : seg) : Prop :=
  processed t sg = true /\ frActive (SN t) = true /\
  inRange (s_ack sg) (sndUna (SN t)) (u32 (sndNxt (SN t) + 1)) = true /\
  lessThan (frLast (SN t)) (s_ack sg) = true.

Lemma preSend_leave t sg wnd newRto :
  frActive (SN t) = true ->
  inRange (s_ack sg) (sndUna (SN t)) (u32 (sndNxt (SN t) + 1)) = true ->
  lessThan (frLast (SN t)) (s_ack sg) = true ->
  2 <= ssthresh (SN t) -> 0 <= caCount (SN t) ->
  let t5 := preSend t sg wnd newRto in
  frActive (SN t5) = false /\ ssthresh (SN t5) = ssthresh (SN t) /\ dupAck (SN t5) = 0 /\
  ssthresh (SN t) <= cwnd (SN t5) <= ssthresh (SN t) + caCount (SN t) / ssthresh (SN t) + ackedSegs (SN t) sg.
Proof.
  intros F IR L SS CA. cbv zeta. unfold preSend. cbv zeta.
  set (clampRto := if newRto <? minRTO then minRTO else newRto).
  set (s1 := if negb (tsOk t) && lessThan (rttSeq (SN t)) (s_ack sg)
             then (SN t) <| rto := clampRto |> <| rttSeq := sndNxt (SN t) |> else SN t).
  assert (S1 : frActive s1 = true /\ sndUna s1 = sndUna (SN t) /\ sndNxt s1 = sndNxt (SN t) /\
               frLast s1 = frLast (SN t) /\ caCount s1 = caCount (SN t) /\
               wsent s1 = wsent (SN t) /\ wunsent s1 = wunsent (SN t) /\ 
               ssthresh s1 = ssthresh (SN t)).
  { subst s1. destruct (negb (tsOk t) && lessThan (rttSeq (SN t)) (s_ack sg)); cbn; auto 12. }
  destruct S1 as (F1 & U1 & N1 & L1 & C1 & WS1 & WU1 & SS1).
  assert (CD : checkDuplicateAck s1 (s_ack sg) (plogicalLen (s_flags sg) (s_data sg)) wnd = (leaveFastRecovery s1, false)).
  { unfold checkDuplicateAck. rewrite F1, U1, N1, IR, L1, L. reflexivity. }
  rewrite CD. cbn [sndUna sndNxt set leaveFastRecovery].
  assert (D0 : 0 <= caCount (SN t) / ssthresh (SN t)) by (apply Z.div_pos; lia).
  unfold ackedSegs. rewrite U1, N1.
  destruct (inRange (u32 (s_ack sg - 1)) (sndUna (SN t)) (sndNxt (SN t))) eqn:EI.
  2:{ cbn. rewrite SS1. repeat split; lia. }
  match goal with |- context [ackLoop _ (wsent ?s5) _ _ _] => set (s5 := s5) end.
  assert (W5 : wsent s5 = wsent (SN t) /\ wunsent s5 = wunsent (SN t) /\ sndUna s5 = sndUna (SN t) /\
               frActive s5 = false /\ cwnd s5 = ssthresh (SN t) /\ caCount s5 = caCount (SN t) /\
               ssthresh s5 = ssthresh (SN t) /\ dupAck s5 = 0).
  { subst s5. destruct (tsOk t && s_tsecr sg); cbn; auto 12. }
  destruct W5 as (W5 & X5 & U5 & F5 & C5 & CA5 & SS5 & D5). rewrite W5, X5, U5.
  pose proof (ackLoop_removed (S (length (wsent (SN t)) + length (wunsent (SN t)))) (wsent (SN t)) (wunsent (SN t))
                (size (sndUna (SN t)) (s_ack sg)) 0 ltac:(lia)
                ltac:(unfold size, u32; apply Z.mod_pos_bound; lia)) as AR.
  destruct (ackLoop (S (length (wsent (SN t)) + length (wunsent (SN t)))) (wsent (SN t)) (wunsent (SN t))
              (size (sndUna (SN t)) (s_ack sg)) 0) as [[sent' unsent'] removed].
  cbn [snd] in AR. rewrite Z.add_0_l in AR. rewrite <- AR.
  pose proof (covered_nonneg (wsent (SN t) ++ wunsent (SN t)) (size (sndUna (SN t)) (s_ack sg))) as CN.
  rewrite <- AR in CN.
  set (s6 := s5 <| sndUna := s_ack sg |> <| wsent := sent' |> <| wunsent := unsent' |>
                <| outstanding := outstanding s5 - removed |>).
  assert (E6 : frActive s6 = false /\ cwnd s6 = ssthresh (SN t) /\ caCount s6 = caCount (SN t) /\
               ssthresh s6 = ssthresh (SN t) /\ dupAck s6 = 0) by (subst s6; cbn; auto).
  destruct E6 as (F6 & C6 & CA6 & SS6 & D6).
  rewrite F6.
  pose proof (renoUpdate_pot s6 removed) as RP. cbv zeta in RP.
  destruct RP as (R1 & R2 & R3 & R4 & R5 & R6 & R7 & R8); try lia.
  unfold psi in R3. rewrite C6, CA6 in R3.
  assert (D7 : dupAck (renoUpdate s6 removed) = 0).
  { unfold renoUpdate, renoCA. cbv zeta.
    repeat match goal with |- context [if ?c then _ else _] => destruct c end; cbn; exact D6. }
  assert (0 <= caCount (renoUpdate s6 removed) / cwnd (renoUpdate s6 removed)) by (apply Z.div_pos; lia).
  cbn [SN set]. destruct (outstanding (renoUpdate s6 removed) <? 0); cbn; repeat split; try congruence; try lia.
Qed.

(* recovery ends on the first ACK beyond fr.last: cwnd deflates to ssthresh (then grows by the
   regular congestion-avoidance update for the segments this ACK newly acknowledged) *)
Lemma recovery_ends t sg newRto :
  recovery_ack t sg -> 2 <= ssthresh (SN t) -> 0 <= caCount (SN t) ->
  let t' := fst (step t (ESeg sg newRto)) in
  frActive (SN t') = false /\ ssthresh (SN t') = ssthresh (SN t) /\ dupAck (SN t') = 0 /\
  ssthresh (SN t) <= cwnd (SN t') <= ssthresh (SN t) + caCount (SN t) / ssthresh (SN t) + ackedSegs (SN t) sg.
Proof.
  intros (P & F & IR & L) SS CA. cbv zeta.
  rewrite (step_processed t sg newRto P). cbv zeta.
  set (t0 := t <| out := [] |>). set (tr := rcvHandle t0 sg).
  destruct (rcvHandle_quiet t0 sg) as (QC & _). fold tr in QC.
  coref QC. change (SN t0) with (SN t) in *.
  rewrite sndHandle_preSend.
  pose proof (preSend_leave tr sg (wndOf t sg) newRto) as PT. cbv zeta in PT. unfold ackedSegs in *.
  rewrite Hfra, Hun, Hnx, Hfrl, Hwse, Hwun, Hca, Hss in PT.
  specialize (PT F IR L SS CA).
  set (t5 := preSend tr sg (wndOf t sg) newRto) in *.
  destruct PT as (P1 & P2 & P3 & P4).
  pose proof (sendData_spec t5) as SD. cbv zeta in SD.
  destruct SD as (LF & _). set (t6 := sendData t5 false) in *.
  match goal with |- context [loopExit ?x] => destruct (tail_quiet t6) as (TC & _); set (t7 := loopExit x) in * end.
  loopfT LF. clear Hts. coref TC.
  repeat split; try congruence; lia.
Qed.

(* fast_retransmit_does_not_rearm (documents finding F11).  The model's timer has no clock: a
   re-arm is the transition "not enabled -> enabled" made by sendData's guard
   [!resendTimer.enabled() && sndUna != sndNxt].  On the fast-retransmit step nothing disables
   the timer (that only happens when an ACK advances sndUna), so an enabled timer stays enabled
   with its OLD deadline: [tstate] is unchanged by everything before sendData, and sendData's
   arming guard is false. *)
Lemma fast_retransmit_does_not_rearm t sg newRto :
  third_dupack t sg -> tstate (SN t) = tEnabled ->
  tstate (SN (preSend (rcvHandle (t <| out := [] |>) sg) sg (wndOf t sg) newRto)) = tEnabled /\
  tstate (SN (fst (step t (ESeg sg newRto)))) = tEnabled.
Proof.
  intros TD TE. 
  destruct (wsent (SN t) ++ wunsent (SN t)) as [|w rest] eqn:WL.
  - (* empty write list: same computation, nothing to resend *)
    destruct TD as (P & F & D & N & L & A & SL & W).
    set (t0 := t <| out := [] |>). set (tr := rcvHandle t0 sg).
    destruct (rcvHandle_quiet t0 sg) as (QC & _). fold tr in QC.
    coref QC. change (SN t0) with (SN t) in *.
    assert (T5 : tstate (SN (preSend tr sg (wndOf t sg) newRto)) = tEnabled).
    { unfold preSend. cbv zeta.
      set (clampRto := if newRto <? minRTO then minRTO else newRto).
      set (s1 := if negb (tsOk tr) && lessThan (rttSeq (SN tr)) (s_ack sg)
                 then (SN tr) <| rto := clampRto |> <| rttSeq := sndNxt (SN tr) |> else SN tr).
      assert (S1 : frActive s1 = false /\ dupAck s1 = 2 /\ sndUna s1 = sndUna (SN t) /\ sndNxt s1 = sndNxt (SN t) /\
               frLast s1 = frLast (SN t) /\ sndWnd s1 = sndWnd (SN t) /\ tstate s1 = tEnabled).
      { subst s1. destruct (negb (tsOk tr) && lessThan (rttSeq (SN tr)) (s_ack sg)); cbn; repeat split; congruence. }
      destruct S1 as (F1 & D1 & U1 & N1 & L1 & W1 & T1).
      fold (seglen sg). rewrite SL.
      rewrite (cda_third s1 (s_ack sg) (wndOf t sg)); try congruence.
      cbn [sndUna sndNxt set enterFastRecovery reduceSsthresh].
      match goal with |- context [inRange ?a ?b ?c] =>
        replace (inRange a b c) with false
          by (symmetry; replace b with (s_ack sg) by (cbn; congruence); apply inRange_self_false) end.
      match goal with |- context [resendSegment ?x] => destruct (resendSegment_spec x) as (RC1 & _) end.
      coref RC1. cbn in Hts0. rewrite Hts0. exact T1. }
    split; [exact T5|].
    rewrite (step_processed t sg newRto P). cbv zeta. fold t0. fold tr. rewrite sndHandle_preSend.
    set (t5 := preSend tr sg (wndOf t sg) newRto) in *.
    pose proof (sendData_spec t5) as SD. cbv zeta in SD.
    destruct SD as (_ & _ & _ & _ & TS & _). set (t6 := sendData t5 false) in *.
    match goal with |- context [loopExit ?x] => destruct (tail_quiet t6) as (TC & _); set (t7 := loopExit x) in * end.
    coref TC. rewrite Hts0, TS, T5. reflexivity.
  - pose proof (fast_retransmit t sg newRto w rest TD WL) as FR. cbv zeta in FR.
    destruct FR as (_ & _ & _ & _ & _ & _ & _ & _ & FR). split; [|exact (FR TE)].
    destruct TD as (P & F & D & N & L & A & SL & W).
    set (t0 := t <| out := [] |>). set (tr := rcvHandle t0 sg).
    destruct (rcvHandle_quiet t0 sg) as (QC & _). fold tr in QC.
    coref QC. change (SN t0) with (SN t) in *.
    pose proof (preSend_third tr sg (wndOf t sg) newRto w rest) as PT. cbv zeta in PT.
    rewrite Hfra, Hdup, Hun, Hnx, Hfrl, Hwse, Hwun, Hout, Hts in PT.
    specialize (PT F D N L A SL W WL).
    destruct PT as (_ & _ & _ & _ & _ & _ & _ & _ & _ & _ & P10 & _). congruence.
Qed.

(* contrast: an ACK that acknowledges new data DOES pass through "timer disabled", so that
   sendData re-arms it with a fresh full rto (resendTimer.disable() in handleRcvdSegment) *)
Lemma new_ack_disables_timer t sg wnd newRto :
  inRange (u32 (s_ack sg - 1)) (sndUna (SN t)) (sndNxt (SN t)) = true ->
  tstate (SN t) = tEnabled ->
  tstate (SN (preSend t sg wnd newRto)) = tOrphaned.
Proof.
  intros IR TE. unfold preSend. cbv zeta.
  set (clampRto := if newRto <? minRTO then minRTO else newRto).
  set (s1 := if negb (tsOk t) && lessThan (rttSeq (SN t)) (s_ack sg)
             then (SN t) <| rto := clampRto |> <| rttSeq := sndNxt (SN t) |> else SN t).
  assert (S1 : sndUna s1 = sndUna (SN t) /\ sndNxt s1 = sndNxt (SN t) /\ tstate s1 = tEnabled).
  { subst s1. destruct (negb (tsOk t) && lessThan (rttSeq (SN t)) (s_ack sg)); cbn; auto. }
  destruct S1 as (U1 & N1 & T1).
  pose proof (cda_CC_fields s1 sg wnd) as CF. cbv zeta in CF. fold (seglen sg).
  destruct (checkDuplicateAck s1 (s_ack sg) (seglen sg) wnd) as [s2 rtx]. cbn [fst] in CF.
  destruct CF as (U2 & N2 & T2).
  cbn [sndUna sndNxt set].
  change (sndUna (s2 <| sndWnd := wnd |>)) with (sndUna s2).
  change (sndNxt (s2 <| sndWnd := wnd |>)) with (sndNxt s2).
  rewrite U2, N2, U1, N1, IR.
  match goal with |- context [ackLoop ?a ?b ?c ?d ?e] => destruct (ackLoop a b c d e) as [[sent' unsent'] removed] end.
  assert (TT : forall t4, tstate (SN t4) = tOrphaned -> tstate (SN (if rtx then resendSegment t4 else t4)) = tOrphaned).
  { intros t4 H4. destruct rtx; [|exact H4]. destruct (resendSegment_spec t4) as (RC1 & _). coref RC1.
    cbn in Hts. congruence. }
  apply TT. cbn [SN set].
  assert (T5 : forall s7 : sndr, tstate s7 = tOrphaned ->
            tstate (if outstanding s7 <? 0 then s7 <| outstanding := 0 |> else s7) = tOrphaned).
  { intros s7 H7. destruct (outstanding s7 <? 0); cbn; exact H7. }
  apply T5.
  assert (T6 : forall s6 : sndr, tstate s6 = tOrphaned ->
            tstate (if frActive s6 then s6 else renoUpdate s6 removed) = tOrphaned).
  { intros s6 H6. destruct (frActive s6); [exact H6|].
    unfold renoUpdate, renoCA. cbv zeta.
    repeat match goal with |- context [if ?c then _ else _] => destruct c end; cbn; exact H6. }
  apply T6. cbn [tstate set].
  change (tstate (s2 <| sndWnd := wnd |>)) with (tstate s2). rewrite T2, T1.
  destruct (tsOk t && s_tsecr sg); reflexivity.
Qed.
