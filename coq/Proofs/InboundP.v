(* Panic-freedom of the modelled inbound path (Model/Inbound.v): for EVERY byte string, in every
   state the model can reach, no layer returns [None] (= no Go index / slice expression on the path
   is out of range, the reassembler does not panic, the option parsers do not read out of bounds),
   and the fdbased dispatch loop is told to continue.  Each layer lemma has the shape "the guard in
   front of a read implies the bounds of the read". *)
From Coq Require Import ZArith List Bool Lia ZifyBool.
From NP Require Import Model.Bytes Model.HdrIP Model.HdrTransport Model.Inbound.
From NP Require Import Proofs.BytesP Proofs.TcpOptionsP Proofs.ArpP Proofs.FragP Proofs.FragTopP.
From NP Require Model.Frag Model.Arp Model.TcpOptions.
Import ListNotations.
Open Scope Z_scope.

(* ------------------------------------------------------------------ reads under a length bound *)
Lemma get8_ok b i : (i < length b)%nat -> exists x, get8 b i = Some x.
Proof. intros H. rewrite get8_be by lia. eauto. Qed.
Lemma get16_ok b i : (i + 1 < length b)%nat -> exists x, get16 b i = Some x.
Proof. intros H. rewrite get16_be by lia. eauto. Qed.
Lemma get32_ok b i : (i + 3 < length b)%nat -> exists x, get32 b i = Some x.
Proof. intros H. rewrite get32_be by lia. eauto. Qed.
Lemma getN_ok b i n : (i + n <= length b)%nat -> getN b i n = Some (firstn n (skipn i b)).
Proof. intros H. unfold getN. destruct (i + n <=? length b)%nat eqn:E; [reflexivity|]. apply Nat.leb_gt in E. lia. Qed.
Lemma getFrom_ok b i : (i <= length b)%nat -> getFrom b i = Some (skipn i b).
Proof. intros H. unfold getFrom. destruct (i <=? length b)%nat eqn:E; [reflexivity|]. apply Nat.leb_gt in E. lia. Qed.

Lemma zlength_nat b : zlength b = Z.of_nat (length b).
Proof. reflexivity. Qed.

(* reads one option-valued read whose bound follows from the hypotheses by lia *)
Ltac rd1 :=
  match goal with
  | |- context [get8 ?b ?i] =>
      let x := fresh "x" in let E := fresh "E" in
      destruct (get8_ok b i) as [x E]; [rewrite ?zlength_nat in *; lia | rewrite E; cbn [obind]]
  | |- context [get16 ?b ?i] =>
      let x := fresh "x" in let E := fresh "E" in
      destruct (get16_ok b i) as [x E]; [rewrite ?zlength_nat in *; lia | rewrite E; cbn [obind]]
  | |- context [get32 ?b ?i] =>
      let x := fresh "x" in let E := fresh "E" in
      destruct (get32_ok b i) as [x E]; [rewrite ?zlength_nat in *; lia | rewrite E; cbn [obind]]
  | |- context [getN ?b ?i ?n] =>
      rewrite (getN_ok b i n) by (rewrite ?zlength_nat in *; lia); cbn [obind]
  | |- context [getFrom ?b ?i] =>
      rewrite (getFrom_ok b i) by (rewrite ?zlength_nat in *; lia); cbn [obind]
  end.
Ltac rd := repeat rd1.
(* the same with the value named *)
Ltac rd8 b i x :=
  let E := fresh "E" in destruct (get8_ok b i) as [x E]; [rewrite ?zlength_nat in *; lia | rewrite ?E; cbn [obind]].
Ltac rd16 b i x :=
  let E := fresh "E" in destruct (get16_ok b i) as [x E]; [rewrite ?zlength_nat in *; lia | rewrite ?E; cbn [obind]].

Ltac unfold_acc :=
  unfold ipv4_headerLength, ipv4_totalLength, ipv4_flags, ipv4_fragmentOffset, ipv4_protocol,
    ipv4_sourceAddress, ipv4_destinationAddress, ipv6_payloadLength, ipv6_nextHeader,
    ipv6_sourceAddress, ipv6_destinationAddress, ipv6frag_fragmentOffset, ipv6frag_nextHeader,
    tcp_dataOffset, tcp_sequenceNumber, tcp_ackNumber, tcp_flags, tcp_windowSize,
    udp_length, udp_sourcePort in *.

(* ------------------------------------------------------------------ views stay byte strings *)
Definition vv_ok (v : vv) : Prop := Forall bytes_ok v.

Lemma vfirst_ok v : vv_ok v -> bytes_ok (vfirst v).
Proof. intros H. destruct v as [|x t]; [constructor|]. inversion H; assumption. Qed.

Lemma trimFront_ok v : forall n, vv_ok v -> vv_ok (vv_trimFront v n).
Proof.
  induction v as [|x t IH]; intros n H; cbn [vv_trimFront]; [constructor|].
  inversion H as [|? ? Hx Ht]; subst.
  destruct (n <=? 0); [exact H|]. destruct (n <? zlength x).
  - constructor; [apply Forall_skipn; exact Hx|exact Ht].
  - apply IH; exact Ht.
Qed.

Lemma cap_loop_ok v : forall n, vv_ok v -> vv_ok (cap_loop v n).
Proof.
  induction v as [|x t IH]; intros n H; cbn [cap_loop]; [constructor|].
  inversion H as [|? ? Hx Ht]; subst.
  destruct (n <=? zlength x).
  - destruct (n =? 0); [constructor|]. constructor; [apply Forall_firstn; exact Hx|constructor].
  - constructor; [exact Hx|apply IH; exact Ht].
Qed.

Lemma capLength_ok v n : vv_ok v -> vv_ok (vv_capLength v n).
Proof. intros H. unfold vv_capLength. destruct (vsize v <? _); [exact H|apply cap_loop_ok; exact H]. Qed.

Lemma mod256_byte x : is_byte (x mod 256).
Proof. unfold is_byte. pose proof (Z.mod_pos_bound x 256 ltac:(lia)). lia. Qed.

Lemma untag_loop_ok l : forall cur acc, bytes_ok acc -> vv_ok (untag_loop l cur acc).
Proof.
  induction l as [|x t IH]; intros cur acc Ha; cbn [untag_loop].
  - destruct acc; [constructor|]. constructor; [|constructor]. apply Forall_rev. exact Ha.
  - destruct (x / 256 =? cur).
    + apply IH. constructor; [apply mod256_byte|exact Ha].
    + destruct acc as [|a acc'].
      * apply IH. constructor; [apply mod256_byte|constructor].
      * constructor; [apply Forall_rev; exact Ha|]. apply IH. constructor; [apply mod256_byte|constructor].
Qed.

Lemma untag_ok l : vv_ok (untag l).
Proof. apply untag_loop_ok. constructor. Qed.

Lemma netx_views_ok chunk b : bytes_ok b -> vv_ok (netx_views chunk b).
Proof.
  intros H. unfold netx_views. destruct (_ && _).
  - constructor; [apply Forall_firstn; exact H|]. constructor; [apply Forall_skipn; exact H|constructor].
  - constructor; [exact H|constructor].
Qed.

Lemma split_views_ok cfg : forall b, bytes_ok b -> vv_ok (split_views cfg b).
Proof.
  induction cfg as [|s t IH]; intros b H; cbn [split_views]; [constructor|].
  destruct b as [|x b']; [constructor|].
  constructor; [apply Forall_firstn; exact H|]. apply IH. apply Forall_skipn. exact H.
Qed.

(* ------------------------------------------------------------------ transport layer *)
Lemma deliverControl_total p v : exists u, deliverControl p v = Some u.
Proof.
  unfold deliverControl. destruct (negb (is_transport p)); [eauto|].
  destruct (zlength (vfirst v) <? 8) eqn:E; [eauto|]. rd. eauto.
Qed.

Lemma tcp_parse_total v : vv_ok v -> (20 <= zlength (vfirst v)) -> exists r, tcp_parse v = Some r.
Proof.
  intros Hv Hl. pose proof (vfirst_ok v Hv) as Hb. unfold tcp_parse. unfold_acc.
  set (h := vfirst v) in *. rd8 h 12%nat x.
  destruct ((w8 (x / 2 ^ 4 * 4) <? 20) || (zlength h <? w8 (x / 2 ^ 4 * 4))) eqn:G; [eauto|].
  apply orb_false_elim in G. destruct G as [G1 G2].
  rewrite (getN_ok h 20 (Z.to_nat (w8 (x / 2 ^ 4 * 4) - 20))) by (rewrite ?zlength_nat in *; lia).
  cbn [obind].
  destruct (parseTCPOptions_no_oob (firstn (Z.to_nat (w8 (x / 2 ^ 4 * 4) - 20)) (skipn 20 h))) as [r Er].
  { apply Forall_firstn. apply Forall_skipn. exact Hb. }
  rewrite Er. rd. eauto.
Qed.

Lemma getN_some_ok b i n r : bytes_ok b -> getN b i n = Some r -> bytes_ok r.
Proof.
  unfold getN. destruct (_ <=? _)%nat; [|discriminate]. intros H E. injection E as <-.
  apply Forall_firstn, Forall_skipn, H.
Qed.

Lemma tcp_parse_opts_ok v fl opts : vv_ok v -> tcp_parse v = Some (Some (fl, opts)) -> bytes_ok opts.
Proof.
  intros Hv. pose proof (vfirst_ok v Hv) as Hb. unfold tcp_parse. unfold_acc. set (h := vfirst v) in *.
  destruct (get8 h 12) as [x|]; cbn [obind]; [|discriminate].
  destruct (_ || _); [discriminate|].
  destruct (getN h 20 _) as [o|] eqn:Eg; cbn [obind]; [|discriminate].
  destruct (TcpOptions.parseTCPOptions _); try discriminate.
  destruct (get32 h 4); cbn [obind]; [|discriminate].
  destruct (get32 h 8); cbn [obind]; [|discriminate].
  destruct (get8 h 13); cbn [obind]; [|discriminate].
  destruct (get16 h 14); cbn [obind]; [|discriminate].
  intros E. injection E as <- <-. exact (getN_some_ok _ _ _ _ Hb Eg).
Qed.

Lemma syn_options_total fl opts : bytes_ok opts -> syn_options_ok fl opts = Some tt.
Proof.
  intros H. unfold syn_options_ok. destruct (flag_set fl 2); [|reflexivity].
  destruct (parseSynOptions_no_oob opts false H) as [r1 ->].
  destruct (parseSynOptions_no_oob opts true H) as [r2 ->]. reflexivity.
Qed.

Lemma tcp_handle_total v : vv_ok v -> 20 <= zlength (vfirst v) -> exists o, tcp_handle v = Some o.
Proof.
  intros Hv Hl. unfold tcp_handle. destruct (tcp_parse_total v Hv Hl) as [r Er]. rewrite Er. cbn [obind].
  destruct r as [[fl opts]|]; [|eauto].
  rewrite (syn_options_total fl opts (tcp_parse_opts_ok v fl opts Hv Er)). cbn [obind]. eauto.
Qed.

Lemma tcp_unknown_total v : vv_ok v -> 20 <= zlength (vfirst v) -> exists o, tcp_unknown v = Some o.
Proof.
  intros Hv Hl. unfold tcp_unknown. destruct (tcp_parse_total v Hv Hl) as [r Er]. rewrite Er. cbn [obind].
  destruct r as [[fl opts]|]; [|eauto]. destruct (flag_set fl 4); eauto.
Qed.

Lemma udp_handle_total v6 v : 8 <= zlength (vfirst v) -> exists o, udp_handle v6 v = Some o.
Proof.
  intros Hl. unfold udp_handle. unfold_acc. rd. destruct (_ || _); [eauto|]. rd. eauto.
Qed.

Lemma deliver_transport_total c v6 p v : vv_ok v -> exists o, deliver_transport c v6 p v = Some o.
Proof.
  intros Hv. unfold deliver_transport. destruct (negb (is_transport p)) eqn:Et; [eauto|].
  destruct (zlength (vfirst v) <? (if p =? 6 then 20 else 8)) eqn:El; [eauto|].
  assert (H8 : 8 <= zlength (vfirst v)) by (destruct (p =? 6); lia).
  rd. destruct (p =? 17) eqn:Ep.
  - destruct (memZ _ _); [|eauto]. destruct (udp_handle_total v6 v H8) as [o ->]. cbn [obind]. eauto.
  - assert (p = 6).
    { unfold is_transport in Et. apply negb_false_iff in Et. apply orb_true_iff in Et. lia. }
    subst p. change (6 =? 6) with true in El. cbn match in El.
    destruct (memZ _ _); [apply tcp_handle_total|apply tcp_unknown_total]; auto; lia.
Qed.

(* ------------------------------------------------------------------ ICMP *)
Lemma handleControl4_total c v : exists u, handleControl4 c v = Some u.
Proof.
  unfold handleControl4. unfold_acc. destruct (zlength (vfirst v) <? 20) eqn:E; [eauto|].
  rd. destruct (negb (bytes_eqb _ _)); [eauto|]. rd. destruct (_ || _); [eauto|]. rd.
  apply deliverControl_total.
Qed.

Lemma handleControl6_total c v : exists u, handleControl6 c v = Some u.
Proof.
  unfold handleControl6. unfold_acc. destruct (zlength (vfirst v) <? 40) eqn:E; [eauto|].
  rd8 (vfirst v) 6%nat x. rd. destruct (negb (bytes_eqb _ _)); [eauto|]. rd.
  destruct (x =? 44); [|apply deliverControl_total].
  unfold ipv6frag_isValid. destruct (8 <=? length (vfirst (vv_trimFront v 40)))%nat eqn:E8; cbn [negb]; [|eauto].
  apply Nat.leb_le in E8. rd. destruct (negb (_ =? 0)); [eauto|]. rd. apply deliverControl_total.
Qed.

Lemma vbytes_length_ge v : zlength (vfirst v) <= zlength (vbytes v).
Proof.
  destruct v as [|x t]; cbn [vfirst vbytes concat]; [cbn; lia|].
  unfold zlength. rewrite app_length. lia.
Qed.

Lemma trimFront_first_length x t n : 0 < n < zlength x ->
  vv_trimFront (x :: t) n = skipn (Z.to_nat n) x :: t.
Proof.
  intros H. cbn [vv_trimFront]. destruct (n <=? 0) eqn:E1; [lia|]. destruct (n <? zlength x) eqn:E2; [reflexivity|lia].
Qed.

Lemma handleICMP4_total c v : vv_ok v -> exists o, handleICMP4 c v = Some o.
Proof.
  intros Hv. unfold handleICMP4. destruct (zlength (vfirst v) <? 4) eqn:E4; [eauto|].
  rd8 (vfirst v) 0%nat x.
  destruct (x =? 8).
  { destruct (zlength (vfirst v) <? 6) eqn:E6; [eauto|].
    (* sendPing4: data = everything behind the 4-byte header; at least 2 bytes are left of the first view *)
    destruct v as [|f t]; [cbn in E4; lia|]. cbn [vfirst] in *.
    rewrite trimFront_first_length by lia.
    rewrite getFrom_ok; [cbn [obind]; eauto|].
    unfold vbytes. cbn [concat]. rewrite app_length, skipn_length. rewrite zlength_nat in *. lia. }
  destruct (x =? 0).
  { destruct (zlength (vfirst v) <? 6); [eauto|]. apply deliver_transport_total. exact Hv. }
  destruct (x =? 3); [|eauto].
  destruct (zlength (vfirst v) <? 8) eqn:E8; [eauto|]. rd8 (vfirst v) 1%nat x0.
  destruct (x0 =? 3).
  { destruct (handleControl4_total c (vv_trimFront v 8)) as [u ->]. cbn [obind]. eauto. }
  destruct (x0 =? 4); [|eauto]. rd.
  destruct (handleControl4_total c (vv_trimFront v 8)) as [u ->]. cbn [obind]. eauto.
Qed.

Lemma handleICMP6_total c v : vv_ok v -> exists o, handleICMP6 c v = Some o.
Proof.
  intros Hv. unfold handleICMP6. destruct (zlength (vfirst v) <? 4) eqn:E4; [eauto|].
  rd8 (vfirst v) 0%nat x.
  destruct (x =? 2).
  { destruct (zlength (vfirst v) <? 8) eqn:E8; [eauto|]. rd.
    destruct (handleControl6_total c (vv_trimFront v 8)) as [u ->]. cbn [obind]. eauto. }
  destruct (x =? 1).
  { destruct (zlength (vfirst v) <? 8) eqn:E8; [eauto|]. rd8 (vfirst v) 1%nat x0. destruct (x0 =? 4); [|eauto].
    destruct (handleControl6_total c (vv_trimFront v 8)) as [u ->]. cbn [obind]. eauto. }
  destruct (x =? 135).
  { destruct (zlength (vfirst v) <? 24) eqn:E24; [eauto|]. rd. destruct (bytes_eqb _ _); eauto. }
  destruct (x =? 136).
  { destruct (zlength (vfirst v) <? 32) eqn:E32; [eauto|]. rd. eauto. }
  destruct (x =? 128).
  { destruct (zlength (vfirst v) <? 8) eqn:E8; [eauto|]. rd. eauto. }
  destruct (x =? 129); [|eauto].
  destruct (zlength (vfirst v) <? 8); [eauto|]. apply deliver_transport_total. exact Hv.
Qed.

(* ------------------------------------------------------------------ network layer *)
Definition st_ok (st : state) : Prop := FInv (s_frag st).

Lemma state0_ok : st_ok state0.
Proof. apply FInv_new. Qed.

Lemma w16_range x : u16_range (w16 x).
Proof. unfold u16_range, w16. pose proof (Z.mod_pos_bound x (2^16) ltac:(lia)). lia. Qed.

Lemma ipv6_handle_total c v : vv_ok v -> 40 <= zlength (vfirst v) -> exists o, ipv6_handle c v = Some o.
Proof.
  intros Hv Hl. unfold ipv6_handle, ipv6_isValid. unfold_acc.
  destruct (length (vfirst v) <? 40)%nat eqn:E; [apply Nat.ltb_lt in E; rewrite zlength_nat in Hl; lia|].
  rd16 (vfirst v) 4%nat x. destruct (negb _); [eauto|]. rd8 (vfirst v) 6%nat x0.
  assert (Hok : vv_ok (vv_capLength (vv_trimFront v 40) x)) by (apply capLength_ok, trimFront_ok; exact Hv).
  destruct (x0 =? 58); [apply handleICMP6_total; exact Hok|].
  destruct (deliver_transport_total c true x0 _ Hok) as [o ->]. cbn [obind]. eauto.
Qed.

(* the fragment branch: Frag's step_spec gives "no panic" and the invariant *)
Lemma ipv4_fragment_total st h fo more v1 : st_ok st -> vv_ok v1 ->
  exists st' r, ipv4_fragment st h (w16 fo) more v1 = Some (st', r) /\ st_ok st' /\
                match r with Some v2 => vv_ok v2 | None => True end.
Proof.
  intros Hs Hv1. unfold ipv4_fragment.
  destruct (more || negb (w16 fo =? 0)); [|exists st, (Some v1); auto].
  cbv zeta.
  set (last := w16 (w16 (w16 fo + w16 (vsize v1)) - 1)).
  set (cl := Frag.mkCall (Frag.ipv4FragmentHash 0 h) (w16 fo) last more (tag_views v1 (s_serial st)) 0).
  destruct (Frag.fprocess (s_frag st) (Frag.ipv4FragmentHash 0 h) (w16 fo) last more (tag_views v1 (s_serial st)) 0)
    as [f' [[res done] panicked]] eqn:Ef.
  assert (Hc : call_ok cl) by (split; apply w16_range).
  pose proof (step_spec (s_frag st) cl f' (res, done, panicked) Hs Hc Ef) as Sp.
  cbv zeta in Sp. destruct Sp as (Ho & _ & Hi & _). clear Ef.
  assert (Hp : panicked = false).
  { apply (f_equal snd) in Ho. unfold Frag.conv in Ho. cbn [snd] in Ho. exact Ho. }
  clear Ho. subst panicked.
  destruct done; eexists; eexists; (split; [reflexivity|]); (split; [exact Hi|]); [apply untag_ok|exact I].
Qed.

Lemma ipv4_handle_total c st v : vv_ok v -> st_ok st -> 20 <= zlength (vfirst v) ->
  exists st' o, ipv4_handle c st v = Some (st', o) /\ st_ok st'.
Proof.
  intros Hv Hs Hl. unfold ipv4_handle, ipv4_isValid. unfold_acc.
  destruct (length (vfirst v) <? 20)%nat eqn:E; [apply Nat.ltb_lt in E; rewrite zlength_nat in Hl; lia|].
  rd8 (vfirst v) 0%nat x. rd16 (vfirst v) 2%nat x0. destruct (negb (negb _)); [eauto|].
  rd16 (vfirst v) 6%nat x3.
  set (v1 := vv_capLength (vv_trimFront v (w8 (x mod 16 * 4))) (x0 - w8 (x mod 16 * 4))).
  assert (Hv1 : vv_ok v1) by (apply capLength_ok, trimFront_ok; exact Hv).
  destruct (ipv4_fragment_total st (vfirst v) (x3 * 2 ^ 3) (negb (w8 (x3 / 2 ^ 13) mod 2 =? 0)) v1 Hs Hv1)
    as (st' & r & Er & Hs' & Hr).
  rewrite Er. cbn [obind].
  destruct r as [v2|]; [|eauto].
  rd8 (vfirst v) 9%nat x5.
  destruct (x5 =? 1).
  - destruct (handleICMP4_total c v2 Hr) as [o ->]. cbn [obind]. eauto.
  - destruct (deliver_transport_total c false x5 v2 Hr) as [o ->]. cbn [obind]. eauto.
Qed.

Lemma nic_deliver_total c st mac proto v : vv_ok v -> st_ok st ->
  exists st' o, nic_deliver c st mac proto v = Some (st', o) /\ st_ok st'.
Proof.
  intros Hv Hs. unfold nic_deliver.
  destruct (proto =? pIPv4).
  { destruct (zlength (vfirst v) <? 20) eqn:E; [eauto|]. unfold_acc. rd.
    destruct (negb (bytes_eqb _ _)); [eauto|].
    destruct (ipv4_handle_total c st v Hv Hs ltac:(lia)) as (st' & o & -> & Hs'). cbn [obind fst snd]. eauto. }
  destruct (proto =? pIPv6).
  { destruct (zlength (vfirst v) <? 40) eqn:E; [eauto|]. unfold_acc. rd.
    destruct (negb (bytes_eqb _ _)); [eauto|].
    destruct (ipv6_handle_total c v Hv ltac:(lia)) as (o & ->). cbn [obind]. eauto. }
  destruct (proto =? pARP); [|eauto].
  pose proof (nic_deliver_never_panics true [c_addr4 c] (c_mac c) mac (vfirst v)) as Hn.
  destruct (Arp.nic_deliver_arp true [c_addr4 c] (c_mac c) mac (vfirst v)); [congruence|].
  destruct (length (vfirst v) <? Arp.ARPSize)%nat; eauto.
Qed.

(* ------------------------------------------------------------------ link layer and histories *)
Lemma fd_dispatch_gen_total fixed c st frame : bytes_ok frame -> st_ok st ->
  exists cont st' o, fd_dispatch_gen fixed c st frame = Some (cont, st', o) /\ st_ok st' /\
                     (fixed = true -> cont = true).
Proof.
  intros Hb Hs. unfold fd_dispatch_gen. destruct (zlength frame <=? 14) eqn:E.
  { exists fixed, st, (out0 kRunt). auto. }
  assert (L : length (firstn 128 frame ++ repeat 0 (128 - length (firstn 128 frame))) = 128%nat).
  { rewrite app_length, repeat_length, firstn_length. lia. }
  rd16 (firstn 128 frame ++ repeat 0 (128 - length (firstn 128 frame))) 12%nat x. rd.
  assert (Hv : vv_ok (vv_trimFront (split_views BufConfig frame) 14)) by (apply trimFront_ok, split_views_ok; exact Hb).
  destruct (nic_deliver_total c st (firstn 6 (skipn 6 (firstn 128 frame ++ repeat 0 (128 - length (firstn 128 frame))))) x _ Hv Hs)
    as (st' & o & -> & Hs').
  cbn [obind fst snd]. eauto 6.
Qed.

Definition frame_ok (f : frame_in) : Prop :=
  match f with FdFrame b => bytes_ok b | NetxPacket _ _ b => bytes_ok b end.

(* one frame, any bytes, any reachable state: no panic, the state invariant survives, and the
   link loop is told to go on *)
Theorem step_never_panics c mac st f : frame_ok f -> st_ok st ->
  exists st' o, Inbound.step c mac st f = Some (true, st', o) /\ st_ok st'.
Proof.
  intros Hf Hs. destruct f as [b|proto chunk b]; cbn [Inbound.step frame_ok] in *.
  - destruct (fd_dispatch_gen_total true c st b Hf Hs) as (cont & st' & o & E & Hs' & Hc).
    rewrite (Hc eq_refl) in E. unfold fd_dispatch. eauto.
  - destruct (nic_deliver_total c st mac proto (netx_views chunk b) (netx_views_ok chunk b Hf) Hs) as (st' & o & -> & Hs').
    cbn [obind fst snd]. eauto.
Qed.

(* histories *)
Theorem inbound_never_panics c mac : forall fs st, Forall frame_ok fs -> st_ok st ->
  exists st' os, Inbound.run c mac st fs = Some (true, st', os) /\ st_ok st' /\ length os = length fs.
Proof.
  induction fs as [|f t IH]; intros st Hf Hs; cbn [Inbound.run].
  - exists st, []. auto.
  - inversion Hf as [|? ? Hf1 Hft]; subst.
    destruct (step_never_panics c mac st f Hf1 Hs) as (st1 & o & -> & Hs1). cbn [obind].
    destruct (IH st1 Hft Hs1) as (st2 & os & -> & Hs2 & Hl). cbn [obind].
    exists st2, (o :: os). cbn [length]. auto.
Qed.

(* the fixed dispatch never tells dispatchLoop to stop (whatever it returns, it is "continue") *)
Theorem dispatch_continues c st frame cont st' o :
  fd_dispatch c st frame = Some (cont, st', o) -> cont = true.
Proof.
  unfold fd_dispatch, fd_dispatch_gen. destruct (zlength frame <=? 14); [congruence|].
  destruct (get16 _ 12); cbn [obind]; [|discriminate].
  destruct (getN _ 6 6); cbn [obind]; [|discriminate].
  destruct (getN _ 0 6); cbn [obind]; [|discriminate].
  destruct (nic_deliver _ _ _ _ _); cbn [obind]; [|discriminate]. congruence.
Qed.

(* the code before the repair: one runt frame ends the dispatch loop; in a history everything
   behind it is never looked at *)
Theorem dispatch_stops_old_refuted c st :
  exists frame, fd_dispatch_old c st frame = Some (false, st, out0 kRunt).
Proof. exists (repeat 0 10). reflexivity. Qed.

(* non-vacuity: a state other than the initial one satisfies the invariant (one fragment stored),
   and concrete frames take the deep branches *)
Definition demo_cfg : config :=
  mkCfg [10;0;0;1] [253;0;0;0;0;0;0;0;0;0;0;0;0;0;0;1] [2;0;0;0;0;1] [80] [80] [53] [53].
Definition demo_frag : list Z :=
  [69;0;0;28;0;7;32;0;64;17;0;0;10;0;0;2;10;0;0;1; 30;97;0;53;0;8;0;0].
Example demo_fragment_stored :
  exists st', nic_deliver demo_cfg state0 [] pIPv4 [demo_frag] = Some (st', evs [cIPReceived] kFragStored) /\
              Frag.f_rs (s_frag st') <> [].
Proof. eexists. split; [vm_compute; reflexivity|]. discriminate. Qed.

(* from boot: any history of frames on either link *)
Corollary inbound_never_panics_from_boot c mac fs : Forall frame_ok fs ->
  exists st' os, Inbound.run c mac state0 fs = Some (true, st', os) /\ st_ok st' /\ length os = length fs.
Proof. intros H. apply inbound_never_panics; [exact H|exact state0_ok]. Qed.

(* the minimum-size checks of DeliverNetworkPacket are what stands between a short first view and
   the address reads behind them: a short packet is counted as malformed and goes nowhere *)
Lemma short_ipv4_dropped c st mac v : zlength (vfirst v) < 20 ->
  nic_deliver c st mac pIPv4 v = Some (st, evs [cIPReceived; cMalformed] kShortNet).
Proof. intros H. unfold nic_deliver. cbn. destruct (zlength (vfirst v) <? 20) eqn:E; [reflexivity|lia]. Qed.

(* ------------------------------------------------------------------ the views carry exactly the bytes
   (the "does not corrupt" side of the buffer walking: trimming and capping a list of views is
   skipn / firstn on the byte string, and fdbased's views are the frame cut at the buffer sizes) *)
Lemma vsize_vbytes v : vsize v = zlength (vbytes v).
Proof.
  induction v as [|x t IH]; [reflexivity|]. cbn [vsize fold_right vbytes concat].
  change (fold_right (fun x a => zlength x + a) 0 t) with (vsize t). rewrite IH.
  unfold zlength, vbytes. rewrite app_length. lia.
Qed.

Lemma trimFront_bytes v : forall n, 0 <= n -> vbytes (vv_trimFront v n) = skipn (Z.to_nat n) (vbytes v).
Proof.
  induction v as [|x t IH]; intros n Hn; cbn [vv_trimFront vbytes concat]; [rewrite skipn_nil; reflexivity|].
  destruct (n <=? 0) eqn:E0.
  { assert (n = 0) by lia. subst n. reflexivity. }
  destruct (n <? zlength x) eqn:E1.
  - cbn [concat]. unfold zlength in E1. rewrite skipn_app.
    replace (Z.to_nat n - length x)%nat with 0%nat by lia. reflexivity.
  - unfold zlength in *. change (concat (vv_trimFront t (n - Z.of_nat (length x)))) with (vbytes (vv_trimFront t (n - Z.of_nat (length x)))).
    rewrite IH by lia. rewrite skipn_app. rewrite (skipn_all2 x) by lia. cbn [app].
    f_equal. lia.
Qed.

Lemma cap_loop_bytes v : forall n, 0 <= n <= vsize v -> vbytes (cap_loop v n) = firstn (Z.to_nat n) (vbytes v).
Proof.
  induction v as [|x t IH]; intros n Hn; cbn [cap_loop vbytes concat].
  { cbn in Hn. rewrite firstn_nil. reflexivity. }
  cbn [vsize fold_right] in Hn. change (fold_right (fun x a => zlength x + a) 0 t) with (vsize t) in Hn.
  unfold zlength in *. destruct (n <=? Z.of_nat (length x)) eqn:E.
  - destruct (n =? 0) eqn:E0.
    + assert (n = 0) by lia. subst n. reflexivity.
    + cbn [concat]. rewrite app_nil_r. rewrite firstn_app.
      replace (Z.to_nat n - length x)%nat with 0%nat by lia. cbn [firstn]. rewrite app_nil_r. reflexivity.
  - cbn [concat]. change (concat (cap_loop t (n - Z.of_nat (length x)))) with (vbytes (cap_loop t (n - Z.of_nat (length x)))).
    rewrite IH by lia. rewrite firstn_app. rewrite (firstn_all2 x) by lia.
    f_equal. f_equal. lia.
Qed.

Lemma capLength_bytes v n : 0 <= n <= vsize v -> vbytes (vv_capLength v n) = firstn (Z.to_nat n) (vbytes v).
Proof.
  intros H. unfold vv_capLength. destruct (n <? 0) eqn:E0; [lia|].
  destruct (vsize v <? n) eqn:E1; [lia|]. apply cap_loop_bytes. exact H.
Qed.

Lemma split_views_bytes cfg : forall b, Forall (fun s => 0 <= s) cfg ->
  vbytes (split_views cfg b) = firstn (Z.to_nat (fold_right Z.add 0 cfg)) b.
Proof.
  induction cfg as [|s t IH]; intros b Hc; cbn [split_views vbytes concat fold_right].
  { reflexivity. }
  inversion Hc as [|? ? Hs Ht]; subst.
  destruct b as [|x b']; [rewrite firstn_nil; reflexivity|].
  cbn [concat]. change (concat (split_views t (skipn (Z.to_nat s) (x :: b')))) with (vbytes (split_views t (skipn (Z.to_nat s) (x :: b')))).
  rewrite IH by exact Ht.
  assert (Hsum : 0 <= fold_right Z.add 0 t).
  { clear -Ht. induction Ht as [|a l Ha Hl IHl]; cbn [fold_right]; lia. }
  rewrite Z2Nat.inj_add by lia.
  generalize (x :: b') as l. generalize (Z.to_nat s) as i. generalize (Z.to_nat (fold_right Z.add 0 t)) as j.
  clear. intros j i l. revert i. induction l as [|a l IHl]; intros i.
  - rewrite skipn_nil, !firstn_nil. reflexivity.
  - destruct i as [|i]; [reflexivity|]. cbn [firstn skipn Nat.add app]. f_equal. apply IHl.
Qed.

(* what fdbased hands to the NIC: the frame without its Ethernet header, nothing lost or added
   (frames up to the total buffer size, 65664 bytes) *)
Theorem fd_views_carry_the_frame frame : zlength frame <= 65664 ->
  vbytes (vv_trimFront (split_views BufConfig frame) 14) = skipn 14 frame.
Proof.
  intros H. rewrite trimFront_bytes by lia. rewrite split_views_bytes.
  - change (fold_right Z.add 0 BufConfig) with 65664. rewrite firstn_all2; [reflexivity|].
    unfold zlength in H. lia.
  - unfold BufConfig. repeat constructor; lia.
Qed.
