(* C05, part 1: vocabulary and frame lemmas for loss recovery / congestion control on Model/Tcp.v.
   - [dcount]: number of data-bearing frames in a frame list (spec vocabulary);
   - [core]: a sender state with the one field that every emitted segment touches
     (maxSentAck) blanked, so that "nothing of the sender changed" can be stated;
   - [quiet t t']: t' differs from t only outside the sender, and emitted only data-less frames
     (receiver, endpoint glue);
   - sendLoop / sendData: the budget lemma (at most cwnd - outstanding data segments) and what
     they leave unchanged.
   Part 2 (Proofs/TcpCcInvP.v): the congestion invariant over runs.  Part 3 (Proofs/TcpCcRtoP.v):
   fast retransmit, retransmission time-out. *)
From Coq Require Import ZArith List Bool Lia ZifyBool.
From RecordUpdate Require Import RecordSet.
From NP Require Import Model.Seqnum Model.GoHeap Model.Tcp Proofs.SeqnumP.
Import ListNotations RecordSetNotations.
Open Scope Z_scope.

(* ------------------------------------------------------------------ vocabulary *)

Definition isData (f : frame) : bool := negb (len (f_data f) =? 0).
Definition dcount (l : list frame) : Z := Z.of_nat (length (filter isData l)).

Lemma dcount_nil : dcount [] = 0. Proof. reflexivity. Qed.
Lemma dcount_app a b : dcount (a ++ b) = dcount a + dcount b.
Proof. unfold dcount. rewrite filter_app, app_length. lia. Qed.
Lemma dcount_nonneg l : 0 <= dcount l. Proof. unfold dcount. lia. Qed.
Lemma dcount_one f : dcount [f] = if isData f then 1 else 0.
Proof. unfold dcount. cbn. destruct (isData f); reflexivity. Qed.

Lemma len_nonneg (d : list Z) : 0 <= len d. Proof. unfold len. lia. Qed.
Lemma len_zero_nil (d : list Z) : len d = 0 -> d = [].
Proof. destruct d; cbn; [auto|unfold len; cbn; lia]. Qed.

(* the sender with maxSentAck blanked *)
Definition core (s : sndr) : sndr := s <| maxSentAck := 0 |>.

Lemma core_fields s s' : core s' = core s ->
  dupAck s' = dupAck s /\ frActive s' = frActive s /\ frFirst s' = frFirst s /\ frLast s' = frLast s /\
  frMaxCwnd s' = frMaxCwnd s /\ cwnd s' = cwnd s /\ ssthresh s' = ssthresh s /\ caCount s' = caCount s /\
  outstanding s' = outstanding s /\ sndWnd s' = sndWnd s /\ sndUna s' = sndUna s /\ sndNxt s' = sndNxt s /\
  sndNxtList s' = sndNxtList s /\ sclosed s' = sclosed s /\ wsent s' = wsent s /\ wunsent s' = wunsent s /\
  tstate s' = tstate s /\ rto s' = rto s /\ maxPayload s' = maxPayload s /\ sndWndScale s' = sndWndScale s /\
  rttSeq s' = rttSeq s.
Proof.
  intros H. destruct s, s'. unfold core in H. cbn in H. inversion H. subst. cbn. repeat split.
Qed.
Ltac coref H :=
  let H' := fresh in
  pose proof (core_fields _ _ H) as H';
  destruct H' as (?Hdup & ?Hfra & ?Hfrf & ?Hfrl & ?Hfrm & ?Hcw & ?Hss & ?Hca & ?Hout & ?Hwn & ?Hun & ?Hnx &
                  ?Hnl & ?Hsc & ?Hwse & ?Hwun & ?Hts & ?Hrto & ?Hmp & ?Hws & ?Hrs).

Lemma core_set_msa s x : core (s <| maxSentAck := x |>) = core s.
Proof. reflexivity. Qed.

(* t' differs from t only outside the sender proper and emitted only data-less frames *)
Definition quiet (t t' : tcp) : Prop :=
  core (SN t') = core (SN t) /\ tsOk t' = tsOk t /\
  exists fs, out t' = out t ++ fs /\ dcount fs = 0.

Lemma quiet_refl t : quiet t t.
Proof. split; [|split]; try reflexivity. exists []. rewrite app_nil_r. auto. Qed.
Lemma quiet_trans a b c : quiet a b -> quiet b c -> quiet a c.
Proof.
  intros (C1 & T1 & f1 & O1 & D1) (C2 & T2 & f2 & O2 & D2). split; [|split]; try congruence.
  exists (f1 ++ f2). rewrite O2, O1, app_assoc, dcount_app. split; [reflexivity|lia].
Qed.

(* ------------------------------------------------------------------ emitting *)

Lemma sendSegment_SN t d fl sq :
  SN (sendSegment t d fl sq) = (SN t) <| maxSentAck := rcvNxt (RC t) |>.
Proof. unfold sendSegment, getSendParams. cbn. reflexivity. Qed.
Lemma sendSegment_out t d fl sq :
  exists ak wnd, out (sendSegment t d fl sq) = out t ++ [mkF sq ak fl wnd d].
Proof. unfold sendSegment, getSendParams. cbn. eauto. Qed.
Lemma sendSegment_tsOk t d fl sq : tsOk (sendSegment t d fl sq) = tsOk t.
Proof. unfold sendSegment, getSendParams. cbn. reflexivity. Qed.
Lemma sendSegment_estate t d fl sq : estate (sendSegment t d fl sq) = estate t.
Proof. unfold sendSegment, getSendParams. cbn. reflexivity. Qed.
Lemma sendSegment_core t d fl sq : core (SN (sendSegment t d fl sq)) = core (SN t).
Proof. rewrite sendSegment_SN. reflexivity. Qed.

Lemma sendAck_quiet t : quiet t (sendAck t).
Proof.
  unfold sendAck. split; [|split].
  - apply sendSegment_core.
  - apply sendSegment_tsOk.
  - destruct (sendSegment_out t [] fAck (sndNxt (SN t))) as (ak & wnd & E).
    eexists. split; [exact E|]. reflexivity.
Qed.
Lemma sendAck_estate t : estate (sendAck t) = estate t.
Proof. apply sendSegment_estate. Qed.

Lemma quiet_nonSN t t' : SN t' = SN t -> tsOk t' = tsOk t -> out t' = out t -> quiet t t'.
Proof. intros A B C. split; [|split]; [rewrite A; reflexivity|exact B|]. exists []. rewrite C, app_nil_r. auto. Qed.
Ltac qpure := apply quiet_nonSN; reflexivity.

Opaque sendSegment.

(* ------------------------------------------------------------------ receiver and glue *)

Lemma readyToRead_quiet t d : quiet t (readyToRead t d).
Proof. unfold readyToRead. qpure. Qed.

Lemma consumeSegment_quiet t fl d sq sl fh :
  quiet t (fst (fst (consumeSegment t fl d sq sl fh))).
Proof.
  assert (GO : forall t0 sq0 sl0 (d0 : list Z),
    quiet t0 (fst (fst (
      let t1 := t0 <| RC := (RC t0) <| rcvNxt := add sq0 sl0 |> |> in
      if has fl fFin then
        let t2 := t1 <| RC := (RC t1) <| rcvNxt := u32 (rcvNxt (RC t1) + 1) |> |> in
        let t3 := sendAck t2 in
        let first := if fh && negb (Nat.eqb (length (pending (RC t3))) 0) then 1%nat else 0%nat in
        let t4 := t3 <| RC := (RC t3) <| rclosed := true |> <| pending := firstn first (pending (RC t3)) |> |>
                     <| rcvClosedE := true |> in
        (t4, true, d0)
      else (t1, true, d0))))).
  { intros t0 sq0 sl0 d0. cbv zeta. destruct (has fl fFin); cbn [fst].
    - match goal with |- context [sendAck ?x] =>
        apply quiet_trans with (b := x); [qpure|];
        apply quiet_trans with (b := sendAck x); [apply sendAck_quiet|qpure] end.
    - qpure. }
  unfold consumeSegment. cbv zeta.
  destruct (0 <? sl).
  - destruct (negb (inWindow (rcvNxt (RC t)) sq sl)); [apply quiet_refl|].
    destruct (lessThan sq (rcvNxt (RC t))).
    + eapply quiet_trans; [apply readyToRead_quiet|]. apply GO.
    + eapply quiet_trans; [apply readyToRead_quiet|]. apply GO.
  - destruct (negb (sq =? rcvNxt (RC t))); [apply quiet_refl|]. apply GO.
Qed.

Lemma drainPending_quiet fuel : forall t, quiet t (drainPending fuel t).
Proof.
  induction fuel as [|f IH]; intros t; cbn [drainPending]; [apply quiet_refl|].
  destruct (rclosed (RC t)); [apply quiet_refl|].
  destruct (pending (RC t)) as [|s rest] eqn:EP; [apply quiet_refl|].
  cbv zeta.
  assert (POP : forall t0 d0, quiet t0
     match pop pless (pending (RC t0)) with
     | Some (h', _) => drainPending f (t0 <| RC := (RC t0) <| pending := h' |>
                          <| pendUsed := u32 (pendUsed (RC t0) - plogicalLen (p_flags s) d0) |> |>)
     | None => t0 end).
  { intros t0 d0. destruct (pop pless (pending (RC t0))) as [[h' x]|]; [|apply quiet_refl].
    eapply quiet_trans; [|apply IH]. qpure. }
  destruct (lessThan _ _); [rewrite <- EP; apply POP|].
  pose proof (consumeSegment_quiet t (p_flags s) (p_data s) (p_seq s) (len (p_data s)) true) as Q.
  destruct (consumeSegment t (p_flags s) (p_data s) (p_seq s) (len (p_data s)) true) as [[t1 ok] d'].
  cbn [fst] in Q. destruct ok; [|apply quiet_refl].
  eapply quiet_trans; [exact Q|apply POP].
Qed.

Lemma rcvHandle_quiet t s : quiet t (rcvHandle t s).
Proof.
  unfold rcvHandle. destruct (rclosed (RC t)); [apply quiet_refl|]. cbv zeta.
  destruct (negb (acceptable _ _ _)); [apply sendAck_quiet|].
  pose proof (consumeSegment_quiet t (s_flags s) (s_data s) (s_seq s) (len (s_data s)) false) as Q.
  destruct (consumeSegment t (s_flags s) (s_data s) (s_seq s) (len (s_data s)) false) as [[t1 ok] d'].
  cbn [fst] in Q. destruct ok; cbn [negb].
  - eapply quiet_trans; [exact Q|apply drainPending_quiet].
  - destruct (_ || _); [|apply quiet_refl].
    destruct (pendUsed (RC t) <? pendSize (RC t)).
    + match goal with |- context [sendAck ?x] =>
        apply quiet_trans with (b := x); [qpure|apply sendAck_quiet] end.
    + apply sendAck_quiet.
Qed.

Lemma consumeSegment_estate t fl d sq sl fh :
  estate (fst (fst (consumeSegment t fl d sq sl fh))) = estate t.
Proof.
  assert (GO : forall t0 sq0 sl0 (d0 : list Z),
    estate (fst (fst (
      let t1 := t0 <| RC := (RC t0) <| rcvNxt := add sq0 sl0 |> |> in
      if has fl fFin then
        let t2 := t1 <| RC := (RC t1) <| rcvNxt := u32 (rcvNxt (RC t1) + 1) |> |> in
        let t3 := sendAck t2 in
        let first := if fh && negb (Nat.eqb (length (pending (RC t3))) 0) then 1%nat else 0%nat in
        let t4 := t3 <| RC := (RC t3) <| rclosed := true |> <| pending := firstn first (pending (RC t3)) |> |>
                     <| rcvClosedE := true |> in
        (t4, true, d0)
      else (t1, true, d0)))) = estate t0).
  { intros t0 sq0 sl0 d0. cbv zeta. destruct (has fl fFin); cbn [fst]; [|reflexivity].
    cbn [estate set]. rewrite sendAck_estate. reflexivity. }
  unfold consumeSegment. cbv zeta.
  destruct (0 <? sl).
  - destruct (negb (inWindow (rcvNxt (RC t)) sq sl)); [reflexivity|].
    destruct (lessThan sq (rcvNxt (RC t))); rewrite GO; reflexivity.
  - destruct (negb (sq =? rcvNxt (RC t))); [reflexivity|]. apply GO.
Qed.

Lemma drainPending_estate fuel : forall t, estate (drainPending fuel t) = estate t.
Proof.
  induction fuel as [|f IH]; intros t; cbn [drainPending]; [reflexivity|].
  destruct (rclosed (RC t)); [reflexivity|].
  destruct (pending (RC t)) as [|s rest] eqn:EP; [reflexivity|]. cbv zeta.
  assert (POP : forall t0 d0, estate
     match pop pless (pending (RC t0)) with
     | Some (h', _) => drainPending f (t0 <| RC := (RC t0) <| pending := h' |>
                          <| pendUsed := u32 (pendUsed (RC t0) - plogicalLen (p_flags s) d0) |> |>)
     | None => t0 end = estate t0).
  { intros t0 d0. destruct (pop pless (pending (RC t0))) as [[h' x]|]; [|reflexivity]. rewrite IH. reflexivity. }
  destruct (lessThan _ _); [rewrite <- EP; apply POP|].
  pose proof (consumeSegment_estate t (p_flags s) (p_data s) (p_seq s) (len (p_data s)) true) as Q.
  destruct (consumeSegment t (p_flags s) (p_data s) (p_seq s) (len (p_data s)) true) as [[t1 ok] d'].
  cbn [fst] in Q. destruct ok; [|reflexivity]. rewrite POP. exact Q.
Qed.

Lemma rcvHandle_estate t s : estate (rcvHandle t s) = estate t.
Proof.
  unfold rcvHandle. destruct (rclosed (RC t)); [reflexivity|]. cbv zeta.
  destruct (negb (acceptable _ _ _)); [apply sendAck_estate|].
  pose proof (consumeSegment_estate t (s_flags s) (s_data s) (s_seq s) (len (s_data s)) false) as Q.
  destruct (consumeSegment t (s_flags s) (s_data s) (s_seq s) (len (s_data s)) false) as [[t1 ok] d'].
  cbn [fst] in Q. destruct ok; cbn [negb].
  - rewrite drainPending_estate. exact Q.
  - destruct (_ || _); [|reflexivity].
    destruct (pendUsed (RC t) <? pendSize (RC t)); rewrite sendAck_estate; reflexivity.
Qed.

Lemma nonZeroWindow_quiet t : quiet t (nonZeroWindow t).
Proof. unfold nonZeroWindow. destruct (negb _); [apply quiet_refl|apply sendAck_quiet]. Qed.

Lemma loopExit_SN t : SN (loopExit t) = SN t.
Proof. unfold loopExit. repeat match goal with |- context [if ?b then _ else _] => destruct b end; reflexivity. Qed.
Lemma loopExit_out t : out (loopExit t) = out t.
Proof. unfold loopExit. repeat match goal with |- context [if ?b then _ else _] => destruct b end; reflexivity. Qed.
Lemma loopExit_tsOk t : tsOk (loopExit t) = tsOk t.
Proof. unfold loopExit. repeat match goal with |- context [if ?b then _ else _] => destruct b end; reflexivity. Qed.
Lemma loopExit_quiet t : quiet t (loopExit t).
Proof.
  split; [|split]; [rewrite loopExit_SN; reflexivity|apply loopExit_tsOk|].
  exists []. rewrite loopExit_out, app_nil_r. auto.
Qed.

(* the tail of handleSegment: optional ACK, then the exit test *)
Lemma tail_quiet t :
  quiet t (loopExit (if negb (rcvNxt (RC t) =? maxSentAck (SN t)) then sendAck t else t)).
Proof.
  eapply quiet_trans; [|apply loopExit_quiet].
  destruct (negb _); [apply sendAck_quiet|apply quiet_refl].
Qed.

Lemma appRead_quiet t : quiet t (fst (fst (appRead t))).
Proof.
  unfold appRead.
  destruct (_ && _ && _); [apply quiet_refl|].
  destruct (rcvBufUsed t =? 0); [apply quiet_refl|].
  destruct (rcvList t) as [|v rest]; [apply quiet_refl|]. cbv zeta. cbn [fst].
  destruct (_ && _ && _).
  - eapply quiet_trans; [|apply loopExit_quiet].
    eapply quiet_trans; [|apply nonZeroWindow_quiet]. qpure.
  - qpure.
Qed.

(* ------------------------------------------------------------------ the send loop *)

(* what sendLoop may change in the sender: outstanding, the two halves of the write list, sndNxt
   (and maxSentAck) *)
Definition loopfields (s s' : sndr) : Prop :=
  core s' = core (s <| outstanding := outstanding s' |> <| wsent := wsent s' |> <| wunsent := wunsent s' |>
                    <| sndNxt := sndNxt s' |>).

Lemma loopfields_refl s : loopfields s s.
Proof. unfold loopfields. destruct s; reflexivity. Qed.
Lemma loopfields_trans a b c : loopfields a b -> loopfields b c -> loopfields a c.
Proof.
  unfold loopfields. intros H1 H2. rewrite H2. destruct a, b, c; cbn in *.
  unfold core in *. cbn in *. inversion H1; subst. reflexivity.
Qed.

Lemma loopfields_fields s s' : loopfields s s' ->
  dupAck s' = dupAck s /\ frActive s' = frActive s /\ frFirst s' = frFirst s /\ frLast s' = frLast s /\
  frMaxCwnd s' = frMaxCwnd s /\ cwnd s' = cwnd s /\ ssthresh s' = ssthresh s /\ caCount s' = caCount s /\
  sndWnd s' = sndWnd s /\ sndUna s' = sndUna s /\
  sndNxtList s' = sndNxtList s /\ sclosed s' = sclosed s /\
  tstate s' = tstate s /\ rto s' = rto s /\ maxPayload s' = maxPayload s /\ sndWndScale s' = sndWndScale s /\
  rttSeq s' = rttSeq s.
Proof.
  intros H. destruct s, s'. unfold loopfields, core in H. cbn in H. inversion H. subst. cbn. repeat split.
Qed.
Ltac loopf H :=
  let H' := fresh in
  pose proof (loopfields_fields _ _ H) as H';
  destruct H' as (?Hdup & ?Hfra & ?Hfrf & ?Hfrl & ?Hfrm & ?Hcw & ?Hss & ?Hca & ?Hwn & ?Hun &
                  ?Hnl & ?Hsc & ?Hts & ?Hrto & ?Hmp & ?Hws & ?Hrs).

Lemma loopfieldsT_fields s s' x : loopfields (s <| tstate := x |>) s' ->
  dupAck s' = dupAck s /\ frActive s' = frActive s /\ frFirst s' = frFirst s /\ frLast s' = frLast s /\
  frMaxCwnd s' = frMaxCwnd s /\ cwnd s' = cwnd s /\ ssthresh s' = ssthresh s /\ caCount s' = caCount s /\
  sndWnd s' = sndWnd s /\ sndUna s' = sndUna s /\
  sndNxtList s' = sndNxtList s /\ sclosed s' = sclosed s /\
  rto s' = rto s /\ maxPayload s' = maxPayload s /\ sndWndScale s' = sndWndScale s /\
  rttSeq s' = rttSeq s.
Proof.
  intros H. destruct s, s'. unfold loopfields, core in H. cbn in H. inversion H. subst. cbn. repeat split.
Qed.
Ltac loopfT H :=
  let H' := fresh in
  pose proof (loopfieldsT_fields _ _ _ H) as H';
  destruct H' as (?Hdup & ?Hfra & ?Hfrf & ?Hfrl & ?Hfrm & ?Hcw & ?Hss & ?Hca & ?Hwn & ?Hun &
                  ?Hnl & ?Hsc & ?Hrto & ?Hmp & ?Hws & ?Hrs).

(* one transmission of the loop: install the new sender state, emit, advance sndNxt *)
Definition xmit (t : tcp) (s' : sndr) (d : list Z) (fl sq segEnd : Z) : tcp :=
  let t2 := sendSegment (t <| SN := s' |>) d fl sq in
  if lessThan (sndNxt (SN t2)) segEnd then t2 <| SN := (SN t2) <| sndNxt := segEnd |> |> else t2.

Lemma xmit_spec t s' d fl sq segEnd :
  let t3 := xmit t s' d fl sq segEnd in
  loopfields s' (SN t3) /\ outstanding (SN t3) = outstanding s' /\ tsOk t3 = tsOk t /\ estate t3 = estate t /\
  exists ak wn, out t3 = out t ++ [mkF sq ak fl wn d].
Proof.
  unfold xmit. cbv zeta.
  destruct (sendSegment_out (t <| SN := s' |>) d fl sq) as (ak & wn & E).
  destruct (lessThan _ _); cbn [SN out tsOk estate set]; rewrite ?sendSegment_SN, ?sendSegment_tsOk, ?sendSegment_estate, ?E;
    (split; [|split; [|split; [|split]]]); try reflexivity; try (exists ak, wn; reflexivity);
    unfold loopfields; destruct s'; reflexivity.
Qed.

(* sendLoop_budget: the loop emits at most cwnd - outstanding data segments: every data frame it
   emits is counted in [outstanding], and [outstanding] never passes cwnd. *)
Lemma sendLoop_spec fuel : forall t endv limit,
  let t' := sendLoop fuel t endv limit in
  loopfields (SN t) (SN t') /\ tsOk t' = tsOk t /\ estate t' = estate t /\
  outstanding (SN t) <= outstanding (SN t') <= Z.max (outstanding (SN t)) (cwnd (SN t)) /\
  exists fs, out t' = out t ++ fs /\ dcount fs <= outstanding (SN t') - outstanding (SN t) /\
             (1 <= limit -> dcount fs = outstanding (SN t') - outstanding (SN t)).
Proof.
  induction fuel as [|f IH]; intros t endv limit; cbn [sendLoop].
  { cbv zeta. split; [apply loopfields_refl|]. repeat split; try lia.
    exists []. rewrite app_nil_r. cbn. repeat split; lia. }
  cbv zeta.
  assert (STOP : loopfields (SN t) (SN t) /\ tsOk t = tsOk t /\ estate t = estate t /\
     outstanding (SN t) <= outstanding (SN t) <= Z.max (outstanding (SN t)) (cwnd (SN t)) /\
     exists fs, out t = out t ++ fs /\ dcount fs <= outstanding (SN t) - outstanding (SN t) /\
             (1 <= limit -> dcount fs = outstanding (SN t) - outstanding (SN t))).
  { split; [apply loopfields_refl|]. repeat split; try lia.
    exists []. rewrite app_nil_r. cbn. repeat split; lia. }
  destruct (wunsent (SN t)) as [|w rest] eqn:EW; [exact STOP|].
  destruct (negb (outstanding (SN t) <? cwnd (SN t))) eqn:EG; [exact STOP|]. clear STOP.
  set (w1 := if w_flags w =? 0 then mkW (sndNxt (SN t)) (Z.lor fAck fPsh) (w_data w) else w).
  destruct (len (w_data w1) =? 0) eqn:EL.
  - (* FIN *)
    set (s' := (SN t) <| wsent := wsent (SN t) ++ [mkW (w_seq w1) (Z.lor fAck fFin) []] |> <| wunsent := rest |>).
    match goal with |- context [sendLoop f ?x endv limit] =>
      change x with (xmit t s' [] (Z.lor fAck fFin) (w_seq w1) (add (w_seq w1) 1)) end.
    set (t3 := xmit _ _ _ _ _ _).
    destruct (xmit_spec t s' [] (Z.lor fAck fFin) (w_seq w1) (add (w_seq w1) 1)) as (L3 & O3 & T3 & E3 & ak & wn & F3).
    fold t3 in L3, O3, T3, E3, F3.
    specialize (IH t3 endv limit). cbv zeta in IH.
    destruct IH as (LF & TS & ES & OB & fs & OUT & DC & DCe).
    assert (L0 : loopfields (SN t) s') by (subst s'; unfold loopfields; destruct (SN t); reflexivity).
    assert (C3 : cwnd (SN t3) = cwnd (SN t)).
    { loopf L3. loopf L0. congruence. }
    assert (O0 : outstanding s' = outstanding (SN t)) by reflexivity.
    split; [apply loopfields_trans with (b := s'); [exact L0|apply loopfields_trans with (b := SN t3); assumption]|].
    repeat split; try congruence; try lia.
    exists ([mkF (w_seq w1) ak (Z.lor fAck fFin) wn []] ++ fs).
    rewrite OUT, F3, <- app_assoc. split; [reflexivity|].
    rewrite dcount_app. change (dcount [mkF (w_seq w1) ak (Z.lor fAck fFin) wn []]) with 0.
    split; [lia|]. intros L1. specialize (DCe L1). lia.
  - destruct (negb (lessThan (w_seq w1) endv)) eqn:ELT.
    + (* window closed *)
      split; [unfold loopfields; destruct (SN t); reflexivity|].
      cbn [SN set outstanding cwnd tsOk estate out]. repeat split; try lia.
      exists []. rewrite app_nil_r. cbn. repeat split; lia.
    + set (available0 := size (w_seq w1) endv).
      set (available := if limit <? available0 then limit else available0).
      set (pr := if available <? len (w_data w1)
              then (mkW (w_seq w1) (w_flags w1) (takeZ available (w_data w1)),
                    mkW (add (w_seq w1) (u32 available)) (w_flags w1) (dropZ available (w_data w1)) :: rest)
              else (w1, rest)).
      destruct pr as [w2 rest'] eqn:EPR.
      set (s' := (SN t) <| outstanding := outstanding (SN t) + 1 |> <| wsent := wsent (SN t) ++ [w2] |>
                        <| wunsent := rest' |>).
      match goal with |- context [sendLoop f ?x endv limit] =>
        change x with (xmit t s' (w_data w2) (w_flags w2) (w_seq w2) (add (w_seq w2) (u32 (len (w_data w2))))) end.
      set (t3 := xmit _ _ _ _ _ _).
      destruct (xmit_spec t s' (w_data w2) (w_flags w2) (w_seq w2) (add (w_seq w2) (u32 (len (w_data w2)))))
        as (L3 & O3 & T3 & E3 & ak & wn & F3).
      fold t3 in L3, O3, T3, E3, F3.
      specialize (IH t3 endv limit). cbv zeta in IH.
      destruct IH as (LF & TS & ES & OB & fs & OUT & DC & DCe).
      assert (L0 : loopfields (SN t) s') by (subst s'; unfold loopfields; destruct (SN t); reflexivity).
      assert (C3 : cwnd (SN t3) = cwnd (SN t)).
      { loopf L3. loopf L0. congruence. }
      assert (O0 : outstanding s' = outstanding (SN t) + 1) by reflexivity.
      split; [apply loopfields_trans with (b := s'); [exact L0|apply loopfields_trans with (b := SN t3); assumption]|].
      repeat split; try congruence; try lia.
      exists ([mkF (w_seq w2) ak (w_flags w2) wn (w_data w2)] ++ fs).
      rewrite OUT, F3, <- app_assoc. split; [reflexivity|].
      rewrite dcount_app, dcount_one. pose proof (dcount_nonneg fs).
      split; [destruct (isData _); lia|].
      intros L1. specialize (DCe L1).
      assert (ID : isData (mkF (w_seq w2) ak (w_flags w2) wn (w_data w2)) = true).
      { unfold isData. cbn [f_data].
        assert (A0 : 1 <= available0).
        { subst available0. unfold size, lessThan, u32 in *. change (2^32) with 4294967296 in *.
          change (2^31) with 2147483648 in *.
          apply negb_false_iff in ELT. apply Z.leb_le in ELT.
          pose proof (Z.mod_pos_bound (endv - w_seq w1) 4294967296 ltac:(lia)).
          destruct (Z.eq_dec ((endv - w_seq w1) mod 4294967296) 0) as [Z0|]; [|lia].
          exfalso. apply Z.mod_divide in Z0; [|lia]. destruct Z0 as [k Hk].
          replace (w_seq w1 - endv) with ((-k) * 4294967296) in ELT by lia.
          rewrite Z.mod_mul in ELT; lia. }
        assert (A1 : 1 <= available) by (subst available; destruct (limit <? available0) eqn:?; lia).
        subst pr. destruct (available <? len (w_data w1)) eqn:EA; inversion EPR; subst w2; cbn [w_data].
        - unfold takeZ, len. rewrite firstn_length. unfold len in EA. lia.
        - rewrite EL. reflexivity. }
      rewrite ID. lia.
Qed.

Lemma sendLoop_budget fuel t endv limit :
  exists fs, out (sendLoop fuel t endv limit) = out t ++ fs /\
             dcount fs <= Z.max 0 (cwnd (SN t) - outstanding (SN t)).
Proof.
  pose proof (sendLoop_spec fuel t endv limit) as H. cbv zeta in H.
  destruct H as (_ & _ & _ & O & fs & E & D & _). exists fs. split; [exact E|]. lia.
Qed.

(* ------------------------------------------------------------------ sendData *)

Lemma loopfields_tstate a b x : loopfields a b -> loopfields (a <| tstate := x |>) (b <| tstate := x |>).
Proof.
  intros H. destruct a, b. unfold loopfields, core in *. cbn in *. inversion H. subst. reflexivity.
Qed.

(* sendData with idle = false (the only way [step] calls it) *)
Lemma sendData_spec t :
  let t' := sendData t false in
  loopfields ((SN t) <| tstate := tstate (SN t') |>) (SN t') /\ tsOk t' = tsOk t /\ estate t' = estate t /\
  outstanding (SN t) <= outstanding (SN t') <= Z.max (outstanding (SN t)) (cwnd (SN t)) /\
  (tstate (SN t') = if tstate (SN t) =? tEnabled then tEnabled
                    else if sndUna (SN t) =? sndNxt (SN t') then tstate (SN t) else tEnabled) /\
  exists fs, out t' = out t ++ fs /\ dcount fs <= outstanding (SN t') - outstanding (SN t) /\
             (1 <= maxPayload (SN t) -> dcount fs = outstanding (SN t') - outstanding (SN t)).
Proof.
  unfold sendData. cbv zeta. rewrite andb_false_r. cbn [andb].
  replace (t <| SN := SN t |>) with t by (destruct t; reflexivity).
  pose proof (sendLoop_spec (S (wbytes (wunsent (SN t)))) t (add (sndUna (SN t)) (sndWnd (SN t)))
                (maxPayload (SN t))) as H.
  cbv zeta in H. set (t2 := sendLoop _ _ _ _) in *.
  destruct H as (LF & TS & ES & OB & fs & OUT & DC & DCe).
  assert (U : sndUna (SN t2) = sndUna (SN t) /\ tstate (SN t2) = tstate (SN t)).
  { loopf LF. auto. }
  destruct U as (U1 & U2). clearbody t2.
  destruct (negb (tstate (SN t2) =? tEnabled) && negb (sndUna (SN t2) =? sndNxt (SN t2))) eqn:EG; cbn;
    (split; [|split; [|split; [|split; [|split]]]]); try assumption; try (exists fs; auto).
  - apply loopfields_tstate. exact LF.
  - rewrite U1, U2 in EG. destruct (tstate (SN t) =? tEnabled); [discriminate|].
    destruct (sndUna (SN t) =? sndNxt (SN t2)); [discriminate|reflexivity].
  - replace (SN t2) with ((SN t2) <| tstate := tstate (SN t2) |>) at 2 by (destruct (SN t2); reflexivity).
    apply loopfields_tstate. exact LF.
  - rewrite U1, U2 in EG. destruct (tstate (SN t) =? tEnabled) eqn:E1; [lia|].
    destruct (sndUna (SN t) =? sndNxt (SN t2)); [auto|discriminate].
Qed.
