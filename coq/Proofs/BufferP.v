(* Lemmas about Model/Buffer.v (pkg/buffer). *)
From Coq Require Import ZArith Bool List Lia ZifyBool.
From NP Require Import Model.Buffer.
Import ListNotations.
Open Scope Z_scope.

(* ================================================================ generic list facts *)

Lemma nth_error_ext {A} (l1 l2 : list A) :
  (forall i, nth_error l1 i = nth_error l2 i) -> l1 = l2.
Proof.
  revert l2. induction l1 as [|x l1 IH]; intros [|y l2] H.
  - reflexivity.
  - specialize (H O). discriminate.
  - specialize (H O). discriminate.
  - pose proof (H O) as H0. cbn in H0. inversion H0; subst. f_equal.
    apply IH. intros i. exact (H (S i)).
Qed.

Lemma skipn_skipn {A} x y (l : list A) : skipn x (skipn y l) = skipn (y + x) l.
Proof.
  revert l. induction y as [|y IH]; intros l; [reflexivity|].
  destruct l as [|a l]; [now rewrite !skipn_nil|]. cbn. apply IH.
Qed.

Lemma nth_error_firstn {A} n (l : list A) i :
  nth_error (firstn n l) i = if Nat.ltb i n then nth_error l i else None.
Proof.
  revert l i. induction n as [|n IH]; intros l i.
  - cbn. destruct i; reflexivity.
  - destruct l as [|a l].
    { rewrite firstn_nil. replace (nth_error [] i) with (@None A) by (destruct i; reflexivity).
      destruct (Nat.ltb i (S n)); reflexivity. }
    destruct i as [|i]; [reflexivity|]. cbn [firstn nth_error]. rewrite IH. reflexivity.
Qed.

Lemma nth_error_skipn {A} n (l : list A) i : nth_error (skipn n l) i = nth_error l (n + i).
Proof.
  revert l. induction n as [|n IH]; intros l; [reflexivity|].
  destruct l as [|a l]; [cbn; destruct i; reflexivity|]. cbn. apply IH.
Qed.

Lemma upd_length {A} i (x : A) l : length (upd i x l) = length l.
Proof.
  revert i. induction l as [|y l IH]; intros [|i]; cbn; try reflexivity. now rewrite IH.
Qed.

Lemma nth_error_upd {A} i j (x : A) l :
  nth_error (upd i x l) j =
  if Nat.eqb i j then (if Nat.ltb i (length l) then Some x else None) else nth_error l j.
Proof.
  revert i j. induction l as [|y l IH]; intros i j.
  - cbn. destruct i, j; cbn; try reflexivity. destruct (Nat.eqb i j); reflexivity.
  - destruct i as [|i], j as [|j]; cbn; try reflexivity.
    rewrite IH. destruct (Nat.eqb i j); [|reflexivity].
    change (S i <? S (length l))%nat with (i <? length l)%nat. reflexivity.
Qed.

Lemma nth_upd_eq {A} i (x d : A) l : (i < length l)%nat -> nth i (upd i x l) d = x.
Proof.
  revert i. induction l as [|y l IH]; intros [|i] H; cbn in *; try lia; try reflexivity.
  apply IH. lia.
Qed.

Lemma nth_upd_neq {A} i j (x d : A) l : i <> j -> nth j (upd i x l) d = nth j l d.
Proof.
  revert i j. induction l as [|y l IH]; intros [|i] [|j] H; cbn; try reflexivity; try lia.
  apply IH. lia.
Qed.

Lemma map_upd {A B} (f : A -> B) i x l : map f (upd i x l) = upd i (f x) (map f l).
Proof.
  revert i. induction l as [|y l IH]; intros [|i]; cbn; try reflexivity. now rewrite IH.
Qed.

(* the window l[off : off+n] with nat positions *)
Definition sub {A} (off n : nat) (l : list A) : list A := firstn n (skipn off l).

Lemma sub_length {A} off n (l : list A) : (off + n <= length l)%nat -> length (sub off n l) = n.
Proof. intros H. unfold sub. rewrite firstn_length, skipn_length. lia. Qed.

Lemma sub_cons {A} off n (l : list A) d :
  (off + S n <= length l)%nat -> sub off (S n) l = nth off l d :: sub (S off) n l.
Proof.
  unfold sub. revert off. induction l as [|y l IH]; intros off H; cbn in H; [lia|].
  destruct off as [|off]; cbn; [reflexivity|].
  apply IH. lia.
Qed.

Lemma sub_nth {A} off n (l : list A) i d :
  (i < n)%nat -> (off + n <= length l)%nat -> nth i (sub off n l) d = nth (off + i) l d.
Proof.
  revert off i l. induction n as [|n IH]; intros off i l Hi Hl; [lia|].
  rewrite (sub_cons off n l d Hl). destruct i as [|i]; cbn.
  - now rewrite Nat.add_0_r.
  - rewrite IH by lia. f_equal. lia.
Qed.

Lemma sub_upd_in {A} off n (l : list A) i x :
  (i < n)%nat -> (off + n <= length l)%nat ->
  sub off n (upd (off + i) x l) = upd i x (sub off n l).
Proof.
  revert off i l. induction n as [|n IH]; intros off i l Hi Hl; [lia|].
  rewrite (sub_cons off n _ x) by (rewrite upd_length; lia).
  rewrite (sub_cons off n l x Hl).
  destruct i as [|i].
  - rewrite Nat.add_0_r. rewrite nth_upd_eq by lia. cbn. f_equal.
    apply nth_error_ext. intros j. unfold sub.
    rewrite !nth_error_firstn. destruct (Nat.ltb j n) eqn:E; [|reflexivity].
    rewrite !nth_error_skipn, nth_error_upd.
    destruct (Nat.eqb off (S off + j)) eqn:E2; [|reflexivity].
    apply Nat.eqb_eq in E2. lia.
  - rewrite nth_upd_neq by lia. cbn. f_equal.
    replace (off + S i)%nat with (S off + i)%nat by lia.
    apply IH; lia.
Qed.

Lemma sub_upd_out {A} off n (l : list A) j x :
  (j < off \/ off + n <= j)%nat -> sub off n (upd j x l) = sub off n l.
Proof.
  intros H. apply nth_error_ext. intros i. unfold sub.
  rewrite !nth_error_firstn. destruct (Nat.ltb i n) eqn:E; [|reflexivity].
  apply Nat.ltb_lt in E.
  rewrite !nth_error_skipn, nth_error_upd.
  destruct (Nat.eqb j (off + i)) eqn:E2; [|reflexivity].
  apply Nat.eqb_eq in E2. lia.
Qed.

Lemma sub_firstn {A} off n k (l : list A) : (k <= n)%nat -> sub off k l = firstn k (sub off n l).
Proof.
  intros H. unfold sub. rewrite firstn_firstn. f_equal. lia.
Qed.

Lemma sub_skipn {A} off n k (l : list A) :
  (k <= n)%nat -> sub (off + k) (n - k) l = skipn k (sub off n l).
Proof.
  intros H. unfold sub. rewrite skipn_firstn_comm, skipn_skipn. reflexivity.
Qed.

Lemma sub_all {A} (l : list A) : sub 0 (length l) l = l.
Proof. unfold sub. cbn. apply firstn_all. Qed.

Lemma sub_overwrite {A} off (vs l : list A) :
  (off + length vs <= length l)%nat -> sub off (length vs) (overwrite off vs l) = vs.
Proof.
  intros H. unfold sub, overwrite.
  rewrite skipn_app, firstn_length, Nat.min_l by lia.
  rewrite Nat.sub_diag. cbn [skipn].
  rewrite (skipn_all2 (firstn off l)) by (rewrite firstn_length; lia). cbn [app].
  rewrite firstn_app, Nat.sub_diag, firstn_all. cbn. apply app_nil_r.
Qed.

Lemma overwrite_length {A} off (vs l : list A) :
  (off + length vs <= length l)%nat -> length (overwrite off vs l) = length l.
Proof.
  intros H. unfold overwrite. rewrite !app_length, firstn_length, skipn_length. lia.
Qed.

(* ================================================================ byte windows (Z positions) *)

Lemma seg_length {A} off n (l : list A) :
  0 <= off -> 0 <= n -> off + n <= Z.of_nat (length l) -> Z.of_nat (length (seg off n l)) = n.
Proof.
  intros H1 H2 H3. unfold seg. rewrite firstn_length, skipn_length. lia.
Qed.

(* a window of a window *)
Lemma seg_seg {A} off m i n (l : list A) :
  0 <= off -> 0 <= i -> 0 <= n -> i + n <= m ->
  seg (off + i) n l = seg i n (seg off m l).
Proof.
  intros H1 H2 H3 H4. unfold seg.
  rewrite skipn_firstn_comm, firstn_firstn, skipn_skipn.
  rewrite Nat.min_l by lia. f_equal. f_equal. lia.
Qed.

Lemma seg_firstn {A} off m n (l : list A) :
  0 <= off -> 0 <= n <= m -> seg off n l = firstn (Z.to_nat n) (seg off m l).
Proof.
  intros H1 H2. unfold seg. rewrite firstn_firstn. f_equal. lia.
Qed.

Lemma seg_skipn {A} off m n (l : list A) :
  0 <= off -> 0 <= n <= m -> seg (off + n) (m - n) l = skipn (Z.to_nat n) (seg off m l).
Proof.
  intros H1 H2. unfold seg. rewrite skipn_firstn_comm, skipn_skipn. f_equal; [lia|]. f_equal. lia.
Qed.

Lemma seg_all {A} (l : list A) : seg 0 (Z.of_nat (length l)) l = l.
Proof. unfold seg. cbn. rewrite Nat2Z.id. apply firstn_all. Qed.
(* ================================================================ View: slice expressions *)

Lemma slice3_ok v i j k :
  0 <= i <= j -> j <= k <= vcap v ->
  slice3 v i j k = Ok (mkView (varr v) (voff v + i) (j - i) (k - i)).
Proof.
  intros H1 H2. unfold slice3.
  replace ((0 <=? i) && (i <=? j) && (j <=? k) && (k <=? vcap v)) with true by lia. reflexivity.
Qed.

Lemma slice3_inv v i j k r :
  slice3 v i j k = Ok r ->
  0 <= i <= j /\ j <= k <= vcap v /\ r = mkView (varr v) (voff v + i) (j - i) (k - i).
Proof.
  unfold slice3. intros H.
  destruct ((0 <=? i) && (i <=? j) && (j <=? k) && (k <=? vcap v)) eqn:E; [|discriminate].
  inversion H; subst. repeat split; lia.
Qed.

(* Go panics exactly when the bounds 0 <= i <= j <= k <= cap are violated *)
Lemma slice3_panic_iff v i j k :
  slice3 v i j k = Panic <-> ~ (0 <= i <= j /\ j <= k <= vcap v).
Proof.
  unfold slice3.
  destruct ((0 <=? i) && (i <=? j) && (j <=? k) && (k <=? vcap v)) eqn:E; split; intros H;
    try discriminate; try reflexivity; try lia.
Qed.

Lemma slice3_wf v i j k r : wf_view v -> slice3 v i j k = Ok r -> wf_view r.
Proof.
  intros Hw H. apply slice3_inv in H. destruct H as (H1 & H2 & ->).
  unfold wf_view in *. cbn. lia.
Qed.

(* the result shows the window [i, j) of everything reachable from v, and can itself reach the
   window [i, k) *)
Lemma slice3_bytes v i j k r :
  wf_view v -> slice3 v i j k = Ok r ->
  vbytes r = seg i (j - i) (vfull v) /\ vfull r = seg i (k - i) (vfull v).
Proof.
  intros Hw H. apply slice3_inv in H. destruct H as (H1 & H2 & ->).
  unfold wf_view in Hw. unfold vbytes, vfull. cbn.
  split; apply seg_seg; lia.
Qed.

Lemma vbytes_of_vfull v : wf_view v -> vbytes v = firstn (Z.to_nat (vlen v)) (vfull v).
Proof.
  intros Hw. unfold wf_view in Hw. unfold vbytes, vfull. apply seg_firstn; lia.
Qed.

Lemma vbytes_length v : wf_view v -> Z.of_nat (length (vbytes v)) = vlen v.
Proof. intros Hw. unfold wf_view in Hw. unfold vbytes. apply seg_length; lia. Qed.

Lemma vfull_length v : wf_view v -> Z.of_nat (length (vfull v)) = vcap v.
Proof. intros Hw. unfold wf_view in Hw. unfold vfull. apply seg_length; lia. Qed.

Lemma viewOf_wf arr off l :
  0 <= off -> 0 <= l -> off + l <= Z.of_nat (length arr) -> wf_view (viewOf arr off l).
Proof. intros. unfold wf_view, viewOf. cbn. lia. Qed.

(* ---------------------------------------------------------------- View.TrimFront *)
Lemma view_trimFront_ok v n :
  wf_view v -> 0 <= n <= vlen v ->
  exists v', view_trimFront v n = Ok v' /\ wf_view v' /\
             vbytes v' = skipn (Z.to_nat n) (vbytes v) /\
             vlen v' = vlen v - n /\ vcap v' = vcap v - n /\
             vfull v' = skipn (Z.to_nat n) (vfull v).
Proof.
  intros Hw Hn. pose proof Hw as Hw'. unfold wf_view in Hw'.
  unfold view_trimFront, slice2. rewrite slice3_ok by lia.
  eexists. split; [reflexivity|]. split; [unfold wf_view; cbn; lia|].
  unfold vbytes, vfull. cbn. repeat split; try (apply seg_skipn; lia).
Qed.

Lemma view_trimFront_panic_iff v n :
  wf_view v -> (view_trimFront v n = Panic <-> n < 0 \/ vlen v < n).
Proof.
  intros Hw. unfold wf_view in Hw. unfold view_trimFront, slice2. rewrite slice3_panic_iff. lia.
Qed.

(* ---------------------------------------------------------------- View.CapLength *)
Lemma view_capLength_ok v n :
  wf_view v -> 0 <= n <= vlen v ->
  exists v', view_capLength v n = Ok v' /\ wf_view v' /\
             vbytes v' = firstn (Z.to_nat n) (vbytes v) /\
             vlen v' = n /\ vcap v' = n /\ vfull v' = vbytes v'.
Proof.
  intros Hw Hn. pose proof Hw as Hw'. unfold wf_view in Hw'.
  unfold view_capLength. rewrite slice3_ok by lia.
  eexists. split; [reflexivity|]. split; [unfold wf_view; cbn; lia|].
  unfold vbytes, vfull. cbn. rewrite Z.add_0_r, Z.sub_0_r.
  repeat split. apply seg_firstn; lia.
Qed.

Lemma view_capLength_panic_iff v n : view_capLength v n = Panic <-> n < 0 \/ vcap v < n.
Proof. unfold view_capLength. rewrite slice3_panic_iff. lia. Qed.

(* a count between len and cap is NOT refused: the "cap" then extends the view into the spare
   capacity (plain Go re-slicing); so "CapLength n shows the first n bytes of v" holds only
   for n <= len *)
Lemma view_capLength_beyond_len_refuted :
  exists v n v', wf_view v /\ vlen v < n /\ view_capLength v n = Ok v' /\
                 vbytes v = [1; 2] /\ vbytes v' = [1; 2; 3].
Proof.
  exists (viewOf [1; 2; 3; 4] 0 2), 3, (mkView [1; 2; 3; 4] 0 3 3).
  split; [apply viewOf_wf; cbn; lia|]. cbn. repeat split; lia.
Qed.

(* ---------------------------------------------------------------- View.NextBytes *)
Lemma view_nextBytes_ok v n :
  wf_view v -> 0 <= n <= vlen v ->
  exists r v', view_nextBytes v n = Ok (r, v') /\ wf_view v' /\
               vbytes r = firstn (Z.to_nat n) (vbytes v) /\
               vbytes v' = skipn (Z.to_nat n) (vbytes v).
Proof.
  intros Hw Hn. pose proof Hw as Hw'. unfold wf_view in Hw'.
  destruct (view_trimFront_ok v n Hw Hn) as (v' & E & Hw2 & Hb & _).
  unfold view_nextBytes. rewrite E. unfold slice2. rewrite slice3_ok by lia.
  eexists _, v'. split; [reflexivity|]. split; [exact Hw2|]. split; [|exact Hb].
  unfold vbytes. cbn. rewrite Z.add_0_r, Z.sub_0_r. apply seg_firstn; lia.
Qed.

Lemma view_nextBytes_panic_iff v n :
  wf_view v -> (view_nextBytes v n = Panic <-> n < 0 \/ vlen v < n).
Proof.
  intros Hw. unfold view_nextBytes.
  destruct (view_trimFront v n) eqn:E.
  - assert (~ (n < 0 \/ vlen v < n)) as Hn.
    { intros C. apply (view_trimFront_panic_iff v n Hw) in C. congruence. }
    destruct (view_nextBytes_ok v n Hw ltac:(lia)) as (r & v' & E2 & _).
    unfold view_nextBytes in E2. rewrite E in E2.
    destruct (slice2 v 0 n); [|discriminate]. split; [discriminate|intros C; contradiction].
  - apply (view_trimFront_panic_iff v n Hw) in E.
    split; [intros _; exact E|intros _]. destruct (slice2 v 0 n); reflexivity.
Qed.

(* ---------------------------------------------------------------- a capped view cannot be re-extended *)

(* r can reach only what w could reach: same array, window inside w's [off, off+cap) *)
Definition within (w r : View) : Prop :=
  varr r = varr w /\ voff w <= voff r /\ voff r + vcap r <= voff w + vcap w /\ wf_view r.

Lemma within_refl w : wf_view w -> within w w.
Proof. intros H. unfold within. split; [reflexivity|]. split; [lia|]. split; [lia|exact H]. Qed.

Lemma slice3_within w v i j k r : within w v -> slice3 v i j k = Ok r -> within w r.
Proof.
  intros (Ha & Ho & Hc & Hw) H. pose proof (slice3_wf _ _ _ _ _ Hw H) as Hw2.
  apply slice3_inv in H. destruct H as (H1 & H2 & ->).
  unfold within. cbn. split; [exact Ha|]. split; [lia|]. split; [lia|exact Hw2].
Qed.

Lemma reslice_chain_within w rs : forall v r,
  within w v -> fold_left reslice rs (Ok v) = Ok r -> within w r.
Proof.
  induction rs as [|[[i j] k] rs IH]; intros v r Hv H; cbn in H.
  - inversion H; subst. exact Hv.
  - destruct (slice3 v i j k) as [v'|] eqn:E.
    + eapply IH; [|exact H]. eapply slice3_within; eassumption.
    + exfalso. clear -H. induction rs as [|x rs IH]; cbn in H; [discriminate|auto].
Qed.

Lemma within_vfull w r :
  wf_view w -> within w r ->
  vfull r = seg (voff r - voff w) (vcap r) (vfull w).
Proof.
  intros Hw (Ha & Ho & Hc & Hr). unfold wf_view in *. unfold vfull. rewrite Ha.
  replace (voff r) with (voff w + (voff r - voff w)) at 1 by lia.
  apply seg_seg; lia.
Qed.

(* after v.CapLength(n), whatever chain of legal re-slices (two- or three-index, hence also
   TrimFront / CapLength / NextBytes) is applied, everything the result can EVER reach
   (r[:cap(r)]) is a window of the first n bytes of v *)
Lemma cap_not_reextendable v n rs r :
  wf_view v -> 0 <= n <= vlen v ->
  fold_left reslice rs (view_capLength v n) = Ok r ->
  exists a, 0 <= a /\ a + vcap r <= n /\ vlen r <= vcap r /\
            vfull r = seg a (vcap r) (firstn (Z.to_nat n) (vbytes v)).
Proof.
  intros Hw Hn H.
  destruct (view_capLength_ok v n Hw Hn) as (w & E & Hww & Hb & Hl & Hc & Hf).
  rewrite E in H.
  pose proof (reslice_chain_within w rs w r (within_refl w Hww) H) as Hin.
  pose proof (within_vfull w r Hww Hin) as Hfull.
  destruct Hin as (Ha & Ho & Hcc & Hr).
  exists (voff r - voff w). unfold wf_view in Hr.
  rewrite <- Hb, <- Hf. repeat split; try lia. exact Hfull.
Qed.

(* had CapLength been written with the two-index form, one re-slice would bring the excluded
   bytes back *)
Lemma cap_two_index_refuted :
  exists v n rs r, wf_view v /\ 0 <= n <= vlen v /\
    fold_left reslice rs (view_capLength_twoIndex v n) = Ok r /\
    firstn (Z.to_nat n) (vbytes v) = [1] /\ vbytes r = [1; 2; 3].
Proof.
  exists (viewOf [1; 2; 3] 0 3), 1, [(0, 3, 3)], (mkView [1; 2; 3] 0 3 3).
  split; [apply viewOf_wf; cbn; lia|]. cbn. repeat split; lia.
Qed.

Example cap_not_reextendable_nonvacuous :
  exists v n rs r, wf_view v /\ 0 <= n <= vlen v /\ rs <> [] /\
    fold_left reslice rs (view_capLength v n) = Ok r /\ vbytes r = [3].
Proof.
  exists (viewOf [1; 2; 3; 4; 5] 1 4), 2, [(0, 2, 2); (1, 2, 2)], (mkView [1; 2; 3; 4; 5] 2 1 1).
  split; [apply viewOf_wf; cbn; lia|]. cbn. repeat split; try lia. discriminate.
Qed.

(* ================================================================ chunk lists (pure level)
   The loops of VectorisedView.TrimFront / CapLength as functions on the list of View headers
   that the header slice exposes; the heap-level operations are shown below to compute exactly
   these, and these are shown to act on the concatenated bytes like the byte-string operations. *)

Definition abs (vs : list View) : list Z := concat (map vbytes vs).

Fixpoint p_trimFront (vs : list View) (sz n : Z) : res (list View * Z) :=
  match vs with
  | [] => Ok ([], sz)
  | v :: rest =>
    if 0 <? n then
      if n <? vlen v then
        match view_trimFront v n with
        | Ok v' => Ok (v' :: rest, sz - n)
        | Panic => Panic
        end
      else p_trimFront rest (sz - vlen v) (n - vlen v)
    else Ok (vs, sz)
  end.

Fixpoint p_capLoop (vs : list View) (n : Z) : res (list View) :=
  match vs with
  | [] => Ok []
  | v :: rest =>
    if n <=? vlen v then
      if n =? 0 then Ok []
      else match view_capLength v n with Ok v' => Ok [v'] | Panic => Panic end
    else match p_capLoop rest (n - vlen v) with Ok r => Ok (v :: r) | Panic => Panic end
  end.

Definition p_capLength (vs : list View) (sz n : Z) : res (list View * Z) :=
  let n := if n <? 0 then 0 else n in
  if sz <? n then Ok (vs, sz)
  else match p_capLoop vs n with Ok vs' => Ok (vs', n) | Panic => Panic end.

Lemma sumlen_cons v vs : sumlen (v :: vs) = vlen v + sumlen vs.
Proof. reflexivity. Qed.

Lemma abs_cons v vs : abs (v :: vs) = vbytes v ++ abs vs.
Proof. reflexivity. Qed.

Lemma sumlen_nonneg vs : Forall wf_view vs -> 0 <= sumlen vs.
Proof.
  induction 1 as [|v vs Hv _ IH]; [cbn; lia|]. rewrite sumlen_cons. unfold wf_view in Hv. lia.
Qed.

Lemma abs_length vs : Forall wf_view vs -> Z.of_nat (length (abs vs)) = sumlen vs.
Proof.
  induction 1 as [|v vs Hv _ IH]; [reflexivity|].
  rewrite abs_cons, sumlen_cons, app_length, Nat2Z.inj_add, IH, (vbytes_length v Hv). reflexivity.
Qed.

Lemma p_trimFront_spec vs : forall sz n,
  Forall wf_view vs -> sz = sumlen vs ->
  exists vs', p_trimFront vs sz n = Ok (vs', sumlen vs') /\ Forall wf_view vs' /\
              abs vs' = skipn (Z.to_nat n) (abs vs).
Proof.
  induction vs as [|v rest IH]; intros sz n Hw Hs.
  - exists []. cbn. subst sz. repeat split; [constructor|]. now rewrite skipn_nil.
  - inversion Hw as [|? ? Hv Hrest]; subst.
    cbn [p_trimFront]. destruct (0 <? n) eqn:E0.
    + destruct (n <? vlen v) eqn:E1.
      * destruct (view_trimFront_ok v n Hv ltac:(lia)) as (v' & E & Hw' & Hb & Hl & _).
        rewrite E. exists (v' :: rest). rewrite !sumlen_cons.
        split; [f_equal; f_equal; lia|]. split; [constructor; assumption|].
        rewrite !abs_cons, Hb, skipn_app.
        pose proof (vbytes_length v Hv) as HL.
        replace (Z.to_nat n - length (vbytes v))%nat with 0%nat by lia. reflexivity.
      * destruct (IH (sumlen (v :: rest) - vlen v) (n - vlen v) Hrest) as (vs' & E & Hw' & Hb).
        { rewrite sumlen_cons. lia. }
        exists vs'. split; [exact E|]. split; [exact Hw'|].
        rewrite Hb, abs_cons, skipn_app.
        pose proof (vbytes_length v Hv) as HL. unfold wf_view in Hv.
        rewrite (skipn_all2 (n:=Z.to_nat n) (vbytes v)) by lia. cbn [app]. f_equal. lia.
    + exists (v :: rest). split; [reflexivity|]. split; [exact Hw|].
      replace (Z.to_nat n) with 0%nat by lia. reflexivity.
Qed.

Lemma p_capLoop_spec vs : forall n,
  Forall wf_view vs -> 0 <= n <= sumlen vs ->
  exists vs', p_capLoop vs n = Ok vs' /\ Forall wf_view vs' /\
              abs vs' = firstn (Z.to_nat n) (abs vs) /\ sumlen vs' = n.
Proof.
  induction vs as [|v rest IH]; intros n Hw Hn.
  - exists []. cbn in *. repeat split; [constructor| |lia]. now rewrite firstn_nil.
  - inversion Hw as [|? ? Hv Hrest]; subst. rewrite sumlen_cons in Hn.
    pose proof (vbytes_length v Hv) as HL.
    cbn [p_capLoop]. destruct (n <=? vlen v) eqn:E0.
    + destruct (n =? 0) eqn:E1.
      * exists []. split; [reflexivity|]. split; [constructor|].
        replace (Z.to_nat n) with 0%nat by lia. cbn. split; [reflexivity|lia].
      * destruct (view_capLength_ok v n Hv ltac:(lia)) as (v' & E & Hw' & Hb & Hl & _).
        rewrite E. exists [v']. split; [reflexivity|]. split; [constructor; [exact Hw'|constructor]|].
        split; [|cbn; lia].
        rewrite !abs_cons, Hb, firstn_app.
        replace (Z.to_nat n - length (vbytes v))%nat with 0%nat by lia.
        cbn. reflexivity.
    + destruct (IH (n - vlen v) Hrest ltac:(lia)) as (vs' & E & Hw' & Hb & Hl).
      rewrite E. exists (v :: vs'). split; [reflexivity|]. split; [constructor; assumption|].
      split; [|rewrite sumlen_cons; lia].
      rewrite !abs_cons, Hb, firstn_app.
      rewrite (firstn_all2 (n:=Z.to_nat n) (vbytes v)) by lia. f_equal. f_equal. lia.
Qed.

Lemma p_capLength_spec vs sz n :
  Forall wf_view vs -> sz = sumlen vs ->
  exists vs', p_capLength vs sz n = Ok (vs', sumlen vs') /\ Forall wf_view vs' /\
              abs vs' = str_cap n (abs vs).
Proof.
  intros Hw Hs. pose proof (abs_length vs Hw) as HL. pose proof (sumlen_nonneg vs Hw) as H0.
  unfold p_capLength, str_cap. destruct (n <? 0) eqn:En.
  - replace (sz <? 0) with false by lia.
    destruct (p_capLoop_spec vs 0 Hw ltac:(lia)) as (vs' & E & Hw' & Hb & Hl).
    rewrite E. exists vs'. rewrite Hl. split; [reflexivity|]. split; [exact Hw'|].
    replace (Z.of_nat (length (abs vs)) <? n) with false by lia.
    rewrite Hb. replace (Z.to_nat n) with 0%nat by lia. reflexivity.
  - destruct (sz <? n) eqn:E1.
    + exists vs. subst sz. split; [reflexivity|]. split; [exact Hw|].
      replace (Z.of_nat (length (abs vs)) <? n) with true by lia. reflexivity.
    + destruct (p_capLoop_spec vs n Hw ltac:(lia)) as (vs' & E & Hw' & Hb & Hl).
      rewrite E. exists vs'. rewrite Hl. split; [reflexivity|]. split; [exact Hw'|].
      replace (Z.of_nat (length (abs vs)) <? n) with false by lia. exact Hb.
Qed.

(* ================================================================ the heap of header arrays *)

Lemma frame_refl h a : frame h h a.
Proof. unfold frame. auto. Qed.

Lemma harray_hset_same h a i v : (a < length h)%nat -> harray (hset h a i v) a = upd i v (harray h a).
Proof. intros H. unfold harray, hset. now rewrite nth_upd_eq. Qed.

Lemma harray_hset_other h a b i v : b <> a -> harray (hset h a i v) b = harray h b.
Proof. intros H. unfold harray, hset. rewrite nth_upd_neq; [reflexivity|congruence]. Qed.

Lemma hset_frame h a i v : (a < length h)%nat -> frame h (hset h a i v) a.
Proof.
  intros H. unfold frame. split; [unfold hset; apply upd_length|]. split.
  - intros b Hb. now apply harray_hset_other.
  - rewrite harray_hset_same by exact H. apply upd_length.
Qed.

Lemma hviews_sub h s : hviews h s = sub (hoff s) (hlen s) (harray h (harr s)).
Proof. reflexivity. Qed.

Lemma hviews_length h s : hs_ok h s -> length (hviews h s) = hlen s.
Proof. intros (H1 & H2 & H3). rewrite hviews_sub. apply sub_length. lia. Qed.

Lemma skipn_nth_cons {A} i (l : list A) d : (i < length l)%nat -> skipn i l = nth i l d :: skipn (S i) l.
Proof.
  revert i. induction l as [|x l IH]; intros i H; cbn in H; [lia|].
  destruct i as [|i]; [reflexivity|]. cbn [skipn nth]. apply IH. lia.
Qed.

Lemma firstn_S_snoc {A} i (l : list A) d : (i < length l)%nat -> firstn (S i) l = firstn i l ++ [nth i l d].
Proof.
  revert i. induction l as [|x l IH]; intros i H; cbn in H; [lia|].
  destruct i as [|i]; [reflexivity|]. cbn [firstn nth app]. f_equal. apply IH. lia.
Qed.

Lemma firstn_S_upd {A} i (x : A) l : (i < length l)%nat -> firstn (S i) (upd i x l) = firstn i l ++ [x].
Proof.
  revert i. induction l as [|y l IH]; intros i H; cbn in H; [lia|].
  destruct i as [|i]; [reflexivity|]. cbn [upd firstn app]. f_equal. apply IH. lia.
Qed.

(* ---------------------------------------------------------------- RemoveFirst / First *)
Lemma vv_removeFirst_spec h vv :
  hs_ok h (views vv) ->
  let vv' := vv_removeFirst h vv in
  hs_ok h (views vv') /\ harr (views vv') = harr (views vv) /\
  hviews h (views vv') = tl (hviews h (views vv)) /\
  size vv' = size vv - vlen (vv_first h vv) /\
  hviews h (views vv) = match hlen (views vv) with O => [] | S _ => vv_first h vv :: hviews h (views vv') end.
Proof.
  destruct vv as [[a off n c] sz]. intros (H1 & H2 & H3). cbn in H1, H2, H3.
  unfold vv_removeFirst, vv_first. cbn [views hlen harr hoff hcap size]. cbv zeta.
  destruct n as [|n]; cbn [views hlen harr hoff hcap size].
  - unfold hs_ok, hviews. cbn [hlen harr hoff hcap firstn tl]. repeat split; try lia. cbn; lia.
  - unfold hs_ok. rewrite !hviews_sub. cbn [hlen harr hoff hcap].
    rewrite (sub_cons off n _ nilView) by lia. cbn [tl]. unfold hget.
    repeat split; try lia.
Qed.

(* ---------------------------------------------------------------- TrimFront loop = p_trimFront *)
Lemma trimFront_loop_refines : forall fuel h vv n,
  hs_ok h (views vv) -> (hlen (views vv) < fuel)%nat ->
  match p_trimFront (hviews h (views vv)) (size vv) n with
  | Ok (vs', sz') =>
    exists h' vv', vv_trimFront_loop fuel h vv n = Ok (h', vv') /\
      hviews h' (views vv') = vs' /\ size vv' = sz' /\
      harr (views vv') = harr (views vv) /\ hs_ok h' (views vv') /\
      frame h h' (harr (views vv))
  | Panic => vv_trimFront_loop fuel h vv n = Panic
  end.
Proof.
  induction fuel as [|f IH]; intros h vv n Hok Hf; [lia|].
  destruct vv as [[a off m c] sz]. pose proof Hok as (H1 & H2 & H3). cbn in H1, H2, H3, Hf.
  cbn [vv_trimFront_loop views size hlen harr hoff].
  destruct m as [|m].
  - rewrite hviews_sub. cbn [hlen]. unfold sub. cbn [firstn p_trimFront].
    rewrite andb_false_r.
    eexists _, _. split; [reflexivity|]. cbn. repeat split; try assumption; try lia; apply frame_refl.
  - rewrite hviews_sub. cbn [hlen hoff harr]. rewrite (sub_cons off m _ nilView) by lia.
    cbn [p_trimFront]. fold (hget h a off).
    destruct (0 <? n) eqn:E0; cbn [andb].
    + replace (0 <? S m)%nat with true by (symmetry; apply Nat.ltb_lt; lia).
      destruct (n <? vlen (hget h a off)) eqn:E1.
      * destruct (view_trimFront (hget h a off) n) as [v'|] eqn:E; [|reflexivity].
        eexists _, _. split; [reflexivity|]. cbn [views size harr hoff hlen hcap].
        split.
        { rewrite hviews_sub. cbn [hoff hlen harr]. rewrite harray_hset_same by exact H1.
          replace off with (off + 0)%nat at 2 by lia.
          rewrite sub_upd_in by lia. rewrite (sub_cons off m _ nilView) by lia. reflexivity. }
        split; [reflexivity|]. split; [reflexivity|]. split.
        { pose proof (hset_frame h a off v' H1) as (F1 & F2 & F3).
          unfold hs_ok. cbn. rewrite F1, F3. lia. }
        apply hset_frame. exact H1.
      * specialize (IH h (vv_removeFirst h (mkVV (mkH a off (S m) c) sz)) (n - vlen (hget h a off))).
        unfold vv_removeFirst in IH. cbn [views size hlen harr hoff hcap] in IH.
        rewrite hviews_sub in IH. cbn [hoff hlen harr] in IH.
        unfold vv_removeFirst. cbn [views size hlen harr hoff hcap].
        apply IH; [unfold hs_ok; cbn; lia|lia].
    + eexists _, _. split; [reflexivity|]. cbn [views size harr].
      split; [rewrite hviews_sub; cbn [hoff hlen harr]; now rewrite (sub_cons off m _ nilView) by lia|].
      repeat split; try assumption; apply frame_refl.
Qed.

(* ---------------------------------------------------------------- CapLength loop = p_capLoop *)
Lemma capLength_loop_refines : forall n i h vv len,
  hs_ok h (views vv) -> (i + n = hlen (views vv))%nat ->
  match p_capLoop (skipn i (hviews h (views vv))) len with
  | Ok vs' =>
    exists h' vv', vv_capLength_loop n i h vv len = Ok (h', vv') /\
      hviews h' (views vv') = firstn i (hviews h (views vv)) ++ vs' /\ size vv' = size vv /\
      harr (views vv') = harr (views vv) /\ hs_ok h' (views vv') /\
      frame h h' (harr (views vv))
  | Panic => vv_capLength_loop n i h vv len = Panic
  end.
Proof.
  induction n as [|n IH]; intros i h vv len Hok Hi.
  - pose proof (hviews_length h (views vv) Hok) as HL.
    rewrite skipn_all2 by lia. cbn [p_capLoop vv_capLength_loop].
    eexists _, _. split; [reflexivity|]. rewrite app_nil_r, firstn_all2 by lia.
    split; [reflexivity|]. split; [reflexivity|]. split; [reflexivity|]. split; [exact Hok|apply frame_refl].
  - destruct vv as [[a off m c] sz]. pose proof Hok as (H1 & H2 & H3).
    pose proof (hviews_length h _ Hok) as HL.
    cbn [views size hlen harr hoff hcap] in *.
    rewrite (skipn_nth_cons i _ nilView) by lia.
    assert (nth i (hviews h (mkH a off m c)) nilView = hget h a (off + i)) as Hnth.
    { rewrite hviews_sub. cbn [hoff hlen harr]. rewrite sub_nth by lia. reflexivity. }
    rewrite Hnth. cbn [p_capLoop vv_capLength_loop views size hlen harr hoff hcap].
    set (v := hget h a (off + i)).
    destruct (len <=? vlen v) eqn:E0.
    + destruct (len =? 0) eqn:E1.
      * eexists _, _. split; [reflexivity|]. cbn [views size harr].
        split; [rewrite app_nil_r, !hviews_sub; cbn [hoff hlen harr]; apply sub_firstn; lia|].
        split; [reflexivity|]. split; [reflexivity|]. split; [unfold hs_ok; cbn; lia|apply frame_refl].
      * destruct (view_capLength v len) as [v'|] eqn:E; [|reflexivity].
        eexists _, _. split; [reflexivity|]. cbn [views size harr].
        split.
        { rewrite !hviews_sub. cbn [hoff hlen harr]. rewrite harray_hset_same by exact H1.
          rewrite (sub_firstn off m (S i)) by lia.
          rewrite sub_upd_in by lia.
          apply firstn_S_upd. rewrite sub_length; lia. }
        split; [reflexivity|]. split; [reflexivity|]. split.
        { pose proof (hset_frame h a (off + i) v' H1) as (F1 & F2 & F3).
          unfold hs_ok. cbn. rewrite F1, F3. lia. }
        apply hset_frame. exact H1.
    + specialize (IH (S i) h (mkVV (mkH a off m c) sz) (len - vlen v) Hok ltac:(cbn; lia)).
      cbn [views size hlen harr hoff hcap] in IH.
      destruct (p_capLoop (skipn (S i) (hviews h (mkH a off m c))) (len - vlen v)) as [r|]; [|exact IH].
      destruct IH as (h' & vv' & E & Hv & Hrest).
      exists h', vv'. split; [exact E|]. split; [|exact Hrest].
      rewrite Hv, (firstn_S_snoc i _ nilView) by lia. rewrite Hnth, <- app_assoc. reflexivity.
Qed.

(* ================================================================ one object: operations refine
   the byte-string operations, keep well-formedness, and write only their own header array *)

Lemma vv_bytes_abs h vv : vv_bytes h vv = abs (hviews h (views vv)).
Proof. reflexivity. Qed.

(* an object whose header array is untouched is untouched *)
Lemma vv_transfer h h' x :
  (length h <= length h')%nat -> harray h' (harr (views x)) = harray h (harr (views x)) ->
  vv_wf h x -> vv_wf h' x /\ hviews h' (views x) = hviews h (views x).
Proof.
  intros HL Ha ((H1 & H2 & H3) & Hw & Hs).
  assert (hviews h' (views x) = hviews h (views x)) as Hv by (unfold hviews; now rewrite Ha).
  split; [|exact Hv]. unfold vv_wf, hs_ok. rewrite Hv, Ha. repeat split; try assumption; lia.
Qed.

Lemma vv_transfer_frame h h' a x :
  frame h h' a -> harr (views x) <> a ->
  vv_wf h x -> vv_wf h' x /\ hviews h' (views x) = hviews h (views x).
Proof.
  intros (F1 & F2 & F3) Hne. apply vv_transfer; [lia|]. apply F2. exact Hne.
Qed.

Lemma vv_trimFront_spec h vv n :
  vv_wf h vv ->
  exists h' vv', vv_trimFront h vv n = Ok (h', vv') /\ vv_wf h' vv' /\
    vv_bytes h' vv' = str_trim n (vv_bytes h vv) /\
    harr (views vv') = harr (views vv) /\ frame h h' (harr (views vv)).
Proof.
  intros (Hok & Hwf & Hsz).
  pose proof (trimFront_loop_refines (S (hlen (views vv))) h vv n Hok ltac:(lia)) as R.
  destruct (p_trimFront_spec (hviews h (views vv)) (size vv) n Hwf Hsz) as (vs' & E & Hw' & Hb).
  rewrite E in R. destruct R as (h' & vv' & E2 & Hv & Hs & Ha & Hok' & Hfr).
  exists h', vv'. split; [exact E2|]. split.
  { unfold vv_wf. rewrite Hv. repeat split; try assumption; apply Hok'. }
  split; [rewrite !vv_bytes_abs, Hv; exact Hb|]. split; assumption.
Qed.

Lemma vv_capLength_spec h vv n :
  vv_wf h vv ->
  exists h' vv', vv_capLength h vv n = Ok (h', vv') /\ vv_wf h' vv' /\
    vv_bytes h' vv' = str_cap n (vv_bytes h vv) /\
    harr (views vv') = harr (views vv) /\ frame h h' (harr (views vv)).
Proof.
  intros (Hok & Hwf & Hsz).
  destruct (p_capLength_spec (hviews h (views vv)) (size vv) n Hwf Hsz) as (vs' & E & Hw' & Hb).
  unfold vv_capLength. unfold p_capLength in E.
  set (n' := if n <? 0 then 0 else n) in *.
  destruct (size vv <? n') eqn:E1.
  - inversion E; subst vs'. exists h, vv. split; [reflexivity|].
    split; [repeat split; try assumption; apply Hok|]. split; [exact Hb|].
    split; [reflexivity|apply frame_refl].
  - pose proof (capLength_loop_refines (hlen (views vv)) 0 h (mkVV (views vv) n') n' Hok ltac:(cbn; lia)) as R.
    cbn [views size skipn firstn app] in R.
    destruct (p_capLoop (hviews h (views vv)) n') as [r|] eqn:E2; [|discriminate].
    inversion E; subst vs'.
    destruct R as (h' & vv' & E3 & Hv & Hs & Ha & Hok' & Hfr).
    exists h', vv'. split; [exact E3|]. split.
    { unfold vv_wf. rewrite Hv. repeat split; try assumption; try apply Hok'. congruence. }
    split; [rewrite !vv_bytes_abs, Hv; exact Hb|]. split; assumption.
Qed.

Lemma vv_first_hd h vv : hs_ok h (views vv) -> vv_first h vv = hd nilView (hviews h (views vv)).
Proof.
  intros Hok. pose proof (vv_removeFirst_spec h vv Hok) as (_ & _ & _ & _ & H).
  unfold vv_first in *. destruct (hlen (views vv)); rewrite H; reflexivity.
Qed.

Lemma vv_removeFirst_wf h vv :
  vv_wf h vv ->
  vv_wf h (vv_removeFirst h vv) /\
  vv_bytes h vv = vbytes (vv_first h vv) ++ vv_bytes h (vv_removeFirst h vv) /\
  vv_bytes h (vv_removeFirst h vv) =
    str_trim (Z.of_nat (length (vbytes (vv_first h vv)))) (vv_bytes h vv) /\
  harr (views (vv_removeFirst h vv)) = harr (views vv).
Proof.
  intros (Hok & Hwf & Hsz).
  pose proof (vv_removeFirst_spec h vv Hok) as (Hok' & Ha & Htl & Hs & Hcons).
  pose proof (vv_first_hd h vv Hok) as Hhd.
  rewrite !vv_bytes_abs, Htl, Hhd. unfold str_trim. rewrite Nat2Z.id.
  unfold vv_wf. rewrite Htl, Hs, Hhd, Hsz.
  destruct (hviews h (views vv)) as [|v vs].
  - split; [split; [exact Hok'|split; [constructor|cbn; lia]]|].
    split; [reflexivity|]. split; [reflexivity|exact Ha].
  - cbn [tl hd]. inversion Hwf; subst. rewrite abs_cons, sumlen_cons.
    rewrite skipn_app, skipn_all, Nat.sub_diag. cbn [skipn app].
    split; [split; [exact Hok'|split; [assumption|lia]]|].
    split; [reflexivity|]. split; [reflexivity|exact Ha].
Qed.

(* ---------------------------------------------------------------- observers *)
Lemma vv_size_spec h vv : vv_wf h vv -> vv_size vv = Z.of_nat (length (vv_bytes h vv)).
Proof. intros (Hok & Hwf & Hsz). unfold vv_size. rewrite vv_bytes_abs, abs_length; assumption. Qed.

Lemma vv_toView_spec h vv :
  vv_wf h vv -> exists u, vv_toView h vv = Ok u /\ wf_view u /\ vbytes u = vv_bytes h vv.
Proof.
  intros Hwf. pose proof (vv_size_spec h vv Hwf) as Hs. unfold vv_size in Hs.
  unfold vv_toView. replace (size vv <? 0) with false by lia.
  eexists. split; [reflexivity|]. fold (vv_bytes h vv). split.
  - unfold wf_view. cbn. lia.
  - unfold vbytes. cbn [varr voff vlen]. apply seg_all.
Qed.

(* First() shows a prefix of the bytes: exactly the part that RemoveFirst() drops *)
Lemma vv_first_spec h vv :
  vv_wf h vv -> vv_bytes h vv = vbytes (vv_first h vv) ++ vv_bytes h (vv_removeFirst h vv).
Proof. intros H. apply (vv_removeFirst_wf h vv H). Qed.

Lemma vv_views_spec h vv : concat (map vbytes (vv_views h vv)) = vv_bytes h vv.
Proof. reflexivity. Qed.

(* ---------------------------------------------------------------- constructors *)
Lemma harray_app_old h x b : (b < length h)%nat -> harray (h ++ [x]) b = harray h b.
Proof. intros H. unfold harray. now rewrite app_nth1. Qed.

Lemma harray_app_new h (x : list View) : harray (h ++ [x]) (length h) = x.
Proof. unfold harray. rewrite app_nth2, Nat.sub_diag by lia. reflexivity. Qed.

Lemma halloc_transfer h cells x :
  vv_wf h x -> vv_wf (h ++ [cells]) x /\ hviews (h ++ [cells]) (views x) = hviews h (views x).
Proof.
  intros Hw. apply vv_transfer; [rewrite app_length; lia| |exact Hw].
  apply harray_app_old. apply Hw.
Qed.

(* NewVectorisedView(size, views) stands for the concatenation of the views, and is well-formed
   exactly when the caller passes the right size *)
Lemma newVectorisedView_spec h sz vs :
  Forall wf_view vs ->
  exists h' vv, newVectorisedView h sz vs = (h', vv) /\
    vv_views h' vv = vs /\ vv_bytes h' vv = concat (map vbytes vs) /\ vv_size vv = sz /\
    (sz = sumlen vs -> vv_wf h' vv) /\ harr (views vv) = length h /\ h' = h ++ [vs].
Proof.
  intros Hw. unfold newVectorisedView, halloc. eexists _, _. split; [reflexivity|].
  assert (hviews (h ++ [vs]) (mkH (length h) 0 (length vs) (length vs)) = vs) as Hv.
  { rewrite hviews_sub. cbn [hoff hlen harr]. rewrite harray_app_new. apply sub_all. }
  unfold vv_views, vv_bytes, vv_size. cbn [views size]. rewrite Hv.
  split; [reflexivity|]. split; [reflexivity|]. split; [reflexivity|].
  split; [|split; reflexivity].
  intros Hs. unfold vv_wf, hs_ok. cbn [views size harr hoff hlen hcap].
  rewrite Hv, harray_app_new, app_length. cbn [length].
  split; [lia|]. split; assumption.
Qed.

(* v.ToVectorisedView() is a well-formed one-chunk view of exactly v's bytes *)
Lemma view_toVectorisedView_spec h v :
  wf_view v ->
  exists h' vv, view_toVectorisedView h v = (h', vv) /\ vv_wf h' vv /\
    vv_bytes h' vv = vbytes v /\ vv_size vv = Z.of_nat (length (vbytes v)).
Proof.
  intros Hw. unfold view_toVectorisedView.
  destruct (newVectorisedView_spec h (vlen v) [v]) as (h' & vv & E & Hv & Hb & Hs & Hwf & _).
  { constructor; [exact Hw|constructor]. }
  exists h', vv. split; [exact E|]. split; [apply Hwf; cbn; lia|].
  split; [rewrite Hb; cbn; apply app_nil_r|]. rewrite Hs. symmetry. apply vbytes_length. exact Hw.
Qed.

(* ---------------------------------------------------------------- Clone *)
Lemma upd_frame h a arr' :
  (a < length h)%nat -> length arr' = length (harray h a) -> frame h (upd a arr' h) a.
Proof.
  intros Ha HL. unfold frame. split; [apply upd_length|]. split.
  - intros b Hb. unfold harray. apply nth_upd_neq. congruence.
  - unfold harray at 1. rewrite nth_upd_eq by exact Ha. exact HL.
Qed.

Lemma vv_clone_spec h vv buf :
  vv_wf h vv -> hs_ok h buf -> harr buf <> harr (views vv) ->
  exists h' c, vv_clone h vv buf = (h', c) /\
    vv_wf h' c /\ hviews h' (views c) = hviews h (views vv) /\ size c = size vv /\
    (length h <= length h')%nat /\
    (harr (views c) = harr buf \/ (harr (views c) = length h /\ length h' = S (length h))) /\
    (forall x, harr (views x) <> harr buf -> vv_wf h x ->
               vv_wf h' x /\ hviews h' (views x) = hviews h (views x)).
Proof.
  intros Hwf (B1 & B2 & B3) Hne. pose proof Hwf as (Hok & Hw & Hs).
  pose proof (hviews_length h (views vv) Hok) as HL.
  unfold vv_clone. destruct (hlen (views vv) <=? hcap buf)%nat eqn:E.
  - apply Nat.leb_le in E.
    set (arr' := overwrite (hoff buf) (hviews h (views vv)) (harray h (harr buf))).
    assert (frame h (upd (harr buf) arr' h) (harr buf)) as Hfr.
    { apply upd_frame; [exact B1|]. apply overwrite_length. lia. }
    eexists _, _. split; [reflexivity|]. unfold hwrite. fold arr'.
    assert (hviews (upd (harr buf) arr' h) (mkH (harr buf) (hoff buf) (hlen (views vv)) (hcap buf))
            = hviews h (views vv)) as Hv.
    { rewrite hviews_sub. cbn [hoff hlen harr]. unfold harray at 1. rewrite nth_upd_eq by exact B1.
      unfold arr'. rewrite <- HL at 1. apply sub_overwrite. lia. }
    cbn [views size]. split.
    { unfold vv_wf. cbn [views size]. rewrite Hv. destruct Hfr as (F1 & F2 & F3).
      split; [|split; assumption]. unfold hs_ok. cbn [harr hoff hlen hcap]. rewrite F1, F3. lia. }
    split; [exact Hv|]. split; [reflexivity|].
    split; [destruct Hfr as (F1 & _); lia|]. split; [left; reflexivity|].
    intros x Hx Hwx. eapply vv_transfer_frame; eassumption.
  - eexists _, _. split; [reflexivity|]. cbn [views size].
    assert (hviews (h ++ [hviews h (views vv)]) (mkH (length h) 0 (hlen (views vv)) (hlen (views vv)))
            = hviews h (views vv)) as Hv.
    { rewrite hviews_sub. cbn [hoff hlen harr]. rewrite harray_app_new.
      rewrite <- HL. apply sub_all. }
    split.
    { unfold vv_wf. cbn [views size]. rewrite Hv. split; [|split; assumption].
      unfold hs_ok. cbn [harr hoff hlen hcap]. rewrite harray_app_new, app_length. cbn [length]. lia. }
    split; [exact Hv|]. split; [reflexivity|]. rewrite app_length. cbn.
    split; [lia|]. split; [right; split; [reflexivity|lia]|].
    intros x _ Hwx. apply halloc_transfer. exact Hwx.
Qed.

(* cloning into a buffer that aliases a live object's header array corrupts that object:
   b.Clone(a.Views()) overwrites a's headers (this is what the disjointness hypothesis of the
   independence theorems excludes) *)
Lemma clone_into_aliased_buffer_refuted :
  exists h a b h' c, vv_wf h a /\ vv_wf h b /\ vv_clone h b (views a) = (h', c) /\
    vv_bytes h a = [1; 2; 3; 4; 5] /\ vv_bytes h' a = [6; 7; 8; 3; 4; 5].
Proof.
  set (arr := [1; 2; 3; 4; 5; 6; 7; 8]).
  exists [[viewOf arr 0 2; viewOf arr 2 3]; [viewOf arr 5 3]],
         (mkVV (mkH 0 0 2 2) 5), (mkVV (mkH 1 0 1 1) 3).
  eexists _, _.
  split; [|split; [|split; [reflexivity|split; reflexivity]]].
  - unfold vv_wf, hs_ok. cbn. repeat split; try lia.
    repeat constructor; unfold wf_view; cbn; lia.
  - unfold vv_wf, hs_ok. cbn. repeat split; try lia.
    repeat constructor; unfold wf_view; cbn; lia.
Qed.

(* ================================================================ several objects in one heap *)

Lemma wabs_nth w i : nth_error (wabs w) i = option_map (vv_bytes (wheap w)) (nth_error (wobjs w) i).
Proof. unfold wabs. apply nth_error_map. Qed.

(* replacing object o by vv' (same header array, heap changed only in that array) *)
Lemma world_update w o vv h' vv' :
  wf_world w -> nth_error (wobjs w) o = Some vv ->
  vv_wf h' vv' -> harr (views vv') = harr (views vv) -> frame (wheap w) h' (harr (views vv)) ->
  wf_world (mkW h' (setobj (wobjs w) o vv')) /\
  wabs (mkW h' (setobj (wobjs w) o vv')) = upd o (vv_bytes h' vv') (wabs w).
Proof.
  intros (W1 & W2) Ho Hwf Ha Hfr.
  assert (o < length (wobjs w))%nat as Hlt by (apply nth_error_Some; congruence).
  assert (forall i x, i <> o -> nth_error (wobjs w) i = Some x ->
                      vv_wf h' x /\ hviews h' (views x) = hviews (wheap w) (views x)) as Hother.
  { intros i x Hi Hx. eapply vv_transfer_frame; [exact Hfr| |exact (W1 i x Hx)].
    exact (W2 i o x vv Hx Ho Hi). }
  split; [split|].
  - intros i x. cbn [wobjs wheap]. unfold setobj. rewrite nth_error_upd.
    destruct (Nat.eqb o i) eqn:E.
    + apply Nat.eqb_eq in E. subst i. replace (o <? length (wobjs w))%nat with true by (symmetry; apply Nat.ltb_lt; exact Hlt).
      intros H; inversion H; subst. exact Hwf.
    + apply Nat.eqb_neq in E. intros Hx. apply (Hother i x); [congruence|exact Hx].
  - intros i j vi vj. cbn [wobjs]. unfold setobj. rewrite !nth_error_upd.
    replace (o <? length (wobjs w))%nat with true by (symmetry; apply Nat.ltb_lt; exact Hlt).
    destruct (Nat.eqb_spec o i) as [Ei|Ei]; destruct (Nat.eqb_spec o j) as [Ej|Ej]; intros Hi Hj Hij.
    + congruence.
    + inversion Hi; subst vi. rewrite Ha. apply (W2 o j vv vj Ho Hj). congruence.
    + inversion Hj; subst vj. rewrite Ha. apply (W2 i o vi vv Hi Ho). congruence.
    + apply (W2 i j vi vj Hi Hj Hij).
  - apply nth_error_ext. intros i. rewrite wabs_nth. cbn [wobjs wheap]. unfold setobj.
    rewrite !nth_error_upd. unfold wabs at 1. rewrite map_length.
    destruct (Nat.eqb o i) eqn:E.
    + replace (o <? length (wobjs w))%nat with true by (symmetry; apply Nat.ltb_lt; exact Hlt).
      reflexivity.
    + apply Nat.eqb_neq in E. rewrite wabs_nth.
      destruct (nth_error (wobjs w) i) as [x|] eqn:Ex; [|reflexivity]. cbn [option_map].
      f_equal. destruct (Hother i x ltac:(congruence) Ex) as (_ & Hv).
      unfold vv_bytes. now rewrite Hv.
Qed.

Lemma wstep_refines w op :
  wf_world w ->
  exists w', wstep w op = Ok w' /\ wf_world w' /\ wabs w' = bstep (wabs w) (bop_of w op).
Proof.
  intros Hw. pose proof Hw as (W1 & W2).
  destruct op as [o n|o n|o|o k]; cbn [wstep bop_of bstep]; rewrite wabs_nth;
    destruct (nth_error (wobjs w) (Z.to_nat o)) as [vv|] eqn:Eo; cbn [option_map];
    try (exists w; split; [reflexivity|split; [exact Hw|reflexivity]]).
  - destruct (vv_trimFront_spec (wheap w) vv n (W1 _ _ Eo)) as (h' & vv' & E & Hwf & Hb & Ha & Hfr).
    rewrite E. eexists. split; [reflexivity|].
    destruct (world_update w _ vv h' vv' Hw Eo Hwf Ha Hfr) as (Hw' & Habs).
    split; [exact Hw'|]. rewrite Habs, Hb. reflexivity.
  - destruct (vv_capLength_spec (wheap w) vv n (W1 _ _ Eo)) as (h' & vv' & E & Hwf & Hb & Ha & Hfr).
    rewrite E. eexists. split; [reflexivity|].
    destruct (world_update w _ vv h' vv' Hw Eo Hwf Ha Hfr) as (Hw' & Habs).
    split; [exact Hw'|]. rewrite Habs, Hb. reflexivity.
  - destruct (vv_removeFirst_wf (wheap w) vv (W1 _ _ Eo)) as (Hwf & _ & Hb & Ha).
    eexists. split; [reflexivity|].
    destruct (world_update w _ vv (wheap w) _ Hw Eo Hwf Ha (frame_refl _ _)) as (Hw' & Habs).
    split; [exact Hw'|]. rewrite Habs, Hb. reflexivity.
  - (* Clone into a buffer the caller has just made *)
    unfold halloc.
    set (cells := repeat nilView (Z.to_nat k)).
    set (h1 := wheap w ++ [cells]).
    set (buf := mkH (length (wheap w)) 0 (Z.to_nat k) (Z.to_nat k)).
    assert (forall i x, nth_error (wobjs w) i = Some x ->
                        vv_wf h1 x /\ hviews h1 (views x) = hviews (wheap w) (views x)) as H1.
    { intros i x Hx. apply halloc_transfer. exact (W1 i x Hx). }
    assert (forall i x, nth_error (wobjs w) i = Some x -> (harr (views x) < length (wheap w))%nat) as Hold.
    { intros i x Hx. apply (W1 i x Hx). }
    assert (hs_ok h1 buf) as Hbuf.
    { unfold hs_ok, buf, h1. cbn [harr hoff hlen hcap]. rewrite harray_app_new, app_length.
      unfold cells. rewrite repeat_length. cbn [length]. lia. }
    destruct (vv_clone_spec h1 vv buf (proj1 (H1 _ _ Eo)) Hbuf) as (h2 & c & E & Hc & Hv & Hs & HL & Hwhere & Hkeep).
    { pose proof (Hold _ _ Eo). unfold buf. cbn [harr]. lia. }
    rewrite E. eexists. split; [reflexivity|].
    assert (forall i x, nth_error (wobjs w) i = Some x ->
                        vv_wf h2 x /\ hviews h2 (views x) = hviews (wheap w) (views x)) as H2.
    { intros i x Hx. destruct (H1 i x Hx) as (Hx1 & Hv1).
      destruct (Hkeep x) as (Hx2 & Hv2); [pose proof (Hold i x Hx); unfold buf; cbn [harr]; lia|exact Hx1|].
      split; [exact Hx2|congruence]. }
    assert (length h1 = S (length (wheap w))) as HL1 by (unfold h1; rewrite app_length; cbn; lia).
    assert (length (wheap w) <= harr (views c))%nat as Hfresh.
    { destruct Hwhere as [Hq|(Hq & _)]; rewrite Hq; [unfold buf; cbn [harr]; lia|lia]. }
    split; [split|].
    + intros i x. cbn [wobjs wheap]. intros Hx.
      destruct (Nat.lt_ge_cases i (length (wobjs w))) as [Hi|Hi].
      * rewrite nth_error_app1 in Hx by exact Hi. apply (H2 i x Hx).
      * rewrite nth_error_app2 in Hx by exact Hi.
        destruct (i - length (wobjs w))%nat as [|m]; cbn in Hx; [|destruct m; discriminate].
        inversion Hx; subst. exact Hc.
    + intros i j vi vj. cbn [wobjs]. intros Hi Hj Hij.
      destruct (Nat.lt_ge_cases i (length (wobjs w))) as [Li|Li];
        destruct (Nat.lt_ge_cases j (length (wobjs w))) as [Lj|Lj].
      * rewrite nth_error_app1 in Hi, Hj by assumption. apply (W2 i j vi vj Hi Hj Hij).
      * rewrite nth_error_app1 in Hi by assumption. rewrite nth_error_app2 in Hj by assumption.
        destruct (j - length (wobjs w))%nat as [|m]; cbn in Hj; [|destruct m; discriminate].
        inversion Hj; subst. pose proof (Hold i vi Hi). lia.
      * rewrite nth_error_app1 in Hj by assumption. rewrite nth_error_app2 in Hi by assumption.
        destruct (i - length (wobjs w))%nat as [|m]; cbn in Hi; [|destruct m; discriminate].
        inversion Hi; subst. pose proof (Hold j vj Hj). lia.
      * rewrite nth_error_app2 in Hi, Hj by assumption.
        destruct (i - length (wobjs w))%nat as [|m] eqn:Ei; cbn in Hi; [|destruct m; discriminate].
        destruct (j - length (wobjs w))%nat as [|m'] eqn:Ej; cbn in Hj; [|destruct m'; discriminate].
        lia.
    + unfold wabs. cbn [wobjs wheap]. rewrite map_app. cbn [map]. f_equal.
      * apply nth_error_ext. intros i. rewrite !nth_error_map.
        destruct (nth_error (wobjs w) i) as [x|] eqn:Ex; [|reflexivity]. cbn [option_map].
        f_equal. unfold vv_bytes. destruct (H2 i x Ex) as (_ & Hvx). now rewrite Hvx.
      * f_equal. unfold vv_bytes. rewrite Hv. destruct (H1 _ _ Eo) as (_ & Hv1). now rewrite Hv1.
Qed.

(* every history: the objects behave like independent byte strings *)
Lemma world_refines : forall ops w,
  wf_world w ->
  exists w', fst (fold_left both_step ops (Ok w, wabs w)) = Ok w' /\ wf_world w' /\
             wabs w' = snd (fold_left both_step ops (Ok w, wabs w)) /\
             map vv_size (wobjs w') = map (fun b => Z.of_nat (length b)) (wabs w').
Proof.
  induction ops as [|op ops IH]; intros w Hw.
  - exists w. cbn. split; [reflexivity|]. split; [exact Hw|]. split; [reflexivity|].
    unfold wabs. rewrite map_map. apply nth_error_ext. intros i. rewrite !nth_error_map.
    destruct (nth_error (wobjs w) i) as [x|] eqn:Ex; [|reflexivity]. cbn. f_equal.
    apply vv_size_spec. apply (proj1 Hw i x Ex).
  - cbn [fold_left]. unfold both_step at 2 4. cbn [fst snd].
    destruct (wstep_refines w op Hw) as (w1 & E & Hw1 & Habs).
    rewrite E, <- Habs. apply IH. exact Hw1.
Qed.

Lemma both_step_fst : forall ops r bs,
  fst (fold_left both_step ops (r, bs)) = fold_left wstep_res ops r.
Proof.
  induction ops as [|op ops IH]; intros r bs; [reflexivity|].
  cbn [fold_left]. unfold both_step at 2. cbn [fst snd].
  destruct r as [w|]; cbn [wstep_res]; apply IH.
Qed.

Lemma bstep_untouched bs w op i :
  wop_writes op <> Some i -> (i < length bs)%nat ->
  nth_error (bstep bs (bop_of w op)) i = nth_error bs i /\ (i < length (bstep bs (bop_of w op)))%nat.
Proof.
  intros Hne Hi.
  destruct op as [o n|o n|o|o k]; cbn [bop_of bstep wop_writes] in *;
    destruct (nth_error bs (Z.to_nat o)) eqn:E; try (split; [reflexivity|exact Hi]);
    try (rewrite nth_error_upd, upd_length;
         destruct (Nat.eqb (Z.to_nat o) i) eqn:E2; [apply Nat.eqb_eq in E2; congruence|split; [reflexivity|exact Hi]]).
  rewrite nth_error_app1, app_length by exact Hi. split; [reflexivity|lia].
Qed.

(* an object is unaffected by any history of operations on OTHER objects (trims, caps,
   removals, further clones): in particular a clone by operations on the original and the
   original by operations on its clones *)
Lemma world_untouched : forall ops w i,
  wf_world w -> (i < length (wobjs w))%nat ->
  (forall op, In op ops -> wop_writes op <> Some i) ->
  exists w', wrun w ops = Ok w' /\ wf_world w' /\ nth_error (wabs w') i = nth_error (wabs w) i.
Proof.
  induction ops as [|op ops IH]; intros w i Hw Hi Hops.
  - exists w. split; [reflexivity|]. split; [exact Hw|reflexivity].
  - destruct (wstep_refines w op Hw) as (w1 & E & Hw1 & Habs).
    assert (i < length (wabs w))%nat as Hi' by (unfold wabs; rewrite map_length; exact Hi).
    destruct (bstep_untouched (wabs w) w op i (Hops op (or_introl eq_refl)) Hi') as (Hsame & Hlen).
    rewrite <- Habs in Hsame, Hlen.
    destruct (IH w1 i Hw1) as (w' & E' & Hw' & Hn).
    { unfold wabs in Hlen. rewrite map_length in Hlen. exact Hlen. }
    { intros op' Hin. apply Hops. right. exact Hin. }
    exists w'. unfold wrun in *. cbn [fold_left wstep_res]. rewrite E.
    split; [exact E'|]. split; [exact Hw'|congruence].
Qed.

(* Clone with a buffer that does not alias the original's header array: original and clone
   form a well-formed two-object world, both standing for the original's bytes *)
Lemma clone_independent h vv buf h' c :
  vv_wf h vv -> hs_ok h buf -> harr buf <> harr (views vv) -> vv_clone h vv buf = (h', c) ->
  wf_world (mkW h' [vv; c]) /\ wabs (mkW h' [vv; c]) = [vv_bytes h vv; vv_bytes h vv] /\
  vv_size c = vv_size vv.
Proof.
  intros Hwf Hbuf Hne E.
  destruct (vv_clone_spec h vv buf Hwf Hbuf Hne) as (h2 & c2 & E2 & Hc & Hv & Hs & HL & Hwhere & Hkeep).
  rewrite E in E2. inversion E2; subst h2 c2.
  destruct (Hkeep vv ltac:(congruence) Hwf) as (Hwf' & Hv').
  assert (harr (views vv) <> harr (views c)) as Hd.
  { destruct Hwhere as [Hq|(Hq & _)]; rewrite Hq; [congruence|]. destruct Hwf as ((Hlt & _) & _). lia. }
  split; [split|split].
  - intros i x Hx. destruct i as [|[|i]]; cbn in Hx; inversion Hx; subst; try assumption.
    destruct i; discriminate.
  - intros i j vi vj Hi Hj Hij.
    destruct i as [|[|i]]; cbn in Hi; try (destruct i; discriminate);
      destruct j as [|[|j]]; cbn in Hj; try (destruct j; discriminate);
      inversion Hi; inversion Hj; subst; congruence.
  - unfold wabs, vv_bytes. cbn [map wobjs wheap]. rewrite Hv, Hv'. reflexivity.
  - exact Hs.
Qed.

Example world_nonvacuous :
  exists w ops w', wf_world w /\ wrun w ops = Ok w' /\
    wabs w = [[1; 2; 3; 4; 5]] /\ wabs w' = [[2; 3]; [1; 2; 3; 4]; [3; 4]].
Proof.
  set (arr := [0; 1; 2; 3; 4; 5; 6]).
  exists (mkW [[viewOf arr 1 2; viewOf arr 3 0; viewOf arr 3 3]] [mkVV (mkH 0 0 3 3) 5]),
         [WClone 0 (-1); WCap 1 4; WTrim 0 1; WClone 0 5; WRemoveFirst 2; WRemoveFirst 2; WCap 0 2; WCap 2 2].
  eexists. split; [|split; [vm_compute; reflexivity|split; vm_compute; reflexivity]].
  split.
  - intros i x Hx. destruct i as [|i]; [|destruct i; discriminate]. inversion Hx; subst.
    unfold vv_wf, hs_ok. cbn. split; [lia|]. split; [|reflexivity].
    repeat constructor; unfold wf_view; cbn; lia.
  - intros i j vi vj Hi Hj Hij. destruct i as [|i]; [|destruct i; discriminate].
    destruct j as [|j]; [lia|destruct j; discriminate].
Qed.

(* ================================================================ Prependable *)

Lemma skipn_overwrite {A} a (d l : list A) :
  (a + length d <= length l)%nat -> skipn a (overwrite a d l) = d ++ skipn (a + length d) l.
Proof.
  intros H. unfold overwrite. rewrite skipn_app, firstn_length, Nat.min_l by lia.
  rewrite Nat.sub_diag. cbn [skipn].
  rewrite (skipn_all2 (firstn a l)) by (rewrite firstn_length; lia). reflexivity.
Qed.

Lemma seg_overwrite {A} a k m (d l : list A) :
  0 <= a -> 0 <= m -> Z.of_nat (length d) = k -> a + k <= Z.of_nat (length l) ->
  seg a (k + m) (overwrite (Z.to_nat a) d l) = d ++ seg (a + k) m l.
Proof.
  intros Ha Hm Hk Hl. unfold seg. rewrite skipn_overwrite by lia.
  rewrite firstn_app. replace (Z.to_nat (k + m) - length d)%nat with (Z.to_nat m) by lia.
  rewrite firstn_all2 by lia. f_equal. f_equal. f_equal. lia.
Qed.

Lemma p_view_ok p :
  wf_p p ->
  exists v, p_view p = Ok v /\ wf_view v /\
            vbytes v = seg (voff (pbuf p) + usedIdx p) (vlen (pbuf p) - usedIdx p) (varr (pbuf p)) /\
            Z.of_nat (length (vbytes v)) = p_usedLength p.
Proof.
  intros (Hw & Hu). pose proof Hw as Hw'. unfold wf_view in Hw'.
  unfold p_view, slice2. rewrite slice3_ok by lia. eexists. split; [reflexivity|].
  split; [unfold wf_view; cbn; lia|]. split; [reflexivity|].
  unfold vbytes, p_usedLength. cbn [varr voff vlen]. apply seg_length; lia.
Qed.

(* Prepend(k) for every k in Z: refused (nil, state untouched) exactly when k exceeds the free
   space; otherwise, for k >= 0, the index moves down by k and the region handed out has
   len = cap = k and sits right in front of the used part; a negative k panics AFTER the
   index has been moved (the object is corrupted: out of contract) *)
Lemma p_prepend_spec p k :
  wf_p p ->
  (usedIdx p < k -> p_prepend p k = (p, PNil)) /\
  (0 <= k <= usedIdx p ->
     exists r, p_prepend p k = (mkP (pbuf p) (usedIdx p - k), PRegion r) /\
               wf_view r /\ vlen r = k /\ vcap r = k /\ varr r = varr (pbuf p) /\
               voff r = voff (pbuf p) + (usedIdx p - k)) /\
  (k < 0 -> snd (p_prepend p k) = PPanic /\ usedIdx (fst (p_prepend p k)) = usedIdx p - k).
Proof.
  intros (Hw & Hu). pose proof Hw as Hw'. unfold wf_view in Hw'.
  unfold p_prepend. split; [|split].
  - intros H. replace (usedIdx p <? k) with true by lia. reflexivity.
  - intros H. replace (usedIdx p <? k) with false by lia.
    unfold p_view, slice2. cbn [pbuf usedIdx]. rewrite slice3_ok by lia.
    rewrite slice3_ok by (cbn; lia). eexists. split; [reflexivity|].
    unfold wf_view. cbn. repeat split; lia.
  - intros H. replace (usedIdx p <? k) with false by lia.
    destruct (p_view _) as [v|]; [|split; reflexivity].
    replace (slice3 v 0 k k) with (@Panic View); [split; reflexivity|].
    symmetry. apply slice3_panic_iff. lia.
Qed.

Lemma p_step_refused p k d : wf_p p -> usedIdx p < k -> p_step p (k, d) = p.
Proof.
  intros Hw H. unfold p_step. destruct (p_prepend_spec p k Hw) as (H1 & _). now rewrite (H1 H).
Qed.

Lemma p_step_served p k d v :
  wf_p p -> p_view p = Ok v -> Z.of_nat (length d) = k -> k <= usedIdx p ->
  wf_p (p_step p (k, d)) /\ usedIdx (p_step p (k, d)) = usedIdx p - k /\
  exists v', p_view (p_step p (k, d)) = Ok v' /\ vbytes v' = d ++ vbytes v.
Proof.
  intros Hwp Hv Hd Hk. pose proof Hwp as (Hw & Hu). pose proof Hw as Hw'. unfold wf_view in Hw'.
  destruct (p_prepend_spec p k Hwp) as (_ & H2 & _).
  destruct (H2 ltac:(lia)) as (r & E & Hr & Hl & Hc & Harr & Hoff).
  unfold p_step. rewrite E. unfold p_fill. cbn [pbuf usedIdx].
  rewrite Hl, firstn_all2 by lia.
  set (arr' := overwrite (Z.to_nat (voff r)) d (varr (pbuf p))).
  assert (length arr' = length (varr (pbuf p))) as HL by (apply overwrite_length; lia).
  assert (wf_p (mkP (mkView arr' (voff (pbuf p)) (vlen (pbuf p)) (vcap (pbuf p))) (usedIdx p - k))) as Hwp'.
  { unfold wf_p, wf_view. cbn. rewrite HL. lia. }
  split; [exact Hwp'|]. split; [reflexivity|].
  destruct (p_view_ok _ Hwp') as (v' & Ev' & _ & Hb' & _).
  destruct (p_view_ok _ Hwp) as (v0 & Ev0 & _ & Hb0 & _).
  rewrite Hv in Ev0. inversion Ev0; subst v0.
  exists v'. split; [exact Ev'|]. rewrite Hb', Hb0. cbn [pbuf usedIdx varr voff vlen].
  unfold arr'. rewrite Hoff.
  replace (vlen (pbuf p) - (usedIdx p - k)) with (k + (vlen (pbuf p) - usedIdx p)) by lia.
  rewrite seg_overwrite by lia. f_equal. f_equal. lia.
Qed.

(* every history of Prepend + fill: the free space and the content follow the byte-string
   history; View() = the reserved regions in reverse order (then whatever was used initially) *)
Lemma prep_fold : forall ops p avail regs base,
  wf_p p -> usedIdx p = avail ->
  (exists v, p_view p = Ok v /\ vbytes v = concat (rev regs) ++ base) ->
  Forall (fun op => Z.of_nat (length (snd op)) = fst op) ops ->
  let p' := fold_left p_step ops p in
  let st := fold_left pspec_step ops (avail, regs) in
  wf_p p' /\ usedIdx p' = fst st /\
  exists v, p_view p' = Ok v /\ vbytes v = concat (rev (snd st)) ++ base.
Proof.
  induction ops as [|[k d] ops IH]; intros p avail regs base Hwp Hu Hv Hops.
  - cbn. auto.
  - inversion Hops as [|? ? Hd Hrest]; subst. cbn [fst snd] in Hd.
    cbn [fold_left].
    change (pspec_step (usedIdx p, regs) (k, d))
      with (if usedIdx p <? k then (usedIdx p, regs) else (usedIdx p - k, regs ++ [d])).
    destruct (usedIdx p <? k) eqn:E.
    + rewrite p_step_refused by (assumption || lia). apply IH; auto.
    + destruct Hv as (v & Ev & Hb).
      destruct (p_step_served p k d v Hwp Ev Hd ltac:(lia)) as (Hwp' & Hu' & v' & Ev' & Hb').
      apply IH; try assumption.
      exists v'. split; [exact Ev'|]. rewrite Hb', Hb, rev_app_distr. cbn [rev app concat].
      rewrite app_assoc. reflexivity.
Qed.

Lemma prependable_refines ops p v0 :
  wf_p p -> p_view p = Ok v0 ->
  Forall (fun op => Z.of_nat (length (snd op)) = fst op) ops ->
  let p' := fold_left p_step ops p in
  let st := fold_left pspec_step ops (usedIdx p, []) in
  wf_p p' /\ usedIdx p' = fst st /\
  exists v, p_view p' = Ok v /\ vbytes v = concat (rev (snd st)) ++ vbytes v0 /\
            p_usedLength p' = Z.of_nat (length (concat (rev (snd st)))) + p_usedLength p.
Proof.
  intros Hwp Ev Hops. cbv zeta.
  destruct (prep_fold ops p (usedIdx p) [] (vbytes v0) Hwp eq_refl) as (Hwp' & Hu & v & Ev' & Hb); [|exact Hops|].
  { exists v0. split; [exact Ev|reflexivity]. }
  split; [exact Hwp'|]. split; [exact Hu|]. exists v. split; [exact Ev'|]. split; [exact Hb|].
  destruct (p_view_ok _ Hwp') as (v1 & E1 & _ & _ & HL1). rewrite Ev' in E1. inversion E1; subst v1.
  destruct (p_view_ok _ Hwp) as (v2 & E2 & _ & _ & HL2). rewrite Ev in E2. inversion E2; subst v2.
  rewrite <- HL1, <- HL2, Hb, app_length. lia.
Qed.

Lemma newPrependable_spec size :
  0 <= size ->
  exists p v, newPrependable size = Ok p /\ wf_p p /\ usedIdx p = size /\
              p_view p = Ok v /\ vbytes v = [] /\ p_usedLength p = 0.
Proof.
  intros H. unfold newPrependable, newView. replace (size <? 0) with false by lia.
  set (p := mkP (mkView (repeat 0 (Z.to_nat size)) 0 size size) size).
  assert (wf_p p) as Hwp.
  { unfold wf_p, wf_view, p. cbn. rewrite repeat_length. lia. }
  destruct (p_view_ok p Hwp) as (v & Ev & _ & Hb & HL).
  exists p, v. split; [reflexivity|]. split; [exact Hwp|]. split; [reflexivity|]. split; [exact Ev|].
  assert (p_usedLength p = 0) as H0 by (unfold p_usedLength, p; cbn; lia).
  split; [|exact H0]. rewrite H0 in HL. destruct (vbytes v); [reflexivity|cbn in HL; lia].
Qed.

Lemma newPrependableFromView_spec v :
  wf_view v ->
  let p := newPrependableFromView v in
  wf_p p /\ usedIdx p = 0 /\ exists v', p_view p = Ok v' /\ vbytes v' = vbytes v.
Proof.
  intros Hw. cbv zeta. pose proof Hw as Hw'. unfold wf_view in Hw'.
  assert (wf_p (newPrependableFromView v)) as Hwp by (unfold wf_p, newPrependableFromView; cbn; split; [exact Hw|lia]).
  split; [exact Hwp|]. split; [reflexivity|].
  destruct (p_view_ok _ Hwp) as (v' & Ev & _ & Hb & _). exists v'. split; [exact Ev|].
  rewrite Hb. unfold newPrependableFromView, vbytes. cbn. f_equal; lia.
Qed.

Example prependable_nonvacuous :
  exists p ops v, newPrependable 6 = Ok p /\
    fold_left pspec_step ops (6, []) = (1, [[7; 8]; [5; 6; 9]]) /\
    p_view (fold_left p_step ops p) = Ok v /\ vbytes v = [5; 6; 9; 7; 8] /\
    p_usedLength (fold_left p_step ops p) = 5.
Proof.
  eexists _, [(2, [7; 8]); (5, [1; 1; 1; 1; 1]); (3, [5; 6; 9]); (2, [4; 4])], _.
  split; [reflexivity|]. split; [reflexivity|]. split; [vm_compute; reflexivity|].
  split; reflexivity.
Qed.

(* ---------------------------------------------------------------- packaged View statements *)
Lemma view_trimFront_spec v n :
  wf_view v ->
  (0 <= n <= vlen v ->
     exists v', view_trimFront v n = Ok v' /\ wf_view v' /\
                vbytes v' = skipn (Z.to_nat n) (vbytes v) /\
                vlen v' = vlen v - n /\ vcap v' = vcap v - n /\
                vfull v' = skipn (Z.to_nat n) (vfull v)) /\
  (view_trimFront v n = Panic <-> n < 0 \/ vlen v < n).
Proof. intros H. split; [apply view_trimFront_ok; exact H|apply view_trimFront_panic_iff; exact H]. Qed.

Lemma view_nextBytes_spec v n :
  wf_view v ->
  (0 <= n <= vlen v ->
     exists r v', view_nextBytes v n = Ok (r, v') /\ wf_view v' /\
                  vbytes r = firstn (Z.to_nat n) (vbytes v) /\
                  vbytes v' = skipn (Z.to_nat n) (vbytes v)) /\
  (view_nextBytes v n = Panic <-> n < 0 \/ vlen v < n).
Proof. intros H. split; [apply view_nextBytes_ok; exact H|apply view_nextBytes_panic_iff; exact H]. Qed.

(* a freshly constructed VectorisedView (with the right size) is a well-formed one-object world:
   the starting point of every history of C16_history_refines *)
Lemma world_init_wf h vs :
  Forall wf_view vs ->
  exists h' vv, newVectorisedView h (sumlen vs) vs = (h', vv) /\
    wf_world (mkW h' [vv]) /\ wabs (mkW h' [vv]) = [concat (map vbytes vs)].
Proof.
  intros Hw.
  destruct (newVectorisedView_spec h (sumlen vs) vs Hw) as (h' & vv & E & _ & Hb & _ & Hwf & _).
  exists h', vv. split; [exact E|]. split; [split|].
  - intros i x Hx. destruct i as [|i]; [|destruct i; discriminate]. inversion Hx; subst.
    apply Hwf. reflexivity.
  - intros i j vi vj Hi Hj Hij. destruct i as [|i]; [|destruct i; discriminate].
    destruct j as [|j]; [lia|destruct j; discriminate].
  - unfold wabs. cbn [map wobjs wheap]. now rewrite Hb.
Qed.
