(* Proofs about Model/Demux.v (property C09). *)
From Coq Require Import ZArith Bool List Lia.
From NP Require Import Model.Demux.
Import ListNotations.
Open Scope Z_scope.

(* ------------------------------------------------------------------ equality tests *)

Lemma addr_eqb_eq : forall a b, addr_eqb a b = true <-> a = b.
Proof.
  induction a as [|x a IH]; destruct b as [|y b]; simpl; split; intro H; try congruence; try reflexivity.
  - apply andb_true_iff in H. destruct H as [H1 H2]. apply Z.eqb_eq in H1. apply IH in H2. congruence.
  - inversion H; subst. apply andb_true_iff. split; [apply Z.eqb_refl | apply IH; reflexivity].
Qed.

Lemma addr_eqb_refl a : addr_eqb a a = true.
Proof. apply addr_eqb_eq. reflexivity. Qed.

Lemma addr_eqb_neq a b : addr_eqb a b = false <-> a <> b.
Proof.
  split; intro H.
  - intro E. apply addr_eqb_eq in E. congruence.
  - destruct (addr_eqb a b) eqn:E; [apply addr_eqb_eq in E; contradiction | reflexivity].
Qed.

Lemma tid_eqb_eq : forall a b, tid_eqb a b = true <-> a = b.
Proof.
  intros [p1 a1 q1 r1] [p2 a2 q2 r2]. unfold tid_eqb; simpl. rewrite !andb_true_iff, !Z.eqb_eq, !addr_eqb_eq.
  split; [intros [[[? ?] ?] ?]; subst; reflexivity | intro H; inversion H; subst; auto].
Qed.

Lemma tid_eqb_refl a : tid_eqb a a = true.
Proof. apply tid_eqb_eq. reflexivity. Qed.

Lemma tid_eqb_neq a b : tid_eqb a b = false <-> a <> b.
Proof.
  split; intro H.
  - intro E. apply tid_eqb_eq in E. congruence.
  - destruct (tid_eqb a b) eqn:E; [apply tid_eqb_eq in E; contradiction | reflexivity].
Qed.

Lemma tid_eqb_sym a b : tid_eqb a b = tid_eqb b a.
Proof.
  destruct (tid_eqb a b) eqn:E1, (tid_eqb b a) eqn:E2; try reflexivity.
  - apply tid_eqb_eq in E1. subst. rewrite tid_eqb_refl in E2. discriminate.
  - apply tid_eqb_eq in E2. subst. rewrite tid_eqb_refl in E1. discriminate.
Qed.

Lemma pkey_eqb_eq : forall a b, pkey_eqb a b = true <-> a = b.
Proof.
  intros [a1 a2] [b1 b2]. unfold pkey_eqb; simpl. rewrite andb_true_iff, !Z.eqb_eq.
  split; [intros [? ?]; subst; reflexivity | intro H; inversion H; auto].
Qed.

Lemma pkey_eqb_refl a : pkey_eqb a a = true.
Proof. apply pkey_eqb_eq. reflexivity. Qed.

Lemma pkey_eqb_neq a b : pkey_eqb a b = false <-> a <> b.
Proof.
  split; intro H.
  - intro E. apply pkey_eqb_eq in E. congruence.
  - destruct (pkey_eqb a b) eqn:E; [apply pkey_eqb_eq in E; contradiction | reflexivity].
Qed.

(* ------------------------------------------------------------------ endpoint tables *)

Lemma tlookup_insert_same t id ep : tlookup (tinsert t id ep) id = Some ep.
Proof. unfold tinsert; simpl. rewrite tid_eqb_refl. reflexivity. Qed.

Lemma tlookup_insert_other t id ep id' : id' <> id -> tlookup (tinsert t id ep) id' = tlookup t id'.
Proof.
  intro H. unfold tinsert; simpl. destruct (tid_eqb id id') eqn:E; [|reflexivity].
  apply tid_eqb_eq in E. congruence.
Qed.

Lemma tlookup_delete_same t id : tlookup (tdelete t id) id = None.
Proof.
  induction t as [|[k e] t IH]; simpl; [reflexivity|].
  destruct (tid_eqb k id) eqn:E; [exact IH|]. simpl. rewrite E. exact IH.
Qed.

Lemma tlookup_delete_other t id id' : id' <> id -> tlookup (tdelete t id) id' = tlookup t id'.
Proof.
  intro H. induction t as [|[k e] t IH]; simpl; [reflexivity|].
  destruct (tid_eqb k id) eqn:E.
  - apply tid_eqb_eq in E. subst k. destruct (tid_eqb id id') eqn:E2; [apply tid_eqb_eq in E2; congruence | exact IH].
  - simpl. destruct (tid_eqb k id'); [reflexivity | exact IH].
Qed.

(* [look d k id]: the endpoint registered under id for the protocol pair k *)
Definition look (d : demuxer) (k : pkey) (id : tid) : option Z :=
  match dlookup d k with Some t => tlookup t id | None => None end.
Definition known (d : demuxer) (k : pkey) : bool :=
  match dlookup d k with Some _ => true | None => false end.

Lemma dlookup_dstore_same d k t : known d k = true -> dlookup (dstore d k t) k = Some t.
Proof.
  unfold known. induction d as [|[k' t'] d IH]; simpl; [discriminate|].
  destruct (pkey_eqb k' k) eqn:E; simpl; rewrite E; [reflexivity | exact IH].
Qed.

Lemma dlookup_dstore_other d k t k' : k' <> k -> dlookup (dstore d k t) k' = dlookup d k'.
Proof.
  intro H. induction d as [|[k0 t0] d IH]; simpl; [reflexivity|].
  destruct (pkey_eqb k0 k) eqn:E; simpl.
  - apply pkey_eqb_eq in E. subst k0. destruct (pkey_eqb k k') eqn:E2; [apply pkey_eqb_eq in E2; congruence | reflexivity].
  - destruct (pkey_eqb k0 k'); [reflexivity | exact IH].
Qed.

Lemma known_dstore d k t k' : known (dstore d k t) k' = known d k'.
Proof.
  unfold known. destruct (pkey_eqb k' k) eqn:E.
  - apply pkey_eqb_eq in E. subst k'. destruct (dlookup d k) eqn:F.
    + rewrite dlookup_dstore_same; [reflexivity | unfold known; rewrite F; reflexivity].
    + assert (G : dlookup (dstore d k t) k = None).
      { clear -F. induction d as [|[k0 t0] d IH]; simpl in *; [reflexivity|].
        destruct (pkey_eqb k0 k) eqn:E; [discriminate|]. simpl. rewrite E. apply IH, F. }
      rewrite G. reflexivity.
  - apply pkey_eqb_neq in E. rewrite dlookup_dstore_other by exact E. reflexivity.
Qed.

Lemma look_dstore_same d k t id : known d k = true -> look (dstore d k t) k id = tlookup t id.
Proof. intro H. unfold look. rewrite dlookup_dstore_same by exact H. reflexivity. Qed.

Lemma look_dstore_other d k t k' id : k' <> k -> look (dstore d k t) k' id = look d k' id.
Proof. intro H. unfold look. rewrite dlookup_dstore_other by exact H. reflexivity. Qed.

Lemma look_unknown d k id : known d k = false -> look d k id = None.
Proof. unfold known, look. destruct (dlookup d k); [discriminate | reflexivity]. Qed.

(* ---- singleRegisterEndpoint ---- *)

Lemma singleRegister_spec d net trans id ep :
  let '(d', e) := singleRegister d net trans id ep in
  (forall k, known d' k = known d k) /\
  match look d (net, trans) id with
  | Some _ => e = ErrPortInUse /\ d' = d
  | None =>
      e = ErrNone /\
      forall k id', look d' k id' =
        if pkey_eqb k (net, trans) && known d (net, trans) && tid_eqb id' id then Some ep else look d k id'
  end.
Proof.
  unfold singleRegister, look. destruct (dlookup d (net, trans)) as [t|] eqn:F.
  - destruct (tlookup t id) as [e0|] eqn:G.
    + split; [reflexivity | split; reflexivity].
    + split; [intro k; apply known_dstore|]. split; [reflexivity|].
      assert (K : known d (net, trans) = true) by (unfold known; rewrite F; reflexivity).
      intros k id'. rewrite K, andb_true_r. destruct (pkey_eqb k (net, trans)) eqn:E; simpl.
      * apply pkey_eqb_eq in E. subst k. fold (look (dstore d (net, trans) (tinsert t id ep)) (net, trans) id').
        rewrite look_dstore_same by exact K. destruct (tid_eqb id' id) eqn:E2.
        -- apply tid_eqb_eq in E2. subst. apply tlookup_insert_same.
        -- apply tid_eqb_neq in E2. rewrite tlookup_insert_other by exact E2. rewrite F. reflexivity.
      * apply pkey_eqb_neq in E. fold (look (dstore d (net, trans) (tinsert t id ep)) k id').
        rewrite look_dstore_other by exact E. reflexivity.
  - split; [reflexivity|]. split; [reflexivity|].
    intros k id'. assert (K : known d (net, trans) = false) by (unfold known; rewrite F; reflexivity).
    rewrite K, andb_false_r. reflexivity.
Qed.

(* ---- unregisterEndpoint ---- *)

Definition memZ (x : Z) (l : list Z) : bool := existsb (Z.eqb x) l.

Lemma memZ_In x l : memZ x l = true <-> In x l.
Proof.
  unfold memZ. rewrite existsb_exists. split.
  - intros [y [H1 H2]]. apply Z.eqb_eq in H2. subst. exact H1.
  - intro H. exists x. split; [exact H | apply Z.eqb_refl].
Qed.

Lemma memZ_app x a b : memZ x (a ++ b) = memZ x a || memZ x b.
Proof. unfold memZ. apply existsb_app. Qed.

Lemma unregister_spec : forall nets d trans id,
  (forall k, known (unregisterEndpoint d nets trans id) k = known d k) /\
  (forall k id', look (unregisterEndpoint d nets trans id) k id' =
     if (snd k =? trans) && memZ (fst k) nets && tid_eqb id' id then None else look d k id').
Proof.
  induction nets as [|n ns IH]; intros d trans id; simpl.
  - split; [reflexivity|]. intros k id'. rewrite andb_false_r. reflexivity.
  - set (d1 := match dlookup d (n, trans) with Some t => dstore d (n, trans) (tdelete t id) | None => d end).
    assert (K1 : forall k, known d1 k = known d k).
    { intro k. unfold d1. destruct (dlookup d (n, trans)); [apply known_dstore | reflexivity]. }
    assert (L1 : forall k id', look d1 k id' = if pkey_eqb k (n, trans) && tid_eqb id' id then None else look d k id').
    { intros k id'. unfold d1. destruct (dlookup d (n, trans)) as [t|] eqn:F.
      - assert (K : known d (n, trans) = true) by (unfold known; rewrite F; reflexivity).
        destruct (pkey_eqb k (n, trans)) eqn:E; simpl.
        + apply pkey_eqb_eq in E. subst k. rewrite look_dstore_same by exact K.
          destruct (tid_eqb id' id) eqn:E2.
          * apply tid_eqb_eq in E2. subst. apply tlookup_delete_same.
          * apply tid_eqb_neq in E2. rewrite tlookup_delete_other by exact E2. unfold look. rewrite F. reflexivity.
        + apply pkey_eqb_neq in E. apply look_dstore_other. exact E.
      - destruct (pkey_eqb k (n, trans)) eqn:E; simpl; [|reflexivity].
        apply pkey_eqb_eq in E. subst k. destruct (tid_eqb id' id); [|reflexivity].
        unfold look. rewrite F. reflexivity. }
    destruct (IH d1 trans id) as [IK IL]. split.
    + intro k. rewrite IK. apply K1.
    + intros k id'. rewrite IL, L1. destruct k as [kn kt]; simpl. unfold memZ; simpl. fold (memZ kn ns).
      unfold pkey_eqb; simpl.
      destruct (kt =? trans) eqn:Et; destruct (kn =? n) eqn:En; destruct (memZ kn ns); destruct (tid_eqb id' id); simpl; try reflexivity;
        rewrite ?Z.eqb_sym in *; try rewrite En; try reflexivity.
Qed.

(* ---- registerEndpoint: all-or-nothing over the listed network protocols ---- *)

(* the table [d0] with [id -> ep] added for the pairs (n, trans), n in nets, that the demultiplexer knows *)
Definition added (d0 : demuxer) (nets : list Z) (trans : Z) (id : tid) (ep : Z) (k : pkey) (id' : tid) : option Z :=
  if (snd k =? trans) && memZ (fst k) nets && known d0 k && tid_eqb id' id then Some ep else look d0 k id'.

Definition taken (d0 : demuxer) (nets : list Z) (trans : Z) (id : tid) : bool :=
  existsb (fun n => match look d0 (n, trans) id with Some _ => true | None => false end) nets.

Lemma registerLoop_spec : forall rest done d0 d trans id ep,
  NoDup (done ++ rest) ->
  (forall k, known d k = known d0 k) ->
  (forall k id', look d k id' = added d0 done trans id ep k id') ->
  taken d0 done trans id = false ->
  let '(d', e) := registerLoop d done rest trans id ep in
  (forall k, known d' k = known d0 k) /\
  if taken d0 rest trans id
  then e = ErrPortInUse /\ forall k id', look d' k id' = look d0 k id'
  else e = ErrNone /\ forall k id', look d' k id' = added d0 (done ++ rest) trans id ep k id'.
Proof.
  induction rest as [|n rest IH]; intros done d0 d trans id ep ND HK HL HT; simpl.
  - split; [exact HK|]. split; [reflexivity|]. rewrite app_nil_r. exact HL.
  - pose proof (singleRegister_spec d n trans id ep) as S.
    destruct (singleRegister d n trans id ep) as [d1 e1]. destruct S as [SK SL].
    assert (Hn : memZ n done = false).
    { destruct (memZ n done) eqn:E; [|reflexivity]. apply memZ_In in E.
      apply NoDup_remove_2 in ND. exfalso. apply ND. apply in_or_app. left. exact E. }
    assert (Hcur : look d (n, trans) id = look d0 (n, trans) id).
    { rewrite HL. unfold added; simpl. rewrite Hn, andb_false_r. reflexivity. }
    rewrite Hcur in SL. destruct (look d0 (n, trans) id) as [e0|] eqn:L0; simpl.
    + (* refused at n: roll back *)
      destruct SL as [-> ->]. unfold ErrPortInUse at 1. simpl.
      destruct (unregister_spec done d trans id) as [UK UL]. split.
      * intro k. rewrite UK. apply HK.
      * split; [reflexivity|]. intros k id'. rewrite UL, HL. unfold added.
        destruct ((snd k =? trans) && memZ (fst k) done && tid_eqb id' id) eqn:E.
        -- apply andb_true_iff in E. destruct E as [E E3]. apply andb_true_iff in E. destruct E as [E1 E2].
           apply Z.eqb_eq in E1. apply tid_eqb_eq in E3. subst id'. destruct k as [kn kt]; simpl in *. subst kt.
           (* nothing was there before: taken d0 done = false *)
           unfold taken in HT. rewrite <- not_true_iff_false in HT. 
           destruct (look d0 (kn, trans) id) eqn:F; [|reflexivity].
           exfalso. apply HT. apply existsb_exists. exists kn. split; [apply memZ_In; exact E2 | rewrite F; reflexivity].
        -- destruct (snd k =? trans); destruct (memZ (fst k) done); destruct (tid_eqb id' id); destruct (known d0 k); simpl in *; try reflexivity; discriminate.
    + destruct SL as [-> SL]. simpl.
      assert (ND' : NoDup ((done ++ [n]) ++ rest)) by (rewrite <- app_assoc; exact ND).
      assert (HK' : forall k, known d1 k = known d0 k) by (intro k; rewrite SK; apply HK).
      assert (HL' : forall k id', look d1 k id' = added d0 (done ++ [n]) trans id ep k id').
      { intros k id'. rewrite SL, HL. unfold added. rewrite memZ_app. rewrite HK.
        destruct k as [kn kt]; unfold pkey_eqb; simpl. unfold memZ at 2; simpl. rewrite orb_false_r.
        destruct (kn =? n) eqn:En; destruct (kt =? trans) eqn:Et; destruct (tid_eqb id' id) eqn:Ei; simpl;
          rewrite ?andb_false_r, ?andb_true_r, ?orb_false_r, ?orb_true_r; simpl; try reflexivity;
          try (apply Z.eqb_eq in En; subst kn); try (apply Z.eqb_eq in Et; subst kt); rewrite ?Hn; simpl;
          try (destruct (known d0 (n, trans)); reflexivity);
          destruct (memZ kn done); destruct (known d0 (kn, kt)); destruct (known d0 (kn, trans)); reflexivity. }
      assert (HT' : taken d0 (done ++ [n]) trans id = false).
      { unfold taken. rewrite existsb_app. fold (taken d0 done trans id). rewrite HT. simpl. rewrite L0. reflexivity. }
      specialize (IH (done ++ [n]) d0 d1 trans id ep ND' HK' HL' HT').
      destruct (registerLoop d1 (done ++ [n]) rest trans id ep) as [d2 e2].
      destruct IH as [IK IL]. split; [exact IK|].
      rewrite <- app_assoc in IL. exact IL.
Qed.

(* register: refused (ErrPortInUse) and the table left as it was iff the id is already live for
   one of the listed protocol pairs; otherwise registered for every listed pair the demultiplexer knows *)
Theorem registerEndpoint_spec d nets trans id ep :
  NoDup nets ->
  let '(d', e) := registerEndpoint d nets trans id ep in
  (forall k, known d' k = known d k) /\
  if taken d nets trans id
  then e = ErrPortInUse /\ forall k id', look d' k id' = look d k id'
  else e = ErrNone /\ forall k id', look d' k id' = added d nets trans id ep k id'.
Proof.
  intro ND. unfold registerEndpoint.
  apply (registerLoop_spec nets [] d d trans id ep); try assumption; try reflexivity.
  intros k id'. unfold added. simpl. rewrite andb_false_r. reflexivity.
Qed.

(* without the NoDup hypothesis the statement is false: a list that names a protocol twice is
   refused by its own first registration (and rolled back) *)
Example register_duplicate_protocol_refused :
  let d := newDemuxer netProtos transProtos in
  let id := mkTid 80 [] 0 [] in
  taken d [IPv4; IPv4] UDP id = false /\
  snd (registerEndpoint d [IPv4; IPv4] UDP id 7) = ErrPortInUse /\
  fst (registerEndpoint d [IPv4; IPv4] UDP id 7) = d.
Proof. vm_compute. repeat split. Qed.

(* ------------------------------------------------------------------ findEndpointLocked: most specific match *)

(* a registered id k is addressed by a packet with 4-tuple p (local = destination, remote = source) *)
Definition matches (k p : tid) : Prop :=
  lport k = lport p /\ (laddr k = laddr p \/ laddr k = []) /\
  ((rport k = rport p /\ raddr k = raddr p) \/ (rport k = 0 /\ raddr k = [])).

(* the precedence of the code: remote part given counts 2, local address given counts 1:
   (local, remote) 3 > (any local, remote) 2 > (local, any remote) 1 > (local port only) 0 *)
Definition specificity (k : tid) : Z :=
  (if isNil (raddr k) && (rport k =? 0) then 0 else 2) + (if isNil (laddr k) then 0 else 1).

(* an inbound packet has a destination and a source address *)
Definition wf_pkt (p : tid) : Prop := laddr p <> [] /\ raddr p <> [].

Lemma matches_probes k p :
  matches k p <-> k = probe1 p \/ k = probe2 p \/ k = probe3 p \/ k = probe4 p.
Proof.
  destruct k as [kp ka kq kr], p as [pp pa pq pr]. unfold matches, probe1, probe2, probe3, probe4; simpl. split.
  - intros [H1 [[H2|H2] [[H3 H4]|[H3 H4]]]]; subst; auto.
  - intros [H|[H|[H|H]]]; inversion H; subst; auto 6.
Qed.

Lemma isNil_false (a : addr) : a <> [] -> isNil a = false.
Proof. destruct a; [congruence | reflexivity]. Qed.

Lemma spec_probe1 p : wf_pkt p -> specificity (probe1 p) = 3.
Proof. intros [H1 H2]. unfold specificity, probe1. rewrite (isNil_false _ H1), (isNil_false _ H2). reflexivity. Qed.
Lemma spec_probe2 p : wf_pkt p -> specificity (probe2 p) = 2.
Proof. intros [H1 H2]. unfold specificity, probe2; simpl. rewrite (isNil_false _ H2). reflexivity. Qed.
Lemma spec_probe3 p : wf_pkt p -> specificity (probe3 p) = 1.
Proof. intros [H1 H2]. unfold specificity, probe3; simpl. rewrite (isNil_false _ H1). reflexivity. Qed.
Lemma spec_probe4 p : specificity (probe4 p) = 0.
Proof. reflexivity. Qed.

Definition best_in (lk : tid -> option Z) (p : tid) (k : tid) (e : Z) : Prop :=
  lk k = Some e /\ matches k p /\ forall k' e', lk k' = Some e' -> matches k' p -> specificity k' <= specificity k.

Lemma findEndpoint_spec t p e : wf_pkt p ->
  (findEndpoint t p = Some e <-> exists k, best_in (tlookup t) p k e).
Proof.
  intro W. pose proof (spec_probe1 p W) as S1. pose proof (spec_probe2 p W) as S2.
  pose proof (spec_probe3 p W) as S3. pose proof (spec_probe4 p) as S4.
  assert (M1 : matches (probe1 p) p) by (apply matches_probes; auto).
  assert (M2 : matches (probe2 p) p) by (apply matches_probes; auto).
  assert (M3 : matches (probe3 p) p) by (apply matches_probes; auto).
  assert (M4 : matches (probe4 p) p) by (apply matches_probes; auto 6).
  unfold findEndpoint, best_in. split.
  - destruct (tlookup t (probe1 p)) as [e1|] eqn:L1.
    { intro H; inversion H; subst e1. exists (probe1 p). repeat split; auto.
      intros k' e' Hk' Hm. apply matches_probes in Hm. destruct Hm as [-> | [-> | [-> | -> ]]]; lia. }
    destruct (tlookup t (probe2 p)) as [e2|] eqn:L2.
    { intro H; inversion H; subst e2. exists (probe2 p). repeat split; auto.
      intros k' e' Hk' Hm. apply matches_probes in Hm. destruct Hm as [-> | [-> | [-> | -> ]]]; try lia; congruence. }
    destruct (tlookup t (probe3 p)) as [e3|] eqn:L3.
    { intro H; inversion H; subst e3. exists (probe3 p). repeat split; auto.
      intros k' e' Hk' Hm. apply matches_probes in Hm. destruct Hm as [-> | [-> | [-> | -> ]]]; try lia; congruence. }
    intro L4. exists (probe4 p). repeat split; auto.
    intros k' e' Hk' Hm. apply matches_probes in Hm. destruct Hm as [-> | [-> | [-> | -> ]]]; try lia; congruence.
  - intros [k [Hk [Hm Hmax]]].
    pose proof (Hmax (probe1 p)) as X1. pose proof (Hmax (probe2 p)) as X2. pose proof (Hmax (probe3 p)) as X3.
    apply matches_probes in Hm. destruct Hm as [-> | [-> | [-> | -> ]]].
    + rewrite Hk. reflexivity.
    + destruct (tlookup t (probe1 p)) as [e1|] eqn:L1; [specialize (X1 _ eq_refl M1); lia|]. rewrite Hk. reflexivity.
    + destruct (tlookup t (probe1 p)) as [e1|] eqn:L1; [specialize (X1 _ eq_refl M1); lia|].
      destruct (tlookup t (probe2 p)) as [e2|] eqn:L2; [specialize (X2 _ eq_refl M2); lia|]. rewrite Hk. reflexivity.
    + destruct (tlookup t (probe1 p)) as [e1|] eqn:L1; [specialize (X1 _ eq_refl M1); lia|].
      destruct (tlookup t (probe2 p)) as [e2|] eqn:L2; [specialize (X2 _ eq_refl M2); lia|].
      destruct (tlookup t (probe3 p)) as [e3|] eqn:L3; [specialize (X3 _ eq_refl M3); lia|]. exact Hk.
Qed.

Lemma findEndpoint_none t p :
  findEndpoint t p = None <-> forall k e, tlookup t k = Some e -> ~ matches k p.
Proof.
  unfold findEndpoint. split.
  - intros H k e Hk Hm. apply matches_probes in Hm.
    destruct (tlookup t (probe1 p)) eqn:L1; [discriminate|].
    destruct (tlookup t (probe2 p)) eqn:L2; [discriminate|].
    destruct (tlookup t (probe3 p)) eqn:L3; [discriminate|].
    destruct Hm as [-> | [-> | [-> | -> ]]]; congruence.
  - intro H.
    destruct (tlookup t (probe1 p)) eqn:L1; [exfalso; eapply H; [exact L1 | apply matches_probes; auto]|].
    destruct (tlookup t (probe2 p)) eqn:L2; [exfalso; eapply H; [exact L2 | apply matches_probes; auto]|].
    destruct (tlookup t (probe3 p)) eqn:L3; [exfalso; eapply H; [exact L3 | apply matches_probes; auto]|].
    destruct (tlookup t (probe4 p)) eqn:L4; [exfalso; eapply H; [exact L4 | apply matches_probes; auto 6]|].
    reflexivity.
Qed.

Lemma deliverPacket_spec d net trans p e : wf_pkt p ->
  (deliverPacket d net trans p = Some e <-> exists k, best_in (look d (net, trans)) p k e).
Proof.
  intro W. unfold deliverPacket, best_in, look. destruct (dlookup d (net, trans)) as [t|].
  - apply findEndpoint_spec. exact W.
  - split; [discriminate | intros [k [H _]]; discriminate].
Qed.

Lemma deliverPacket_none d net trans p :
  deliverPacket d net trans p = None <-> forall k e, look d (net, trans) k = Some e -> ~ matches k p.
Proof.
  unfold deliverPacket, look. destruct (dlookup d (net, trans)) as [t|].
  - apply findEndpoint_none.
  - split; [intros _ k e H; discriminate | reflexivity].
Qed.

(* ---- NIC-local demultiplexer first, then the stack's ---- *)

(* e is registered under k for (net, trans): level 0 = in the receiving NIC's demultiplexer, 1 = in the stack's *)
Definition reg (s : stack) (n : nic) (net trans lvl : Z) (k : tid) (e : Z) : Prop :=
  (lvl = 0 /\ look (n_demux n) (net, trans) k = Some e) \/ (lvl = 1 /\ look (st_demux s) (net, trans) k = Some e).

(* (lvl, k) takes precedence over, or is, (lvl', k') *)
Definition precedes (lvl : Z) (k : tid) (lvl' : Z) (k' : tid) : Prop :=
  lvl < lvl' \/ (lvl = lvl' /\ specificity k' <= specificity k).

Definition best_match (s : stack) (n : nic) (net trans : Z) (p : tid) (e : Z) : Prop :=
  exists lvl k, reg s n net trans lvl k e /\ matches k p /\
    forall lvl' k' e', reg s n net trans lvl' k' e' -> matches k' p -> precedes lvl k lvl' k'.

Theorem demux_most_specific s n net trans p rst e :
  knownTrans trans = true -> wf_pkt p ->
  (deliverTransportPacket s n net trans p rst = Delivered e <-> best_match s n net trans p e).
Proof.
  intros KT W. unfold deliverTransportPacket, best_match. rewrite KT; simpl.
  destruct (deliverPacket (n_demux n) net trans p) as [e0|] eqn:D0.
  - apply (deliverPacket_spec _ _ _ _ _ W) in D0. destruct D0 as [k0 [L0 [Mk0 Max0]]]. split.
    + intro H; inversion H; subst e0. exists 0, k0. split; [left; auto|]. split; [exact Mk0|].
      intros lvl' k' e' [[-> R]|[-> R]] Mm; unfold precedes; [right; split; [reflexivity | eapply Max0; eauto] | left; lia].
    + intros [lvl [k [[[-> R]|[-> R]] [Mk Max]]]].
      * (* both are best at level 0: the same key *)
        assert (S1 : specificity k0 <= specificity k).
        { destruct (Max 0 k0 e0 (or_introl (conj eq_refl L0)) Mk0) as [?|[_ ?]]; [lia | assumption]. }
        assert (S2 : specificity k <= specificity k0) by (eapply Max0; eauto).
        apply matches_probes in Mk. apply matches_probes in Mk0.
        pose proof (spec_probe1 p W). pose proof (spec_probe2 p W). pose proof (spec_probe3 p W). pose proof (spec_probe4 p).
        destruct Mk as [-> | [-> | [-> | -> ]]]; destruct Mk0 as [-> | [-> | [-> | -> ]]]; try lia; congruence.
      * exfalso. destruct (Max 0 k0 e0 (or_introl (conj eq_refl L0)) Mk0) as [?|[? _]]; lia.
  - pose proof D0 as N0. rewrite deliverPacket_none in N0.
    destruct (deliverPacket (st_demux s) net trans p) as [e1|] eqn:D1.
    + apply (deliverPacket_spec _ _ _ _ _ W) in D1. destruct D1 as [k1 [L1 [Mk1 Max1]]]. split.
      * intro H; inversion H; subst e1. exists 1, k1. split; [right; auto|]. split; [exact Mk1|].
        intros lvl' k' e' [[-> R]|[-> R]] Mm; [exfalso; eapply N0; eauto|].
        right. split; [reflexivity | eapply Max1; eauto].
      * intros [lvl [k [[[-> R]|[-> R]] [Mk Max]]]]; [exfalso; eapply N0; eauto|].
        assert (S1 : specificity k1 <= specificity k).
        { destruct (Max 1 k1 e1 (or_intror (conj eq_refl L1)) Mk1) as [?|[_ ?]]; [lia | assumption]. }
        assert (S2 : specificity k <= specificity k1) by (eapply Max1; eauto).
        apply matches_probes in Mk. apply matches_probes in Mk1.
        pose proof (spec_probe1 p W). pose proof (spec_probe2 p W). pose proof (spec_probe3 p W). pose proof (spec_probe4 p).
        destruct Mk as [-> | [-> | [-> | -> ]]]; destruct Mk1 as [-> | [-> | [-> | -> ]]]; try lia; congruence.
    + rewrite deliverPacket_none in D1. split; [discriminate|].
      intros [lvl [k [[[-> R]|[-> R]] [Mk _]]]]; exfalso; [eapply N0 | eapply D1]; eauto.
Qed.

(* "and to no other": the declarative best match is a function of the tables *)
Corollary best_match_unique s n net trans p e1 e2 :
  knownTrans trans = true -> wf_pkt p ->
  best_match s n net trans p e1 -> best_match s n net trans p e2 -> e1 = e2.
Proof.
  intros KT W H1 H2. apply (demux_most_specific s n net trans p false _ KT W) in H1.
  apply (demux_most_specific s n net trans p false _ KT W) in H2. congruence.
Qed.

(* nobody matches  <->  no endpoint's HandlePacket runs; the protocol's unknown-destination
   handler runs instead: tcp answers with a RST unless the segment carried RST, udp sends nothing *)
Theorem no_match_no_delivery s n net trans p rst :
  knownTrans trans = true ->
  ((forall lvl k e, reg s n net trans lvl k e -> ~ matches k p) <->
   deliverTransportPacket s n net trans p rst = Unknown ((trans =? TCP) && negb rst)).
Proof.
  intro KT. unfold deliverTransportPacket. rewrite KT; simpl. split.
  - intro H.
    assert (D0 : deliverPacket (n_demux n) net trans p = None).
    { apply deliverPacket_none. intros k e L. apply (H 0 k e). left. auto. }
    assert (D1 : deliverPacket (st_demux s) net trans p = None).
    { apply deliverPacket_none. intros k e L. apply (H 1 k e). right. auto. }
    rewrite D0, D1. reflexivity.
  - destruct (deliverPacket (n_demux n) net trans p) eqn:D0; [discriminate|].
    destruct (deliverPacket (st_demux s) net trans p) eqn:D1; [discriminate|].
    intros _ lvl k e [[-> R]|[-> R]].
    + rewrite deliverPacket_none in D0. eapply D0; eauto.
    + rewrite deliverPacket_none in D1. eapply D1; eauto.
Qed.

(* the outcome names at most one endpoint, and which one does not depend on the RST flag *)
Lemma deliver_outcome_cases s n net trans p rst :
  knownTrans trans = true ->
  (exists e, deliverTransportPacket s n net trans p rst = Delivered e) \/
  deliverTransportPacket s n net trans p rst = Unknown ((trans =? TCP) && negb rst).
Proof.
  intro KT. unfold deliverTransportPacket. rewrite KT; simpl.
  destruct (deliverPacket (n_demux n) net trans p); [left; eauto|].
  destruct (deliverPacket (st_demux s) net trans p); [left; eauto | right; reflexivity].
Qed.

(* ------------------------------------------------------------------ Subnet.Contains / Route.Match *)

Definition is_byte (x : Z) : Prop := 0 <= x < 256.
Definition bytes_ok (a : addr) : Prop := Forall is_byte a.

(* the address as one big-endian number *)
Definition num (a : addr) : Z := fold_left (fun acc x => acc * 256 + x) a 0.

Lemma fold_num_acc : forall a acc,
  fold_left (fun acc x => acc * 256 + x) a acc = acc * 256 ^ Z.of_nat (length a) + num a.
Proof.
  unfold num. induction a as [|x a IH]; intro acc.
  - simpl. lia.
  - cbn [fold_left length]. rewrite IH. rewrite (IH (0 * 256 + x)).
    rewrite Nat2Z.inj_succ, Z.pow_succ_r by lia. ring.
Qed.

Lemma num_cons x a : num (x :: a) = x * 256 ^ Z.of_nat (length a) + num a.
Proof. unfold num at 1. cbn [fold_left]. rewrite fold_num_acc. ring. Qed.

Lemma num_bound a : bytes_ok a -> 0 <= num a < 256 ^ Z.of_nat (length a).
Proof.
  induction 1 as [|x a Hx Ha IH].
  - cbn. lia.
  - rewrite num_cons. cbn [length]. rewrite Nat2Z.inj_succ, Z.pow_succ_r by lia.
    unfold is_byte in Hx. nia.
Qed.

Lemma num_inj : forall a b, length a = length b -> bytes_ok a -> bytes_ok b -> num a = num b -> a = b.
Proof.
  induction a as [|x a IH]; destruct b as [|y b]; intros L Ha Hb E; try discriminate; [reflexivity|].
  inversion Ha as [|? ? Hx Ha']; inversion Hb as [|? ? Hy Hb']; subst. injection L as L.
  rewrite !num_cons in E. rewrite L in E.
  pose proof (num_bound a Ha') as B1. pose proof (num_bound b Hb') as B2. rewrite L in B1.
  set (P := 256 ^ Z.of_nat (length b)) in *.
  assert (x = y) by nia. subst y. f_equal. apply IH; auto. lia.
Qed.

Lemma testbit_hl h l k n : 0 <= k -> 0 <= l < 2 ^ k -> 0 <= n ->
  Z.testbit (h * 2 ^ k + l) n = if n <? k then Z.testbit l n else Z.testbit h (n - k).
Proof.
  intros Hk Hl Hn. destruct (n <? k) eqn:E.
  - apply Z.ltb_lt in E. rewrite <- (Z.mod_pow2_bits_low (h * 2 ^ k + l) k n) by lia.
    f_equal. rewrite Z.add_comm, Z.mod_add by lia. apply Z.mod_small. exact Hl.
  - apply Z.ltb_ge in E. replace n with ((n - k) + k) at 1 by lia.
    rewrite <- Z.div_pow2_bits by lia. f_equal.
    rewrite Z.div_add_l by lia. rewrite Z.div_small by exact Hl. lia.
Qed.

Lemma land_small a b k : 0 <= k -> 0 <= a -> 0 <= b < 2 ^ k -> 0 <= Z.land a b < 2 ^ k.
Proof.
  intros Hk Ha Hb.
  assert (E : Z.land a b = Z.land a b mod 2 ^ k).
  { rewrite <- Z.land_ones by exact Hk. rewrite <- Z.land_assoc. rewrite Z.land_ones by exact Hk.
    rewrite (Z.mod_small b) by exact Hb. reflexivity. }
  rewrite E. apply Z.mod_pos_bound. lia.
Qed.

Lemma land_split h1 l1 h2 l2 k : 0 <= k -> 0 <= l1 < 2 ^ k -> 0 <= l2 < 2 ^ k ->
  Z.land (h1 * 2 ^ k + l1) (h2 * 2 ^ k + l2) = Z.land h1 h2 * 2 ^ k + Z.land l1 l2.
Proof.
  intros Hk H1 H2. apply Z.bits_inj'. intros n Hn.
  rewrite Z.land_spec. rewrite !testbit_hl by (try lia; apply land_small; lia).
  destruct (n <? k); rewrite Z.land_spec; reflexivity.
Qed.

Fixpoint zipland (a m : list Z) : list Z :=
  match a, m with
  | x :: a', y :: m' => Z.land x y :: zipland a' m'
  | _, _ => []
  end.

Lemma zipland_length : forall a m, length a = length m -> length (zipland a m) = length a.
Proof. induction a as [|x a IH]; destruct m as [|y m]; simpl; intro L; try discriminate; [reflexivity|]. f_equal. apply IH. lia. Qed.

Lemma zipland_bytes : forall a m, bytes_ok a -> bytes_ok m -> bytes_ok (zipland a m).
Proof.
  induction a as [|x a IH]; destruct m as [|y m]; simpl; intros Ha Hm; try constructor.
  - inversion Ha; inversion Hm; subst. unfold is_byte in *. change 256 with (2 ^ 8). apply land_small; lia.
  - inversion Ha; inversion Hm; subst. apply IH; assumption.
Qed.

Lemma num_zipland : forall a m, length a = length m -> bytes_ok a -> bytes_ok m ->
  num (zipland a m) = Z.land (num a) (num m).
Proof.
  induction a as [|x a IH]; destruct m as [|y m]; intros L Ha Hm; try discriminate; [reflexivity|].
  inversion Ha; inversion Hm; subst. injection L as L. cbn [zipland]. rewrite !num_cons.
  rewrite zipland_length by exact L. rewrite IH by assumption.
  pose proof (num_bound a H2) as B1. pose proof (num_bound m H6) as B2. rewrite <- L in *.
  replace (256 ^ Z.of_nat (length a)) with (2 ^ (8 * Z.of_nat (length a))) in *
    by (rewrite Z.pow_mul_r by lia; reflexivity).
  symmetry. apply land_split; lia.
Qed.

Lemma maskMatch_zipland : forall a m id, length a = length m -> length a = length id ->
  (maskMatch a m id = true <-> zipland a m = id).
Proof.
  induction a as [|x a IH]; destruct m as [|y m]; destruct id as [|z id]; intros L1 L2; try discriminate; simpl.
  - split; reflexivity.
  - injection L1 as L1. injection L2 as L2. destruct (Z.land x y =? z) eqn:E; simpl.
    + apply Z.eqb_eq in E. rewrite (IH m id L1 L2). split; [intro H; congruence | intro H; inversion H; reflexivity].
    + apply Z.eqb_neq in E. split; [discriminate | intro H; inversion H; contradiction].
Qed.

(* a subnet as NewSubnet builds it: byte strings of equal length *)
Definition wf_subnet (s : subnet) : Prop :=
  length (sn_mask s) = length (sn_addr s) /\ bytes_ok (sn_mask s) /\ bytes_ok (sn_addr s).

(* the declarative meaning: same length, and (address AND mask) = subnet id, on the whole addresses as numbers *)
Definition in_subnet (s : subnet) (a : addr) : Prop :=
  length a = length (sn_addr s) /\ Z.land (num a) (num (sn_mask s)) = num (sn_addr s).

Theorem subnet_contains_spec s a : wf_subnet s -> bytes_ok a ->
  (contains s a = true <-> in_subnet s a).
Proof.
  intros [L [Bm Bi]] Ba. unfold contains, in_subnet.
  destruct (Nat.eqb (length a) (length (sn_addr s))) eqn:E; simpl.
  - apply Nat.eqb_eq in E. rewrite maskMatch_zipland by congruence. split.
    + intro H. split; [exact E|]. rewrite <- num_zipland by (assumption || congruence). congruence.
    + intros [_ H]. rewrite <- num_zipland in H by (assumption || congruence).
      apply num_inj; try assumption.
      * rewrite zipland_length by congruence. exact E.
      * apply zipland_bytes; assumption.
  - apply Nat.eqb_neq in E. split; [discriminate | intros [H _]; contradiction].
Qed.

(* newSubnet produces well-formed subnets *)
Lemma newSubnet_wf a m s : bytes_ok a -> bytes_ok m -> newSubnet a m = Some s -> wf_subnet s.
Proof.
  unfold newSubnet. intros Ba Bm. destruct (Nat.eqb (length a) (length m)) eqn:E; simpl; [|discriminate].
  destruct (outsideMask a m); [discriminate|]. intro H; inversion H; subst. apply Nat.eqb_eq in E.
  unfold wf_subnet; simpl. auto.
Qed.

(* Route.Match is the same test on (Destination, Mask) *)
Theorem route_match_spec r a :
  length (rt_mask r) = length (rt_dest r) -> bytes_ok (rt_mask r) -> bytes_ok (rt_dest r) -> bytes_ok a ->
  (routeMatch r a = true <-> length a = length (rt_dest r) /\ Z.land (num a) (num (rt_mask r)) = num (rt_dest r)).
Proof.
  intros L Bm Bd Ba.
  exact (subnet_contains_spec (mkSubnet (rt_dest r) (rt_mask r)) a (conj L (conj Bm Bd)) Ba).
Qed.

(* ---- contiguous masks: a prefix match ---- *)

Lemma testbit_above x w i : 0 <= x < 2 ^ w -> w <= i -> Z.testbit x i = false.
Proof.
  intros Hx Hi. destruct (Z.eq_dec x 0) as [->|Hn]; [apply Z.testbit_0_l|].
  apply Z.bits_above_log2; [lia|]. assert (0 <= w) by (destruct (Z.le_gt_cases 0 w); [assumption | rewrite Z.pow_neg_r in Hx by lia; lia]).
  apply Z.lt_le_trans with w; [|exact Hi]. apply Z.log2_lt_pow2; lia.
Qed.

Lemma land_prefix x w h : 0 <= h <= w -> 0 <= x < 2 ^ w ->
  Z.land x (2 ^ w - 2 ^ h) = (x / 2 ^ h) * 2 ^ h.
Proof.
  intros Hh Hx.
  assert (M : 2 ^ w - 2 ^ h = Z.shiftl (Z.ones (w - h)) h).
  { rewrite Z.shiftl_mul_pow2 by lia. rewrite Z.ones_equiv. unfold Z.pred.
    replace w with ((w - h) + h) at 1 by lia. rewrite Z.pow_add_r by lia. ring. }
  rewrite M. rewrite <- Z.shiftr_div_pow2, <- Z.shiftl_mul_pow2 by lia.
  apply Z.bits_inj'. intros i Hi. rewrite Z.land_spec, !Z.shiftl_spec by lia.
  destruct (Z.lt_ge_cases i h) as [Hlt|Hge].
  - rewrite (Z.testbit_neg_r _ (i - h)) by lia. rewrite (Z.testbit_neg_r _ (i - h)) by lia. apply andb_false_r.
  - rewrite Z.shiftr_spec by lia. replace (i - h + h) with i by lia.
    destruct (Z.lt_ge_cases i w) as [Hw|Hw].
    + rewrite Z.ones_spec_low by lia. apply andb_true_r.
    + rewrite Z.ones_spec_high by lia. rewrite (testbit_above x w i) by lia. reflexivity.
Qed.

(* for a mask of n leading one-bits (h = 8*len - n trailing zero bits) and a subnet id without
   host bits (what NewSubnet enforces), Contains is: same length and same leading n bits *)
Theorem subnet_contains_prefix s a h :
  wf_subnet s -> bytes_ok a ->
  0 <= h <= 8 * Z.of_nat (length (sn_addr s)) ->
  num (sn_mask s) = 2 ^ (8 * Z.of_nat (length (sn_addr s))) - 2 ^ h ->
  num (sn_addr s) mod 2 ^ h = 0 ->
  (contains s a = true <-> length a = length (sn_addr s) /\ num a / 2 ^ h = num (sn_addr s) / 2 ^ h).
Proof.
  intros W Ba Hh Hm Hid. rewrite (subnet_contains_spec s a W Ba). unfold in_subnet.
  split; intros [L H]; split; try exact L.
  - rewrite Hm in H. pose proof (num_bound a Ba) as B. rewrite L in B.
    replace (256 ^ Z.of_nat (length (sn_addr s))) with (2 ^ (8 * Z.of_nat (length (sn_addr s)))) in B
      by (rewrite Z.pow_mul_r by lia; reflexivity).
    rewrite land_prefix in H by lia. rewrite <- H. rewrite Z.div_mul by lia. reflexivity.
  - rewrite Hm. pose proof (num_bound a Ba) as B. rewrite L in B.
    replace (256 ^ Z.of_nat (length (sn_addr s))) with (2 ^ (8 * Z.of_nat (length (sn_addr s)))) in B
      by (rewrite Z.pow_mul_r by lia; reflexivity).
    rewrite land_prefix by lia. rewrite H.
    pose proof (Z.div_mod (num (sn_addr s)) (2 ^ h)) as D. rewrite Hid in D. lia.
Qed.

(* the hypotheses are satisfiable: 10.0.1.0/24 as NewSubnet builds it, and a member / a non-member *)
Example subnet_example :
  exists s, newSubnet [10;0;1;0] [255;255;255;0] = Some s /\ wf_subnet s /\
    num (sn_mask s) = 2 ^ 32 - 2 ^ 8 /\ num (sn_addr s) mod 2 ^ 8 = 0 /\
    contains s [10;0;1;77] = true /\ contains s [10;0;2;77] = false.
Proof.
  eexists. split; [reflexivity|]. split.
  - unfold wf_subnet, bytes_ok, is_byte; simpl. repeat split; repeat constructor; lia.
  - repeat split.
Qed.

(* ------------------------------------------------------------------ the NIC address filter (getRef) *)

(* the NIC currently holds address a: NIC.endpoints has an entry for it (permanent, or kept alive by references) *)
Definition holds (n : nic) (a : addr) : Prop := exists e, In e (n_eps n) /\ ne_addr e = a.

Lemma lookupNep_some eps a e : lookupNep eps a = Some e -> In e eps /\ ne_addr e = a.
Proof.
  induction eps as [|x eps IH]; simpl; [discriminate|].
  destruct (addr_eqb (ne_addr x) a) eqn:E.
  - intro H; inversion H; subst. apply addr_eqb_eq in E. auto.
  - intro H. destruct (IH H). auto.
Qed.

Lemma lookupNep_none eps a : lookupNep eps a = None <-> forall e, In e eps -> ne_addr e <> a.
Proof.
  induction eps as [|x eps IH]; simpl.
  - split; [intros _ e [] | reflexivity].
  - destruct (addr_eqb (ne_addr x) a) eqn:E.
    + apply addr_eqb_eq in E. split; [discriminate | intro H; exfalso; apply (H x); auto].
    + apply addr_eqb_neq in E. rewrite IH. split.
      * intros H e [<-|Hin]; auto.
      * intros H e Hin. apply H. auto.
Qed.

Lemma holds_lookup n a : holds n a <-> lookupNep (n_eps n) a <> None.
Proof.
  unfold holds. split.
  - intros [e [Hin Ha]] H. rewrite lookupNep_none in H. exact (H e Hin Ha).
  - intro H. destruct (lookupNep (n_eps n) a) as [e|] eqn:L; [|congruence].
    apply lookupNep_some in L. exists e. exact L.
Qed.

Definition wf_nic_subnets (n : nic) : Prop := forall s, In s (n_subnets n) -> wf_subnet s.

(* getRef returns a network endpoint (and the packet is handed to it) iff ... *)
Theorem address_filter n proto dst :
  knownNet proto = true -> wf_nic_subnets n -> bytes_ok dst ->
  (snd (getRef n proto dst) = true <->
   holds n dst \/ n_promisc n = true \/ exists s, In s (n_subnets n) /\ in_subnet s dst).
Proof.
  intros KN WS Bd. unfold getRef. destruct (lookupNep (n_eps n) dst) as [e|] eqn:L.
  - simpl. split; [intros _; left; apply holds_lookup; congruence | reflexivity].
  - assert (NH : ~ holds n dst) by (rewrite holds_lookup; congruence).
    assert (EX : existsb (fun sn => contains sn dst) (n_subnets n) = true <-> exists s, In s (n_subnets n) /\ in_subnet s dst).
    { rewrite existsb_exists. split; intros [s [Hin H]]; exists s; split; auto;
        [apply (subnet_contains_spec s dst (WS s Hin) Bd); exact H | apply (subnet_contains_spec s dst (WS s Hin) Bd); exact H]. }
    destruct (n_promisc n || existsb (fun sn => contains sn dst) (n_subnets n)) eqn:P.
    + unfold addAddressLocked. rewrite KN, L. simpl. split; [|reflexivity]. intros _. right.
      apply orb_true_iff in P. destruct P as [P|P]; [left; exact P | right; apply EX; exact P].
    + simpl. apply orb_false_iff in P. destruct P as [P1 P2]. split; [discriminate|].
      intros [H|[H|H]]; [contradiction | congruence | apply EX in H; congruence].
Qed.

(* ... otherwise nothing runs: no transport code, no state change (forwarding is off) *)
Theorem filter_reject_no_transport s nicID net src dst trans sport dport rst n :
  lookupNic (st_nics s) nicID = Some n ->
  snd (getRef n net dst) = false ->
  deliverNetworkPacket s nicID net src dst trans sport dport rst = (s, false, Dropped).
Proof.
  intros LN G. unfold deliverNetworkPacket. rewrite LN. destruct (knownNet net); simpl; [|reflexivity].
  destruct (getRef n net dst) as [n1 ok]. simpl in G. subst ok. reflexivity.
Qed.

(* the transport layer is entered exactly when the filter accepts *)
Theorem transport_runs_iff_accepted s nicID net src dst trans sport dport rst n :
  lookupNic (st_nics s) nicID = Some n -> knownNet net = true ->
  let '(_, acc, o) := deliverNetworkPacket s nicID net src dst trans sport dport rst in
  acc = snd (getRef n net dst) /\ (o = Dropped <-> acc = false).
Proof.
  intros LN KN. unfold deliverNetworkPacket. rewrite LN, KN. simpl.
  destruct (getRef n net dst) as [n1 ok]. destruct ok; simpl.
  - split; [reflexivity|]. split; [|discriminate].
    unfold deliverTransportPacket. destruct (knownTrans trans); simpl; [|discriminate].
    destruct (deliverPacket (n_demux n1) net trans _); [discriminate|].
    destruct (deliverPacket (st_demux s) net trans _); discriminate.
  - split; [reflexivity|]. split; reflexivity.
Qed.

(* ---- temporary endpoints vanish: a packet leaves the NIC's address table as it found it ---- *)

Definition wf_eps (eps : list nep) : Prop := forall e, In e eps -> 1 <= ne_refs e.

Lemma mapNep_id f eps a :
  (forall e, In e eps -> ne_addr e = a -> f e = e) -> mapNep f eps a = eps.
Proof.
  induction eps as [|x eps IH]; simpl; intro H; [reflexivity|].
  destruct (addr_eqb (ne_addr x) a) eqn:E.
  - apply addr_eqb_eq in E. rewrite H; auto.
  - f_equal. apply IH. intros e Hin. apply H. auto.
Qed.

Lemma mapNep_mapNep f g eps a :
  (forall e, ne_addr (f e) = ne_addr e) ->
  mapNep g (mapNep f eps a) a = mapNep (fun e => g (f e)) eps a.
Proof.
  intro Hf. induction eps as [|x eps IH]; simpl; [reflexivity|].
  destruct (addr_eqb (ne_addr x) a) eqn:E; simpl.
  - rewrite Hf, E. reflexivity.
  - rewrite E. f_equal. exact IH.
Qed.

Lemma lookupNep_mapNep f eps a :
  (forall e, ne_addr (f e) = ne_addr e) ->
  lookupNep (mapNep f eps a) a = option_map f (lookupNep eps a).
Proof.
  intro Hf. induction eps as [|x eps IH]; simpl; [reflexivity|].
  destruct (addr_eqb (ne_addr x) a) eqn:E; simpl.
  - rewrite Hf, E. reflexivity.
  - rewrite E. exact IH.
Qed.

Lemma decRef_incRef eps a : wf_eps eps -> decRef (incRef eps a) a = eps.
Proof.
  intro W. unfold decRef, incRef.
  rewrite lookupNep_mapNep by reflexivity.
  destruct (lookupNep eps a) as [e|] eqn:L; simpl.
  - destruct (lookupNep_some _ _ _ L) as [Hin _]. pose proof (W e Hin) as R.
    replace (ne_refs e + 1 - 1 =? 0) with false by (symmetry; apply Z.eqb_neq; lia).
    rewrite mapNep_mapNep by reflexivity. apply mapNep_id.
    intros [ad pr rf ins] _ _. simpl. f_equal. lia.
  - apply mapNep_id. intros e Hin Ha. rewrite lookupNep_none in L. exfalso. exact (L e Hin Ha).
Qed.

Lemma removeNep_absent eps a : lookupNep eps a = None -> removeNep eps a = eps.
Proof.
  induction eps as [|x eps IH]; simpl; [reflexivity|].
  destruct (addr_eqb (ne_addr x) a); [discriminate|]. intro H. f_equal. apply IH. exact H.
Qed.

Lemma removeNep_app eps x a : removeNep (eps ++ [x]) a = removeNep eps a ++ (if addr_eqb (ne_addr x) a then [] else [x]).
Proof.
  induction eps as [|y eps IH]; simpl.
  - destruct (addr_eqb (ne_addr x) a); reflexivity.
  - destruct (addr_eqb (ne_addr y) a); [exact IH | simpl; f_equal; exact IH].
Qed.

Lemma lookupNep_app eps x a : lookupNep eps a = None -> lookupNep (eps ++ [x]) a = if addr_eqb (ne_addr x) a then Some x else None.
Proof.
  induction eps as [|y eps IH]; simpl; [reflexivity|].
  destruct (addr_eqb (ne_addr y) a); [discriminate | exact IH].
Qed.

Lemma mapNep_app_last f eps x a : lookupNep eps a = None -> ne_addr x = a -> mapNep f (eps ++ [x]) a = eps ++ [f x].
Proof.
  intros L Hx. induction eps as [|y eps IH]; simpl in *.
  - subst a. rewrite addr_eqb_refl. reflexivity.
  - destruct (addr_eqb (ne_addr y) a); [discriminate|]. f_equal. apply IH. exact L.
Qed.

(* after the packet has been handled (and dropped or delivered), the NIC's network endpoints are
   exactly what they were: a reference taken on an existing endpoint is given back, an endpoint
   created for a promiscuous NIC / a subnet is removed again *)
Theorem packet_preserves_addresses n proto dst :
  wf_eps (n_eps n) ->
  let '(n1, ok) := getRef n proto dst in
  ok = true -> decRef (n_eps n1) dst = n_eps n.
Proof.
  intro W. unfold getRef. destruct (lookupNep (n_eps n) dst) as [e|] eqn:L.
  - intros _. simpl. apply decRef_incRef. exact W.
  - destruct (n_promisc n || existsb (fun sn => contains sn dst) (n_subnets n)); [|discriminate].
    unfold addAddressLocked. destruct (knownNet proto); simpl; [|discriminate].
    rewrite L. simpl. intros _. unfold clearInsert.
    rewrite mapNep_app_last by (auto || reflexivity). unfold decRef.
    rewrite lookupNep_app by exact L. simpl. rewrite addr_eqb_refl. simpl.
    rewrite removeNep_app. simpl. rewrite addr_eqb_refl, app_nil_r. apply removeNep_absent. exact L.
Qed.

(* ------------------------------------------------------------------ histories of register / unregister *)

Inductive dop :=
| DReg (nets : list Z) (trans : Z) (id : tid) (ep : Z)
| DUnreg (nets : list Z) (trans : Z) (id : tid).

Definition dstep (d : demuxer) (o : dop) : demuxer * Z :=
  match o with
  | DReg nets trans id ep => registerEndpoint d nets trans id ep
  | DUnreg nets trans id => (unregisterEndpoint d nets trans id, ErrNone)
  end.

(* the abstract specification: the set of live ids, as a function (pair, id) -> endpoint;
   [kn]: the protocol pairs the demultiplexer was created with *)
Definition atable := pkey -> tid -> option Z.
Definition isSome {A} (x : option A) : bool := match x with Some _ => true | None => false end.

Definition astep (kn : pkey -> bool) (T : atable) (o : dop) : atable * Z :=
  match o with
  | DReg nets trans id ep =>
      if existsb (fun n => isSome (T (n, trans) id)) nets then (T, ErrPortInUse)
      else (fun k id' => if (snd k =? trans) && memZ (fst k) nets && kn k && tid_eqb id' id then Some ep else T k id', ErrNone)
  | DUnreg nets trans id =>
      (fun k id' => if (snd k =? trans) && memZ (fst k) nets && tid_eqb id' id then None else T k id', ErrNone)
  end.

(* the endpoint code passes [v4], [v6], [v6; v4] or [v4; v6]: no protocol twice *)
Definition wf_dop (o : dop) : Prop := match o with DReg nets _ _ _ => NoDup nets | DUnreg _ _ _ => True end.

Definition drun (d : demuxer) (ops : list dop) : demuxer * list Z :=
  fold_left (fun st o => let '(d', e) := dstep (fst st) o in (d', snd st ++ [e])) ops (d, []).
Definition arun (kn : pkey -> bool) (T : atable) (ops : list dop) : atable * list Z :=
  fold_left (fun st o => let '(T', e) := astep kn (fst st) o in (T', snd st ++ [e])) ops (T, []).

Lemma existsb_ext_in {A} (f g : A -> bool) l : (forall x, f x = g x) -> existsb f l = existsb g l.
Proof. intro H. induction l as [|x l IH]; simpl; [reflexivity | rewrite H, IH; reflexivity]. Qed.

Lemma dstep_refines kn d T o :
  wf_dop o ->
  (forall k, known d k = kn k) -> (forall k id, look d k id = T k id) ->
  let '(d', e) := dstep d o in let '(T', e') := astep kn T o in
  e = e' /\ (forall k, known d' k = kn k) /\ (forall k id, look d' k id = T' k id).
Proof.
  intros W HK HL. destruct o as [nets trans id ep | nets trans id]; simpl in *.
  - pose proof (registerEndpoint_spec d nets trans id ep W) as S.
    destruct (registerEndpoint d nets trans id ep) as [d' e]. destruct S as [SK SL].
    assert (TK : taken d nets trans id = existsb (fun n => isSome (T (n, trans) id)) nets).
    { unfold taken. apply existsb_ext_in. intro n. rewrite HL. reflexivity. }
    rewrite <- TK. destruct (taken d nets trans id).
    + destruct SL as [-> SL]. split; [reflexivity|]. split; [intro k; rewrite SK; apply HK|].
      intros k id'. rewrite SL. apply HL.
    + destruct SL as [-> SL]. split; [reflexivity|]. split; [intro k; rewrite SK; apply HK|].
      intros k id'. rewrite SL. unfold added. rewrite HK, HL. reflexivity.
  - destruct (unregister_spec nets d trans id) as [UK UL]. split; [reflexivity|].
    split; [intro k; rewrite UK; apply HK|]. intros k id'. rewrite UL, HL. reflexivity.
Qed.

(* for every history of register / unregister calls, the demultiplexer holds exactly the live
   ids of the abstract specification, and answers every call with the specified error *)
Theorem history_refinement d0 ops :
  Forall wf_dop ops ->
  snd (drun d0 ops) = snd (arun (known d0) (look d0) ops) /\
  forall k id, look (fst (drun d0 ops)) k id = fst (arun (known d0) (look d0) ops) k id.
Proof.
  intro W. unfold drun, arun.
  assert (G : forall ops d T es, Forall wf_dop ops ->
     (forall k, known d k = known d0 k) -> (forall k id, look d k id = T k id) ->
     snd (fold_left (fun st o => let '(d', e) := dstep (fst st) o in (d', snd st ++ [e])) ops (d, es)) =
     snd (fold_left (fun st o => let '(T', e) := astep (known d0) (fst st) o in (T', snd st ++ [e])) ops (T, es)) /\
     forall k id, look (fst (fold_left (fun st o => let '(d', e) := dstep (fst st) o in (d', snd st ++ [e])) ops (d, es))) k id =
                  fst (fold_left (fun st o => let '(T', e) := astep (known d0) (fst st) o in (T', snd st ++ [e])) ops (T, es)) k id).
  { clear ops W. induction ops as [|o ops IH]; intros d T es W HK HL.
    - simpl. split; [reflexivity | exact HL].
    - inversion W as [|? ? Wo Wops]; subst. cbn [fold_left fst snd].
      pose proof (dstep_refines (known d0) d T o Wo HK HL) as S.
      destruct (dstep d o) as [d' e]. destruct (astep (known d0) T o) as [T' e'].
      destruct S as [-> [SK SL]]. apply IH; assumption. }
  apply G; auto.
Qed.

(* consequences used for "to no other" *)

(* a second registration under a live id is refused and changes nothing *)
Corollary register_refuses_duplicate d nets trans id ep n e0 :
  NoDup nets -> In n nets -> look d (n, trans) id = Some e0 ->
  snd (registerEndpoint d nets trans id ep) = ErrPortInUse /\
  forall k id', look (fst (registerEndpoint d nets trans id ep)) k id' = look d k id'.
Proof.
  intros ND Hin L. pose proof (registerEndpoint_spec d nets trans id ep ND) as S.
  destruct (registerEndpoint d nets trans id ep) as [d' e]. destruct S as [_ S].
  assert (T : taken d nets trans id = true).
  { unfold taken. apply existsb_exists. exists n. rewrite L. auto. }
  rewrite T in S. exact S.
Qed.

(* a successful registration makes exactly that id live, for exactly the listed pairs *)
Corollary register_adds_exactly d nets trans id ep :
  NoDup nets -> snd (registerEndpoint d nets trans id ep) = ErrNone ->
  forall k id', look (fst (registerEndpoint d nets trans id ep)) k id' =
    if (snd k =? trans) && memZ (fst k) nets && known d k && tid_eqb id' id then Some ep else look d k id'.
Proof.
  intros ND E. pose proof (registerEndpoint_spec d nets trans id ep ND) as S.
  destruct (registerEndpoint d nets trans id ep) as [d' e]. destruct S as [_ S]. simpl in *.
  destruct (taken d nets trans id); destruct S as [E' S]; [subst e; discriminate | exact S].
Qed.

(* unregister removes exactly that id for the listed pairs and nothing else *)
Corollary unregister_removes_exactly d nets trans id k id' :
  look (unregisterEndpoint d nets trans id) k id' =
    if (snd k =? trans) && memZ (fst k) nets && tid_eqb id' id then None else look d k id'.
Proof. apply unregister_spec. Qed.

(* the invariant behind uniqueness is built into the representation used by the statements above:
   [look] is a function, so an id names at most one endpoint per protocol pair at any time *)

(* ------------------------------------------------------------------ end to end: one inbound packet *)

Lemma getRef_demux n proto dst : n_demux (fst (getRef n proto dst)) = n_demux n.
Proof.
  unfold getRef. destruct (lookupNep (n_eps n) dst); [reflexivity|].
  destruct (n_promisc n || existsb (fun sn => contains sn dst) (n_subnets n)); [|reflexivity].
  unfold addAddressLocked. destruct (knownNet proto); simpl; [|reflexivity].
  destruct (lookupNep (n_eps n) dst); reflexivity.
Qed.

Lemma best_match_demux s n n' net trans p e :
  n_demux n' = n_demux n -> (best_match s n' net trans p e <-> best_match s n net trans p e).
Proof. intro E. unfold best_match, reg. rewrite E. reflexivity. Qed.

(* an inbound packet on NIC n reaches endpoint e iff the address filter accepts its destination
   and e is the most specific registration addressed by its 4-tuple *)
Theorem inbound_packet_spec s nicID n net src dst trans sport dport rst e :
  lookupNic (st_nics s) nicID = Some n -> knownNet net = true -> knownTrans trans = true ->
  dst <> [] -> src <> [] ->
  (snd (deliverNetworkPacket s nicID net src dst trans sport dport rst) = Delivered e <->
   snd (getRef n net dst) = true /\ best_match s n net trans (mkTid dport dst sport src) e).
Proof.
  intros LN KN KT Hd Hs. unfold deliverNetworkPacket. rewrite LN, KN. simpl.
  pose proof (getRef_demux n net dst) as GD.
  destruct (getRef n net dst) as [n1 ok]. simpl in GD. destruct ok; simpl.
  - rewrite (demux_most_specific s n1 net trans (mkTid dport dst sport src) rst e KT) by (split; assumption).
    rewrite (best_match_demux s n n1 net trans _ e GD). split; [auto | intros [_ H]; exact H].
  - split; [discriminate | intros [H _]; discriminate].
Qed.

(* ------------------------------------------------------------------ the theorems are about non-trivial states *)

(* a table where all four kinds of id are addressed by one packet: the order of the code *)
Example precedence_example :
  let p := mkTid 80 [10;0;1;1] 7 [10;0;1;100] in
  let t4 := [(probe4 p, 4)] in
  let t34 := (probe3 p, 3) :: t4 in
  let t234 := (probe2 p, 2) :: t34 in
  let t1234 := (probe1 p, 1) :: t234 in
  wf_pkt p /\
  findEndpoint t1234 p = Some 1 /\ findEndpoint t234 p = Some 2 /\      (* (any local, remote) before (local, any remote) *)
  findEndpoint t34 p = Some 3 /\ findEndpoint t4 p = Some 4 /\ findEndpoint [] p = None.
Proof. split; [split; discriminate | vm_compute; repeat split]. Qed.

(* a NIC-local wildcard registration takes precedence over a full 4-tuple in the stack-wide table;
   the same packet on the other NIC goes to the stack-wide one; with promiscuous mode off a packet
   for an address the NIC does not hold reaches nobody *)
Example nic_local_first_example :
  let st0 := newStack [1; 2] [] in
  let ops := [OAddAddr 1 IPv4 [10;0;1;1]; OAddAddr 2 IPv4 [10;0;1;1];
              ORawReg 0 [IPv4] UDP (mkTid 80 [10;0;1;1] 7 [10;0;1;100]) 100;
              ORawReg 1 [IPv4] UDP (mkTid 80 [] 0 []) 101;
              OPacket 1 IPv4 [10;0;1;100] [10;0;1;1] UDP 7 80 false;
              OPacket 2 IPv4 [10;0;1;100] [10;0;1;1] UDP 7 80 false;
              OPacket 1 IPv4 [10;0;1;100] [10;0;1;2] UDP 7 80 false;
              OPromisc 1 true;
              OPacket 1 IPv4 [10;0;1;100] [10;0;1;2] UDP 7 80 false] in
  snd (run st0 ops) =
    [RErr 0; RErr 0; RErr 0; RErr 0; RPkt true (Delivered 101); RPkt true (Delivered 100); RPkt false Dropped;
     RErr 0; RPkt true (Delivered 101)].
Proof. vm_compute. reflexivity. Qed.
