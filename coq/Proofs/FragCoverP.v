(* The executable coverage test [coveredb] (Model/Frag.v, used by the correspondence monitor
   Corr/C08.v) decides exactly the predicate [covers] used in the C08 theorems. *)
From Coq Require Import ZArith Bool List Lia ZifyBool.
From NP Require Import Model.Frag.
Import ListNotations.
Open Scope Z_scope.

Definition icov (ivs : list (Z * Z)) (x : Z) : Prop := exists ab, In ab ivs /\ fst ab <= x <= snd ab.

Section Step.
  Variable p : Z.
  Let g (acc : Z) (ab : Z * Z) : Z := if fst ab <=? p then Z.max acc (snd ab + 1) else acc.

  Lemma fold_ge : forall l acc, acc <= fold_left g l acc.
  Proof.
    induction l as [|ab t IH]; intros acc; cbn [fold_left]; [lia|].
    specialize (IH (g acc ab)). unfold g in *. destruct (fst ab <=? p); lia.
  Qed.

  Lemma fold_reaches : forall l acc ab, In ab l -> fst ab <= p -> snd ab + 1 <= fold_left g l acc.
  Proof.
    induction l as [|c t IH]; intros acc ab Hin Ha; [destruct Hin|]. cbn [fold_left].
    destruct Hin as [->|Hin]; [|apply IH; auto].
    pose proof (fold_ge t (g acc ab)). unfold g in *. destruct (Z.leb_spec (fst ab) p); lia.
  Qed.

  Lemma fold_from : forall l acc, fold_left g l acc = acc \/
    exists ab, In ab l /\ fst ab <= p /\ fold_left g l acc = snd ab + 1.
  Proof.
    induction l as [|c t IH]; intros acc; cbn [fold_left]; [now left|].
    destruct (IH (g acc c)) as [E|[ab [Hin [Ha E]]]].
    - rewrite E. unfold g. destruct (Z.leb_spec (fst c) p); [|now left].
      destruct (Z.max_spec acc (snd c + 1)) as [[_ M]|[_ M]]; rewrite M; [|now left].
      right. exists c. split; [now left|]. split; auto.
    - right. exists ab. split; [now right|auto].
  Qed.
End Step.

Lemma reach_step_ge : forall ivs p, p <= reach_step ivs p.
Proof. intros. apply fold_ge. Qed.

Lemma reach_ge : forall k ivs p, p <= reach k ivs p.
Proof.
  induction k as [|k IH]; intros ivs p; cbn [reach]; [lia|].
  pose proof (reach_step_ge ivs p). pose proof (IH ivs (reach_step ivs p)). lia.
Qed.

(* soundness: everything below the frontier is covered *)
Lemma reach_step_sound : forall ivs p,
  (forall x, 0 <= x < p -> icov ivs x) -> forall x, 0 <= x < reach_step ivs p -> icov ivs x.
Proof.
  intros ivs p Hp x Hx. destruct (Z_lt_dec x p) as [A|A]; [apply Hp; lia|].
  destruct (fold_from p ivs p) as [E|[ab [Hin [Ha E]]]]; unfold reach_step in Hx.
  - rewrite E in Hx. lia.
  - exists ab. split; auto. rewrite E in Hx. lia.
Qed.

Lemma reach_sound : forall k ivs p,
  (forall x, 0 <= x < p -> icov ivs x) -> forall x, 0 <= x < reach k ivs p -> icov ivs x.
Proof.
  induction k as [|k IH]; intros ivs p Hp x Hx; cbn [reach] in Hx; [auto|].
  apply (IH ivs (reach_step ivs p)); auto. apply reach_step_sound; auto.
Qed.

(* completeness: each round below n brings a new interval under the frontier *)
Definition cnt (ivs : list (Z * Z)) (p : Z) : nat := length (filter (fun ab => fst ab <=? p) ivs).

Lemma filter_length_lt : forall (l : list (Z * Z)) f h,
  (forall x, f x = true -> h x = true) -> (exists y, In y l /\ h y = true /\ f y = false) ->
  (length (filter f l) < length (filter h l))%nat.
Proof.
  induction l as [|a t IH]; intros f h Himp [y [Hin [Hy Hfy]]]; [destruct Hin|].
  assert (Hle : forall l', (length (filter f l') <= length (filter h l'))%nat).
  { induction l' as [|b t' IH']; cbn [filter]; [lia|].
    destruct (f b) eqn:Eb; [rewrite (Himp _ Eb); simpl; lia|]. destruct (h b); simpl; lia. }
  cbn [filter]. destruct Hin as [->|Hin].
  - rewrite Hy, Hfy. simpl. pose proof (Hle t). lia.
  - assert (length (filter f t) < length (filter h t))%nat by (apply IH; eauto).
    destruct (f a) eqn:Ea; [rewrite (Himp _ Ea); simpl; lia|]. destruct (h a); simpl; lia.
Qed.

Lemma cnt_le : forall ivs p, (cnt ivs p <= length ivs)%nat.
Proof.
  intros ivs p. unfold cnt. induction ivs as [|a t IH]; cbn [filter length]; [lia|].
  destruct (fst a <=? p); simpl; lia.
Qed.

Lemma progress : forall ivs n p, (forall x, 0 <= x < n -> icov ivs x) -> 0 <= p < n ->
  p < reach_step ivs p /\ (reach_step ivs p < n -> (cnt ivs p < cnt ivs (reach_step ivs p))%nat).
Proof.
  intros ivs n p Hc Hp.
  destruct (Hc p Hp) as [ab [Hin Hab]].
  pose proof (fold_reaches p ivs p ab Hin ltac:(lia)) as Hr. fold (reach_step ivs p) in Hr.
  split; [lia|]. intros Hlt.
  destruct (Hc (reach_step ivs p) ltac:(lia)) as [cd [Hin' Hcd]].
  unfold cnt. apply filter_length_lt.
  - intros x Hx. lia.
  - exists cd. split; auto. split; [lia|].
    destruct (Z.leb_spec (fst cd) p) as [A|A]; auto. exfalso.
    pose proof (fold_reaches p ivs p cd Hin' A) as Hr'. fold (reach_step ivs p) in Hr'. lia.
Qed.

Lemma reach_complete_gen : forall ivs n, (forall x, 0 <= x < n -> icov ivs x) ->
  forall k p, 0 <= p ->
  n <= reach k ivs p \/ (cnt ivs (reach k ivs p) >= k + cnt ivs p)%nat.
Proof.
  intros ivs n Hc. induction k as [|k IH]; intros p Hp; cbn [reach]; [right; lia|].
  destruct (Z_lt_dec p n) as [A|A].
  - destruct (progress ivs n p Hc ltac:(lia)) as [Hgt Hcnt].
    destruct (IH (reach_step ivs p) ltac:(lia)) as [B|B]; [now left|].
    destruct (Z_lt_dec (reach_step ivs p) n) as [C|C].
    + right. specialize (Hcnt C). lia.
    + left. pose proof (reach_ge k ivs (reach_step ivs p)). lia.
  - left. pose proof (reach_ge k ivs (reach_step ivs p)). pose proof (reach_step_ge ivs p). lia.
Qed.

Lemma coveredb_icov : forall ivs n, coveredb ivs n = true <-> (forall x, 0 <= x < n -> icov ivs x).
Proof.
  intros ivs n. unfold coveredb. split.
  - intros H x Hx. apply (reach_sound (length ivs) ivs 0); [intros y Hy; lia|lia].
  - intros Hc. destruct (Z_le_dec n 0) as [A|A].
    + pose proof (reach_ge (length ivs) ivs 0). lia.
    + destruct (reach_complete_gen ivs n Hc (length ivs) 0 ltac:(lia)) as [B|B]; [lia|].
      exfalso. pose proof (cnt_le ivs (reach (length ivs) ivs 0)).
      assert (1 <= cnt ivs 0)%nat.
      { destruct (Hc 0 ltac:(lia)) as [ab [Hin Hab]]. unfold cnt.
        assert (Hin' : In ab (filter (fun ab => fst ab <=? 0) ivs)) by (apply filter_In; split; [auto|lia]).
        destruct (filter (fun ab => fst ab <=? 0) ivs); [destruct Hin'|simpl; lia]. }
      lia.
Qed.

(* the monitor's test on the (first,last) pairs of the fragments = the theorems' predicate *)
Theorem coveredb_covers : forall fs n,
  coveredb (map (fun f => (i_first f, i_last f)) fs) n = true <-> covers fs n.
Proof.
  intros fs n. rewrite coveredb_icov. unfold covers, icov. split.
  - intros H x Hx. destruct (H x Hx) as [ab [Hin Hab]]. apply in_map_iff in Hin.
    destruct Hin as [f [<- Hf]]. exists f. cbn in Hab. auto.
  - intros H x Hx. destruct (H x Hx) as [f [Hf Hab]]. exists (i_first f, i_last f).
    split; [apply in_map_iff; exists f; auto|cbn; auto].
Qed.
