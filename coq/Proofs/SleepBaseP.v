(* Proofs about Model/Sleep.v (property C19), part 1: counting lemmas, the vocabulary of the
   invariant, and how the state updates act on it. *)
From Coq Require Import ZArith Bool List Arith Lia.
From NP Require Import Model.Sleep.
Import ListNotations.

Definition b2n (b : bool) : nat := if b then 1 else 0.

(* occurrences of w in a list of wakers *)
Fixpoint cnt (w : nat) (l : list nat) : nat :=
  match l with
  | [] => 0
  | x :: r => b2n (Nat.eqb x w) + cnt w r
  end.

(* number of threads whose pc satisfies f *)
Fixpoint countp (f : pc -> bool) (l : list pc) : nat :=
  match l with
  | [] => 0
  | p :: r => b2n (f p) + countp f r
  end.

(* ------------------------------------------------------------------ lists *)
Lemma cnt_app : forall w a b, cnt w (a ++ b) = cnt w a + cnt w b.
Proof. induction a; simpl; intros; [reflexivity|]. rewrite IHa. lia. Qed.

Lemma cnt_rev_append : forall w a b, cnt w (rev_append a b) = cnt w a + cnt w b.
Proof. induction a; simpl; intros; [reflexivity|]. rewrite IHa. simpl. lia. Qed.

Lemma cnt_mem : forall w l, mem w l = true <-> 1 <= cnt w l.
Proof.
  unfold mem. induction l; simpl.
  - split; [discriminate|lia].
  - rewrite Nat.eqb_sym. destruct (Nat.eqb a w); simpl; [split; [lia|reflexivity]|exact IHl].
Qed.

Lemma cnt_mem_false : forall w l, mem w l = false <-> cnt w l = 0.
Proof.
  intros. destruct (mem w l) eqn:E.
  - apply cnt_mem in E. split; [discriminate|lia].
  - split; [|reflexivity]. intros _. destruct (cnt w l) eqn:C; [reflexivity|].
    assert (mem w l = true) by (apply cnt_mem; lia). congruence.
Qed.

Lemma cnt_In : forall w l, In w l <-> 1 <= cnt w l.
Proof.
  induction l; simpl.
  - split; [tauto|lia].
  - destruct (Nat.eqb_spec a w); simpl.
    + split; [lia|auto].
    + rewrite IHl. split; [intros [?|?]; [congruence|assumption]|auto].
Qed.

Lemma cnt_NoDup : forall l, (forall w, cnt w l <= 1) -> NoDup l.
Proof.
  induction l; intros H; constructor.
  - intros Hin. apply cnt_In in Hin. specialize (H a). simpl in H. rewrite Nat.eqb_refl in H. simpl in H. lia.
  - apply IHl. intros w. specialize (H w). simpl in H. lia.
Qed.

Lemma NoDup_cnt : forall l, NoDup l -> forall w, cnt w l <= 1.
Proof.
  induction 1; intros w; simpl; [lia|].
  destruct (Nat.eqb_spec x w); simpl; [|apply IHNoDup].
  subst. assert (cnt w l = 0); [|lia].
  destruct (cnt w l) eqn:E; [reflexivity|]. exfalso. apply H. apply cnt_In. lia.
Qed.

Lemma cnt_remove1 : forall w x l, cnt w (remove1 x l) + b2n (Nat.eqb x w && mem x l) = cnt w l.
Proof.
  induction l; simpl.
  - rewrite andb_false_r. reflexivity.
  - unfold mem in *. simpl. rewrite (Nat.eqb_sym x a). destruct (Nat.eqb_spec a x); simpl.
    + subst. rewrite andb_true_r. lia.
    + simpl. lia.
Qed.

Lemma nth_lset_same : forall {A} (l : list A) t x d, t < length l -> nth t (lset l t x) d = x.
Proof. induction l; simpl; intros; [lia|]. destruct t; simpl; [reflexivity|]. apply IHl. lia. Qed.

Lemma nth_lset_other : forall {A} (l : list A) t t' x d, t <> t' -> nth t' (lset l t x) d = nth t' l d.
Proof.
  induction l; simpl; intros; [reflexivity|].
  destruct t, t'; simpl; try reflexivity; [congruence|]. apply IHl. congruence.
Qed.

Lemma length_lset : forall {A} (l : list A) t x, length (lset l t x) = length l.
Proof. induction l; simpl; intros; [reflexivity|]. destruct t; simpl; auto. Qed.

Lemma countp_lset : forall f l t p, t < length l ->
  countp f (lset l t p) + b2n (f (nth t l PIdle)) = countp f l + b2n (f p).
Proof.
  induction l; simpl; intros; [lia|].
  destruct t; simpl; [lia|]. specialize (IHl t p). assert (t < length l) by lia. specialize (IHl H0). lia.
Qed.

Lemma countp_pos : forall f l t, t < length l -> f (nth t l PIdle) = true -> 1 <= countp f l.
Proof.
  induction l; simpl; intros; [lia|]. destruct t; [rewrite H0; simpl; lia|].
  assert (1 <= countp f l) by (apply (IHl t); [lia|assumption]). lia.
Qed.

Lemma countp_zero : forall f l, countp f l = 0 -> forall t, f (nth t l PIdle) = true -> t < length l -> False.
Proof. intros. pose proof (countp_pos f l t H1 H0). lia. Qed.

Lemma countp_exists : forall f l, 1 <= countp f l -> exists t, t < length l /\ f (nth t l PIdle) = true.
Proof.
  induction l; simpl; intros; [lia|]. destruct (f a) eqn:E.
  - exists 0. split; [lia|assumption].
  - simpl in H. destruct (IHl H) as [t [Ht Hf]]. exists (S t). split; [lia|assumption].
Qed.

(* ------------------------------------------------------------------ vocabulary of the invariant *)
(* thread is inside enqueueAssertedWaker(w) before its push has succeeded *)
Definition pusherb (w : nat) (p : pc) : bool :=
  match p with PEnqLoad _ w' | PEnqCas _ w' _ => Nat.eqb w' w | _ => false end.
(* the sleeper has taken w from localList and has not yet swapped w.s *)
Definition heldb (w : nat) (p : pc) : bool :=
  match p with PFSwap _ w' => Nat.eqb w' w | _ => false end.
(* thread is inside enqueueAssertedWaker after its push, handling waitingG *)
Definition gwaitb (p : pc) : bool :=
  match p with PEnqLoadG _ _ | PEnqCasG _ _ _ => true | _ => false end.

Definition pc_ctx (p : pc) : option ctx :=
  match p with
  | PNwLoad1 c | PNwStoreP c | PNwLoad2 c | PNwStore0 c | PNwPark c | PNwParked c | PNwSwap c => Some c
  | _ => None
  end.

Definition is_parked (p : pc) : bool := match p with PNwParked _ => true | _ => false end.
Definition in_window (p : pc) : bool :=
  match p with PNwLoad2 _ | PNwStore0 _ | PNwPark _ => true | _ => false end.
Definition in_loop (p : pc) : bool := match pc_ctx p with Some _ => true | None => false end.

(* program points only the sleeper's goroutine can be at *)
Definition sleeper_pc (p : pc) : bool :=
  match p with
  | PAwLoad _ | PAwCas _ _ | PFSwap _ _ | PDLoad _ _ _ | PDCas _ _ _ => true
  | PEnqLoad k _ | PEnqCas k _ _ | PEnqLoadG k _ | PEnqCasG k _ _ => k
  | _ => in_loop p
  end.

(* what the sleeper's program point says about w being attached, for w in allWakers:
   during AddWaker(w) w is not yet attached; during Done the wakers already handled by the first
   loop and not pending (or already pulled) are detached *)
Definition att0 (p : pc) (w : nat) : bool :=
  match p with
  | PAwLoad w' | PAwCas w' _ => negb (Nat.eqb w' w)
  | PDLoad rest pend cur | PDCas rest pend cur => Nat.eqb cur w || mem w rest || mem w pend
  | _ => match pc_ctx p with Some (CDone pend) => mem w pend | _ => true end
  end.
Definition attb (st : state) (w : nat) : bool := mem w (allw st) && att0 (pc_of st 0) w.

(* "tokens" of w: its occurrences in the two lists + the sleeper holding it + enqueuers before
   their push *)
Definition tok (st : state) (w : nat) : nat :=
  cnt w (shared st) + cnt w (local st) + countp (heldb w) (pcs st) + countp (pusherb w) (pcs st).

Definition tok_ok (a : bool) (s : wstate) (k : nat) : Prop :=
  if a then (s = WSlp /\ k = 0) \/ (s <> WSlp /\ k = 1) else (s <> WSlp /\ k = 0).

Definition wg_ok (g : gstate) (p : pc) : bool :=
  match g with G0 => negb (is_parked p) | GPrep => in_window p | GPark => is_parked p end.

(* the wakers Done still has to deal with *)
Definition done_list (p : pc) : list nat :=
  match p with
  | PDLoad rest pend cur | PDCas rest pend cur => cur :: rest ++ pend
  | _ => match pc_ctx p with Some (CDone pend) => pend | _ => [] end
  end.
Definition done_pend (p : pc) : list nat :=
  match p with
  | PDLoad _ pend _ | PDCas _ pend _ => pend
  | _ => match pc_ctx p with Some (CDone pend) => pend | _ => [] end
  end.

(* [strict = false]: the same without the clause "localList is empty inside nextWaker's loop", for
   the thread-local part of Done's second loop (see Proofs/SleepInvP.v, done_drain) *)
Record ginv (strict : bool) (st : state) : Prop := mkInv {
  i_tok : forall w, tok_ok (attb st w) (ws st w) (tok st w);
  i_all : NoDup (allw st);
  i_only : forall t, t <> 0 -> sleeper_pc (pc_of st t) = false;
  i_len : length (pcs st) = length (progs st);
  i_wg : wg_ok (wg st) (pc_of st 0) = true;
  i_loc : strict = true -> in_loop (pc_of st 0) = true -> local st = [];
  i_swap : forall c, pc_of st 0 = PNwSwap c \/ pc_of st 0 = PNwStore0 c -> shared st <> [];
  i_win : forall c, pc_of st 0 = PNwPark c \/ pc_of st 0 = PNwParked c ->
          wg st <> G0 -> shared st <> [] -> 1 <= countp gwaitb (pcs st);
  i_casg : forall t k w g, pc_of st t = PEnqCasG k w g -> g <> G0;
  i_awcas : forall w p, pc_of st 0 = PAwCas w p -> p <> WAst;
  i_aw : forall w, (pc_of st 0 = PAwLoad w \/ exists p, pc_of st 0 = PAwCas w p) -> mem w (allw st) = true;
  i_dl : NoDup (done_list (pc_of st 0));
  i_dp : forall w, In w (done_pend (pc_of st 0)) -> ws st w <> WSlp;
  i_nopanic : forall t, pc_of st t <> PPanic
}.
Definition inv := ginv true.

(* ------------------------------------------------------------------ updates *)
Lemma pc_of_set_pc : forall st t p t', t < length (pcs st) ->
  pc_of (set_pc st t p) t' = if Nat.eqb t' t then p else pc_of st t'.
Proof.
  intros. unfold pc_of, set_pc. simpl. destruct (Nat.eqb_spec t' t).
  - subst. apply nth_lset_same. assumption.
  - apply nth_lset_other. congruence.
Qed.

Lemma pc_of_out : forall st t, ~ t < length (pcs st) -> pc_of st t = PIdle.
Proof. intros. unfold pc_of. apply nth_overflow. lia. Qed.

Lemma tok_set_pc : forall st t p w, t < length (pcs st) ->
  tok (set_pc st t p) w + b2n (heldb w (pc_of st t)) + b2n (pusherb w (pc_of st t))
  = tok st w + b2n (heldb w p) + b2n (pusherb w p).
Proof.
  intros. unfold tok, set_pc, pc_of. simpl.
  pose proof (countp_lset (heldb w) (pcs st) t p H).
  pose proof (countp_lset (pusherb w) (pcs st) t p H). lia.
Qed.

Lemma gw_set_pc : forall st t p, t < length (pcs st) ->
  countp gwaitb (pcs (set_pc st t p)) + b2n (gwaitb (pc_of st t)) = countp gwaitb (pcs st) + b2n (gwaitb p).
Proof. intros. unfold set_pc, pc_of. simpl. apply countp_lset. assumption. Qed.

Lemma upd_same : forall {A} (f : nat -> A) k v, upd f k v k = v.
Proof. intros. unfold upd. rewrite Nat.eqb_refl. reflexivity. Qed.
Lemma upd_other : forall {A} (f : nat -> A) k v x, x <> k -> upd f k v x = f x.
Proof. intros. unfold upd. destruct (Nat.eqb_spec x k); [congruence|reflexivity]. Qed.
