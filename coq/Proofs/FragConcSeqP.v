(* The concurrent model extends the sequential one: a schedule in which every call runs its three
   phases back to back ([blocks bs]) produces exactly what the sequential Fragmentation.Process
   model ([Frag.run] / [fprocess]) produces on the serialized call sequence: the same results in
   the same order, and the same final map/list contents, list order and f.size ([cabs]). *)
From Coq Require Import ZArith Bool List Lia ZifyBool.
From NP Require Import Model.Frag Model.FragConc Proofs.FragListP Proofs.FragHeapP Proofs.FragHolesP
  Proofs.FragReasmP Proofs.FragP Proofs.FragConcP.
Import ListNotations.
Open Scope Z_scope.

(* ------------------------------------------------------------------ lists of objects vs lists of values *)
Section Abs.
  Variable g : nat -> reasm.

  Definition inj_on (l : list nat) : Prop :=
    forall a b, In a l -> In b l -> r_id (g a) = r_id (g b) -> a = b.

  Lemma inj_on_tail : forall a l, inj_on (a :: l) -> inj_on l.
  Proof. intros a l H x y Hx Hy. apply H; now right. Qed.

  Lemma lookup_map_some : forall l o, inj_on l -> In o l -> lookup (r_id (g o)) (map g l) = Some (g o).
  Proof.
    induction l as [|a t IH]; intros o Hinj Hin; [destruct Hin|].
    cbn [map lookup]. destruct (Z.eqb_spec (r_id (g a)) (r_id (g o))) as [e|ne].
    - rewrite (Hinj a o); auto. now left.
    - destruct Hin as [->|Hin]; [congruence|]. apply IH; auto. eapply inj_on_tail; eauto.
  Qed.

  Lemma lookup_map_none : forall l id, (forall o, In o l -> r_id (g o) <> id) -> lookup id (map g l) = None.
  Proof.
    induction l as [|a t IH]; intros id H; [reflexivity|].
    cbn [map lookup]. destruct (Z.eqb_spec (r_id (g a)) id) as [e|ne].
    - exfalso. apply (H a); auto. now left.
    - apply IH. intros o Ho. apply H. now right.
  Qed.

  Lemma remove_map : forall l o, NoDup l -> inj_on l -> In o l ->
    map g (lremove o l) = remove_id (r_id (g o)) (map g l).
  Proof.
    induction l as [|a t IH]; intros o Hnd Hinj Hin; [destruct Hin|].
    inversion Hnd as [|? ? Ha Ht]; subst.
    cbn [map remove_id lremove filter].
    destruct (Z.eqb_spec (r_id (g a)) (r_id (g o))) as [e|ne].
    - assert (a = o) by (apply Hinj; auto; now left). subst a.
      rewrite Nat.eqb_refl. cbn [negb].
      (* o does not occur in t *)
      f_equal. clear - Ha. induction t as [|b u IHu]; [reflexivity|].
      cbn [filter]. destruct (Nat.eqb_spec b o) as [->|nb]; [exfalso; apply Ha; now left|].
      cbn [negb]. f_equal. apply IHu. intros H. apply Ha. now right.
    - destruct Hin as [->|Hin]; [congruence|].
      destruct (Nat.eqb_spec a o) as [->|na]; [congruence|]. cbn [negb map]. f_equal.
      apply IH; auto. eapply inj_on_tail; eauto.
  Qed.
End Abs.

Lemma map_ext_in' : forall (g1 g2 : nat -> reasm) l, (forall x, In x l -> g1 x = g2 x) -> map g1 l = map g2 l.
Proof. intros. apply map_ext_in. auto. Qed.

Lemma store_map : forall (g : nat -> reasm) l o r', NoDup l -> inj_on g l -> In o l -> r_id r' = r_id (g o) ->
  map (fun x => if (x =? o)%nat then r' else g x) l = store r' (map g l).
Proof.
  intros g. induction l as [|a t IH]; intros o r' Hnd Hinj Hin Hid; [destruct Hin|].
  inversion Hnd as [|? ? Ha Ht]; subst.
  cbn [map store]. rewrite Hid.
  destruct (Z.eqb_spec (r_id (g a)) (r_id (g o))) as [e|ne].
  - assert (a = o) by (apply Hinj; auto; now left). subst a. rewrite Nat.eqb_refl. f_equal.
    apply map_ext_in. intros x Hx. destruct (Nat.eqb_spec x o) as [->|]; [contradiction|reflexivity].
  - destruct Hin as [->|Hin]; [congruence|].
    destruct (Nat.eqb_spec a o) as [->|na]; [congruence|]. f_equal.
    apply IH; auto. eapply inj_on_tail; eauto.
Qed.

Lemma cinv_inj : forall s, CInv s -> inj_on (getobj s) (c_list s).
Proof. intros s I a b Ha Hb E. eapply cinv_ids_inj; eauto. Qed.

(* ------------------------------------------------------------------ rets are untouched by release etc. *)
Lemma rets_app : forall a b, rets (a ++ b) = rets a ++ rets b.
Proof. induction a as [|e t IH]; intros b; [reflexivity|]. destruct e; cbn [app rets]; rewrite ?IH; reflexivity. Qed.

Lemma rets_crelease : forall s o, rets (trace (crelease s o)) = rets (trace s).
Proof.
  intros. unfold crelease. destruct (r_done (getobj s o)); [reflexivity|].
  unfold trace. cbn [c_log rev]. rewrite rets_app. cbn [rets]. apply app_nil_r.
Qed.

Lemma rets_cevict : forall back s, rets (trace (cevict_loop s back)) = rets (trace s).
Proof.
  induction back as [|a t IH]; intros s; cbn [cevict_loop]; [reflexivity|].
  destruct (c_low s <? c_size s); [|reflexivity]. rewrite IH. apply rets_crelease.
Qed.

Lemma rets_calloc : forall s t id now, rets (trace (fst (calloc s t id now))) = rets (trace s).
Proof. intros. unfold calloc, trace. cbn [fst c_log rev]. rewrite rets_app. cbn [rets]. apply app_nil_r. Qed.

Lemma rets_cp1 : forall s t c, rets (trace (fst (cp1 s t c))) = rets (trace s).
Proof.
  intros. unfold cp1. destruct (mlookup (c_id c) (c_map s)) as [o|]; [|apply rets_calloc].
  destruct (tooOld _ _ _); [rewrite rets_calloc; apply rets_crelease|].
  unfold trace. cbn [fst log_ev c_log rev]. rewrite rets_app. cbn [rets]. apply app_nil_r.
Qed.

Lemma rets_cp2 : forall rp s t c o, rets (trace (fst (cp2 rp s t c o))) = rets (trace s).
Proof.
  intros. unfold cp2. destruct (rp _ _ _ _ _) as [r' out]. unfold trace. cbn [fst c_log rev].
  rewrite rets_app. cbn [rets]. apply app_nil_r.
Qed.

Lemma rets_cp3 : forall s t o out,
  rets (trace (cp3 s t o out)) = rets (trace s) ++ [(t, (p_res out, p_done out, false))].
Proof.
  intros. unfold cp3. unfold trace at 1. cbn [log_ev c_log rev]. rewrite rets_app. cbn [rets]. f_equal.
  fold (trace (if c_high (if p_done out || p_err out then crelease (cadd_size s (p_consumed out)) o else cadd_size s (p_consumed out)) <?
                  c_size (if p_done out || p_err out then crelease (cadd_size s (p_consumed out)) o else cadd_size s (p_consumed out))
               then cevict_loop (if p_done out || p_err out then crelease (cadd_size s (p_consumed out)) o else cadd_size s (p_consumed out))
                                (rev (c_list (if p_done out || p_err out then crelease (cadd_size s (p_consumed out)) o else cadd_size s (p_consumed out))))
               else (if p_done out || p_err out then crelease (cadd_size s (p_consumed out)) o else cadd_size s (p_consumed out)))).
  destruct (_ <? _); [rewrite rets_cevict|]; (destruct (p_done out || p_err out); [rewrite rets_crelease|]); reflexivity.
Qed.

(* ------------------------------------------------------------------ the abstraction commutes *)
Lemma cabs_lookup : forall s id, CInv s ->
  lookup id (f_rs (cabs s)) = option_map (getobj s) (mlookup id (c_map s)).
Proof.
  intros s id I. cbn [cabs f_rs].
  destruct (mlookup id (c_map s)) as [o|] eqn:El; cbn [option_map].
  - apply (cinv_mlookup s id o I) in El. destruct El as [Hin <-].
    apply lookup_map_some; [apply cinv_inj; exact I|exact Hin].
  - apply lookup_map_none. intros o Ho E.
    assert (mlookup id (c_map s) = Some o) by (apply cinv_mlookup; auto). congruence.
Qed.

Lemma cabs_release : forall s o, SInv s -> In o (c_list s) ->
  cabs (crelease s o) = release (cabs s) (getobj s o).
Proof.
  intros s o I Hin. pose proof (si_c _ I) as C.
  pose proof (ci_range _ C o Hin) as Hlt.
  assert (Hd : r_done (getobj s o) = false) by (apply (ci_done _ C o Hlt); exact Hin).
  destruct (crelease_spec s o I Hlt) as (_ & _ & _ & _ & _ & _ & G & _ & _).
  unfold release. rewrite Hd. unfold cabs. cbn [f_high f_low f_rs f_size f_timeout].
  assert (El : c_list (crelease s o) = lremove o (c_list s)) by (unfold crelease; rewrite Hd; reflexivity).
  assert (Es : c_size (crelease s o) = if c_size s - r_size (getobj s o) <? 0 then 0 else c_size s - r_size (getobj s o))
    by (unfold crelease; rewrite Hd; reflexivity).
  assert (Eh : c_high (crelease s o) = c_high s /\ c_low (crelease s o) = c_low s /\ c_timeout (crelease s o) = c_timeout s)
    by (unfold crelease; rewrite Hd; auto).
  destruct Eh as (-> & -> & ->). rewrite Es, El. f_equal.
  rewrite <- (remove_map (getobj s)); [|apply (ci_nodup _ C)|apply cinv_inj; exact C|exact Hin].
  apply map_ext_in. intros x Hx. apply lremove_In in Hx. apply G. tauto.
Qed.

Lemma cabs_evict : forall back s, SInv s -> NoDup back -> (forall x, In x back -> In x (c_list s)) ->
  cabs (cevict_loop s back) = evict_loop (cabs s) (map (getobj s) back).
Proof.
  induction back as [|tail prev IH]; intros s I Hnd Hsub; cbn [cevict_loop map evict_loop]; [reflexivity|].
  change (f_low (cabs s)) with (c_low s). change (f_size (cabs s)) with (c_size s).
  destruct (c_low s <? c_size s); [|reflexivity].
  inversion Hnd as [|? ? Ht Hp]; subst.
  assert (Hin : In tail (c_list s)) by (apply Hsub; now left).
  pose proof (ci_range _ (si_c _ I) tail Hin) as Hlt.
  destruct (crelease_spec s tail I Hlt) as (I1 & _ & _ & _ & _ & In1 & G & _ & _).
  rewrite IH; [|exact I1|exact Hp|].
  - rewrite (cabs_release s tail I Hin). f_equal.
    apply map_ext_in. intros x Hx. apply G. intros ->. contradiction.
  - intros x Hx. apply In1. split; [apply Hsub; now right|]. intros ->. contradiction.
Qed.

Lemma cabs_calloc : forall s t id now s' o, SInv s -> mlookup id (c_map s) = None ->
  calloc s t id now = (s', o) ->
  cabs s' = with_rs (cabs s) (newReassembler id now :: f_rs (cabs s)) /\
  getobj s' o = newReassembler id now /\ In o (c_list s').
Proof.
  intros s t id now s' o I Hn E.
  destruct (calloc_spec _ _ _ _ _ _ I Hn E) as (_ & _ & _ & Gn & Go & El & Es & Eh & Elo & Et & _).
  split; [|split; [exact Gn|rewrite El; now left]].
  unfold cabs, with_rs. cbn [f_high f_low f_rs f_size f_timeout]. rewrite Eh, Elo, Es, Et, El. cbn [map].
  rewrite Gn. f_equal. f_equal. apply map_ext_in. intros x Hx. apply Go. apply (ci_range _ (si_c _ I)). exact Hx.
Qed.

Lemma cabs_cp1 : forall s t c s' o, SInv s -> cp1 s t c = (s', o) ->
  acquire (cabs s) (c_id c) (c_now c) = (cabs s', getobj s' o) /\ In o (c_list s').
Proof.
  intros s t c s' o I E. pose proof (si_c _ I) as C. unfold cp1 in E. unfold acquire.
  rewrite (cabs_lookup s (c_id c) C).
  destruct (mlookup (c_id c) (c_map s)) as [o0|] eqn:El; cbn [option_map].
  - pose proof (proj1 (cinv_mlookup s (c_id c) o0 C) El) as [Hin Hid].
    pose proof (ci_range _ C o0 Hin) as Hlt.
    change (f_timeout (cabs s)) with (c_timeout s).
    destruct (tooOld (getobj s o0) (c_now c) (c_timeout s)).
    + destruct (crelease_spec s o0 I Hlt) as (I1 & _ & _ & _ & _ & _ & _ & _ & Ml).
      assert (Hnd : r_done (getobj s o0) = false) by (apply (ci_done _ C o0 Hlt); exact Hin).
      assert (Hnone : mlookup (c_id c) (c_map (crelease s o0)) = None).
      { rewrite Ml, Hnd, Hid, Z.eqb_refl. reflexivity. }
      destruct (cabs_calloc _ _ _ _ _ _ I1 Hnone E) as (Ea & Gn & Hl).
      rewrite (cabs_release s o0 I Hin) in Ea. cbv zeta. rewrite Ea, Gn. auto.
    + injection E as <- <-. split; [reflexivity|exact Hin].
  - destruct (cabs_calloc _ _ _ _ _ _ I El E) as (Ea & Gn & Hl).
    cbv zeta. rewrite Ea, Gn. auto.
Qed.

Lemma cabs_cp2 : forall s t c o s' out, SInv s -> In o (c_list s) ->
  cp2 rprocess s t c o = (s', out) ->
  exists r', rprocess (getobj s o) (c_first c) (c_last c) (c_more c) (c_pl c) = (r', out) /\
    cabs s' = with_rs (cabs s) (store r' (f_rs (cabs s))) /\ getobj s' o = r' /\ c_list s' = c_list s.
Proof.
  intros s t c o s' out I Hin E. pose proof (si_c _ I) as C. unfold cp2 in E.
  destruct (rprocess (getobj s o) (c_first c) (c_last c) (c_more c) (c_pl c)) as [r' out'] eqn:Ep.
  injection E as <- <-. exists r'. split; [reflexivity|].
  destruct (rprocess_keeps _ _ _ _ _ _ _ Ep) as (_ & Ki & _).
  pose proof (ci_range _ C o Hin) as Hlt.
  split; [|split; [unfold getobj; cbn [c_objs]; apply nth_upd_eq; exact Hlt|reflexivity]].
  unfold cabs, with_rs. cbn [f_high f_low f_rs f_size f_timeout c_high c_low c_list c_size c_timeout]. f_equal.
  rewrite <- (store_map (getobj s) (c_list s) o r'); [|apply (ci_nodup _ C)|apply cinv_inj; exact C|exact Hin|exact Ki].
  apply map_ext_in. intros x Hx. unfold getobj at 1. cbn [c_objs].
  destruct (Nat.eqb_spec x o) as [->|ne]; [apply nth_upd_eq; exact Hlt|apply nth_upd_neq; exact ne].
Qed.

Lemma cabs_log : forall s e, cabs (log_ev s e) = cabs s.
Proof. reflexivity. Qed.

Lemma cabs_cp3 : forall s t o fin out, SInv s -> In o (c_list s) ->
  last_p2 t (c_log s) = Some (o, fin, out) ->
  cabs (cp3 s t o out) =
    let f3 := add_size (cabs s) (p_consumed out) in
    let f4 := if p_done out || p_err out then release f3 (getobj s o) else f3 in
    if f_high f4 <? f_size f4 then evict_loop f4 (rev (f_rs f4)) else f4.
Proof.
  intros s t o fin out I Hin Hl. unfold cp3. rewrite cabs_log.
  set (s1 := cadd_size s (p_consumed out)).
  assert (I1 : SInv s1) by (apply SInv_add_size; exact I).
  assert (E1 : cabs s1 = add_size (cabs s) (p_consumed out)) by reflexivity.
  set (s2 := if p_done out || p_err out then crelease s1 o else s1).
  assert (I2 : SInv s2).
  { unfold s2. destruct (p_done out || p_err out); [|exact I1].
    apply crelease_spec; [exact I1|]. apply (ci_range _ (si_c _ I) o Hin). }
  assert (E2 : cabs s2 = if p_done out || p_err out then release (add_size (cabs s) (p_consumed out)) (getobj s o)
                         else add_size (cabs s) (p_consumed out)).
  { unfold s2. destruct (p_done out || p_err out); [|exact E1].
    rewrite (cabs_release s1 o I1 Hin). rewrite E1. reflexivity. }
  cbv zeta. rewrite <- E2.
  change (f_high (cabs s2)) with (c_high s2). change (f_size (cabs s2)) with (c_size s2).
  destruct (c_high s2 <? c_size s2); [|reflexivity].
  rewrite cabs_evict; [|exact I2|apply NoDup_rev; apply (ci_nodup _ (si_c _ I2))|intros x Hx; apply in_rev; exact Hx].
  cbn [cabs f_rs]. rewrite map_rev. reflexivity.
Qed.

(* ------------------------------------------------------------------ one whole call *)
Lemma call_sim : forall s t c s1 o s2 out, SInv s ->
  cp1 s t c = (s1, o) -> cp2 rprocess s1 t c o = (s2, out) ->
  let s3 := cp3 s2 t o out in
  SInv s3 /\ p_panic out = false /\
  step (cabs s) c = (cabs s3, (p_res out, p_done out, false)) /\
  rets (trace s3) = rets (trace s) ++ [(t, (p_res out, p_done out, false))].
Proof.
  intros s t c s1 o s2 out I E1 E2 s3.
  destruct (cp1_spec _ _ _ _ _ I E1) as (I1 & Ho1 & _).
  destruct (cabs_cp1 _ _ _ _ _ I E1) as (Ea & Hin1).
  destruct (cp2_spec _ _ _ _ _ _ I1 Ho1 E2) as (I2 & Hnp & Hlen & _ & _ & _ & Pt & _).
  destruct (cabs_cp2 _ _ _ _ _ _ I1 Hin1 E2) as (r' & Ep & Eb & Gr & El2).
  assert (Hin2 : In o (c_list s2)) by (rewrite El2; exact Hin1).
  assert (Ho2 : (o < length (c_objs s2))%nat) by lia.
  destruct (cp3_spec s2 t o (frag_in c) out I2 Ho2 Pt) as (I3 & _).
  split; [exact I3|]. split; [exact Hnp|]. split.
  - unfold step. rewrite fprocess_unfold. rewrite Ea. rewrite Ep. unfold finish. rewrite Hnp.
    rewrite <- Eb. unfold s3. rewrite (cabs_cp3 s2 t o (frag_in c) out I2 Hin2 Pt). rewrite Gr. reflexivity.
  - unfold s3. rewrite rets_cp3. f_equal.
    pose proof (rets_cp2 rprocess s1 t c o) as R2. rewrite E2 in R2. cbn [fst] in R2. rewrite R2.
    pose proof (rets_cp1 s t c) as R1. rewrite E1 in R1. exact R1.
Qed.

(* ------------------------------------------------------------------ serial schedules *)
Definition all_pc1 (thr : list thread) : Prop := Forall (fun th => t_pc th = PC1) thr.

Lemma upd_map_calls : forall thr t rest, all_pc1 thr ->
  map t_calls (upd thr t (mkT PC1 rest)) = upd (map t_calls thr) t rest.
Proof.
  induction thr as [|a u IH]; intros t rest H; [reflexivity|].
  destruct t; cbn [upd map]; [reflexivity|]. f_equal. apply IH. inversion H; auto.
Qed.

Lemma all_pc1_upd : forall thr t rest, all_pc1 thr -> all_pc1 (upd thr t (mkT PC1 rest)).
Proof.
  induction thr as [|a u IH]; intros t rest H; [constructor|].
  inversion H as [|? ? Ha Hu]; subst. destruct t; cbn [upd]; constructor; auto.
  apply IH. exact Hu.
Qed.

Lemma upd_upd : forall A (l : list A) i x y, upd (upd l i x) i y = upd l i y.
Proof. induction l as [|a t IH]; intros [|i] x y; cbn [upd]; auto. f_equal. apply IH. Qed.

Lemma nth_map_calls : forall thr t, nth t (map t_calls thr) [] = match nth_error thr t with Some th => t_calls th | None => [] end.
Proof.
  induction thr as [|a u IH]; intros [|t]; cbn [map nth nth_error]; auto.
Qed.

(* three consecutive steps of thread t from a configuration in which every thread is between calls *)
Lemma block_sim : forall cf t, SInv (cf_s cf) -> all_pc1 (cf_thr cf) ->
  let cf3 := cstep rprocess (cstep rprocess (cstep rprocess cf t) t) t in
  match nth t (map t_calls (cf_thr cf)) [] with
  | [] => cf3 = cf
  | c :: rest =>
      SInv (cf_s cf3) /\ all_pc1 (cf_thr cf3) /\
      map t_calls (cf_thr cf3) = upd (map t_calls (cf_thr cf)) t rest /\
      exists o, step (cabs (cf_s cf)) c = (cabs (cf_s cf3), o) /\
                rets (trace (cf_s cf3)) = rets (trace (cf_s cf)) ++ [(t, o)]
  end.
Proof.
  intros cf t I Hpc cf3. rewrite nth_map_calls.
  destruct (nth_error (cf_thr cf) t) as [th|] eqn:Eth.
  2:{ unfold cf3, cstep. rewrite Eth. rewrite Eth. rewrite Eth. reflexivity. }
  assert (Htl : (t < length (cf_thr cf))%nat) by (apply nth_error_Some; congruence).
  assert (Epc : t_pc th = PC1).
  { unfold all_pc1 in Hpc. rewrite Forall_forall in Hpc. apply Hpc. eapply nth_error_In; eauto. }
  destruct (t_calls th) as [|c rest] eqn:Ec.
  { unfold cf3, cstep. rewrite Eth, Ec. rewrite Eth, Ec. rewrite Eth, Ec. reflexivity. }
  (* step 1 *)
  set (cf1 := cstep rprocess cf t).
  destruct (cp1 (cf_s cf) t c) as [s1 o] eqn:E1.
  assert (C1 : cf1 = mkConf s1 (upd (cf_thr cf) t (mkT (PC2 o) (c :: rest)))).
  { unfold cf1, cstep. rewrite Eth, Ec, Epc, E1. reflexivity. }
  (* step 2 *)
  set (cf2 := cstep rprocess cf1 t).
  destruct (cp2 rprocess s1 t c o) as [s2 out] eqn:E2.
  destruct (call_sim _ _ _ _ _ _ _ I E1 E2) as (I3 & Hnp & Est & Er).
  assert (C2 : cf2 = mkConf s2 (upd (cf_thr cf) t (mkT (PC3 o out) (c :: rest)))).
  { unfold cf2, cstep. rewrite C1. cbn [cf_thr cf_s]. rewrite nth_error_upd_eq by exact Htl.
    cbn [t_calls t_pc]. rewrite E2, Hnp. rewrite upd_upd. reflexivity. }
  assert (C3 : cf3 = mkConf (cp3 s2 t o out) (upd (cf_thr cf) t (mkT PC1 rest))).
  { unfold cf3. fold cf1. fold cf2. unfold cstep. rewrite C2. cbn [cf_thr cf_s]. rewrite nth_error_upd_eq by exact Htl.
    cbn [t_calls t_pc]. rewrite upd_upd. reflexivity. }
  rewrite C3. cbn [cf_s cf_thr].
  split; [exact I3|]. split; [apply all_pc1_upd; exact Hpc|]. split; [apply upd_map_calls; exact Hpc|].
  exists (p_res out, p_done out, false). split; [exact Est|exact Er].
Qed.

Lemma blocks_cons : forall t bs, blocks (t :: bs) = t :: t :: t :: blocks bs.
Proof. reflexivity. Qed.

Lemma serial_sim : forall bs cf, SInv (cf_s cf) -> all_pc1 (cf_thr cf) ->
  let cf' := crun rprocess cf (blocks bs) in
  let ser := serialize (map t_calls (cf_thr cf)) bs in
  let fo := run (cabs (cf_s cf)) (map snd ser) in
  cabs (cf_s cf') = fst fo /\
  rets (trace (cf_s cf')) = rets (trace (cf_s cf)) ++ combine (map fst ser) (snd fo) /\
  all_pc1 (cf_thr cf') /\
  length (snd fo) = length ser.
Proof.
  induction bs as [|t bs IH]; intros cf I Hpc.
  - cbn. rewrite app_nil_r. auto.
  - rewrite blocks_cons. cbn [crun fold_left]. fold (crun rprocess).
    pose proof (block_sim cf t I Hpc) as B. cbv zeta in B.
    cbn [serialize].
    destruct (nth t (map t_calls (cf_thr cf)) []) as [|c rest] eqn:En.
    + rewrite B. apply IH; auto.
    + destruct B as (I3 & Hpc3 & Ecalls & o & Est & Er).
      set (cf3 := cstep rprocess (cstep rprocess (cstep rprocess cf t) t) t) in *.
      specialize (IH cf3 I3 Hpc3). cbv zeta in IH. rewrite Ecalls in IH.
      destruct IH as (A1 & A2 & A3 & A4).
      cbn [map snd fst run]. rewrite Est.
      destruct (run (cabs (cf_s cf3)) (map snd (serialize (upd (map t_calls (cf_thr cf)) t rest) bs))) as [f'' os] eqn:Erun.
      cbn [fst snd combine length] in *.
      change (fold_left (cstep rprocess) (blocks bs) cf3) with (crun rprocess cf3 (blocks bs)).
      split; [exact A1|]. split; [rewrite A2, Er, <- app_assoc; reflexivity|]. split; [exact A3|]. congruence.
Qed.

(* (c) A schedule made of whole calls (each entry of bs = the three phases of the next call of
   that goroutine, back to back; entries of finished or non-existent goroutines are no-ops)
   produces exactly what the sequential model produces on the serialized calls: the same final
   state (limits, reassemblers in rList order, f.size) and the same results, call by call. *)
Theorem concurrent_sequential_refinement : forall high low timeout progs bs,
  let cf := crun0 high low timeout progs (blocks bs) in
  let ser := serialize progs bs in
  let fo := run (newFragmentation high low timeout) (map snd ser) in
  cabs (cf_s cf) = fst fo /\
  rets (trace (cf_s cf)) = combine (map fst ser) (snd fo) /\
  length (snd fo) = length ser /\
  Forall (fun th => t_pc th = PC1) (cf_thr cf).
Proof.
  intros high low timeout progs bs.
  pose proof (serial_sim bs (cinit high low timeout progs)) as S.
  assert (I0 : SInv (cf_s (cinit high low timeout progs))) by apply (fc_s _ (cinit_inv high low timeout progs)).
  assert (P0 : all_pc1 (cf_thr (cinit high low timeout progs))).
  { unfold cinit, all_pc1. cbn [cf_thr]. rewrite Forall_forall. intros th Hin.
    apply in_map_iff in Hin. destruct Hin as [p [<- _]]. reflexivity. }
  specialize (S I0 P0). cbv zeta in S.
  assert (Ec : map t_calls (cf_thr (cinit high low timeout progs)) = progs).
  { unfold cinit. cbn [cf_thr]. rewrite map_map. cbn [t_calls]. apply map_id. }
  rewrite Ec in S.
  assert (Ea : cabs (cf_s (cinit high low timeout progs)) = newFragmentation high low timeout) by reflexivity.
  rewrite Ea in S. destruct S as (A1 & A2 & A3 & A4).
  unfold crun0. split; [exact A1|]. split; [exact A2|]. split; [exact A4|exact A3].
Qed.

(* the refinement is not vacuous: two goroutines, three calls, the datagram comes out of the
   second call on the id *)
Example sequential_refinement_example :
  let progs := [[raceA; raceB]; [raceB]] in
  let bs := [0; 1; 0; 1]%nat in
  map snd (serialize progs bs) = [raceA; raceB; raceB] /\
  rets (trace (cf_s (crun0 1000 500 10 progs (blocks bs)))) =
    [(0%nat, ([], false, false)); (1%nat, (raceD, true, false)); (0%nat, ([], false, false))] /\
  snd (run (newFragmentation 1000 500 10) [raceA; raceB; raceB]) =
    [([], false, false); (raceD, true, false); ([], false, false)].
Proof. vm_compute. repeat split; reflexivity. Qed.
