(* Checksum helpers of the fixed headers: the general "complemented sum verifies" lemma
   instantiated to IPv4.CalculateChecksum, UDP/TCP.CalculateChecksum. *)
From Coq Require Import ZArith List Bool Lia ZifyBool.
From NP Require Import Model.Bytes Model.Checksum Model.HdrIP Model.HdrTransport
  Proofs.BytesP Proofs.ChecksumP.
Import ListNotations.
Open Scope Z_scope.

Lemma put16_inv b k v b' : put16 b k v = Some b' ->
  (S k < length b)%nat /\ b' = firstn k b ++ [w8 (v / 2^8); w8 v] ++ skipn (k + 2) b.
Proof.
  intros H. destruct (Nat.lt_ge_cases (S k) (length b)) as [L|L].
  - rewrite put16_some in H by exact L. split; [exact L|congruence].
  - rewrite put16_none in H by exact L. discriminate H.
Qed.

(* the first n bytes after a 16-bit write at k, k+2 <= n *)
Lemma firstn_after_put16 b k v b' n : put16 b k v = Some b' -> (k + 2 <= n <= length b)%nat ->
  firstn n b' = firstn k b ++ [w8 (v / 2^8); w8 v] ++ firstn (n - (k + 2)) (skipn (k + 2) b) /\
  firstn k b' = firstn k b /\ skipn (k + 2) b' = skipn (k + 2) b /\ length b' = length b.
Proof.
  intros H Hn. apply put16_inv in H as [L ->].
  assert (Lk : length (firstn k b) = k) by (rewrite firstn_length; lia).
  split; [|split; [|split]].
  - rewrite firstn_app, Lk, firstn_all2 by lia. f_equal.
    replace (n - k)%nat with (2 + (n - (k + 2)))%nat by lia. reflexivity.
  - rewrite <- Lk at 1. rewrite firstn_app, Lk, Nat.sub_diag, firstn_all2 by lia. cbn [firstn]. apply app_nil_r.
  - replace (k + 2)%nat with (length (firstn k b ++ [w8 (v / 2 ^ 8); w8 v])) at 1
      by (rewrite app_length, Lk; reflexivity).
    rewrite app_assoc, skipn_app, skipn_all, Nat.sub_diag. reflexivity.
  - rewrite !app_length, Lk, skipn_length. cbn [length]. lia.
Qed.

(* zero a 16-bit field inside the first n bytes, sum those bytes, store the complement: the first
   n bytes then sum to 0xffff *)
Lemma field_checksum_verifies b k n init b0 b1 :
  bytes_ok b -> is_u16 init -> Nat.even k = true -> (k + 2 <= n <= length b)%nat ->
  Z.of_nat n <= 131072 ->
  put16 b k 0 = Some b0 ->
  put16 b0 k (lnot16 (checksum (firstn n b0) init)) = Some b1 ->
  checksum (firstn n b1) init = 65535.
Proof.
  intros Hb Hi He Hn Hn2 H0 H1.
  destruct (firstn_after_put16 b k 0 b0 n H0 Hn) as (F0 & Fk & Fs & Fl).
  destruct (firstn_after_put16 b0 k _ b1 n H1 ltac:(lia)) as (F1 & _).
  rewrite Fk, Fs in F1. rewrite F1. rewrite F0 in *.
  change (w8 (0 / 2 ^ 8)) with 0. change (w8 0) with 0.
  set (pre := firstn k b) in *. set (post := firstn (n - (k + 2)) (skipn (k + 2) b)) in *.
  assert (Hpre : bytes_ok pre) by apply Forall_firstn, Hb.
  assert (Hpost : bytes_ok post) by apply Forall_firstn, Forall_skipn, Hb.
  assert (Lpre : length pre = k) by (subst pre; rewrite firstn_length; lia).
  assert (Lpost : length post = (n - (k + 2))%nat) by (subst post; rewrite firstn_length, skipn_length; lia).
  pose proof (checksum_verifies_split pre post init Hpre Hpost Hi ltac:(rewrite Lpre; exact He)
                ltac:(rewrite Lpre, Lpost; lia)) as V. cbv zeta in V.
  set (c := checksum (pre ++ [0; 0] ++ post) init) in *.
  assert (Hc : is_u16 c).
  { apply checksum_u16; [|exact Hi|rewrite !app_length, Lpre, Lpost; cbn [length]; lia].
    apply Forall_app; split; [exact Hpre|]. cbn [app].
    constructor; [unfold is_byte; lia|constructor; [unfold is_byte; lia|exact Hpost]]. }
  destruct (lnot16_bytes c Hc) as (B1 & B2 & B3).
  unfold w8. change (2^8) with 256. rewrite (Z.mod_small (lnot16 c / 256)) by (unfold is_byte in B1; lia).
  exact V.
Qed.

(* ---------- IPv4 ---------- *)
Lemma put16_keeps_byte0 b k v b' : put16 b (S k) v = Some b' -> get8 b' 0 = get8 b 0.
Proof.
  intros H. apply put16_inv in H as [L ->]. destruct b as [|x t]; [cbn [length] in L; lia|]. reflexivity.
Qed.

Theorem ipv4_checksum_verifies b hl b0 c b1 :
  bytes_ok b -> ipv4_headerLength b = Some hl -> 12 <= hl -> (Z.to_nat hl <= length b)%nat ->
  ipv4_setChecksum b 0 = Some b0 -> ipv4_calculateChecksum b0 = Some c ->
  ipv4_setChecksum b0 (lnot16 c) = Some b1 ->
  ipv4_calculateChecksum b1 = Some 65535.
Proof.
  unfold ipv4_setChecksum, ipv4_calculateChecksum, ipv4_headerLength.
  intros Hb Hhl H12 Hlen H0 Hc H1.
  rewrite (put16_keeps_byte0 _ _ _ _ H0) in Hc.
  rewrite (put16_keeps_byte0 _ _ _ _ H1), (put16_keeps_byte0 _ _ _ _ H0).
  destruct (get8 b 0) as [x|]; [cbn [obind] in *|discriminate Hhl].
  assert (E : w8 (x mod 16 * 4) = hl) by congruence. rewrite E in *. clear Hhl.
  destruct (firstn_after_put16 b 10 0 b0 (Z.to_nat hl) H0 ltac:(lia)) as (_ & _ & _ & L0).
  destruct (firstn_after_put16 b0 10 _ b1 (Z.to_nat hl) H1 ltac:(lia)) as (_ & _ & _ & L1).
  rewrite getN_at in * by (cbn [Nat.add]; lia). cbn [obind] in *.
  unfold bytes_at in *. cbn [skipn] in *.
  assert (Ec : c = checksum (firstn (Z.to_nat hl) b0) 0) by congruence. subst c.
  f_equal. apply (field_checksum_verifies b 10 (Z.to_nat hl) 0 b0 b1); try assumption.
  - unfold is_u16. lia.
  - reflexivity.
  - lia.
  - unfold w8 in E. change (2^8) with 256 in E. Z.div_mod_to_equations. lia.
Qed.

(* ---------- UDP ---------- *)
Theorem udp_checksum_verifies b partialChecksum totalLen b0 c b1 :
  bytes_ok b -> is_u16 partialChecksum -> is_u16 totalLen ->
  udp_setChecksum b 0 = Some b0 -> udp_calculateChecksum b0 partialChecksum totalLen = Some c ->
  udp_setChecksum b0 (lnot16 c) = Some b1 ->
  udp_calculateChecksum b1 partialChecksum totalLen = Some 65535.
Proof.
  unfold udp_setChecksum, udp_calculateChecksum. intros Hb Hp Ht H0 Hc H1. cbv zeta in *.
  set (init := checksum [w8 (totalLen / 2 ^ 8); w8 totalLen] partialChecksum) in *.
  assert (Hi : is_u16 init).
  { subst init. apply checksum_u16; [|exact Hp|cbn; lia].
    constructor; [apply w8_byte|constructor; [apply w8_byte|constructor]]. }
  destruct (put16_inv _ _ _ _ H0) as [L _].
  destruct (firstn_after_put16 b 6 0 b0 8 H0 ltac:(lia)) as (_ & _ & _ & L0).
  destruct (firstn_after_put16 b0 6 _ b1 8 H1 ltac:(lia)) as (_ & _ & _ & L1).
  rewrite getN_at in * by (cbn [Nat.add]; lia). cbn [obind] in *. unfold bytes_at in *. cbn [skipn] in *.
  assert (Ec : c = checksum (firstn 8 b0) init) by congruence. subst c.
  f_equal. apply (field_checksum_verifies b 6 8 init b0 b1); try assumption; try reflexivity; lia.
Qed.

(* ---------- TCP ---------- *)
Lemma put16_keeps_byte12 b v b' : put16 b 16 v = Some b' -> get8 b' 12 = get8 b 12.
Proof.
  intros H. apply put16_inv in H as [L ->]. unfold get8.
  rewrite nth_error_app1 by (rewrite firstn_length; lia).
  rewrite <- (firstn_skipn 16 b) at 2. rewrite nth_error_app1 by (rewrite firstn_length; lia). reflexivity.
Qed.

Theorem tcp_checksum_verifies b d partialChecksum totalLen b0 c b1 :
  bytes_ok b -> is_u16 partialChecksum -> is_u16 totalLen ->
  tcp_dataOffset b = Some d -> 18 <= d -> (Z.to_nat d <= length b)%nat ->
  tcp_setChecksum b 0 = Some b0 -> tcp_calculateChecksum b0 partialChecksum totalLen = Some c ->
  tcp_setChecksum b0 (lnot16 c) = Some b1 ->
  tcp_calculateChecksum b1 partialChecksum totalLen = Some 65535.
Proof.
  unfold tcp_setChecksum, tcp_calculateChecksum, tcp_dataOffset.
  intros Hb Hp Ht Hd H18 Hlen H0 Hc H1. cbv zeta in *.
  set (init := checksum [w8 (totalLen / 2 ^ 8); w8 totalLen] partialChecksum) in *.
  assert (Hi : is_u16 init).
  { subst init. apply checksum_u16; [|exact Hp|cbn; lia].
    constructor; [apply w8_byte|constructor; [apply w8_byte|constructor]]. }
  rewrite (put16_keeps_byte12 _ _ _ H0) in Hc.
  rewrite (put16_keeps_byte12 _ _ _ H1), (put16_keeps_byte12 _ _ _ H0).
  destruct (get8 b 12) as [x|]; [cbn [obind] in *|discriminate Hd].
  assert (E : w8 (x / 2 ^ 4 * 4) = d) by congruence. rewrite E in *. clear Hd.
  destruct (firstn_after_put16 b 16 0 b0 (Z.to_nat d) H0 ltac:(lia)) as (_ & _ & _ & L0).
  destruct (firstn_after_put16 b0 16 _ b1 (Z.to_nat d) H1 ltac:(lia)) as (_ & _ & _ & L1).
  rewrite getN_at in * by (cbn [Nat.add]; lia). cbn [obind] in *. unfold bytes_at in *. cbn [skipn] in *.
  assert (Ec : c = checksum (firstn (Z.to_nat d) b0) init) by congruence. subst c.
  f_equal. apply (field_checksum_verifies b 16 (Z.to_nat d) init b0 b1); try assumption; try reflexivity.
  - lia.
  - unfold w8 in E. change (2^8) with 256 in E. change (2^4) with 16 in E. Z.div_mod_to_equations. lia.
Qed.

Definition header_checksums_verify :=
  conj ipv4_checksum_verifies (conj udp_checksum_verifies tcp_checksum_verifies).
