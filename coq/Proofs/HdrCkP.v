(* Checksum helpers of the fixed headers: the general "complemented sum verifies" lemma
   instantiated to IPv4.CalculateChecksum, UDP/TCP.CalculateChecksum. *)
From Coq Require Import ZArith List Bool Lia ZifyBool.
From NP Require Import Model.Bytes Model.Checksum Model.HdrIP Model.HdrTransport
  Proofs.BytesP Proofs.ChecksumP.
Import ListNotations.
Open Scope Z_scope.

Lemma put16_inv b k v b' : put16 b k v = Some b' ->
  (S k < length b)%nat /\ b' = firstn k b ++ [w8 (v / 2^8); w8 v] ++ skipn (k + 2) b.
Proof.
  intros H. destruct (Nat.lt_ge_cases (S k) (length b)) as [L|L].
  - rewrite put16_some in H by exact L. split; [exact L|congruence].
  - rewrite put16_none in H by exact L. discriminate H.
Qed.

(* the first n bytes after a 16-bit write at k, k+2 <= n *)
Lemma firstn_after_put16 b k v b' n : put16 b k v = Some b' -> (k + 2 <= n <= length b)%nat ->
  firstn n b' = firstn k b ++ [w8 (v / 2^8); w8 v] ++ firstn (n - (k + 2)) (skipn (k + 2) b) /\
  firstn k b' = firstn k b /\ skipn (k + 2) b' = skipn (k + 2) b /\ length b' = length b.
Proof.
  intros H Hn. apply put16_inv in H as [L ->].
  assert (Lk : length (firstn k b) = k) by (rewrite firstn_length; lia).
  split; [|split; [|split]].
  - rewrite firstn_app, Lk, firstn_all2 by lia. f_equal.
    replace (n - k)%nat with (2 + (n - (k + 2)))%nat by lia. reflexivity.
  - rewrite <- Lk at 1. rewrite firstn_app, Lk, Nat.sub_diag, firstn_all2 by lia. cbn [firstn]. apply app_nil_r.
  - replace (k + 2)%nat with (length (firstn k b ++ [w8 (v / 2 ^ 8); w8 v])) at 1
      by (rewrite app_length, Lk; reflexivity).
    rewrite app_assoc, skipn_app, skipn_all, Nat.sub_diag. reflexivity.
  - rewrite !app_length, Lk, skipn_length. cbn [length]. lia.
Qed.

(* zero a 16-bit field inside the first n bytes, sum those bytes, store the complement: the first
   n bytes then sum to 0xffff *)
Lemma field_checksum_verifies b k n init b0 b1 :
  bytes_ok b -> is_u16 init -> Nat.even k = true -> (k + 2 <= n <= length b)%nat ->
  Z.of_nat n <= 131072 ->
  put16 b k 0 = Some b0 ->
  put16 b0 k (lnot16 (checksum (firstn n b0) init)) = Some b1 ->
  checksum (firstn n b1) init = 65535.
Proof.
  intros Hb Hi He Hn Hn2 H0 H1.
  destruct (firstn_after_put16 b k 0 b0 n H0 Hn) as (F0 & Fk & Fs & Fl).
  destruct (firstn_after_put16 b0 k _ b1 n H1 ltac:(lia)) as (F1 & _).
  rewrite Fk, Fs in F1. rewrite F1. rewrite F0 in *.
  change (w8 (0 / 2 ^ 8)) with 0. change (w8 0) with 0.
  set (pre := firstn k b) in *. set (post := firstn (n - (k + 2)) (skipn (k + 2) b)) in *.
  assert (Hpre : bytes_ok pre) by apply Forall_firstn, Hb.
  assert (Hpost : bytes_ok post) by apply Forall_firstn, Forall_skipn, Hb.
  assert (Lpre : length pre = k) by (subst pre; rewrite firstn_length; lia).
  assert (Lpost : length post = (n - (k + 2))%nat) by (subst post; rewrite firstn_length, skipn_length; lia).
  pose proof (checksum_verifies_split pre post init Hpre Hpost Hi ltac:(rewrite Lpre; exact He)
                ltac:(rewrite Lpre, Lpost; lia)) as V. cbv zeta in V.
  set (c := checksum (pre ++ [0; 0] ++ post) init) in *.
  assert (Hc : is_u16 c).
  { apply checksum_u16; [|exact Hi|rewrite !app_length, Lpre, Lpost; cbn [length]; lia].
    apply Forall_app; split; [exact Hpre|]. cbn [app].
    constructor; [unfold is_byte; lia|constructor; [unfold is_byte; lia|exact Hpost]]. }
  destruct (lnot16_bytes c Hc) as (B1 & B2 & B3).
  unfold w8. change (2^8) with 256. rewrite (Z.mod_small (lnot16 c / 256)) by (unfold is_byte in B1; lia).
  exact V.
Qed.

(* ---------- IPv4 ---------- *)
Lemma put16_keeps_byte0 b k v b' : put16 b (S k) v = Some b' -> get8 b' 0 = get8 b 0.
Proof.
  intros H. apply put16_inv in H as [L ->]. destruct b as [|x t]; [cbn [length] in L; lia|]. reflexivity.
Qed.

Theorem ipv4_checksum_verifies b hl b0 c b1 :
  bytes_ok b -> ipv4_headerLength b = Some hl -> 12 <= hl -> (Z.to_nat hl <= length b)%nat ->
  ipv4_setChecksum b 0 = Some b0 -> ipv4_calculateChecksum b0 = Some c ->
  ipv4_setChecksum b0 (lnot16 c) = Some b1 ->
  ipv4_calculateChecksum b1 = Some 65535.
Proof.
  unfold ipv4_setChecksum, ipv4_calculateChecksum, ipv4_headerLength.
  intros Hb Hhl H12 Hlen H0 Hc H1.
  rewrite (put16_keeps_byte0 _ _ _ _ H0) in Hc.
  rewrite (put16_keeps_byte0 _ _ _ _ H1), (put16_keeps_byte0 _ _ _ _ H0).
  destruct (get8 b 0) as [x|]; [cbn [obind] in *|discriminate Hhl].
  assert (E : w8 (x mod 16 * 4) = hl) by congruence. rewrite E in *. clear Hhl.
  destruct (firstn_after_put16 b 10 0 b0 (Z.to_nat hl) H0 ltac:(lia)) as (_ & _ & _ & L0).
  destruct (firstn_after_put16 b0 10 _ b1 (Z.to_nat hl) H1 ltac:(lia)) as (_ & _ & _ & L1).
  rewrite getN_at in * by (cbn [Nat.add]; lia). cbn [obind] in *.
  unfold bytes_at in *. cbn [skipn] in *.
  assert (Ec : c = checksum (firstn (Z.to_nat hl) b0) 0) by congruence. subst c.
  f_equal. apply (field_checksum_verifies b 10 (Z.to_nat hl) 0 b0 b1); try assumption.
  - unfold is_u16. lia.
  - reflexivity.
  - lia.
  - unfold w8 in E. change (2^8) with 256 in E. Z.div_mod_to_equations. lia.
Qed.

(* ---------- UDP ---------- *)
Theorem udp_checksum_verifies b partialChecksum totalLen b0 c b1 :
  bytes_ok b -> is_u16 partialChecksum -> is_u16 totalLen ->
  udp_setChecksum b 0 = Some b0 -> udp_calculateChecksum b0 partialChecksum totalLen = Some c ->
  udp_setChecksum b0 (lnot16 c) = Some b1 ->
  udp_calculateChecksum b1 partialChecksum totalLen = Some 65535.
Proof.
  unfold udp_setChecksum, udp_calculateChecksum. intros Hb Hp Ht H0 Hc H1. cbv zeta in *.
  set (init := checksum [w8 (totalLen / 2 ^ 8); w8 totalLen] partialChecksum) in *.
  assert (Hi : is_u16 init).
  { subst init. apply checksum_u16; [|exact Hp|cbn; lia].
    constructor; [apply w8_byte|constructor; [apply w8_byte|constructor]]. }
  destruct (put16_inv _ _ _ _ H0) as [L _].
  destruct (firstn_after_put16 b 6 0 b0 8 H0 ltac:(lia)) as (_ & _ & _ & L0).
  destruct (firstn_after_put16 b0 6 _ b1 8 H1 ltac:(lia)) as (_ & _ & _ & L1).
  rewrite getN_at in * by (cbn [Nat.add]; lia). cbn [obind] in *. unfold bytes_at in *. cbn [skipn] in *.
  assert (Ec : c = checksum (firstn 8 b0) init) by congruence. subst c.
  f_equal. apply (field_checksum_verifies b 6 8 init b0 b1); try assumption; try reflexivity; lia.
Qed.

(* ---------- TCP ---------- *)
Lemma put16_keeps_byte12 b v b' : put16 b 16 v = Some b' -> get8 b' 12 = get8 b 12.
Proof.
  intros H. apply put16_inv in H as [L ->]. unfold get8.
  rewrite nth_error_app1 by (rewrite firstn_length; lia).
  rewrite <- (firstn_skipn 16 b) at 2. rewrite nth_error_app1 by (rewrite firstn_length; lia). reflexivity.
Qed.

Theorem tcp_checksum_verifies b d partialChecksum totalLen b0 c b1 :
  bytes_ok b -> is_u16 partialChecksum -> is_u16 totalLen ->
  tcp_dataOffset b = Some d -> 18 <= d -> (Z.to_nat d <= length b)%nat ->
  tcp_setChecksum b 0 = Some b0 -> tcp_calculateChecksum b0 partialChecksum totalLen = Some c ->
  tcp_setChecksum b0 (lnot16 c) = Some b1 ->
  tcp_calculateChecksum b1 partialChecksum totalLen = Some 65535.
Proof.
  unfold tcp_setChecksum, tcp_calculateChecksum, tcp_dataOffset.
  intros Hb Hp Ht Hd H18 Hlen H0 Hc H1. cbv zeta in *.
  set (init := checksum [w8 (totalLen / 2 ^ 8); w8 totalLen] partialChecksum) in *.
  assert (Hi : is_u16 init).
  { subst init. apply checksum_u16; [|exact Hp|cbn; lia].
    constructor; [apply w8_byte|constructor; [apply w8_byte|constructor]]. }
  rewrite (put16_keeps_byte12 _ _ _ H0) in Hc.
  rewrite (put16_keeps_byte12 _ _ _ H1), (put16_keeps_byte12 _ _ _ H0).
  destruct (get8 b 12) as [x|]; [cbn [obind] in *|discriminate Hd].
  assert (E : w8 (x / 2 ^ 4 * 4) = d) by congruence. rewrite E in *. clear Hd.
  destruct (firstn_after_put16 b 16 0 b0 (Z.to_nat d) H0 ltac:(lia)) as (_ & _ & _ & L0).
  destruct (firstn_after_put16 b0 16 _ b1 (Z.to_nat d) H1 ltac:(lia)) as (_ & _ & _ & L1).
  rewrite getN_at in * by (cbn [Nat.add]; lia). cbn [obind] in *. unfold bytes_at in *. cbn [skipn] in *.
  assert (Ec : c = checksum (firstn (Z.to_nat d) b0) init) by congruence. subst c.
  f_equal. apply (field_checksum_verifies b 16 (Z.to_nat d) init b0 b1); try assumption; try reflexivity.
  - lia.
  - unfold w8 in E. change (2^8) with 256 in E. change (2^4) with 16 in E. Z.div_mod_to_equations. lia.
Qed.

Definition header_checksums_verify :=
  conj ipv4_checksum_verifies (conj udp_checksum_verifies tcp_checksum_verifies).

(* ---------- the incremental helpers IPv4.EncodePartial and TCP.EncodePartial ---------- *)
Tactic Notation "cells" ident(b) integer(n) hyp(H) := do n (destruct b as [|?x b]; [cbn [length] in H; lia|]).
Ltac hdr_eval :=
  cbn -[Z.mul Z.add Z.sub Z.opp Z.div Z.modulo Z.pow Z.ltb Z.leb Z.eqb Z.even w8 w16 w32 bor1 checksum lnot16 Z.to_nat Z.of_nat].

Ltac hev H :=
  cbn -[Z.mul Z.add Z.sub Z.opp Z.div Z.modulo Z.pow Z.ltb Z.leb Z.eqb Z.even w8 w16 w32 bor1 checksum lnot16 Z.to_nat Z.of_nat] in H.

Lemma oc_partial T tl : 0 <= T -> 0 <= tl ->
  oc_norm (T + tl + lnot16 (oc_norm (oc_norm T + tl))) = 65535.
Proof.
  intros HT Htl. rewrite oc_norm_add by lia. apply oc_norm_complement. lia.
Qed.

(* IPv4.EncodePartial: if the partial checksum is the sum of the header with the total-length and
   checksum fields zeroed, the header it produces carries the total length and verifies *)
Theorem ipv4_encodePartial_verifies b hl bz p tl b' :
  bytes_ok b -> ipv4_headerLength b = Some hl -> 12 <= hl -> (Z.to_nat hl <= length b)%nat -> is_u16 tl ->
  obind (ipv4_setTotalLength b 0) (fun x => ipv4_setChecksum x 0) = Some bz ->
  ipv4_calculateChecksum bz = Some p ->
  ipv4_encodePartial b p tl = Some b' ->
  ipv4_totalLength b' = Some tl /\ ipv4_calculateChecksum b' = Some 65535.
Proof.
  intros Hb Hhl H12 Hlen Htl Hz Hp He.
  assert (Hl12 : (12 <= length b)%nat) by lia.
  unfold ipv4_encodePartial, ipv4_setTotalLength, ipv4_setChecksum, ipv4_calculateChecksum,
    ipv4_headerLength, ipv4_totalLength in *.
  cells b 12 Hl12. hev Hz. hev Hhl. hev He.
  assert (Ebz : bz = x :: x0 :: w8 (0 / 2^8) :: w8 0 :: x3 :: x4 :: x5 :: x6 :: x7 :: x8 :: w8 (0 / 2^8) :: w8 0 :: b) by congruence.
  subst bz. clear Hz. hev Hp.
  assert (E : w8 (x mod 16 * 4) = hl) by congruence. rewrite E in *. clear Hhl.
  set (m := (Z.to_nat hl - 12)%nat).
  replace (Z.to_nat hl) with (12 + m)%nat in * by lia.
  hev Hp. hev Hlen.
  assert (Lm : (m <= length b)%nat) by lia.
  assert (Eb' : b' = x :: x0 :: w8 (tl / 2 ^ 8) :: w8 tl :: x3 :: x4 :: x5 :: x6 :: x7 :: x8
                 :: w8 (lnot16 (checksum [w8 (tl / 2 ^ 8); w8 tl] p) / 2 ^ 8)
                 :: w8 (lnot16 (checksum [w8 (tl / 2 ^ 8); w8 tl] p)) :: b) by congruence.
  subst b'. clear He.
  change (w8 (0 / 2 ^ 8)) with 0 in Hp. change (w8 0) with 0 in Hp.
  rewrite getN_at in Hp by (cbn [length Nat.add]; lia). cbn [obind] in Hp.
  unfold bytes_at in Hp. cbn [skipn firstn] in Hp.
  assert (Ep : p = checksum (x :: x0 :: 0 :: 0 :: x3 :: x4 :: x5 :: x6 :: x7 :: x8 :: 0 :: 0 :: firstn m b) 0) by congruence.
  clear Hp.
  unfold is_u16 in Htl.
  split.
  - unfold get16. cbn [nth_error obind]. rewrite be16_rt by lia. reflexivity.
  - cbn [get8 nth_error obind]. rewrite E.
    replace (Z.to_nat hl) with (12 + m)%nat by lia.
    rewrite getN_at by (cbn [length Nat.add]; lia). cbn [obind]. unfold bytes_at. cbn [skipn firstn Nat.add].
    f_equal.
    (* byte facts *)
    unfold bytes_ok in Hb.
    repeat (match goal with H : Forall _ (_ :: _) |- _ => apply Forall_cons_iff in H; destruct H as [? H] end).
    assert (Hf : bytes_ok (firstn m b)) by (apply Forall_firstn; assumption).
    assert (Z0 : is_byte 0) by (unfold is_byte; lia).
    assert (Hm : Z.of_nat m <= 300).
    { unfold w8 in E. change (2^8) with 256 in E. Z.div_mod_to_equations. lia. }
    assert (Hzb : bytes_ok (x :: x0 :: 0 :: 0 :: x3 :: x4 :: x5 :: x6 :: x7 :: x8 :: 0 :: 0 :: firstn m b)).
    { repeat (apply Forall_cons; [assumption|]). exact Hf. }
    assert (Lf : length (firstn m b) = m) by (rewrite firstn_length; lia).
    assert (Hp16 : is_u16 p).
    { subst p. apply checksum_u16; [exact Hzb|unfold is_u16; lia|cbn [length]; rewrite Lf; lia]. }
    rewrite checksum_closed in Ep by (first [exact Hzb | unfold is_u16; lia | cbn [length]; rewrite Lf; lia]).
    set (c := checksum [w8 (tl / 2 ^ 8); w8 tl] p) in *.
    assert (Ec : c = oc_norm (p + tl)).
    { subst c. rewrite checksum_closed; [|repeat (apply Forall_cons; [apply w8_byte|]); constructor|exact Hp16|cbn; lia].
      unfold total. cbn [be_words zsum fold_right]. rewrite Z.add_0_r, be16_rt by lia. reflexivity. }
    assert (Hc16 : is_u16 c).
    { rewrite Ec. apply oc_norm_u16. unfold is_u16 in Hp16. lia. }
    destruct (lnot16_bytes c Hc16) as (L1 & L2 & L3).
    rewrite checksum_closed.
    + unfold total in *. cbn [be_words zsum fold_right] in *.
      pose proof (zsum_bound _ (be_words_u16 _ Hf)) as Hzs. unfold zsum in Hzs.
      unfold is_byte in *.
      rewrite be16_rt by lia. rewrite be16_rt by (unfold lnot16, is_u16 in *; lia).
      set (S0 := fold_right Z.add 0 (be_words (firstn m b))) in *.
      rewrite Ec, Ep.
      match goal with |- oc_norm ?e = _ =>
        replace e with ((0 + (x * 256 + x0 + (0 * 256 + 0 + (x3 * 256 + x4 + (x5 * 256 + x6 + (x7 * 256 + x8 + (0 * 256 + 0 + S0))))))) + tl +
                        lnot16 (oc_norm (oc_norm (0 + (x * 256 + x0 + (0 * 256 + 0 + (x3 * 256 + x4 + (x5 * 256 + x6 + (x7 * 256 + x8 + (0 * 256 + 0 + S0))))))) + tl))) by (unfold lnot16; ring)
      end.
      apply oc_partial; lia.
    + repeat (apply Forall_cons; [first [assumption | apply w8_byte]|]). exact Hf.
    + unfold is_u16. lia.
    + cbn [length]. rewrite Lf. lia.
Qed.

(* TCP.EncodePartial: if the partial checksum is the sum (from q) of the header with the fields it
   is about to write (seq, ack, flags, window, checksum) zeroed, the segment header it produces
   verifies against q and the length *)
Theorem tcp_encodePartial_verifies b d bz q p len sq ak fl wnd b' :
  bytes_ok b -> tcp_dataOffset b = Some d -> 20 <= d -> (Z.to_nat d <= length b)%nat ->
  is_u16 q -> is_u16 len -> 0 <= sq < 2^32 -> 0 <= ak < 2^32 -> 0 <= fl < 256 -> is_u16 wnd ->
  obind (tcp_encodeSubset b 0 0 0 0) (fun x => tcp_setChecksum x 0) = Some bz ->
  obind (getN bz 0 (Z.to_nat d)) (fun h => Some (checksum h q)) = Some p ->
  tcp_encodePartial b p len sq ak fl wnd = Some b' ->
  tcp_calculateChecksum b' q len = Some 65535.
Proof.
  intros Hb Hd H20 Hlen Hq Hl Hsq Hak Hfl Hw Hz Hp He.
  assert (Hl20 : (20 <= length b)%nat) by lia.
  unfold tcp_encodePartial, tcp_encodeSubset, tcp_setChecksum, tcp_calculateChecksum, tcp_dataOffset in *.
  cells b 20 Hl20. hev Hz. hev Hd. hev He.
  assert (E : w8 (x11 / 2 ^ 4 * 4) = d) by congruence. clear Hd.
  set (m := (Z.to_nat d - 20)%nat).
  assert (Lm : (m <= length b)%nat) by (cbn [length] in Hlen; lia).
  replace (Z.to_nat d) with (20 + m)%nat in * by lia.
  unfold bytes_ok in Hb.
  repeat (match goal with H : Forall _ (_ :: _) |- _ => apply Forall_cons_iff in H; destruct H as [? H] end).
  assert (Hf : bytes_ok (firstn m b)) by (apply Forall_firstn; assumption).
  assert (Lf : length (firstn m b) = m) by (rewrite firstn_length; lia).
  assert (Hm : Z.of_nat m <= 300).
  { unfold w8 in E. change (2^8) with 256 in E. change (2^4) with 16 in E. Z.div_mod_to_equations. lia. }
  (* name the bytes EncodePartial writes *)
  change (w8 (0 / 2 ^ 24)) with 0 in Hz. change (w8 (0 / 2 ^ 16)) with 0 in Hz.
  change (w8 (0 / 2 ^ 8)) with 0 in Hz. change (w8 0) with 0 in Hz.
  assert (Ebz : bz = x :: x0 :: x1 :: x2 :: 0 :: 0 :: 0 :: 0 :: 0 :: 0 :: 0 :: 0 :: x11 :: 0 :: 0 :: 0 :: 0 :: 0 :: x17 :: x18 :: b) by congruence.
  subst bz. clear Hz.
  rewrite getN_at in Hp by (cbn [length Nat.add]; lia). cbn [obind] in Hp.
  unfold bytes_at in Hp. cbn [skipn firstn Nat.add] in Hp.
  assert (Ep : p = checksum (x :: x0 :: x1 :: x2 :: 0 :: 0 :: 0 :: 0 :: 0 :: 0 :: 0 :: 0 :: x11 :: 0 :: 0 :: 0 :: 0 :: 0 :: x17 :: x18 :: firstn m b) q) by congruence.
  clear Hp.
  set (s0 := w8 (sq / 2 ^ 24)) in *. set (s1 := w8 (sq / 2 ^ 16)) in *. set (s2 := w8 (sq / 2 ^ 8)) in *. set (s3 := w8 sq) in *.
  set (a0 := w8 (ak / 2 ^ 24)) in *. set (a1 := w8 (ak / 2 ^ 16)) in *. set (a2 := w8 (ak / 2 ^ 8)) in *. set (a3 := w8 ak) in *.
  set (w0 := w8 (wnd / 2 ^ 8)) in *. set (w1 := w8 wnd) in *.
  set (c0 := checksum [w8 (len / 2 ^ 8); w8 len; w8 (fl / 2 ^ 8); w8 fl] p) in *.
  set (c1 := checksum [s0; s1; s2; s3; a0; a1; a2; a3] c0) in *.
  set (c2 := checksum [w0; w1] c1) in *.
  assert (Bs : is_byte s0 /\ is_byte s1 /\ is_byte s2 /\ is_byte s3 /\ is_byte a0 /\ is_byte a1 /\ is_byte a2 /\
               is_byte a3 /\ is_byte w0 /\ is_byte w1) by (repeat apply conj; apply w8_byte).
  destruct Bs as (Bs0 & Bs1 & Bs2 & Bs3 & Ba0 & Ba1 & Ba2 & Ba3 & Bw0 & Bw1).
  assert (Z0 : is_byte 0) by (unfold is_byte; lia).
  assert (Efl : w8 fl = fl) by (unfold w8; change (2^8) with 256; apply Z.mod_small; lia).
  assert (Efl0 : w8 (fl / 2 ^ 8) = 0) by (unfold w8; change (2^8) with 256; Z.div_mod_to_equations; lia).
  assert (Bfl : is_byte fl) by (unfold is_byte; lia).
  assert (Eb' : b' = x :: x0 :: x1 :: x2 :: s0 :: s1 :: s2 :: s3 :: a0 :: a1 :: a2 :: a3 :: x11 :: w8 fl :: w0 :: w1
                 :: w8 (lnot16 c2 / 2 ^ 8) :: w8 (lnot16 c2) :: x17 :: x18 :: b) by congruence.
  subst b'. clear He. cbv zeta.
  cbn [get8 nth_error obind]. rewrite E.
  replace (Z.to_nat d) with (20 + m)%nat by lia.
  rewrite getN_at by (cbn [length Nat.add]; lia). cbn [obind]. unfold bytes_at. cbn [skipn firstn Nat.add].
  f_equal.
  unfold is_u16 in *.
  pose proof (zsum_bound _ (be_words_u16 _ Hf)) as Hzs. unfold zsum in Hzs.
  set (S0 := fold_right Z.add 0 (be_words (firstn m b))) in *.
  (* the zeroed header and its sum *)
  assert (Hzb : bytes_ok (x :: x0 :: x1 :: x2 :: 0 :: 0 :: 0 :: 0 :: 0 :: 0 :: 0 :: 0 :: x11 :: 0 :: 0 :: 0 :: 0 :: 0 :: x17 :: x18 :: firstn m b)).
  { repeat (apply Forall_cons; [assumption|]). exact Hf. }
  rewrite checksum_closed in Ep by (first [exact Hzb | unfold is_u16; lia | cbn [length]; rewrite Lf; lia]).
  unfold total in Ep. cbn [be_words zsum fold_right] in Ep. fold S0 in Ep.
  set (Tz := x * 256 + x0 + (x1 * 256 + x2 + (0 * 256 + 0 + (0 * 256 + 0 + (0 * 256 + 0 + (0 * 256 + 0 + (x11 * 256 + 0 + (0 * 256 + 0 + (0 * 256 + 0 + (x17 * 256 + x18 + S0)))))))))) in *.
  unfold is_byte in *.
  assert (HTz : 0 <= Tz) by (subst Tz; lia).
  assert (Hp16 : 0 <= p < 65536) by (rewrite Ep; apply oc_norm_u16; lia).
  assert (Ec0 : c0 = oc_norm (q + Tz + len + fl)).
  { subst c0. rewrite checksum_closed; [|repeat (apply Forall_cons; [apply w8_byte|]); constructor|exact Hp16|cbn; lia].
    unfold total. cbn [be_words zsum fold_right]. rewrite be16_rt by lia. rewrite Efl0, Efl, Ep.
    replace (oc_norm (q + Tz) + (len + (0 * 256 + fl + 0))) with (oc_norm (q + Tz) + (len + fl)) by lia.
    rewrite oc_norm_add by lia. f_equal. lia. }
  assert (Hc0 : 0 <= c0 < 65536) by (rewrite Ec0; apply oc_norm_u16; lia).
  set (SA := s0 * 256 + s1 + (s2 * 256 + s3 + (a0 * 256 + a1 + (a2 * 256 + a3 + 0)))).
  assert (HSA : 0 <= SA) by (subst SA; lia).
  assert (Ec1 : c1 = oc_norm (q + Tz + len + fl + SA)).
  { subst c1. rewrite checksum_closed; [|repeat (apply Forall_cons; [unfold is_byte; assumption|]); constructor|exact Hc0|cbn; lia].
    unfold total. cbn [be_words zsum fold_right]. fold SA. rewrite Ec0. apply oc_norm_add; lia. }
  assert (Hc1 : 0 <= c1 < 65536) by (rewrite Ec1; apply oc_norm_u16; lia).
  set (WW := w0 * 256 + w1).
  assert (Ec2 : c2 = oc_norm (q + Tz + len + fl + SA + WW)).
  { subst c2. rewrite checksum_closed; [|repeat (apply Forall_cons; [unfold is_byte; assumption|]); constructor|exact Hc1|cbn; lia].
    unfold total. cbn [be_words zsum fold_right]. rewrite Ec1.
    replace (oc_norm (q + Tz + len + fl + SA) + (w0 * 256 + w1 + 0)) with (oc_norm (q + Tz + len + fl + SA) + WW) by (subst WW; lia).
    apply oc_norm_add; subst WW; lia. }
  assert (Hc2 : is_u16 c2) by (rewrite Ec2; apply oc_norm_u16; subst WW; lia).
  destruct (lnot16_bytes c2 Hc2) as (L1 & L2 & L3). unfold is_u16, is_byte in *.
  (* the header EncodePartial produced *)
  assert (Hi : 0 <= checksum [w8 (len / 2 ^ 8); w8 len] q < 65536).
  { apply checksum_u16; [repeat (apply Forall_cons; [apply w8_byte|]); constructor|exact Hq|cbn; lia]. }
  assert (Ei : checksum [w8 (len / 2 ^ 8); w8 len] q = oc_norm (q + len)).
  { rewrite checksum_closed; [|repeat (apply Forall_cons; [apply w8_byte|]); constructor|exact Hq|cbn; lia].
    unfold total. cbn [be_words zsum fold_right]. rewrite be16_rt by lia. f_equal. lia. }
  rewrite checksum_closed.
  - unfold total. cbn [be_words zsum fold_right]. fold S0.
    rewrite be16_rt by (unfold lnot16; lia). rewrite Efl, Ei.
    match goal with |- oc_norm (oc_norm (q + len) + ?T) = _ =>
      replace T with (Tz + fl + SA + WW + lnot16 c2) by (subst Tz SA WW; clearbody S0; lia)
    end.
    rewrite oc_norm_add by (subst WW; unfold lnot16; lia).
    replace (q + len + (Tz + fl + SA + WW + lnot16 c2)) with ((q + Tz + len + fl + SA + WW) + lnot16 c2) by lia.
    rewrite Ec2. apply oc_norm_complement. subst WW. lia.
  - repeat (apply Forall_cons; [first [unfold is_byte; assumption | apply w8_byte]|]). exact Hf.
  - exact Hi.
  - cbn [length]. rewrite Lf. lia.
Qed.

Definition encodePartial_verify := conj ipv4_encodePartial_verifies tcp_encodePartial_verifies.

(* a worked instance (the IPv4 header of the Wikipedia "IPv4 header checksum" article) *)
Example checksum_ipv4_example :
  checksum [69;0;0;115;0;0;64;0;64;17;0;0;192;168;0;1;192;168;0;199] 0 = 18334 /\
  lnot16 18334 = 47201 /\
  checksum [69;0;0;115;0;0;64;0;64;17;184;97;192;168;0;1;192;168;0;199] 0 = 65535.
Proof. repeat split; vm_compute; reflexivity. Qed.
