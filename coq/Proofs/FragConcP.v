(* Proofs about the concurrent model Model/FragConc.v, for EVERY schedule, any number of threads,
   any calls:
   - the structural invariant of the shared state (map and list hold the same live objects, an
     object is done iff it has been unlinked, rList.Remove is never called on an unlinked object);
   - no schedule panics (repaired reassembler.process); the pre-3ed1739 code does (witness);
   - linearization: the r.process calls and the done-mark on ONE object form a sequential history
     ([replay]) of that object; exact reassembly per object from FragReasmP;
   - what a call returns is what its r.process call returned. *)
From Coq Require Import ZArith Bool List Lia ZifyBool.
From NP Require Import Model.Frag Model.FragConc Proofs.FragListP Proofs.FragHeapP Proofs.FragHolesP
  Proofs.FragReasmP Proofs.FragP.
Import ListNotations.
Open Scope Z_scope.

(* ------------------------------------------------------------------ reassembler.process, any state *)
(* the repaired process never panics, whatever state the reassembler is in (in particular in the
   state "all holes deleted, heap empty, not done" that only concurrent callers can see) *)
Lemma rprocess_no_panic : forall r first last more pl, p_panic (snd (rprocess r first last more pl)) = false.
Proof.
  intros r first last more pl. unfold rprocess.
  destruct (r_done r); [reflexivity|].
  destruct (updateHoles r first last more) as [r1 used].
  destruct used.
  - destruct (_ <? _); [reflexivity|].
    destruct (length _ =? 0)%nat eqn:Eemp; [reflexivity|].
    match goal with |- context [reassemble ?h] =>
      assert (Hne : h <> []) by (intros Hnil; rewrite Hnil in Eemp; discriminate Eemp);
      pose proof (reassemble_no_panic _ Hne) as Hnp; destruct (reassemble h) as [[bytes| |] h'] end;
      cbn [fst] in Hnp; [reflexivity|reflexivity|congruence].
  - destruct (_ <? _); [reflexivity|].
    destruct (length _ =? 0)%nat eqn:Eemp; [reflexivity|].
    match goal with |- context [reassemble ?h] =>
      assert (Hne : h <> []) by (intros Hnil; rewrite Hnil in Eemp; discriminate Eemp);
      pose proof (reassemble_no_panic _ Hne) as Hnp; destruct (reassemble h) as [[bytes| |] h'] end;
      cbn [fst] in Hnp; [reflexivity|reflexivity|congruence].
Qed.

(* process never touches r.done, r.id, r.creationTime *)
Lemma rprocess_keeps : forall r first last more pl r' o, rprocess r first last more pl = (r', o) ->
  r_done r' = r_done r /\ r_id r' = r_id r /\ r_ctime r' = r_ctime r.
Proof.
  intros r first last more pl r' o E. unfold rprocess in E.
  destruct (r_done r) eqn:Ed; [injection E as <- <-; auto|].
  unfold updateHoles in E.
  destruct (uh_loop (r_holes r) first last more) as [[[orig app] dl] used].
  destruct used.
  - destruct (_ <? _); [injection E as <- <-; cbn; auto|].
    destruct (length _ =? 0)%nat; [injection E as <- <-; cbn; auto|].
    destruct (reassemble _) as [[bytes| |] h']; injection E as <- <-; cbn; auto.
  - destruct (_ <? _); [injection E as <- <-; cbn; auto|].
    destruct (length _ =? 0)%nat; [injection E as <- <-; cbn; auto|].
    destruct (reassemble _) as [[bytes| |] h']; injection E as <- <-; cbn; auto.
Qed.

(* ------------------------------------------------------------------ small list facts *)
Lemma inb_In : forall o l, inb o l = true <-> In o l.
Proof.
  intros o l. unfold inb. rewrite existsb_exists. split.
  - intros [x [Hin Hx]]. apply Nat.eqb_eq in Hx. now subst.
  - intros Hin. exists o. split; [auto|apply Nat.eqb_refl].
Qed.

Lemma lremove_In : forall o l x, In x (lremove o l) <-> In x l /\ x <> o.
Proof.
  intros o l x. unfold lremove. rewrite filter_In. rewrite negb_true_iff, Nat.eqb_neq. tauto.
Qed.

Lemma lremove_nodup : forall o l, NoDup l -> NoDup (lremove o l).
Proof. intros. apply NoDup_filter. auto. Qed.

Lemma mdelete_In : forall id m i o, In (i, o) (mdelete id m) <-> In (i, o) m /\ i <> id.
Proof.
  intros id m i o. unfold mdelete. rewrite filter_In. cbn [fst]. rewrite negb_true_iff, Z.eqb_neq. tauto.
Qed.

Lemma map_fst_filter_nodup : forall (m : list (Z * nat)) f, NoDup (map fst m) -> NoDup (map fst (filter f m)).
Proof.
  induction m as [|[i o] t IH]; intros f Hnd; [constructor|].
  cbn [map fst] in Hnd. inversion Hnd as [|? ? Hi Ht]; subst.
  cbn [filter]. destruct (f (i, o)); [|auto].
  cbn [map fst]. constructor; [|auto].
  intros Hin. apply Hi. apply in_map_iff in Hin. destruct Hin as [[i' o'] [E Hin]]. cbn in E. subst i'.
  apply filter_In in Hin. apply in_map_iff. exists (i, o'). split; [reflexivity|tauto].
Qed.

Lemma mlookup_In : forall m id o, NoDup (map fst m) -> (mlookup id m = Some o <-> In (id, o) m).
Proof.
  induction m as [|[i o'] t IH]; intros id o Hnd.
  - cbn. split; [discriminate|tauto].
  - cbn [map fst] in Hnd. inversion Hnd as [|? ? Hi Ht]; subst. cbn [mlookup In].
    destruct (Z.eqb_spec i id) as [->|ne].
    + split.
      * intros E. injection E as ->. now left.
      * intros [E|Hin]; [injection E as ->; reflexivity|].
        exfalso. apply Hi. apply in_map_iff. exists (id, o). auto.
    + rewrite (IH id o Ht). split; [tauto|]. intros [E|Hin]; [injection E as -> ->; congruence|auto].
Qed.

Lemma mlookup_none : forall m id, mlookup id m = None <-> (forall o, ~ In (id, o) m).
Proof.
  induction m as [|[i o'] t IH]; intros id.
  - cbn. split; [tauto|reflexivity].
  - cbn [mlookup In]. destruct (Z.eqb_spec i id) as [->|ne].
    + split; [discriminate|]. intros H. exfalso. apply (H o'). now left.
    + rewrite IH. split.
      * intros H o [E|Hin]; [injection E as -> ->; congruence|]. apply (H o Hin).
      * intros H o Hin. apply (H o). now right.
Qed.

Lemma getobj_upd_eq : forall s o r objs', objs' = upd (c_objs s) o r -> (o < length (c_objs s))%nat ->
  nth o objs' dreasm = r.
Proof. intros s o r objs' -> Hlt. apply nth_upd_eq. exact Hlt. Qed.

(* ------------------------------------------------------------------ the invariant of the shared state *)
Record CInv (s : cst) : Prop := {
  ci_nodup : NoDup (c_list s);
  ci_range : forall o, In o (c_list s) -> (o < length (c_objs s))%nat;
  (* an object is done exactly when it has been unlinked *)
  ci_done : forall o, (o < length (c_objs s))%nat -> (r_done (getobj s o) = false <-> In o (c_list s));
  ci_keys : NoDup (map fst (c_map s));
  ci_map1 : forall id o, In (id, o) (c_map s) -> In o (c_list s) /\ r_id (getobj s o) = id;
  ci_map2 : forall o, In o (c_list s) -> In (r_id (getobj s o), o) (c_map s);
  ci_fault : c_fault s = false
}.

(* listed objects have pairwise different ids *)
Lemma cinv_ids_inj : forall s o1 o2, CInv s -> In o1 (c_list s) -> In o2 (c_list s) ->
  r_id (getobj s o1) = r_id (getobj s o2) -> o1 = o2.
Proof.
  intros s o1 o2 I H1 H2 E.
  pose proof (ci_map2 _ I o1 H1) as M1. pose proof (ci_map2 _ I o2 H2) as M2. rewrite E in M1.
  apply (mlookup_In _ _ _ (ci_keys _ I)) in M1. apply (mlookup_In _ _ _ (ci_keys _ I)) in M2. congruence.
Qed.

Lemma cinv_mlookup : forall s id o, CInv s ->
  (mlookup id (c_map s) = Some o <-> In o (c_list s) /\ r_id (getobj s o) = id).
Proof.
  intros s id o I. rewrite (mlookup_In _ _ _ (ci_keys _ I)). split.
  - apply (ci_map1 _ I).
  - intros [Hin <-]. apply (ci_map2 _ I). exact Hin.
Qed.

(* what the events of a log mention: objects below n *)
Definition ev_lt (n : nat) (e : ev) : Prop :=
  match e with
  | EvP1 _ o _ => (o < n)%nat
  | EvP2 _ o _ _ => (o < n)%nat
  | EvMark o => (o < n)%nat
  | _ => True
  end.

Lemma ev_lt_mono : forall n m e, (n <= m)%nat -> ev_lt n e -> ev_lt m e.
Proof. intros n m [] H; cbn; auto; lia. Qed.

(* ------------------------------------------------------------------ histories: algebra *)
Lemma ohist_app : forall o a b, ohist o (a ++ b) = ohist o a ++ ohist o b.
Proof.
  intros o. induction a as [|e t IH]; intros b; [reflexivity|].
  destruct e; cbn [app ohist]; try apply IH; destruct (_ =? o)%nat; cbn [app]; rewrite ?IH; reflexivity.
Qed.

Lemma houts_app : forall a b, houts (a ++ b) = houts a ++ houts b.
Proof. induction a as [|[fin out|] t IH]; intros b; cbn [app houts]; rewrite ?IH; reflexivity. Qed.

Lemma hfrags_app : forall a b, hfrags (a ++ b) = hfrags a ++ hfrags b.
Proof. induction a as [|[fin out|] t IH]; intros b; cbn [app hfrags]; rewrite ?IH; reflexivity. Qed.

Lemma houts_hfrags_length : forall h, length (houts h) = length (hfrags h).
Proof. induction h as [|[fin out|] t IH]; cbn [houts hfrags length]; auto. Qed.

Lemma replay_app : forall a r b,
  replay r (a ++ b) =
  let '(r1, os1) := replay r a in let '(r2, os2) := replay r1 b in (r2, os1 ++ os2).
Proof.
  induction a as [|[fin out|] t IH]; intros r b.
  - cbn [app replay]. destruct (replay r b). reflexivity.
  - cbn [app replay]. destruct (rprocess r _ _ _ _) as [r' o]. rewrite IH.
    destruct (replay r' t) as [r1 os1]. destruct (replay r1 b) as [r2 os2]. reflexivity.
  - cbn [app replay]. apply IH.
Qed.

Lemma ohist_none : forall o n l, Forall (ev_lt n) l -> (n <= o)%nat -> ohist o l = [].
Proof.
  intros o n. induction l as [|e t IH]; intros Hall Hle; [reflexivity|].
  inversion Hall as [|? ? He Ht]; subst.
  destruct e; cbn [ohist]; cbn [ev_lt] in He; auto;
    (destruct (Nat.eqb_spec o0 o); [lia|auto]).
Qed.

Lemma panics_app : forall a b, panics (a ++ b) = panics a ++ panics b.
Proof. induction a as [|e t IH]; intros b; [reflexivity|]. destruct e; cbn [app panics]; rewrite ?IH; reflexivity. Qed.

(* ------------------------------------------------------------------ the full invariant
   SInv s = structure + no panic so far + every object's state is the sequential replay of its own
   history from its creation state (r.id and r.creationTime never change, so the creation state
   is newReassembler(id, creationTime) of the object as it is now) *)
Definition creation (r : reasm) : reasm := newReassembler (r_id r) (r_ctime r).

Fixpoint rets_ok (log : list ev) : Prop :=
  match log with
  | [] => True
  | EvRet t res done :: l =>
      (exists o fin out, last_p2 t l = Some (o, fin, out) /\ res = p_res out /\ done = p_done out) /\ rets_ok l
  | _ :: l => rets_ok l
  end.

Record SInv (s : cst) : Prop := {
  si_c : CInv s;
  si_ev : Forall (ev_lt (length (c_objs s))) (c_log s);
  si_nopanic : panics (c_log s) = [];
  si_lin : forall o, (o < length (c_objs s))%nat ->
             replay (creation (getobj s o)) (ohist o (trace s)) = (getobj s o, houts (ohist o (trace s)));
  si_rets : rets_ok (c_log s)
}.

Lemma trace_cons : forall s e, trace (log_ev s e) = trace s ++ [e].
Proof. intros. unfold trace, log_ev. cbn [c_log rev]. reflexivity. Qed.

(* adding an event that is not about objects' histories *)
Definition plain_ev (e : ev) : Prop :=
  match e with EvP1 _ _ _ => True | EvRet _ _ _ => False | EvPanic _ => False | _ => False end.

Lemma SInv_log_p1 : forall s t o b, SInv s -> (o < length (c_objs s))%nat -> SInv (log_ev s (EvP1 t o b)).
Proof.
  intros s t o b [[Hnd Hr Hd Hk M1 M2 Hf] Hev Hnp Hlin Hrets] Hlt.
  constructor; [constructor| | | |]; cbn [log_ev c_list c_objs c_map c_fault c_log]; auto.
  intros o' Ho'. unfold trace in *. cbn [log_ev c_log rev]. rewrite ohist_app. cbn [ohist]. rewrite app_nil_r.
  apply (Hlin o' Ho').
Qed.

(* ---- release *)
Lemma crelease_spec : forall s o, SInv s -> (o < length (c_objs s))%nat ->
  SInv (crelease s o) /\
  length (c_objs (crelease s o)) = length (c_objs s) /\
  c_high (crelease s o) = c_high s /\ c_low (crelease s o) = c_low s /\ c_timeout (crelease s o) = c_timeout s /\
  (forall x, In x (c_list (crelease s o)) <-> In x (c_list s) /\ x <> o) /\
  (forall x, x <> o -> getobj (crelease s o) x = getobj s x) /\
  (forall t, last_p2 t (c_log (crelease s o)) = last_p2 t (c_log s)) /\
  (forall id, mlookup id (c_map (crelease s o)) =
              if r_done (getobj s o) then mlookup id (c_map s)
              else if id =? r_id (getobj s o) then None else mlookup id (c_map s)).
Proof.
  intros s o I Hlt. unfold crelease.
  destruct (r_done (getobj s o)) eqn:Ed.
  - split; [exact I|]. split; [reflexivity|]. split; [reflexivity|]. split; [reflexivity|].
    split; [reflexivity|]. split; [|split; [reflexivity|split; reflexivity]].
    intros x. split; [|tauto]. intros Hx. split; [exact Hx|]. intros ->.
    apply (ci_done _ (si_c _ I) o Hlt) in Hx. congruence.
  - destruct I as [[Hnd Hr Hd Hk M1 M2 Hf] Hev Hnp Hlin Hrets].
    assert (Hin : In o (c_list s)) by (apply (Hd o Hlt); exact Ed).
    set (r := getobj s o) in *.
    assert (G : forall x, x <> o -> nth x (upd (c_objs s) o (set_done r)) dreasm = getobj s x).
    { intros x Hx. unfold getobj. apply nth_upd_neq. exact Hx. }
    assert (Go : nth o (upd (c_objs s) o (set_done r)) dreasm = set_done r) by (apply nth_upd_eq; exact Hlt).
    split; [|cbn [c_objs c_high c_low c_timeout c_list c_log c_map]; rewrite upd_length].
    + constructor; [constructor| | | |]; cbn [c_list c_objs c_map c_fault c_log]; unfold getobj; cbn [c_objs].
      * apply lremove_nodup; auto.
      * intros x Hx. apply lremove_In in Hx. rewrite upd_length. apply Hr. tauto.
      * intros x Hx. rewrite upd_length in Hx. rewrite lremove_In.
        destruct (Nat.eq_dec x o) as [->|ne].
        -- rewrite Go. cbn [set_done r_done]. split; [discriminate|tauto].
        -- rewrite (G x ne). rewrite (Hd x Hx). tauto.
      * apply map_fst_filter_nodup; auto.
      * intros id x Hx. apply mdelete_In in Hx. destruct Hx as [Hx Hne].
        destruct (M1 id x Hx) as [Hl Hid].
        assert (x <> o) by (intros ->; fold r in Hid; congruence).
        rewrite lremove_In, (G x) by auto. auto.
      * intros x Hx. apply lremove_In in Hx. destruct Hx as [Hx Hne]. rewrite (G x Hne).
        apply mdelete_In. split; [apply M2; auto|].
        intros E. apply Hne. apply (cinv_ids_inj s x o); auto.
        constructor; auto.
      * rewrite Hf. cbn [orb]. apply negb_false_iff. apply inb_In. exact Hin.
      * rewrite upd_length. constructor; [cbn; exact Hlt|exact Hev].
      * cbn [panics]. exact Hnp.
      * intros x Hx. rewrite upd_length in Hx. unfold trace. cbn [c_log rev]. rewrite ohist_app. cbn [ohist].
        destruct (Nat.eqb_spec o x) as [->|ne].
        -- rewrite Go. unfold creation. cbn [set_done r_id r_ctime]. fold (creation r).
           rewrite replay_app. unfold trace in Hlin. pose proof (Hlin x Hx) as Hl. fold r in Hl. rewrite Hl.
           cbn [replay]. rewrite houts_app. cbn [houts]. reflexivity.
        -- rewrite app_nil_r. rewrite (G x) by auto. apply (Hlin x Hx).
      * cbn [rets_ok]. exact Hrets.
    + split; [reflexivity|]. split; [reflexivity|]. split; [reflexivity|]. split; [reflexivity|].
      split; [intros x; apply lremove_In|]. split; [exact G|]. split; [reflexivity|].
      intros id. fold r. destruct (Z.eqb_spec id (r_id r)) as [->|ne].
      * apply mlookup_none. intros x Hx. apply mdelete_In in Hx. tauto.
      * destruct (mlookup id (c_map s)) as [x|] eqn:El.
        -- apply mlookup_In; [apply map_fst_filter_nodup; auto|].
           apply mdelete_In. split; [apply mlookup_In; auto|auto].
        -- apply mlookup_none. intros x Hx. apply mdelete_In in Hx.
           rewrite mlookup_none in El. apply (El x). tauto.
Qed.

(* ---- the eviction walk *)
Lemma cevict_loop_spec : forall back s, SInv s -> Forall (fun o => (o < length (c_objs s))%nat) back ->
  let s' := cevict_loop s back in
  SInv s' /\ length (c_objs s') = length (c_objs s) /\
  c_high s' = c_high s /\ c_low s' = c_low s /\ c_timeout s' = c_timeout s /\
  (forall x, In x (c_list s') -> In x (c_list s)) /\
  (forall t, last_p2 t (c_log s') = last_p2 t (c_log s)).
Proof.
  induction back as [|tail prev IH]; intros s I Hall; cbn [cevict_loop].
  - split; [exact I|]. repeat split; auto.
  - destruct (c_low s <? c_size s); [|split; [exact I|]; repeat split; auto].
    inversion Hall as [|? ? Ht Hp]; subst.
    destruct (crelease_spec s tail I Ht) as (I1 & L1 & H1 & Lo1 & T1 & In1 & _ & P1 & _).
    destruct (IH (crelease s tail) I1) as (I2 & L2 & H2 & Lo2 & T2 & In2 & P2).
    { rewrite L1. exact Hp. }
    split; [exact I2|]. split; [congruence|]. split; [congruence|]. split; [congruence|]. split; [congruence|].
    split; [intros x Hx; apply In2 in Hx; apply In1 in Hx; tauto|].
    intros t. rewrite P2. apply P1.
Qed.

(* ---- allocation of a new reassembler *)
Lemma getobj_app_old : forall (objs : list reasm) x r, (x < length objs)%nat -> nth x (objs ++ [r]) dreasm = nth x objs dreasm.
Proof. intros. apply app_nth1. auto. Qed.

Lemma getobj_app_new : forall (objs : list reasm) r, nth (length objs) (objs ++ [r]) dreasm = r.
Proof. intros. rewrite app_nth2 by lia. rewrite Nat.sub_diag. reflexivity. Qed.

Lemma calloc_spec : forall s t id now s' o, SInv s -> mlookup id (c_map s) = None ->
  calloc s t id now = (s', o) ->
  SInv s' /\ o = length (c_objs s) /\ length (c_objs s') = S (length (c_objs s)) /\
  getobj s' o = newReassembler id now /\
  (forall x, (x < length (c_objs s))%nat -> getobj s' x = getobj s x) /\
  c_list s' = o :: c_list s /\ c_size s' = c_size s /\
  c_high s' = c_high s /\ c_low s' = c_low s /\ c_timeout s' = c_timeout s /\
  (forall t', last_p2 t' (c_log s') = last_p2 t' (c_log s)).
Proof.
  intros s t id now s' o I Hnone E. unfold calloc in E. injection E as <- <-.
  destruct I as [[Hnd Hr Hd Hk M1 M2 Hf] Hev Hnp Hlin Hrets].
  set (n := length (c_objs s)) in *.
  assert (Gold : forall x, (x < n)%nat -> nth x (c_objs s ++ [newReassembler id now]) dreasm = getobj s x)
    by (intros x Hx; apply getobj_app_old; exact Hx).
  assert (Gnew : nth n (c_objs s ++ [newReassembler id now]) dreasm = newReassembler id now)
    by apply getobj_app_new.
  assert (Hlen : length (c_objs s ++ [newReassembler id now]) = S n) by (rewrite app_length; cbn; lia).
  rewrite mlookup_none in Hnone.
  split; [|unfold getobj; cbn [c_objs c_list c_size c_high c_low c_timeout c_log last_p2]; repeat split; auto].
  constructor; [constructor| | | |]; cbn [c_list c_objs c_map c_fault c_log]; unfold getobj; cbn [c_objs]; rewrite ?Hlen.
  - constructor; [|exact Hnd]. intros Hin. apply Hr in Hin. fold n in Hin. lia.
  - intros x [<-|Hx]; [lia|]. apply Hr in Hx. fold n in Hx. lia.
  - intros x Hx. destruct (Nat.eq_dec x n) as [->|ne].
    + rewrite Gnew. cbn. split; [now left|reflexivity].
    + rewrite Gold by lia. rewrite (Hd x) by (fold n; lia). split; [now right|].
      intros [E|Hin]; [congruence|exact Hin].
  - unfold minsert. cbn [map fst]. constructor; [|apply map_fst_filter_nodup; exact Hk].
    intros Hin. apply in_map_iff in Hin. destruct Hin as [[i x] [Ei Hin]]. cbn in Ei. subst i.
    apply mdelete_In in Hin. tauto.
  - intros i x [E|Hin].
    + injection E as <- <-. rewrite Gnew. cbn. split; [now left|reflexivity].
    + apply mdelete_In in Hin. destruct Hin as [Hin _]. destruct (M1 i x Hin) as [Hl Hid].
      pose proof (Hr x Hl) as Hx. fold n in Hx. rewrite Gold by exact Hx. split; [now right|exact Hid].
  - intros x [<-|Hx].
    + rewrite Gnew. cbn. now left.
    + pose proof (Hr x Hx) as Hxn. fold n in Hxn. rewrite Gold by exact Hxn.
      right. apply mdelete_In. split; [apply M2; exact Hx|].
      intros Eid. apply (Hnone x). rewrite <- Eid. apply M2. exact Hx.
  - exact Hf.
  - constructor; [cbn; lia|]. eapply Forall_impl; [|exact Hev]. intros e He. eapply ev_lt_mono; [|exact He]. fold n. lia.
  - cbn [panics]. exact Hnp.
  - intros x Hx. unfold trace. cbn [c_log rev]. rewrite ohist_app. cbn [ohist]. rewrite app_nil_r.
    destruct (Nat.eq_dec x n) as [->|ne].
    + rewrite Gnew. rewrite (ohist_none n n); [reflexivity| |lia].
      apply Forall_rev. exact Hev.
    + rewrite Gold by lia. apply Hlin. fold n. lia.
  - cbn [rets_ok]. exact Hrets.
Qed.

(* ---- phase 1 *)
Lemma cp1_spec : forall s t c s' o, SInv s -> cp1 s t c = (s', o) ->
  SInv s' /\ (o < length (c_objs s'))%nat /\ (length (c_objs s) <= length (c_objs s'))%nat /\
  c_high s' = c_high s /\ c_low s' = c_low s /\ c_timeout s' = c_timeout s /\
  (forall t', last_p2 t' (c_log s') = last_p2 t' (c_log s)).
Proof.
  intros s t c s' o I E. unfold cp1 in E.
  destruct (mlookup (c_id c) (c_map s)) as [o0|] eqn:El.
  - pose proof (proj1 (cinv_mlookup s (c_id c) o0 (si_c _ I)) El) as [Hin Hid].
    pose proof (ci_range _ (si_c _ I) o0 Hin) as Hlt.
    destruct (tooOld (getobj s o0) (c_now c) (c_timeout s)).
    + destruct (crelease_spec s o0 I Hlt) as (I1 & L1 & H1 & Lo1 & T1 & _ & _ & P1 & Ml).
      assert (Hnd : r_done (getobj s o0) = false) by (apply (ci_done _ (si_c _ I) o0 Hlt); exact Hin).
      assert (Hnone : mlookup (c_id c) (c_map (crelease s o0)) = None).
      { rewrite Ml, Hnd, Hid, Z.eqb_refl. reflexivity. }
      destruct (calloc_spec _ _ _ _ _ _ I1 Hnone E) as (I2 & Eo & L2 & _ & _ & _ & _ & H2 & Lo2 & T2 & P2).
      split; [exact I2|]. split; [lia|]. split; [lia|]. split; [congruence|]. split; [congruence|].
      split; [congruence|]. intros t'. rewrite P2. apply P1.
    + injection E as <- <-. split; [apply SInv_log_p1; auto|]. cbn [log_ev c_objs c_high c_low c_timeout c_log last_p2].
      repeat split; auto.
  - destruct (calloc_spec _ _ _ _ _ _ I El E) as (I2 & Eo & L2 & _ & _ & _ & _ & H2 & Lo2 & T2 & P2).
    split; [exact I2|]. split; [lia|]. split; [lia|]. auto.
Qed.

(* ---- phase 2 *)
Lemma cp2_spec : forall s t c o s' out, SInv s -> (o < length (c_objs s))%nat ->
  cp2 rprocess s t c o = (s', out) ->
  SInv s' /\ p_panic out = false /\ length (c_objs s') = length (c_objs s) /\
  c_high s' = c_high s /\ c_low s' = c_low s /\ c_timeout s' = c_timeout s /\
  last_p2 t (c_log s') = Some (o, frag_in c, out) /\
  (forall t', t' <> t -> last_p2 t' (c_log s') = last_p2 t' (c_log s)).
Proof.
  intros s t c o s' out I Hlt E. unfold cp2 in E.
  destruct (rprocess (getobj s o) (c_first c) (c_last c) (c_more c) (c_pl c)) as [r' out'] eqn:Ep.
  injection E as <- <-.
  pose proof (rprocess_no_panic (getobj s o) (c_first c) (c_last c) (c_more c) (c_pl c)) as Hnp'.
  rewrite Ep in Hnp'. cbn [snd] in Hnp'.
  destruct (rprocess_keeps _ _ _ _ _ _ _ Ep) as (Kd & Ki & Kc).
  destruct I as [[Hnd Hr Hd Hk M1 M2 Hf] Hev Hnp Hlin Hrets].
  assert (G : forall x, x <> o -> nth x (upd (c_objs s) o r') dreasm = getobj s x).
  { intros x Hx. unfold getobj. apply nth_upd_neq. exact Hx. }
  assert (Go : nth o (upd (c_objs s) o r') dreasm = r') by (apply nth_upd_eq; exact Hlt).
  assert (Gd : forall x, r_done (nth x (upd (c_objs s) o r') dreasm) = r_done (getobj s x)).
  { intros x. destruct (Nat.eq_dec x o) as [->|ne]; [rewrite Go; exact Kd|rewrite G; auto]. }
  assert (Gi : forall x, r_id (nth x (upd (c_objs s) o r') dreasm) = r_id (getobj s x)).
  { intros x. destruct (Nat.eq_dec x o) as [->|ne]; [rewrite Go; exact Ki|rewrite G; auto]. }
  split; [|cbn [c_objs c_high c_low c_timeout c_log last_p2]; rewrite upd_length, Nat.eqb_refl; repeat split; auto].
  - constructor; [constructor| | | |]; cbn [c_list c_objs c_map c_fault c_log]; unfold getobj; cbn [c_objs]; rewrite ?upd_length; auto.
    + intros x Hx. rewrite Gd. apply Hd. exact Hx.
    + intros i x Hx. rewrite Gi. apply M1. exact Hx.
    + intros x Hx. rewrite Gi. apply M2. exact Hx.
    + intros x Hx. unfold trace. cbn [c_log rev]. rewrite ohist_app. cbn [ohist].
      destruct (Nat.eqb_spec o x) as [->|ne].
      * rewrite Go. unfold creation. rewrite Ki, Kc. fold (creation (getobj s x)).
        rewrite replay_app. unfold trace in Hlin. rewrite (Hlin x Hx). cbn [replay frag_in i_first i_last i_more i_pl].
        rewrite Ep. rewrite houts_app. cbn [houts]. reflexivity.
      * rewrite app_nil_r. rewrite (G x) by auto. apply (Hlin x Hx).
  - intros t' Hne. destruct (Nat.eqb_spec t t'); [congruence|reflexivity].
Qed.

(* ---- phase 3 *)
Lemma SInv_add_size : forall s d, SInv s -> SInv (cadd_size s d).
Proof.
  intros s d [[Hnd Hr Hd Hk M1 M2 Hf] Hev Hnp Hlin Hrets].
  constructor; [constructor| | | |]; auto.
Qed.

Lemma cp3_spec : forall s t o fin out, SInv s -> (o < length (c_objs s))%nat ->
  last_p2 t (c_log s) = Some (o, fin, out) ->
  let s' := cp3 s t o out in
  SInv s' /\ length (c_objs s') = length (c_objs s) /\
  c_high s' = c_high s /\ c_low s' = c_low s /\ c_timeout s' = c_timeout s /\
  (forall t', last_p2 t' (c_log s') = last_p2 t' (c_log s)).
Proof.
  intros s t o fin out I Hlt Hl. unfold cp3.
  set (s1 := cadd_size s (p_consumed out)).
  assert (I1 : SInv s1) by (apply SInv_add_size; exact I).
  set (s2 := if p_done out || p_err out then crelease s1 o else s1).
  assert (I2 : SInv s2 /\ length (c_objs s2) = length (c_objs s) /\
               c_high s2 = c_high s /\ c_low s2 = c_low s /\ c_timeout s2 = c_timeout s /\
               forall t', last_p2 t' (c_log s2) = last_p2 t' (c_log s)).
  { unfold s2. destruct (p_done out || p_err out).
    - destruct (crelease_spec s1 o I1 Hlt) as (Ia & La & Ha & Loa & Ta & _ & _ & Pa & _).
      split; [exact Ia|]. split; [exact La|]. split; [exact Ha|]. split; [exact Loa|]. split; [exact Ta|exact Pa].
    - split; [exact I1|]. repeat split; reflexivity. }
  destruct I2 as (I2 & L2 & H2 & Lo2 & T2 & P2).
  set (s3 := if c_high s2 <? c_size s2 then cevict_loop s2 (rev (c_list s2)) else s2).
  assert (I3 : SInv s3 /\ length (c_objs s3) = length (c_objs s) /\
               c_high s3 = c_high s /\ c_low s3 = c_low s /\ c_timeout s3 = c_timeout s /\
               forall t', last_p2 t' (c_log s3) = last_p2 t' (c_log s)).
  { unfold s3. destruct (c_high s2 <? c_size s2).
    - destruct (cevict_loop_spec (rev (c_list s2)) s2 I2) as (Ia & La & Ha & Loa & Ta & _ & Pa).
      { apply Forall_rev. rewrite Forall_forall. apply (ci_range _ (si_c _ I2)). }
      split; [exact Ia|]. split; [congruence|]. split; [congruence|]. split; [congruence|]. split; [congruence|].
      intros t'. rewrite Pa. apply P2.
    - split; [exact I2|]. auto. }
  destruct I3 as (I3 & L3 & H3 & Lo3 & T3 & P3).
  cbn [log_ev c_objs c_high c_low c_timeout c_log last_p2].
  split; [|auto].
  destruct I3 as [[Hnd Hr Hd Hk M1 M2 Hf] Hev Hnp Hlin Hrets].
  constructor; [constructor| | | |]; cbn [log_ev c_list c_objs c_map c_fault c_log]; auto.
  - constructor; [exact Logic.I|exact Hev].
  - intros x Hx. unfold trace in *. unfold getobj. cbn [log_ev c_objs c_log rev]. rewrite ohist_app. cbn [ohist]. rewrite app_nil_r.
    apply (Hlin x Hx).
  - cbn [rets_ok]. split; [|exact Hrets]. exists o, fin, out. rewrite P3. auto.
Qed.

(* ------------------------------------------------------------------ configurations *)
Lemma nth_error_upd_eq : forall A (l : list A) i x, (i < length l)%nat -> nth_error (upd l i x) i = Some x.
Proof.
  induction l as [|y t IH]; intros i x Hi; [simpl in Hi; lia|].
  destruct i; cbn [upd nth_error]; [reflexivity|]. apply IH. simpl in Hi. lia.
Qed.

Lemma nth_error_upd_neq : forall A (l : list A) i k x, k <> i -> nth_error (upd l i x) k = nth_error l k.
Proof.
  induction l as [|y t IH]; intros i k x Hne; [reflexivity|].
  destruct i, k; cbn [upd nth_error]; try reflexivity; try lia. apply IH. lia.
Qed.

Definition thr_ok (s : cst) (t : nat) (th : thread) : Prop :=
  match t_pc th with
  | PC1 => True
  | PC2 o => (o < length (c_objs s))%nat
  | PC3 o out => (o < length (c_objs s))%nat /\ exists fin, last_p2 t (c_log s) = Some (o, fin, out)
  | PCdead => False
  end.

Record ConfInv (cf : conf) : Prop := {
  fc_s : SInv (cf_s cf);
  fc_thr : forall t th, nth_error (cf_thr cf) t = Some th -> thr_ok (cf_s cf) t th
}.

Lemma thr_ok_mono : forall s s' t th,
  (length (c_objs s) <= length (c_objs s'))%nat -> last_p2 t (c_log s') = last_p2 t (c_log s) ->
  thr_ok s t th -> thr_ok s' t th.
Proof.
  intros s s' t th Hlen Hl. unfold thr_ok. destruct (t_pc th); auto; [lia|].
  intros [Ho [fin Hf]]. split; [lia|]. exists fin. congruence.
Qed.

Lemma cstep_inv : forall cf t, ConfInv cf -> ConfInv (cstep rprocess cf t).
Proof.
  intros cf t [I Hthr]. unfold cstep.
  destruct (nth_error (cf_thr cf) t) as [th|] eqn:Eth; [|constructor; auto].
  assert (Htl : (t < length (cf_thr cf))%nat) by (apply nth_error_Some; congruence).
  pose proof (Hthr t th Eth) as Hok. unfold thr_ok in Hok.
  destruct (t_calls th) as [|c rest]; [constructor; auto|].
  destruct (t_pc th) as [|o|o out|] eqn:Epc.
  - (* P1 *)
    destruct (cp1 (cf_s cf) t c) as [s' o] eqn:E1.
    destruct (cp1_spec _ _ _ _ _ I E1) as (I' & Ho & Hlen & _ & _ & _ & P).
    constructor; cbn [cf_s cf_thr]; [exact I'|].
    intros t' th' E'. destruct (Nat.eq_dec t' t) as [->|ne].
    + rewrite nth_error_upd_eq in E' by exact Htl. injection E' as <-. unfold thr_ok. cbn [t_pc]. exact Ho.
    + rewrite nth_error_upd_neq in E' by exact ne.
      apply (thr_ok_mono (cf_s cf)); auto.
  - (* P2 *)
    destruct (cp2 rprocess (cf_s cf) t c o) as [s' out] eqn:E2.
    destruct (cp2_spec _ _ _ _ _ _ I Hok E2) as (I' & Hnp & Hlen & _ & _ & _ & Pt & Po).
    rewrite Hnp.
    constructor; cbn [cf_s cf_thr]; [exact I'|].
    intros t' th' E'. destruct (Nat.eq_dec t' t) as [->|ne].
    + rewrite nth_error_upd_eq in E' by exact Htl. injection E' as <-. unfold thr_ok. cbn [t_pc].
      split; [lia|]. exists (frag_in c). exact Pt.
    + rewrite nth_error_upd_neq in E' by exact ne.
      apply (thr_ok_mono (cf_s cf)); auto. lia.
  - (* P3 *)
    destruct Hok as [Ho [fin Hf]].
    destruct (cp3_spec (cf_s cf) t o fin out I Ho Hf) as (I' & Hlen & _ & _ & _ & P).
    constructor; cbn [cf_s cf_thr]; [exact I'|].
    intros t' th' E'. destruct (Nat.eq_dec t' t) as [->|ne].
    + rewrite nth_error_upd_eq in E' by exact Htl. injection E' as <-. exact Logic.I.
    + rewrite nth_error_upd_neq in E' by exact ne.
      apply (thr_ok_mono (cf_s cf)); auto. lia.
  - destruct Hok.
Qed.

Lemma crun_inv : forall sched cf, ConfInv cf -> ConfInv (crun rprocess cf sched).
Proof.
  induction sched as [|t rest IH]; intros cf I; [exact I|].
  cbn [crun fold_left]. apply IH. apply cstep_inv. exact I.
Qed.

Lemma cinit_inv : forall high low timeout progs, ConfInv (cinit high low timeout progs).
Proof.
  intros. unfold cinit. constructor; cbn [cf_s cf_thr].
  - constructor; [constructor| | | |]; cbn; auto; try constructor; try tauto; try lia.
  - intros t th E. apply nth_error_In in E. apply in_map_iff in E. destruct E as [p [<- _]].
    exact Logic.I.
Qed.

Lemma reach_inv : forall high low timeout progs sched, ConfInv (crun0 high low timeout progs sched).
Proof. intros. apply crun_inv. apply cinit_inv. Qed.

(* ------------------------------------------------------------------ (a) no schedule panics *)
Lemma panics_rev : forall l, panics (rev l) = rev (panics l).
Proof.
  induction l as [|e t IH]; [reflexivity|]. cbn [rev]. rewrite panics_app, IH.
  destruct e; cbn [panics rev]; rewrite ?app_nil_r; reflexivity.
Qed.

(* Every schedule, any number of goroutines, any calls (no consistency assumption on the
   fragments, any limits and times): no r.process call panics, no goroutine dies, rList.Remove is
   never applied to an unlinked reassembler, the map and the list hold the same reassemblers (each
   under its own id), and a reassembler is marked done exactly when it has been unlinked. *)
Theorem concurrent_never_panics : forall high low timeout progs sched,
  let cf := crun0 high low timeout progs sched in
  let s := cf_s cf in
  panics (trace s) = [] /\
  Forall (fun th => t_pc th <> PCdead) (cf_thr cf) /\
  c_fault s = false /\
  NoDup (c_list s) /\
  (forall id o, mlookup id (c_map s) = Some o <-> In o (c_list s) /\ r_id (getobj s o) = id) /\
  (forall o, (o < length (c_objs s))%nat -> (r_done (getobj s o) = false <-> In o (c_list s))).
Proof.
  intros high low timeout progs sched cf s.
  destruct (reach_inv high low timeout progs sched) as [I Hthr]. fold cf in I, Hthr. fold s in I, Hthr.
  split; [unfold trace; rewrite panics_rev, (si_nopanic _ I); reflexivity|].
  split.
  { rewrite Forall_forall. intros th Hin. destruct (In_nth_error _ _ Hin) as [t Et].
    pose proof (Hthr t th Et) as Hok. unfold thr_ok in Hok. intros E. rewrite E in Hok. exact Hok. }
  pose proof (si_c _ I) as C.
  split; [apply (ci_fault _ C)|]. split; [apply (ci_nodup _ C)|].
  split; [intros id o; apply cinv_mlookup; exact C|apply (ci_done _ C)].
Qed.

(* ------------------------------------------------------------------ (b) the pre-3ed1739 code panics
   Two goroutines, the two-fragment datagram (A = bytes 0..7 with more, B = bytes 8..15, last).
   Goroutine 0 delivers A in a first call; then both goroutines deliver B: both pass P1 (same
   *reassembler), goroutine 0 runs r.process (the datagram is complete: reassemble empties the
   heap), and before it gets to its P3 (where release would set r.done) goroutine 1 runs r.process:
   r.done is false, no hole is filled, r.deleted = len(r.holes), heap.Pop on the empty heap. *)
Definition raceD : list Z := [1;2;3;4;5;6;7;8;9;10;11;12;13;14;15;16].
Definition raceA : call := mkCall 5 0 7 true (slice raceD 0 8) 0.
Definition raceB : call := mkCall 5 8 15 false (slice raceD 8 8) 0.
Definition raceProgs : list (list call) := [[raceA; raceB]; [raceB]].
Definition raceSched : list nat := [0; 0; 0; 0; 1; 0; 1]%nat.

Theorem concurrent_old_refuted :
  length raceProgs = 2%nat /\
  panics (trace (cf_s (crun0_old 1000 500 10 raceProgs raceSched))) = [1%nat] /\
  (* the repaired code on the same schedule, run to the end: the datagram once, nothing else *)
  rets (trace (cf_s (crun0 1000 500 10 raceProgs (raceSched ++ [0; 1]%nat)))) =
    [(0%nat, ([], false, false)); (0%nat, (raceD, true, false)); (1%nat, ([], false, false))].
Proof. vm_compute. repeat split; reflexivity. Qed.

(* ------------------------------------------------------------------ what a call returns *)
Lemma rets_ok_app : forall a b, rets_ok (a ++ b) -> rets_ok b.
Proof.
  induction a as [|e t IH]; intros b H; [exact H|].
  apply IH. destruct e; cbn [app rets_ok] in H; try exact H. apply H.
Qed.

(* Process returns exactly the (res, done) of the r.process call it made: every return event
   carries the values of the calling thread's most recent r.process event *)
Theorem concurrent_return_is_p2 : forall high low timeout progs sched pre t res done post,
  trace (cf_s (crun0 high low timeout progs sched)) = pre ++ EvRet t res done :: post ->
  exists o fin out, last_p2 t (rev pre) = Some (o, fin, out) /\ res = p_res out /\ done = p_done out.
Proof.
  intros high low timeout progs sched pre t res done post E.
  destruct (reach_inv high low timeout progs sched) as [I _].
  pose proof (si_rets _ I) as R. unfold trace in E.
  apply (f_equal (@rev ev)) in E. rewrite rev_involutive, rev_app_distr in E. cbn [rev] in E.
  rewrite <- app_assoc in E. cbn [app] in E. rewrite E in R.
  apply rets_ok_app in R. cbn [rets_ok] in R. apply R.
Qed.

(* ------------------------------------------------------------------ (d) one object: exact reassembly *)
Lemma covers_app_l : forall a b n, covers a n -> covers (a ++ b) n.
Proof.
  intros a b n H x Hx. destruct (H x Hx) as [f [Hin Hf]]. exists f. split; [apply in_or_app; now left|exact Hf].
Qed.

Lemma split_cmp : forall A (pre1 pre2 : list A) x y post1 post2,
  pre1 ++ x :: post1 = pre2 ++ y :: post2 ->
  pre1 = pre2 \/ (exists mid, pre2 = pre1 ++ x :: mid) \/ (exists mid, pre1 = pre2 ++ y :: mid).
Proof.
  induction pre1 as [|a t IH]; intros pre2 x y post1 post2 E.
  - destruct pre2 as [|b u]; [now left|]. cbn [app] in E. injection E as <- _. right. left. exists u. reflexivity.
  - destruct pre2 as [|b u]; cbn [app] in E.
    + injection E as <- _. right. right. exists t. reflexivity.
    + injection E as <- E. destruct (IH _ _ _ _ _ E) as [->|[[mid ->]|[mid ->]]].
      * now left.
      * right. left. exists mid. reflexivity.
      * right. right. exists mid. reflexivity.
Qed.

Section Exact.
  Variable D : list Z.
  Let n := zlen D.
  Hypothesis Hn : 1 <= n <= 65535.

  (* the three regimes of one reassembler object fed with fragments of D; [seen] = the fragments
     of all r.process calls made on it so far *)
  Inductive rphase (r : reasm) (seen : list fragin) : Prop :=
  | PhActive : RInv D r seen -> ~ covers seen n -> rphase r seen      (* collecting *)
  | PhComp : RComp r -> covers seen n -> rphase r seen                (* delivered, not yet marked *)
  | PhDone : r_done r = true -> rphase r seen.                         (* marked by release *)

  Lemma rphase_step : forall r seen f r' o, rphase r seen -> frag_of D f ->
    rprocess r (i_first f) (i_last f) (i_more f) (i_pl f) = (r', o) ->
    p_panic o = false /\ p_err o = false /\
    (p_done o = false -> p_res o = []) /\
    (p_done o = true -> p_res o = D /\ covers (seen ++ [f]) n /\ ~ covers seen n) /\
    (covers (seen ++ [f]) n -> ~ covers seen n -> r_done r = false -> p_done o = true /\ p_res o = D) /\
    rphase r' (seen ++ [f]) /\ r_done r' = r_done r.
  Proof.
    intros r seen f r' o Ph Hf E.
    destruct (rprocess_keeps _ _ _ _ _ _ _ E) as (Kd & _ & _).
    destruct Ph as [I Hnc|C Hc|Hd].
    - destruct (rprocess_step D Hn r seen f r' o I Hf E) as (P1 & P2 & _ & [(C & Dn & R & Cm)|(C & Dn & R & I')]).
      + split; [exact P1|]. split; [exact P2|]. split; [congruence|]. split; [auto|]. split; [auto|].
        split; [apply PhComp; auto|exact Kd].
      + split; [exact P1|]. split; [exact P2|]. split; [auto|]. split; [congruence|]. split; [tauto|].
        split; [apply PhActive; auto|exact Kd].
    - rewrite (rprocess_completed r _ _ _ _ C) in E. injection E as <- <-. cbn [p_panic p_err p_done p_res].
      split; [reflexivity|]. split; [reflexivity|]. split; [reflexivity|]. split; [discriminate|]. split; [tauto|].
      split; [apply PhComp; [exact C|apply covers_app_l; exact Hc]|reflexivity].
    - rewrite (rprocess_done r _ _ _ _ Hd) in E. injection E as <- <-. cbn [p_panic p_err p_done p_res].
      split; [reflexivity|]. split; [reflexivity|]. split; [reflexivity|]. split; [discriminate|].
      split; [intros _ _ Hf'; congruence|]. split; [apply PhDone; exact Hd|reflexivity].
  Qed.

  (* the sequential history of one object, position by position *)
  Lemma replay_exact : forall pre r seen fin out0 post,
    rphase r seen -> Forall (frag_of D) (hfrags (pre ++ HP2 fin out0 :: post)) ->
    let out := nth (length (hfrags pre)) (snd (replay r (pre ++ HP2 fin out0 :: post))) dpres in
    let S := seen ++ hfrags pre in
    p_panic out = false /\ p_err out = false /\
    (p_done out = false -> p_res out = []) /\
    (p_done out = true -> p_res out = D /\ covers (S ++ [fin]) n /\ ~ covers S n) /\
    (covers (S ++ [fin]) n -> ~ covers S n -> r_done r = false -> ~ In HMark pre ->
       p_done out = true /\ p_res out = D).
  Proof.
    induction pre as [|e pre IH]; intros r seen fin out0 post Ph Hall.
    - cbn [app hfrags length replay] in *. rewrite app_nil_r.
      inversion Hall as [|? ? Hf _]; subst.
      destruct (rprocess r (i_first fin) (i_last fin) (i_more fin) (i_pl fin)) as [r' o] eqn:E.
      destruct (replay r' post) as [r'' os]. cbn [snd nth].
      destruct (rphase_step r seen fin r' o Ph Hf E) as (P1 & P2 & P3 & P4 & P5 & _).
      split; [exact P1|]. split; [exact P2|]. split; [exact P3|]. split; [exact P4|].
      intros A B C _. apply P5; auto.
    - destruct e as [f1 o1|].
      + cbn [app hfrags length replay] in *.
        inversion Hall as [|? ? Hf1 Hall']; subst.
        destruct (rprocess r (i_first f1) (i_last f1) (i_more f1) (i_pl f1)) as [r' o] eqn:E.
        destruct (rphase_step r seen f1 r' o Ph Hf1 E) as (_ & _ & _ & _ & _ & Ph' & Kd).
        specialize (IH r' (seen ++ [f1]) fin out0 post Ph' Hall').
        destruct (replay r' (pre ++ HP2 fin out0 :: post)) as [r'' os]. cbn [snd nth] in *.
        cbv zeta in IH.
        assert (EqS : (seen ++ [f1]) ++ hfrags pre = seen ++ f1 :: hfrags pre) by (rewrite <- app_assoc; reflexivity).
        rewrite EqS in IH.
        destruct IH as (Q1 & Q2 & Q3 & Q4 & Q5).
        split; [exact Q1|]. split; [exact Q2|]. split; [exact Q3|]. split; [exact Q4|].
        intros A B C Hm. apply Q5; auto; [congruence|]. intros Hin. apply Hm. now right.
      + cbn [app hfrags replay] in *.
        assert (Ph' : rphase (set_done r) seen) by (apply PhDone; reflexivity).
        destruct (IH (set_done r) seen fin out0 post Ph' Hall) as (Q1 & Q2 & Q3 & Q4 & _).
        split; [exact Q1|]. split; [exact Q2|]. split; [exact Q3|]. split; [exact Q4|].
        intros _ _ _ Hm. exfalso. apply Hm. now left.
  Qed.
End Exact.

(* For EVERY schedule and every reassembler object o (the object's identity, not the datagram id:
   after a release a new object is created under the same id):
   1. linearization: the object's state is the SEQUENTIAL replay of its own history (its
      r.process calls in the order of their P2 steps, and the moment release marked it done)
      from its creation state, and the recorded outputs are the outputs of that replay;
   2. if every fragment handed to o is a consistent fragment of D (frag_of D; duplicates, overlaps,
      any order, any interleaving with marks by timeouts / eviction), then every r.process call on
      o: does not panic, does not fail; returns bytes only with done; returns done only if its
      fragment is the one that FIRST completes the coverage in P2 order, and then returns exactly
      D; and it does return (D, done) when its fragment first completes the coverage, unless
      release (timeout of the id, memory eviction) marked the object before;
   3. at most one call on o returns done.
   With concurrent_return_is_p2 (what Process returns is what its r.process returned) this is
   the statement about the calls of Fragmentation.Process. *)
Theorem concurrent_object_exact : forall D high low timeout progs sched o,
  1 <= zlen D <= 65535 ->
  let s := cf_s (crun0 high low timeout progs sched) in
  let h := ohist o (trace s) in
  Forall (frag_of D) (hfrags h) ->
  ((o < length (c_objs s))%nat -> replay (creation (getobj s o)) h = (getobj s o, houts h)) /\
  (forall pre fin out post, h = pre ++ HP2 fin out :: post ->
     let seen := hfrags pre in
     p_panic out = false /\ p_err out = false /\
     (p_done out = false -> p_res out = []) /\
     (p_done out = true -> p_res out = D /\ covers (seen ++ [fin]) (zlen D) /\ ~ covers seen (zlen D)) /\
     (covers (seen ++ [fin]) (zlen D) -> ~ covers seen (zlen D) -> ~ In HMark pre ->
        p_done out = true /\ p_res out = D)) /\
  (forall pre1 f1 o1 post1 pre2 f2 o2 post2,
     h = pre1 ++ HP2 f1 o1 :: post1 -> h = pre2 ++ HP2 f2 o2 :: post2 ->
     p_done o1 = true -> p_done o2 = true -> pre1 = pre2).
Proof.
  intros D high low timeout progs sched o Hn s h Hall.
  destruct (reach_inv high low timeout progs sched) as [I _]. fold s in I.
  assert (Hlin : (o < length (c_objs s))%nat -> replay (creation (getobj s o)) h = (getobj s o, houts h))
    by (intros Ho; apply (si_lin _ I o Ho)).
  assert (Hcall : forall pre fin out post, h = pre ++ HP2 fin out :: post ->
     let seen := hfrags pre in
     p_panic out = false /\ p_err out = false /\
     (p_done out = false -> p_res out = []) /\
     (p_done out = true -> p_res out = D /\ covers (seen ++ [fin]) (zlen D) /\ ~ covers seen (zlen D)) /\
     (covers (seen ++ [fin]) (zlen D) -> ~ covers seen (zlen D) -> ~ In HMark pre ->
        p_done out = true /\ p_res out = D)).
  { intros pre fin out post Eh seen.
    destruct (Nat.lt_ge_cases o (length (c_objs s))) as [Ho|Ho].
    2:{ exfalso. assert (Hnil : h = []).
        { unfold h, trace. apply (ohist_none o (length (c_objs s))); [apply Forall_rev; apply (si_ev _ I)|exact Ho]. }
        rewrite Hnil in Eh. destruct pre; discriminate Eh. }
    specialize (Hlin Ho).
    set (r0 := creation (getobj s o)) in *.
    assert (Ph : rphase D r0 []).
    { apply PhActive; [apply (RInv_new D Hn)|]. intros Hc. destruct (Hc 0 ltac:(lia)) as [f [[] _]]. }
    rewrite Eh in Hall, Hlin.
    pose proof (replay_exact D Hn pre r0 [] fin out post Ph Hall) as X. cbv zeta in X.
    rewrite Hlin in X. cbn [snd app] in X.
    rewrite houts_app in X. cbn [houts] in X.
    rewrite <- houts_hfrags_length in X. rewrite nth_middle in X.
    destruct X as (Q1 & Q2 & Q3 & Q4 & Q5).
    split; [exact Q1|]. split; [exact Q2|]. split; [exact Q3|]. split; [exact Q4|].
    intros A B C. apply Q5; auto. }
  split; [exact Hlin|]. split; [exact Hcall|].
  intros pre1 f1 o1 post1 pre2 f2 o2 post2 E1 E2 D1 D2.
  destruct (Hcall _ _ _ _ E1) as (_ & _ & _ & A1 & _). destruct (A1 D1) as (_ & C1 & N1).
  destruct (Hcall _ _ _ _ E2) as (_ & _ & _ & A2 & _). destruct (A2 D2) as (_ & C2 & N2).
  rewrite E1 in E2. destruct (split_cmp _ _ _ _ _ _ _ E2) as [->|[[mid ->]|[mid ->]]]; [reflexivity| |]; exfalso.
  - apply N2. rewrite hfrags_app. cbn [hfrags]. change (f1 :: hfrags mid) with ([f1] ++ hfrags mid).
    rewrite app_assoc. apply covers_app_l. exact C1.
  - apply N1. rewrite hfrags_app. cbn [hfrags]. change (f2 :: hfrags mid) with ([f2] ++ hfrags mid).
    rewrite app_assoc. apply covers_app_l. exact C2.
Qed.

(* ------------------------------------------------------------------ (e) the hypotheses are satisfiable
   Three goroutines, the two-fragment datagram: goroutine 0 delivers A; goroutines 1 and 2 both
   deliver B and interleave phase by phase: both get the same object, goroutine 1's r.process
   completes the datagram, goroutine 2's r.process runs BEFORE goroutine 1's release (the state
   "all holes deleted, heap empty, not done": the branch added by 3ed1739), then both finish. *)
Definition exProgs3 : list (list call) := [[raceA]; [raceB]; [raceB]].
Definition exSched3 : list nat := [0; 0; 0; 1; 2; 1; 2; 1; 2]%nat.
Definition nothing : pres := mkPres [] false 0 false false.

Example concurrent_example :
  let s := cf_s (crun0 1000 500 10 exProgs3 exSched3) in
  1 <= zlen raceD <= 65535 /\
  ohist 0 (trace s) =
    [HP2 (frag_in raceA) (mkPres [] false 8 false false);
     HP2 (frag_in raceB) (mkPres raceD true 8 false false);
     HP2 (frag_in raceB) nothing;
     HMark] /\
  Forall (frag_of raceD) (hfrags (ohist 0 (trace s))) /\
  ~ covers [frag_in raceA] (zlen raceD) /\
  covers [frag_in raceA; frag_in raceB] (zlen raceD) /\
  rets (trace s) = [(0%nat, ([], false, false)); (1%nat, (raceD, true, false)); (2%nat, ([], false, false))] /\
  c_list s = [] /\ c_size s = 0 /\ length (c_objs s) = 1%nat.
Proof.
  cbv zeta.
  assert (Eh : ohist 0 (trace (cf_s (crun0 1000 500 10 exProgs3 exSched3))) =
    [HP2 (frag_in raceA) (mkPres [] false 8 false false);
     HP2 (frag_in raceB) (mkPres raceD true 8 false false);
     HP2 (frag_in raceB) nothing;
     HMark]) by (vm_compute; reflexivity).
  rewrite Eh. cbn [hfrags].
  split; [vm_compute; split; discriminate|].
  split; [reflexivity|].
  split; [repeat constructor; vm_compute; try discriminate; reflexivity|].
  split; [|split; [|vm_compute; repeat split; reflexivity]].
  - intros Hc. destruct (Hc 10 ltac:(vm_compute; split; [discriminate|reflexivity])) as [g [Hin Hg]].
    destruct Hin as [<-|[]]. cbn in Hg. lia.
  - intros x Hx. change (zlen raceD) with 16 in Hx.
    destruct (Z_lt_dec x 8).
    + exists (frag_in raceA). split; [cbn; auto|cbn; lia].
    + exists (frag_in raceB). split; [cbn; auto|cbn; lia].
Qed.

(* ------------------------------------------------------------------ accounting under concurrency
   NOT part of the property text, documented because the sequential theorem size_accounting does
   not carry over: f.size = sum of r.size is not an invariant of concurrent executions, and the
   clamp at 0 in release makes the error permanent.  Goroutine 0 stores fragment A in reassembler
   r0 (P2: r0.size = 8, f.size still 0); goroutine 1 arrives after the reassembly timeout, its P1
   releases r0: f.size = 0 - 8, logged as an "accounting bug" and clamped to 0; goroutine 0's P3
   then adds its 8 consumed bytes to f.size although r0 is gone; goroutine 1 stores its own 8 bytes.
   Final state: one reassembler holding 8 bytes, f.size = 16. *)
Definition driftProgs : list (list call) :=
  [[mkCall 5 0 7 true (slice raceD 0 8) 0]; [mkCall 5 0 7 true (slice raceD 0 8) 100]].
Lemma concurrent_size_drift_reachable :
  let s := cf_s (crun0 1000 500 10 driftProgs [0; 0; 1; 0; 1; 1]%nat) in
  c_size s = 16 /\ map (fun o => r_size (getobj s o)) (c_list s) = [8] /\ panics (trace s) = [].
Proof. vm_compute. repeat split; reflexivity. Qed.
