(* C05: Examples showing that the hypotheses of the C05 theorems are satisfiable by non-trivial
   reachable states (all by computation on a concrete connection: MSS 10, a 200-byte write =
   20 segments, ACK of the first, three duplicate ACKs, a partial ACK, a full ACK, time-outs). *)
From Coq Require Import ZArith List Bool Lia.
From NP Require Import Model.Seqnum Model.GoHeap Model.Tcp Proofs.TcpCcP Proofs.TcpCcInvP Proofs.TcpCcRtoP.
Import ListNotations.
Open Scope Z_scope.

Definition exR := mkRcvr 5000 35000 0 false [] 0 65536.
Definition exS := mkSndr 0 false 0 999 0 10 maxInt 0 0 30000 1000 1000 1000 false [] [] 0 1000000000 10 0 5000 1000.
Definition ex0 := mkTcp exR exS [] 0 65536 false 65536 0 false 0 false [].

Definition wr := EWrite (repeat 7 200).
Definition ack (k : Z) := ESeg (mkSeg 5000 k fAck 30000 [] false false) 1000000000.
Definition sgack (k : Z) := mkSeg 5000 k fAck 30000 [] false false.

Example ex0_fresh : fresh_sender (SN ex0).
Proof. vm_compute. repeat split. Qed.

(* after the write: exactly 10 data segments in flight, the other 100 bytes queued *)
Example ex_initial_window :
  dcount (run_out ex0 [wr]) = 10 /\ outstanding (SN (run ex0 [wr])) = 10 /\
  length (wunsent (SN (run ex0 [wr]))) = 1%nat /\ forallb noAck [wr; ERead; wr] = true.
Proof. vm_compute. repeat split. Qed.

(* state after: write, ACK of the first segment, two duplicate ACKs *)
Definition exA := run ex0 [wr; ack 1010; ack 1010; ack 1010].

Example ex_third_dupack :
  third_dupack exA (sgack 1010) /\
  exists w rest, wsent (SN exA) ++ wunsent (SN exA) = w :: rest /\ w_seq w = sndUna (SN exA) /\
                 tstate (SN exA) = tEnabled /\ outstanding (SN exA) = 11.
Proof.
  split.
  - unfold third_dupack. vm_compute. repeat split; discriminate.
  - exists (hd (mkW 0 0 []) (wsent (SN exA) ++ wunsent (SN exA))), (tl (wsent (SN exA) ++ wunsent (SN exA))).
    vm_compute. repeat split.
Qed.

(* in fast recovery *)
Definition exB := run exA [ack 1010].
Example ex_in_recovery :
  frActive (SN exB) = true /\ ssthresh (SN exB) = 5 /\ cwnd (SN exB) = 8 /\ frFirst (SN exB) = 1010 /\
  frLast (SN exB) = 1119 /\
  exists f, In f (out exB) /\ f_seq f = 1010 /\ len (f_data f) = 10.
Proof.
  vm_compute. repeat split. exists (mkF 1010 5000 24 65535 (repeat 7 10)).
  vm_compute. split; [left; reflexivity|]. split; reflexivity.
Qed.

Example ex_partial_ack :
  partial_ack exB (sgack 1030) /\
  exists w rest, trimmed (wsent (SN exB) ++ wunsent (SN exB)) (newlyAcked (SN exB) (sgack 1030)) = w :: rest /\
                 w_seq w = 1030.
Proof.
  split.
  - unfold partial_ack. vm_compute. repeat split; discriminate.
  - exists (hd (mkW 0 0 []) (trimmed (wsent (SN exB) ++ wunsent (SN exB)) (newlyAcked (SN exB) (sgack 1030)))),
           (tl (trimmed (wsent (SN exB) ++ wunsent (SN exB)) (newlyAcked (SN exB) (sgack 1030)))).
    vm_compute. split; reflexivity.
Qed.

Definition exC := run exB [ack 1030].
Example ex_recovery_ack :
  recovery_ack exC (sgack 1120) /\ 2 <= ssthresh (SN exC) /\ 0 <= caCount (SN exC) /\
  frActive (SN (run exC [ack 1120])) = false /\ cwnd (SN (run exC [ack 1120])) = 6.
Proof. unfold recovery_ack. vm_compute. repeat split; discriminate. Qed.

(* time-outs *)
Definition exW := run ex0 [wr].
Example ex_rto_live :
  live exW /\ rto (SN exW) < maxRTO /\
  exists w rest, wsent (SN exW) ++ wunsent (SN exW) = w :: rest /\ w_flags w <> 0 /\ w_data w <> [] /\
     lessThan (w_seq w) (add (sndUna (SN exW)) (sndWnd (SN exW))) = true /\
     out (fst (step exW ERto)) = [mkF 1000 5000 24 65535 (repeat 7 10)].
Proof.
  split; [vm_compute; split; reflexivity|]. split; [vm_compute; reflexivity|].
  exists (hd (mkW 0 0 []) (wsent (SN exW) ++ wunsent (SN exW))), (tl (wsent (SN exW) ++ wunsent (SN exW))).
  vm_compute. repeat split; discriminate.
Qed.

Example ex_backoff :
  (forall i, (i < 6)%nat -> live (silent i exW)) /\
  rto (SN (silent 6 exW)) = 64000000000 /\
  estate (silent 6 exW) = stConnected /\ estate (silent 7 exW) = stError /\
  map f_flags (out (silent 7 exW)) = [Z.lor fAck fRst].
Proof.
  split.
  - intros i Hi. do 6 (destruct i as [|i]; [vm_compute; split; reflexivity|]). lia.
  - vm_compute. repeat split.
Qed.

(* the counters of the bound along the whole scenario *)
Example ex_bound :
  let r := grun ex0 g0 [wr; ack 1010; ack 1010; ack 1010; ack 1010; ack 1010; ack 1030; ack 1120; ERto] in
  gA (snd r) = 12 /\ gD (snd r) = 4 /\ gRto (snd r) = 1 /\ cwnd (SN (fst r)) = 1.
Proof. vm_compute. repeat split. Qed.

(* ---- clauses that are false of the faithful model as worded: witnesses ---- *)

(* "exactly one segment per timeout": with a zero peer window the expiry retransmits NOTHING
   (no window probe; the timer is re-armed and the back-off continues) *)
Definition ackw (k w : Z) := ESeg (mkSeg 5000 k fAck w [] false false) 1000000000.
Definition exZ := run ex0 [wr; ackw 1010 0].
Lemma rto_zero_window_refuted :
  exists t, live t /\ rto (SN t) < maxRTO /\ sndUna (SN t) <> sndNxt (SN t) /\
            wsent (SN t) ++ wunsent (SN t) <> [] /\ sndWnd (SN t) = 0 /\
            out (fst (step t ERto)) = [] /\ tstate (SN (fst (step t ERto))) = tEnabled /\
            rto (SN (fst (step t ERto))) = 2 * rto (SN t).
Proof. exists exZ. vm_compute. repeat split; discriminate. Qed.

(* "after three duplicate ACKs ... retransmitted without waiting for the timeout": not when an
   earlier recovery (here a time-out) already covers the segment (ack <= fr.last, RFC 6582's
   guard against repeated fast retransmits): three exact duplicates, nothing is sent *)
Definition exT := run ex0 [wr; ERto; ack 1000; ack 1000].
Lemma fast_retransmit_covered_refuted :
  exists t sg, processed t sg = true /\ frActive (SN t) = false /\ dupAck (SN t) = 2 /\
     sndUna (SN t) <> sndNxt (SN t) /\ s_ack sg = sndUna (SN t) /\ seglen sg = 0 /\
     wndOf t sg = sndWnd (SN t) /\ lessThan (frLast (SN t)) (sndUna (SN t)) = false /\
     dcount (out (fst (step t (ESeg sg 1000000000)))) = 0 /\
     frActive (SN (fst (step t (ESeg sg 1000000000)))) = false.
Proof. exists exT, (sgack 1000). vm_compute. repeat split; discriminate. Qed.

(* ... and not after a finished FAST recovery either: leaveFastRecovery moves fr.last up to
   sndNxt-1, so a loss among the segments in flight at that moment cannot be fast-retransmitted
   (those sent during the recovery and not covered by the ACK that ends it)
   although sndUna is beyond the point of the recovery (RFC 6582 keeps "recover" = 1119 here and
   would retransmit): candidate finding, also observed on traces of the real code (tag bit 32) *)
(* four more duplicates in recovery inflate cwnd to 12: one NEW segment (1120..1130) goes out;
   the ACK 1120 then ends the recovery (1120 > fr.last = 1119) with fr.last := sndNxt-1 = 1129 *)
Definition exE := run exB [ack 1010; ack 1010; ack 1010; ack 1010].
Definition exD := run exE [ack 1120; ack 1120; ack 1120].
Lemma fast_retransmit_after_recovery_refuted :
  exists t sg recover,
     recover = frLast (SN exB) /\ frActive (SN exB) = true /\ frActive (SN t) = false /\
     lessThan recover (sndUna (SN t)) = true /\ gRto (snd (grun ex0 g0 [wr; ack 1010; ack 1010; ack 1010; ack 1010; ack 1010; ack 1010; ack 1010; ack 1010; ack 1120; ack 1120; ack 1120])) = 0 /\
     processed t sg = true /\ dupAck (SN t) = 2 /\ outstanding (SN t) = 7 /\
     sndUna (SN t) <> sndNxt (SN t) /\ s_ack sg = sndUna (SN t) /\ seglen sg = 0 /\
     wndOf t sg = sndWnd (SN t) /\
     dcount (out (fst (step t (ESeg sg 1000000000)))) = 0 /\
     frActive (SN (fst (step t (ESeg sg 1000000000)))) = false.
Proof. exists exD, (sgack 1120), 1119. vm_compute. repeat split; discriminate. Qed.
