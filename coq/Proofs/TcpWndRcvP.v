(* C04, part 2: the receiver side (rcv.go, endpoint.go): the advertised window, its right edge,
   acceptance/delivery and the closing/reopening window.  Invariant-based, offsets relative to a base b. *)
From Coq Require Import ZArith List Bool Lia ZifyBool.
From RecordUpdate Require Import RecordSet.
From NP Require Import Model.Seqnum Model.GoHeap Model.Tcp Proofs.SeqnumP Proofs.TcpWndP Proofs.TcpWndHeapP.
Import ListNotations RecordSetNotations.
Open Scope Z_scope.

Definition P29 := 536870912.
Definition P30 := 1073741824.

(* ------------------------------------------------------------------ spec vocabulary *)
(* right edge a frame advertises, for a receiver that shifts its window by s *)
Definition edge (s : Z) (f : frame) : Z := add (f_ack f) (Z.shiftl (f_wnd f) s).

(* along l, starting after an edge [last], no advertised edge lies more than k to the left of its
   predecessor (k = 0: the edge never moves left) *)
Fixpoint monok (s k last : Z) (l : list frame) : Prop :=
  match l with
  | [] => True
  | f :: r => lessThan (add (edge s f) k) last = false /\ monok s k (edge s f) r
  end.
Fixpoint last_edge (s last : Z) (l : list frame) : Z :=
  match l with [] => last | f :: r => last_edge s (edge s f) r end.

Lemma monok_app s k : forall l1 l2 last,
  monok s k last (l1 ++ l2) <-> monok s k last l1 /\ monok s k (last_edge s last l1) l2.
Proof.
  induction l1 as [|f r IH]; intros l2 last; cbn [app monok last_edge]; [tauto|].
  rewrite IH. tauto.
Qed.
Lemma last_edge_app s : forall l1 l2 last, last_edge s last (l1 ++ l2) = last_edge s (last_edge s last l1) l2.
Proof. induction l1 as [|f r IH]; intros l2 last; cbn [app last_edge]; [reflexivity|apply IH]. Qed.

Definition wnd_of (d s : Z) : Z := Z.min 65535 (Z.shiftr d s).

(* ------------------------------------------------------------------ arithmetic of the advertised edge *)
Lemma shift_round d s : 0 <= s -> 0 <= d ->
  Z.shiftl (Z.shiftr d s) s <= d /\ d - (2^s - 1) <= Z.shiftl (Z.shiftr d s) s /\ 0 <= Z.shiftr d s.
Proof.
  intros Hs Hd. rewrite Z.shiftr_div_pow2, Z.shiftl_mul_pow2 by lia.
  assert (Hp : 0 < 2^s) by (apply Z.pow_pos_nonneg; lia).
  pose proof (Z.mul_div_le d (2^s) Hp). pose proof (Z.mod_pos_bound d (2^s) Hp).
  pose proof (Z.div_mod d (2^s)). pose proof (Z.div_pos d (2^s) Hd Hp). nia.
Qed.

Lemma wnd_of_bounds d s : 0 <= s -> 0 <= d ->
  0 <= wnd_of d s <= 65535 /\ Z.shiftl (wnd_of d s) s <= d.
Proof.
  intros Hs Hd. unfold wnd_of. destruct (shift_round d s Hs Hd) as (A & B & C).
  assert (Hp : 0 < 2^s) by (apply Z.pow_pos_nonneg; lia).
  destruct (Z.min_spec 65535 (Z.shiftr d s)) as [(L & ->)|(L & ->)].
  - split; [lia|]. rewrite Z.shiftl_mul_pow2 in * by lia. nia.
  - split; [lia|exact A].
Qed.

Lemma edge_arith s N n a a' : 0 <= s -> N <= n -> N <= a -> a <= a' -> n <= a' ->
  let e := N + Z.shiftl (wnd_of (a - N) s) s in
  let e' := n + Z.shiftl (wnd_of (a' - n) s) s in
  e <= e' + (2^s - 1) /\ e' <= a' /\ e <= a /\ n <= e' /\ N <= e.
Proof.
  intros Hs H1 H2 H3 H4. cbv zeta.
  destruct (wnd_of_bounds (a - N) s Hs ltac:(lia)) as ((A1 & A2) & A3).
  destruct (wnd_of_bounds (a' - n) s Hs ltac:(lia)) as ((B1 & B2) & B3).
  assert (Hp : 0 < 2^s) by (apply Z.pow_pos_nonneg; lia).
  assert (S1 : 0 <= Z.shiftl (wnd_of (a - N) s) s) by (rewrite Z.shiftl_mul_pow2 by lia; nia).
  assert (S2 : 0 <= Z.shiftl (wnd_of (a' - n) s) s) by (rewrite Z.shiftl_mul_pow2 by lia; nia).
  repeat split; try lia.
  unfold wnd_of at 2. destruct (Z.min_spec 65535 (Z.shiftr (a' - n) s)) as [(L & ->)|(L & ->)].
  - assert (Z.shiftl (wnd_of (a - N) s) s <= Z.shiftl 65535 s).
    { rewrite !Z.shiftl_mul_pow2 by lia. nia. }
    lia.
  - destruct (shift_round (a' - n) s Hs ltac:(lia)) as (C1 & C2 & C3). lia.
Qed.

(* ------------------------------------------------------------------ the receiver invariant inside a step *)
(* what holds of one emitted frame: base b, shift s, n0/a0 = offsets of rcvNxt/rcvAcc when the
   step began, a = current offset of rcvAcc, U/sz = current buffer use/size *)
Definition FrOK (b s n0 a0 a U sz : Z) (f : frame) : Prop :=
  exists nf af, f_ack f = seq_of b nf /\ f_wnd f = wnd_of (af - nf) s /\
                n0 <= nf <= af /\ a0 <= af <= a /\ af - nf <= Z.max 0 (sz - U).

Definition K (b s k B n0 a0 E0 : Z) (t : tcp) : Prop :=
  exists N n a,
    maxSentAck (SN t) = seq_of b N /\ rcvNxt (RC t) = seq_of b n /\ rcvAcc (RC t) = seq_of b a /\
    rcvWndScale (RC t) = s /\
    n0 <= N /\ N <= n <= N + B /\ N <= a <= N + P30 /\ a0 <= a /\
    0 <= rcvBufSize t <= P30 /\ rcvBufUsed t = len (concat (rcvList t)) /\
    a - n <= Z.max 0 (rcvBufSize t - rcvBufUsed t) /\
    monok s k E0 (out t) /\
    last_edge s E0 (out t) = seq_of b (N + Z.shiftl (wnd_of (a - N) s) s) /\
    Forall (FrOK b s n0 a0 a (rcvBufUsed t) (rcvBufSize t)) (out t).

Lemma FrOK_mono b s n0 a0 a a' U U' sz f : a <= a' -> U' <= U -> FrOK b s n0 a0 a U sz f -> FrOK b s n0 a0 a' U' sz f.
Proof. intros H1 H2 (nf & af & A & B & C & D & E). exists nf, af. repeat split; try assumption; lia. Qed.

Lemma K_weaken b s k B B' n0 a0 E0 t : B <= B' -> K b s k B n0 a0 E0 t -> K b s k B' n0 a0 E0 t.
Proof.
  intros HB (N & n & a & H). exists N, n, a. decompose [and] H. repeat split; try assumption; lia.
Qed.

Lemma seq_of_inj b x y : seq_of b x = seq_of b y -> - 2^31 < x - y < 2^31 -> x = y.
Proof.
  unfold seq_of, u32. intros H1 H2. consts. change (2^31) with 2147483648 in *.
  Z.div_mod_to_equations. lia.
Qed.

Lemma u32_small x : 0 <= x < 2^32 -> u32 x = x.
Proof. intros H. unfold u32. apply Z.mod_small. exact H. Qed.

Lemma K_sendSegment b s k B n0 a0 E0 t d fl sq :
  0 <= s <= 14 -> k = 2^s - 1 -> 0 <= B <= P29 ->
  K b s k B n0 a0 E0 t -> K b s k 0 n0 a0 E0 (sendSegment t d fl sq).
Proof.
  intros Hs Hk HB (N & n & a & HN & Hn & Ha & Hsc & H0 & H1 & H2 & H3 & Hsz & HU & HJ & Hm & Hl & Hf).
  rewrite sendSegment_eq. pose proof (len_nonneg (concat (rcvList t))) as HU0.
  set (avail := receiveBufferAvailable t).
  assert (Hav : avail = Z.max 0 (rcvBufSize t - rcvBufUsed t)).
  { subst avail. unfold receiveBufferAvailable. destruct (rcvBufSize t <=? rcvBufUsed t) eqn:E; lia. }
  assert (Hav2 : 0 <= avail <= P30) by (unfold P30 in *; lia).
  set (a' := Z.max a (n + avail)).
  assert (Hna : newAcc t = seq_of b a').
  { unfold newAcc. fold avail. rewrite Hn, Ha. rewrite (u32_small avail) by (unfold P30 in *; consts; lia).
    rewrite seq_of_add. rewrite lessThan_offsets by (unfold P29, P30 in *; consts; lia).
    subst a'. destruct (a <? n + avail) eqn:E; f_equal; lia. }
  assert (Ha' : a <= a' /\ n <= a' /\ a' - n <= Z.max 0 (rcvBufSize t - rcvBufUsed t) /\ a' <= n + P30)
    by (subst a'; lia).
  destruct Ha' as (A1 & A2 & A3 & A4).
  assert (Hw : adv_wnd (rcvNxt (RC t)) (newAcc t) (rcvWndScale (RC t)) = wnd_of (a' - n) s).
  { unfold adv_wnd, wnd_of. rewrite Hna, Hn, Hsc.
    change (u32 (seq_of b a' - seq_of b n)) with (size (seq_of b n) (seq_of b a')).
    rewrite size_offsets by (unfold P30 in *; consts; lia). reflexivity. }
  rewrite Hw, Hn.
  destruct (edge_arith s N n a a' ltac:(lia) ltac:(lia) ltac:(lia) A1 A2) as (E1 & E2 & E3 & E4 & E5).
  destruct (wnd_of_bounds (a' - n) s ltac:(lia) ltac:(lia)) as ((W1 & W2) & W3).
  destruct (wnd_of_bounds (a - N) s ltac:(lia) ltac:(lia)) as ((V1 & V2) & V3).
  assert (P14 : 2^s <= 16384).
  { change 16384 with (2^14). apply Z.pow_le_mono_r; lia. }
  assert (Hp : 0 < 2^s) by (apply Z.pow_pos_nonneg; lia).
  assert (Sh : Z.shiftl (wnd_of (a' - n) s) s <= 65535 * 16384) by (rewrite Z.shiftl_mul_pow2 by lia; nia).
  set (f := mkF sq (seq_of b n) fl (wnd_of (a' - n) s) d).
  assert (Ef : edge s f = seq_of b (n + Z.shiftl (wnd_of (a' - n) s) s)).
  { unfold edge, f. cbn [f_ack f_wnd]. apply seq_of_add. }
  exists n, n, a'. cbn [SN RC out set maxSentAck rcvNxt rcvAcc rcvWndScale rcvBufSize rcvBufUsed].
  cbn.
  repeat split; try assumption; try lia.
  - apply monok_app. split; [exact Hm|]. cbn [monok]. split; [|exact I].
    rewrite Hl, Ef, seq_of_add. rewrite lessThan_offsets by (unfold P29, P30 in *; consts; lia).
    apply Z.ltb_ge. lia.
  - rewrite last_edge_app. cbn [last_edge]. exact Ef.
  - apply Forall_app. split.
    + eapply Forall_impl; [|exact Hf]. intros g Hg. eapply FrOK_mono; [exact A1|apply Z.le_refl|exact Hg].
    + constructor; [|constructor]. exists n, a'. cbn [f_ack f_wnd f]. repeat split; try lia.
Qed.

(* ------------------------------------------------------------------ the sender functions, seen from the receiver:
   a sequence of sendSegment calls and of updates that leave the receiver, the buffers and
   maxSentAck alone *)
Definition rneutral (t t1 : tcp) : Prop :=
  RC t1 = RC t /\ rcvBufUsed t1 = rcvBufUsed t /\ rcvBufSize t1 = rcvBufSize t /\ rcvList t1 = rcvList t /\
  out t1 = out t /\ maxSentAck (SN t1) = maxSentAck (SN t) /\ tsOk t1 = tsOk t /\
  rcvClosedE t1 = rcvClosedE t.

Inductive sends : tcp -> tcp -> Prop :=
| sends_refl t : sends t t
| sends_seg t d fl sq t' : sends (sendSegment t d fl sq) t' -> sends t t'
| sends_neu t t1 t' : rneutral t t1 -> sends t1 t' -> sends t t'.

Lemma sends_trans a b c : sends a b -> sends b c -> sends a c.
Proof.
  induction 1 as [t|t d fl sq t' H IH|t t1 t' Hn H IH]; intros Hc; [exact Hc| |].
  - eapply sends_seg. apply IH. exact Hc.
  - eapply sends_neu; [exact Hn|]. apply IH. exact Hc.
Qed.
Lemma sends_one_seg t d fl sq : sends t (sendSegment t d fl sq).
Proof. eapply sends_seg. apply sends_refl. Qed.
Lemma sends_one_neu t t1 : rneutral t t1 -> sends t t1.
Proof. intros H. eapply sends_neu; [exact H|apply sends_refl]. Qed.

Lemma rneutral_SN t s : maxSentAck s = maxSentAck (SN t) -> rneutral t (t <| SN := s |>).
Proof. intros H. unfold rneutral. cbn. repeat split. exact H. Qed.

Lemma K_neutral b s k B n0 a0 E0 t t1 : rneutral t t1 -> K b s k B n0 a0 E0 t -> K b s k B n0 a0 E0 t1.
Proof.
  intros (R & U & Sz & L & O & M & _) (N & n & a & H). exists N, n, a.
  rewrite R, U, Sz, L, O, M. exact H.
Qed.

Lemma K_sends b s k B n0 a0 E0 t t' :
  0 <= s <= 14 -> k = 2^s - 1 -> 0 <= B <= P29 ->
  sends t t' -> K b s k B n0 a0 E0 t -> K b s k B n0 a0 E0 t'.
Proof.
  intros Hs Hk HB H. induction H as [t|t d fl sq t' H IH|t t1 t' Hn H IH]; intros HK; [exact HK| |].
  - apply IH. eapply K_weaken; [|eapply K_sendSegment; eassumption]. lia.
  - apply IH. eapply K_neutral; eassumption.
Qed.

(* the receiver-side state the sender functions never change *)
Definition rc_same (t t' : tcp) : Prop :=
  rcvNxt (RC t') = rcvNxt (RC t) /\ rcvWndScale (RC t') = rcvWndScale (RC t) /\ rclosed (RC t') = rclosed (RC t) /\
  pending (RC t') = pending (RC t) /\ pendUsed (RC t') = pendUsed (RC t) /\ pendSize (RC t') = pendSize (RC t) /\
  rcvList t' = rcvList t /\ rcvBufUsed t' = rcvBufUsed t /\ rcvBufSize t' = rcvBufSize t /\
  tsOk t' = tsOk t /\ rcvClosedE t' = rcvClosedE t.

Lemma rc_same_refl t : rc_same t t. Proof. repeat split. Qed.
Lemma rc_same_trans a b c : rc_same a b -> rc_same b c -> rc_same a c.
Proof.
  unfold rc_same. intros A B. decompose [and] A. decompose [and] B. repeat split; congruence.
Qed.

Lemma sends_rc_same t t' : sends t t' -> rc_same t t'.
Proof.
  induction 1 as [t|t d fl sq t' H IH|t t1 t' Hn H IH]; [apply rc_same_refl| |].
  - eapply rc_same_trans; [|exact IH]. rewrite sendSegment_eq. unfold rc_same. cbn. repeat split.
  - eapply rc_same_trans; [|exact IH]. destruct Hn as (R & U & Sz & L & O & M & T & C).
    unfold rc_same. rewrite R, U, Sz, L, T, C. repeat split.
Qed.

Lemma loopExit_neutral t : rneutral t (loopExit t).
Proof. unfold loopExit. destruct (_ && _); [destruct (estate t =? stError)|]; unfold rneutral; cbn; repeat split. Qed.

Lemma sendAck_sends t : sends t (sendAck t).
Proof. apply sends_one_seg. Qed.

Ltac send_iter t :=
  match goal with
  | |- sends t (if ?c then set SN ?S (sendSegment ?T1 ?d ?fl ?sq) else _) =>
      apply (sends_neu t T1); [apply rneutral_SN; cbn; reflexivity|];
      apply (sends_seg T1 d fl sq); destruct c;
      [apply sends_one_neu; apply rneutral_SN; cbn; reflexivity|apply sends_refl]
  end.

Lemma sendLoop_sends fuel : forall t endv limit, sends t (sendLoop fuel t endv limit).
Proof.
  induction fuel as [|fuel IH]; intros t endv limit; cbn [sendLoop]; [apply sends_refl|].
  destruct (wunsent (SN t)) as [|w rest] eqn:Ew; [apply sends_refl|].
  destruct (negb (outstanding (SN t) <? cwnd (SN t))); [apply sends_refl|].
  set (w1 := if w_flags w =? 0 then _ else w).
  destruct (len (w_data w1) =? 0).
  - match goal with |- sends t (sendLoop fuel ?T endv limit) => eapply sends_trans; [|apply (IH T)] end.
    send_iter t.
  - destruct (negb (lessThan (w_seq w1) endv)).
    { apply sends_one_neu. apply rneutral_SN. cbn. reflexivity. }
    match goal with |- context [if ?c then (_, _ :: rest) else _] => destruct c end.
    + match goal with |- sends t (sendLoop fuel ?T endv limit) => eapply sends_trans; [|apply (IH T)] end.
      send_iter t.
    + match goal with |- sends t (sendLoop fuel ?T endv limit) => eapply sends_trans; [|apply (IH T)] end.
      send_iter t.
Qed.

Lemma sendData_sends t idle : sends t (sendData t idle).
Proof.
  unfold sendData. cbv zeta.
  set (s1 := if _ : bool then _ else SN t).
  assert (M1 : maxSentAck s1 = maxSentAck (SN t)) by (subst s1; destruct (_ && _); reflexivity).
  set (t1 := t <| SN := s1 |>).
  set (t2 := sendLoop _ t1 _ _).
  assert (S2 : sends t t2).
  { eapply sends_neu; [apply (rneutral_SN t s1 M1)|]. apply sendLoop_sends. }
  destruct (negb (tstate (SN t2) =? tEnabled) && _); [|exact S2].
  eapply sends_trans; [exact S2|]. apply sends_one_neu. apply rneutral_SN. reflexivity.
Qed.

Lemma resendSegment_sends t : sends t (resendSegment t).
Proof.
  unfold resendSegment. cbv zeta.
  eapply sends_neu; [apply (rneutral_SN t ((SN t) <| rttSeq := sndNxt (SN t) |>)); reflexivity|].
  destruct (wsent _ ++ wunsent _) as [|w r]; [apply sends_refl|apply sends_one_seg].
Qed.

Lemma ackProcess_neutral t3 ack tsecr crto : rneutral t3 (ackProcess t3 ack tsecr crto).
Proof.
  unfold ackProcess. cbv zeta.
  destruct (inRange _ _ _); [|unfold rneutral; repeat split].
  set (s5 := if _ : bool then _ else _).
  assert (H5 : maxSentAck s5 = maxSentAck (SN t3)) by (subst s5; destruct (_ && _); reflexivity).
  destruct (ackLoop _ _ _ _ _) as [[sent' unsent'] removed].
  set (s6 := s5 <| sndUna := ack |> <| wsent := sent' |> <| wunsent := unsent' |> <| outstanding := _ |>).
  assert (H6 : maxSentAck s6 = maxSentAck s5) by reflexivity.
  set (s7 := if frActive s6 then s6 else _).
  assert (H7 : maxSentAck s7 = maxSentAck s6).
  { subst s7. destruct (frActive s6); [reflexivity|].
    destruct (renoUpdate_core s6 removed) as (?&?&?&?&?&?&?&?&?&?). assumption. }
  unfold rneutral. destruct (outstanding s7 <? 0); cbn; repeat split; congruence.
Qed.

Lemma sndHandle_sends t sg wnd newRto idle : sends t (sndHandle t sg wnd newRto idle).
Proof.
  rewrite sndHandle_eq.
  pose proof (checkDuplicateAck_core (rttStart t (s_ack sg) newRto) (s_ack sg)
                (plogicalLen (s_flags sg) (s_data sg)) wnd) as Hc.
  destruct (checkDuplicateAck _ _ _ _) as [s2 rtx]. cbn [fst] in Hc. cbv zeta.
  pose proof (rttStart_core t (s_ack sg) newRto) as H1.
  pose proof (core_same_trans _ _ _ H1 Hc) as (_&_&_&_&_&_&_&_&_&M).
  set (t3 := t <| SN := s2 <| sndWnd := wnd |> |>).
  assert (N3 : rneutral t t3) by (apply rneutral_SN; cbn; exact M).
  pose proof (ackProcess_neutral t3 (s_ack sg) (s_tsecr sg) (clampRto newRto)) as N4.
  set (t4 := ackProcess t3 _ _ _) in *.
  eapply sends_neu; [exact N3|]. eapply sends_neu; [exact N4|].
  eapply sends_trans; [|apply sendData_sends].
  destruct rtx; [apply resendSegment_sends|apply sends_refl].
Qed.

(* ------------------------------------------------------------------ the receiver functions *)
Definition consumeGo (fl : Z) (fromHeap : bool) (t : tcp) (segSeq segLen : Z) (data : list Z) : tcp * bool * list Z :=
  let t1 := t <| RC := (RC t) <| rcvNxt := add segSeq segLen |> |> in
  if has fl fFin then
    let t2 := t1 <| RC := (RC t1) <| rcvNxt := u32 (rcvNxt (RC t1) + 1) |> |> in
    let t3 := sendAck t2 in
    let first := if fromHeap && negb (Nat.eqb (length (pending (RC t3))) 0) then 1%nat else 0%nat in
    let t4 := t3 <| RC := (RC t3) <| rclosed := true |> <| pending := firstn first (pending (RC t3)) |> |>
                 <| rcvClosedE := true |> in
    (t4, true, data)
  else (t1, true, data).

Lemma consumeSegment_eq t fl d sq sl fh :
  consumeSegment t fl d sq sl fh =
  if 0 <? sl then
    if negb (inWindow (rcvNxt (RC t)) sq sl) then (t, false, d)
    else if lessThan sq (rcvNxt (RC t)) then
      let diff := size sq (rcvNxt (RC t)) in
      let d' := dropZ diff d in
      consumeGo fl fh (readyToRead t d') (add sq diff) (u32 (sl - diff)) d'
    else consumeGo fl fh (readyToRead t d) sq sl d
  else if negb (sq =? rcvNxt (RC t)) then (t, false, d)
  else consumeGo fl fh t sq sl d.
Proof. reflexivity. Qed.

(* K does not look at these receiver fields *)
Lemma K_close b s k B n0 a0 E0 t p :
  K b s k B n0 a0 E0 t ->
  K b s k B n0 a0 E0 (t <| RC := (RC t) <| rclosed := true |> <| pending := p |> |> <| rcvClosedE := true |>).
Proof. intros (N & n & a & H). exists N, n, a. exact H. Qed.

Lemma K_bump b s k B n0 a0 E0 t :
  K b s k B n0 a0 E0 t -> K b s k (B + 1) n0 a0 E0 (t <| RC := (RC t) <| rcvNxt := u32 (rcvNxt (RC t) + 1) |> |>).
Proof.
  intros (N & n & a & HN & Hn & Ha & Hsc & H0 & H1 & H2 & H3 & Hsz & HU & HJ & Hm & Hl & Hf).
  exists N, (n + 1), a. cbn. rewrite Hn.
  assert (u32 (seq_of b n + 1) = seq_of b (n + 1)) as -> by (unfold seq_of; word).
  repeat split; try assumption; lia.
Qed.

Lemma K_deliver b s k B n0 a0 E0 t dd nn :
  out t = [] -> nn = add (rcvNxt (RC t)) (len dd) ->
  K b s k B n0 a0 E0 t ->
  K b s k (B + len dd) n0 a0 E0 ((readyToRead t dd) <| RC := (RC t) <| rcvNxt := nn |> |>).
Proof.
  intros Ho Hnn (N & n & a & HN & Hn & Ha & Hsc & H0 & H1 & H2 & H3 & Hsz & HU & HJ & Hm & Hl & Hf).
  pose proof (len_nonneg dd) as Hd.
  exists N, (n + len dd), a. unfold readyToRead. cbn. rewrite Ho in *.
  rewrite Hnn, Hn, seq_of_add.
  repeat split; try assumption; try lia.
  - rewrite concat_app, len_app. cbn [concat]. rewrite app_nil_r. lia.
  - constructor.
Qed.

Definition fin1 (fl : Z) : Z := if has fl fFin then 1 else 0.
Lemma fin1_bounds fl : 0 <= fin1 fl <= 1.
Proof. unfold fin1. destruct (has fl fFin); lia. Qed.

Lemma K_consumeGo b s k B n0 a0 E0 fl fh t q l d :
  0 <= s <= 14 -> k = 2^s - 1 -> 0 <= B -> B + fin1 fl <= P29 ->
  K b s k B n0 a0 E0 (t <| RC := (RC t) <| rcvNxt := add q l |> |>) ->
  K b s k (B + fin1 fl) n0 a0 E0 (fst (fst (consumeGo fl fh t q l d))).
Proof.
  intros Hs Hk HB HB1 HK. unfold consumeGo, fin1 in *. cbv zeta.
  destruct (has fl fFin) eqn:Ef; cbn [fst].
  - apply K_close. apply (K_weaken b s k 0 (B + 1)); [lia|]. unfold sendAck.
    apply (K_sendSegment b s k (B + 1)); [assumption|assumption|lia|]. apply K_bump. exact HK.
  - eapply K_weaken; [|exact HK]. lia.
Qed.

Lemma K_setNxt_same b s k B n0 a0 E0 t nn :
  nn = rcvNxt (RC t) -> K b s k B n0 a0 E0 t -> K b s k B n0 a0 E0 (t <| RC := (RC t) <| rcvNxt := nn |> |>).
Proof. intros -> (N & n & a & H). exists N, n, a. exact H. Qed.

Lemma seq_of_u32 b n : u32 (seq_of b n) = seq_of b n.
Proof. unfold seq_of, u32. apply Z.mod_mod. lia. Qed.

Lemma K_consume b s k B n0 a0 E0 t fl d sq fh :
  0 <= s <= 14 -> k = 2^s - 1 -> 0 <= B -> B + len d + fin1 fl <= P29 -> out t = [] ->
  K b s k B n0 a0 E0 t ->
  K b s k (B + len d + fin1 fl) n0 a0 E0 (fst (fst (consumeSegment t fl d sq (len d) fh))).
Proof.
  intros Hs Hk HB HB1 Ho HK. rewrite consumeSegment_eq. pose proof (fin1_bounds fl) as Hfin.
  pose proof (len_nonneg d) as Hd.
  assert (Hnx : exists n, rcvNxt (RC t) = seq_of b n).
  { destruct HK as (N & n & a & _ & Hn & _). exists n. exact Hn. }
  destruct Hnx as (n & Hn).
  assert (Hu : is_u32 (rcvNxt (RC t))) by (rewrite Hn; unfold seq_of; apply add_is_u32 || (unfold is_u32, u32; apply Z.mod_pos_bound; reflexivity)).
  destruct (0 <? len d) eqn:Epos.
  - destruct (negb (inWindow (rcvNxt (RC t)) sq (len d))) eqn:Ew; cbn [fst].
    { eapply K_weaken; [|exact HK]. lia. }
    apply negb_false_iff in Ew.
    assert (Hdist : u32 (rcvNxt (RC t) - sq) < len d).
    { unfold inWindow, inRange, add in Ew. apply Z.ltb_lt in Ew.
      replace (u32 (u32 (sq + len d) - sq)) with (len d) in Ew; [exact Ew|].
      unfold P29 in *. revert HB1 HB Hd Hfin. clear. intros. word. }
    destruct (lessThan sq (rcvNxt (RC t))) eqn:El; cbv zeta.
    + set (diff := size sq (rcvNxt (RC t))). set (d' := dropZ diff d).
      assert (Hdiff : 0 <= diff < len d) by (subst diff; unfold size; split; [unfold u32; apply Z.mod_pos_bound; reflexivity|exact Hdist]).
      assert (Hl' : len d' = len d - diff) by (subst d'; rewrite len_dropZ by lia; lia).
      eapply K_weaken; [|apply (K_consumeGo b s k (B + len d'))]; try assumption; try lia.
      change (RC (readyToRead t d')) with (RC t).
      apply K_deliver; [exact Ho| |exact HK].
      rewrite Hl'. subst diff. rewrite add_size_inverse by exact Hu.
      f_equal. apply u32_small. unfold P29 in *. consts. lia.
    + (* the segment starts exactly at rcvNxt *)
      assert (Hsq : sq = rcvNxt (RC t) \/ True) by (right; exact I).
      eapply K_weaken; [|apply (K_consumeGo b s k (B + len d))]; try assumption; try lia.
      change (RC (readyToRead t d)) with (RC t).
      apply K_deliver; [exact Ho| |exact HK].
      unfold lessThan in El. apply Z.leb_gt in El.
      unfold P29 in *. revert El Hdist HB1 HB Hd Hu Hfin. clear. intros. word.
  - assert (L0 : len d = 0) by lia.
    destruct (negb (sq =? rcvNxt (RC t))) eqn:Eq; cbn [fst].
    { eapply K_weaken; [|exact HK]. lia. }
    apply negb_false_iff, Z.eqb_eq in Eq.
    eapply K_weaken; [|apply (K_consumeGo b s k B)]; try assumption; try lia.
    apply K_setNxt_same; [|exact HK]. rewrite L0, Eq. unfold add. rewrite Z.add_0_r. rewrite Hn. apply seq_of_u32.
Qed.

(* ------------------------------------------------------------------ the pending heap *)
Definition P17 := 131072.
Definition P28 := 268435456.
Definition pll (p : pseg) : Z :=
  len (p_data p) + (if has (p_flags p) fSyn then 1 else 0) + (if has (p_flags p) fFin then 1 else 0).
Definition pendSum (t : tcp) : Z := sumf pll (pending (RC t)).

Lemma pll_nonneg p : 0 <= pll p.
Proof. unfold pll. pose proof (len_nonneg (p_data p)). destruct (has _ fSyn), (has _ fFin); lia. Qed.

Lemma sumf_nonneg {A} (f : A -> Z) l : (forall x, 0 <= f x) -> 0 <= sumf f l.
Proof. intros H. induction l as [|x r IH]; cbn [sumf]; [lia|]. specialize (H x). lia. Qed.

Lemma sumf_firstn_le {A} (f : A -> Z) (H : forall x, 0 <= f x) : forall j l, sumf f (firstn j l) <= sumf f l.
Proof.
  induction j as [|j IH]; intros [|x r]; cbn [firstn sumf]; try lia.
  - pose proof (sumf_nonneg f r H). specialize (H x). lia.
  - specialize (IH r). lia.
Qed.

(* what consumeSegment does to the fields other than rcvNxt / the delivery queue *)
Lemma consume_shape t fl d sq sl fh :
  let r := consumeSegment t fl d sq sl fh in
  (snd (fst r) = false -> fst (fst r) = t) /\ len (snd r) <= len d /\
  pendUsed (RC (fst (fst r))) = pendUsed (RC t) /\ pendSize (RC (fst (fst r))) = pendSize (RC t) /\
  ((out (fst (fst r)) = out t /\ pending (RC (fst (fst r))) = pending (RC t) /\
    rclosed (RC (fst (fst r))) = rclosed (RC t)) \/
   (rclosed (RC (fst (fst r))) = true /\ exists j, pending (RC (fst (fst r))) = firstn j (pending (RC t)))).
Proof.
  cbv zeta. rewrite consumeSegment_eq.
  assert (G : forall t0 q l dd, pendUsed (RC t0) = pendUsed (RC t) -> pendSize (RC t0) = pendSize (RC t) ->
              out t0 = out t -> pending (RC t0) = pending (RC t) -> rclosed (RC t0) = rclosed (RC t) ->
              len dd <= len d ->
    let r := consumeGo fl fh t0 q l dd in
    (snd (fst r) = false -> fst (fst r) = t) /\ len (snd r) <= len d /\
    pendUsed (RC (fst (fst r))) = pendUsed (RC t) /\ pendSize (RC (fst (fst r))) = pendSize (RC t) /\
    ((out (fst (fst r)) = out t /\ pending (RC (fst (fst r))) = pending (RC t) /\
      rclosed (RC (fst (fst r))) = rclosed (RC t)) \/
     (rclosed (RC (fst (fst r))) = true /\ exists j, pending (RC (fst (fst r))) = firstn j (pending (RC t))))).
  { intros t0 q l dd H1 H2 H3 H4 H5 H6. unfold consumeGo. cbv zeta.
    destruct (has fl fFin); cbn [fst snd].
    - split; [discriminate|]. split; [exact H6|]. unfold sendAck. rewrite sendSegment_eq. cbn.
      split; [exact H1|]. split; [exact H2|]. right. split; [reflexivity|]. rewrite H4. eexists. reflexivity.
    - split; [discriminate|]. split; [exact H6|]. cbn. split; [exact H1|]. split; [exact H2|].
      left. repeat split; assumption. }
  destruct (0 <? sl).
  - destruct (negb (inWindow _ _ _)); cbn [fst snd].
    { repeat split; try reflexivity; try lia. left. repeat split. }
    destruct (lessThan sq _); cbv zeta.
    + apply G; try reflexivity. apply len_dropZ_le.
    + apply G; try reflexivity; lia.
  - destruct (negb (sq =? _)); cbn [fst snd].
    { repeat split; try reflexivity; try lia. left. repeat split. }
    apply G; try reflexivity; lia.
Qed.

Lemma K_pend b s k B n0 a0 E0 t p u :
  K b s k B n0 a0 E0 t -> K b s k B n0 a0 E0 (t <| RC := (RC t) <| pending := p |> <| pendUsed := u |> |>).
Proof. intros (N & n & a & H). exists N, n, a. exact H. Qed.

Lemma K_drain b s k n0 a0 E0 fuel :
  0 <= s <= 14 -> k = 2^s - 1 ->
  forall t B, 0 <= B -> B + pendSum t <= P29 ->
  (out t = [] \/ rclosed (RC t) = true) ->
  K b s k B n0 a0 E0 t ->
  exists B', 0 <= B' /\ B' + pendSum (drainPending fuel t) <= B + pendSum t /\
             K b s k B' n0 a0 E0 (drainPending fuel t).
Proof.
  intros Hs Hk. induction fuel as [|fuel IH]; intros t B HB Hsum Hout HK.
  { exists B. cbn [drainPending]. repeat split; [lia|lia|exact HK]. }
  rewrite drainPending_S.
  destruct (rclosed (RC t)) eqn:Ecl; [exists B; repeat split; [lia|lia|exact HK]|].
  destruct Hout as [Hout|Hout]; [|discriminate].
  destruct (pending (RC t)) as [|hd rest] eqn:Ep; [exists B; repeat split; [lia|lia|exact HK]|].
  assert (Hps : pendSum t = pll hd + sumf pll rest) by (unfold pendSum; rewrite Ep; reflexivity).
  pose proof (pll_nonneg hd) as Hh0. pose proof (sumf_nonneg pll rest pll_nonneg) as Hr0.
  (* popping from a state t0 whose heap is the original heap or a prefix of it *)
  assert (Pop : forall t0 dd B0, 0 <= B0 -> K b s k B0 n0 a0 E0 t0 ->
            (out t0 = [] \/ rclosed (RC t0) = true) ->
            (pending (RC t0) = pending (RC t) \/ exists j, pending (RC t0) = firstn j (pending (RC t))) ->
            B0 <= B + pll hd ->
            exists B', 0 <= B' /\ B' + pendSum (popIt fuel hd t0 dd) <= B + pendSum t /\
                       K b s k B' n0 a0 E0 (popIt fuel hd t0 dd)).
  { intros t0 dd B0 HB0 HK0 Ho0 Hp0 Hle. unfold popIt.
    destruct (pop pless (pending (RC t0))) as [[h' x]|] eqn:Epop.
    - destruct (pop_spec pless pll _ _ _ Epop) as (Hhd & Hsm & _).
      assert (Hx : x = hd /\ sumf pll h' <= sumf pll rest).
      { destruct Hp0 as [Hp0|(j & Hp0)]; rewrite Hp0, Ep in *.
        - cbn in Hhd. inversion Hhd. subst x. cbn [sumf] in Hsm. split; [reflexivity|lia].
        - destruct j; cbn in Hhd; [discriminate|]. inversion Hhd. subst x. split; [reflexivity|].
          cbn [firstn sumf] in Hsm. pose proof (sumf_firstn_le pll pll_nonneg j rest). lia. }
      destruct Hx as (-> & Hle2).
      match goal with |- context [drainPending fuel ?T] => set (tp := T) end.
      assert (Hsp : pendSum tp = sumf pll h') by (subst tp; unfold pendSum; cbn; reflexivity).
      destruct (IH tp B0 HB0) as (B' & HB' & Hs' & HK').
      + rewrite Hsp. unfold P29 in *. lia.
      + subst tp. cbn. exact Ho0.
      + subst tp. apply K_pend. exact HK0.
      + exists B'. repeat split; [exact HB'| |exact HK']. rewrite Hsp in Hs'. lia.
    - exists B0. repeat split; [exact HB0| |exact HK0].
      apply (pop_none pless) in Epop. unfold pendSum at 1. rewrite Epop. cbn [sumf]. lia. }
  destruct (lessThan _ _).
  - apply (Pop t (p_data hd) B); try assumption; try lia; [left; exact Hout|left; reflexivity].
  - pose proof (consume_shape t (p_flags hd) (p_data hd) (p_seq hd) (len (p_data hd)) true) as Hsh.
    assert (Hc : K b s k (B + len (p_data hd) + fin1 (p_flags hd)) n0 a0 E0
               (fst (fst (consumeSegment t (p_flags hd) (p_data hd) (p_seq hd) (len (p_data hd)) true)))).
    { apply K_consume; try assumption. pose proof (fin1_bounds (p_flags hd)).
      assert (len (p_data hd) + fin1 (p_flags hd) <= pll hd); [|lia].
      unfold pll, fin1. destruct (has _ fSyn), (has _ fFin); lia. }
    destruct (consumeSegment t (p_flags hd) (p_data hd) (p_seq hd) (len (p_data hd)) true) as [[t1 ok] d'].
    cbv zeta in Hsh. cbn [fst snd] in Hsh, Hc.
    destruct Hsh as (Hf & Hld & Hpu & Hpz & Hcase).
    destruct ok.
    + assert (Hle : B + len (p_data hd) + fin1 (p_flags hd) <= B + pll hd).
      { unfold pll, fin1. destruct (has _ fSyn), (has _ fFin); lia. }
      pose proof (len_nonneg (p_data hd)). pose proof (fin1_bounds (p_flags hd)).
      apply (Pop t1 d' (B + len (p_data hd) + fin1 (p_flags hd))); try assumption; try lia.
      * destruct Hcase as [(O1 & _ & _)|(C1 & _)]; [left; rewrite O1; exact Hout|right; exact C1].
      * destruct Hcase as [(_ & P1 & _)|(_ & j & P1)]; [left; exact P1|right; exists j; exact P1].
    + exists B. repeat split; [lia|lia|exact HK].
Qed.
