(* Lemmas about Model/HdrIP.v, HdrTransport.v, HdrLink.v: round trips (the accessors of Encode f
   return f), and the RFC layout (each accessor equals the independent bit-level reader). *)
From Coq Require Import ZArith List Bool Lia ZifyBool.
From NP Require Import Model.Bytes Model.Checksum Model.HdrIP Model.HdrTransport Model.HdrLink
  Model.HdrRfc Proofs.BytesP Proofs.ChecksumP.
Import ListNotations.
Open Scope Z_scope.

(* expose the first n cells of a byte string that is known to be long enough *)
Tactic Notation "cells" ident(b) integer(n) hyp(H) := do n (destruct b as [|?x b]; [cbn [length] in H; lia|]).

Ltac split_wf H :=
  repeat match type of H with
  | _ && _ = true => let H2 := fresh "W" in apply andb_true_iff in H as [H H2]
  end.

Ltac split_all :=
  repeat match goal with
  | W : _ && _ = true |- _ => let W1 := fresh "W" in let W2 := fresh "W" in apply andb_true_iff in W as [W1 W2]
  end;
  repeat match goal with W : bytes_okb _ = true |- _ => apply bytes_okb_ok in W end.

Ltac hdr_eval :=
  cbn -[Z.mul Z.add Z.sub Z.opp Z.div Z.modulo Z.pow Z.ltb Z.leb Z.eqb Z.even w8 w16 w32 bor1].

Ltac wconsts :=
  unfold w8, w16, w32 in *;
  change (2^32) with 4294967296 in *; change (2^28) with 268435456 in *;
  change (2^24) with 16777216 in *; change (2^20) with 1048576 in *;
  change (2^16) with 65536 in *; change (2^13) with 8192 in *;
  change (2^8) with 256 in *; change (2^4) with 16 in *; change (2^3) with 8 in *.

Theorem ipv4_roundtrip b f : (20 <= length b)%nat -> wf_ipv4 f = true ->
  exists b', ipv4_encode b f = Some b' /\ ipv4_decode b' = Some f /\
             length b' = length b /\ skipn 20 b' = skipn 20 b /\ ipVersion b' = 4.
Proof.
  intros Hl Hwf. destruct f as [ihl tos tl id fl fo ttl pr ck src dst].
  unfold wf_ipv4, in_range, addr_okb in Hwf.
  cbn [ip4IHL ip4TOS ip4TotalLength ip4ID ip4Flags ip4FragmentOffset ip4TTL ip4Protocol ip4Checksum
       ip4SrcAddr ip4DstAddr] in Hwf.
  split_wf Hwf.
  destruct src as [|s0 [|s1 [|s2 [|s3 [|]]]]]; try discriminate.
  destruct dst as [|d0 [|d1 [|d2 [|d3 [|]]]]]; try discriminate.
  cells b 20 Hl.
  hdr_eval. eexists. split; [reflexivity|]. hdr_eval.
  split; [|split; [reflexivity|split; [reflexivity|wconsts; Z.div_mod_to_equations; lia]]].
  f_equal. rewrite !be16_rt by (wconsts; Z.div_mod_to_equations; lia).
  f_equal; wconsts; Z.div_mod_to_equations; lia.
Qed.

(* ---------- tools for the layout theorems ---------- *)
Lemma bits_f b off len i n k : off = (8 * i + k)%nat -> bytes_ok b -> (i + n <= length b)%nat ->
  (k + len <= 8 * n)%nat ->
  bits b off len = (be_int (bytes_at b i n) / 2 ^ Z.of_nat (8 * n - k - len)) mod 2 ^ Z.of_nat len.
Proof. intros ->. apply bits_field. Qed.

Lemma bytes_of_bits_at b off n i : off = (8 * i)%nat -> bytes_ok b -> (i + n <= length b)%nat ->
  bytes_of_bits b off n = bytes_at b i n.
Proof. intros -> Hb Hl. symmetry. apply bytes_at_bits; assumption. Qed.

Lemma be_int_at_bound b i n : bytes_ok b -> (i + n <= length b)%nat ->
  0 <= be_int (bytes_at b i n) < 2 ^ (8 * Z.of_nat n).
Proof.
  intros Hb Hl. pose proof (be_int_bound _ (bytes_at_ok b i n Hb)) as H.
  rewrite bytes_at_length in H by exact Hl. exact H.
Qed.

Ltac norm_pows :=
  repeat match goal with
  | |- context [2 ^ Z.of_nat ?e] =>
      let v := eval vm_compute in (2 ^ Z.of_nat e) in change (2 ^ Z.of_nat e) with v
  end.

Ltac abstract_be Hb :=
  repeat match goal with
  | |- context [be_int (bytes_at ?b ?i ?n)] =>
      let X := fresh "X" in let HX := fresh "HX" in
      pose proof (be_int_at_bound b i n Hb ltac:(lia)) as HX;
      (let v := eval vm_compute in (2 ^ (8 * Z.of_nat n)) in change (2 ^ (8 * Z.of_nat n)) with v in HX);
      set (X := be_int (bytes_at b i n)) in *; clearbody X
  end.

Ltac bitsf b off len i n k :=
  rewrite (bits_f b off len i n k) by (reflexivity || assumption || lia).
Ltac bytesf b off n i :=
  rewrite (bytes_of_bits_at b off n i) by (reflexivity || assumption || lia).
Ltac layout_arith Hb := norm_pows; abstract_be Hb; wconsts; Z.div_mod_to_equations; lia.

Theorem ipv4_rfc_layout b : bytes_ok b -> (20 <= length b)%nat ->
  ipv4_decode b = Some (ipv4_rfc791 b).
Proof.
  intros Hb Hl.
  unfold ipv4_decode, ipv4_headerLength, ipv4_tos, ipv4_totalLength, ipv4_id, ipv4_flags,
    ipv4_fragmentOffset, ipv4_ttl, ipv4_protocol, ipv4_checksum, ipv4_sourceAddress,
    ipv4_destinationAddress, ipv4_rfc791.
  rewrite !get8_be, !get16_be, !getN_at by lia. cbn [obind].
  bitsf b 4%nat 4%nat 0%nat 1%nat 4%nat. bitsf b 8%nat 8%nat 1%nat 1%nat 0%nat.
  bitsf b 16%nat 16%nat 2%nat 2%nat 0%nat. bitsf b 32%nat 16%nat 4%nat 2%nat 0%nat.
  bitsf b 48%nat 3%nat 6%nat 2%nat 0%nat. bitsf b 51%nat 13%nat 6%nat 2%nat 3%nat.
  bitsf b 64%nat 8%nat 8%nat 1%nat 0%nat. bitsf b 72%nat 8%nat 9%nat 1%nat 0%nat.
  bitsf b 80%nat 16%nat 10%nat 2%nat 0%nat.
  bytesf b 96%nat 4%nat 12%nat. bytesf b 128%nat 4%nat 16%nat.
  f_equal. f_equal; try reflexivity; layout_arith Hb.
Qed.

(* ipVersion reads the RFC version nibble *)
Lemma ipVersion_rfc b : bytes_ok b -> (1 <= length b)%nat -> ipVersion b = bits b 0 4.
Proof.
  intros Hb Hl. bitsf b 0%nat 4%nat 0%nat 1%nat 0%nat.
  destruct b as [|x t]; [cbn [length] in Hl; lia|].
  inversion Hb as [|? ? Hx _]; subst. unfold ipVersion, bytes_at. cbn [skipn firstn be_int fold_left].
  norm_pows. unfold is_byte in Hx. wconsts. Z.div_mod_to_equations. lia.
Qed.

Lemma ipv4_encode_ok b f b' : bytes_ok b -> wf_ipv4 f = true -> ipv4_encode b f = Some b' -> bytes_ok b'.
Proof.
  intros Hb Hwf H. unfold wf_ipv4, addr_okb in Hwf. split_all.
  unfold ipv4_encode, ipv4_setTotalLength, ipv4_setFlagsFragmentOffset, ipv4_setChecksum in H.
  repeat match type of H with
  | obind ?e _ = Some _ => let E := fresh "E" in destruct e eqn:E; [cbn [obind] in H|discriminate H]
  end.
  repeat match goal with
  | E : put8 _ _ _ = Some _ |- _ => apply put8_ok in E; [|assumption]
  | E : put16 _ _ _ = Some _ |- _ => apply put16_ok in E; [|assumption]
  | E : copy_into _ _ _ _ = Some _ |- _ => apply copy_into_ok in E; [|assumption|assumption]
  end.
  assumption.
Qed.


Ltac encode_ok_tac H :=
  repeat match type of H with
  | obind ?e _ = Some _ => let E := fresh "E" in destruct e eqn:E; [cbn [obind] in H|discriminate H]
  end;
  repeat match goal with
  | E : put8 _ _ _ = Some _ |- _ => apply put8_ok in E; [|assumption]
  | E : put16 _ _ _ = Some _ |- _ => apply put16_ok in E; [|assumption]
  | E : put32 _ _ _ = Some _ |- _ => apply put32_ok in E; [|assumption]
  | E : copy_into _ _ _ _ = Some _ |- _ => apply copy_into_ok in E; [|assumption|assumption]
  end;
  try assumption.

Ltac arith := wconsts; Z.div_mod_to_equations; lia.

(* the bytes Encode produced, read by the independent decoder, are the fields *)
Corollary ipv4_encode_rfc b f : bytes_ok b -> (20 <= length b)%nat -> wf_ipv4 f = true ->
  exists b', ipv4_encode b f = Some b' /\ ipv4_rfc791 b' = f /\ ipv4_version_rfc b' = 4.
Proof.
  intros Hb Hl Hwf. destruct (ipv4_roundtrip b f Hl Hwf) as (b' & He & Hd & Hlen & _ & Hv).
  exists b'. split; [exact He|].
  pose proof (ipv4_encode_ok b f b' Hb Hwf He) as Hb'.
  rewrite ipv4_rfc_layout in Hd by (try assumption; lia).
  split; [congruence|]. unfold ipv4_version_rfc. rewrite <- ipVersion_rfc by (try assumption; lia). exact Hv.
Qed.

(* the field domain is tight: outside it Encode loses information *)
Lemma ipv4_outside_refuted :
  exists b f, (20 <= length b)%nat /\ ip4IHL f = 64 /\
    obind (ipv4_encode b f) ipv4_headerLength = Some 0.
Proof.
  exists (repeat 0 20), (mkIPv4 64 0 20 0 0 0 64 6 0 [10;0;0;1] [10;0;0;2]).
  split; [cbn; lia|]. split; reflexivity.
Qed.

Example ipv4_wf_example :
  wf_ipv4 (mkIPv4 20 16 1500 4660 2 1480 64 6 43981 [192;168;1;1] [10;0;0;2]) = true.
Proof. reflexivity. Qed.


(* ======================= IPv6 ======================= *)
Theorem ipv6_roundtrip b f : (40 <= length b)%nat -> wf_ipv6 f = true ->
  exists b', ipv6_encode b f = Some b' /\ ipv6_decode b' = Some f /\
             length b' = length b /\ skipn 40 b' = skipn 40 b /\ ipVersion b' = 6.
Proof.
  intros Hl Hwf. destruct f as [tc fl pl nh hl src dst].
  unfold wf_ipv6, in_range, addr_okb in Hwf.
  cbn [ip6TrafficClass ip6FlowLabel ip6PayloadLength ip6NextHeader ip6HopLimit ip6SrcAddr ip6DstAddr] in Hwf.
  split_wf Hwf.
  do 17 (destruct src as [|?s src]; try discriminate).
  do 17 (destruct dst as [|?d dst]; try discriminate).
  cells b 40 Hl.
  unfold ipv6_encode, ipv6_decode, ipv6_setTOS, ipv6_setPayloadLength, ipv6_tos, ipv6_payloadLength,
    ipv6_nextHeader, ipv6_hopLimit, ipv6_sourceAddress, ipv6_destinationAddress, ipVersion.
  hdr_eval. eexists. split; [reflexivity|]. hdr_eval.
  assert (V : 0 <= 6 * 2^28 + w32 (tc * 2^20) + fl mod 2^20 < 4294967296) by arith.
  rewrite !be32_rt by exact V. rewrite !be16_rt by arith.
  split; [|split; [reflexivity|split; [reflexivity|arith]]].
  f_equal. f_equal; arith.
Qed.

Lemma ipv6_encode_ok b f b' : bytes_ok b -> wf_ipv6 f = true -> ipv6_encode b f = Some b' -> bytes_ok b'.
Proof.
  intros Hb Hwf H. unfold wf_ipv6, addr_okb in Hwf. split_all.
  unfold ipv6_encode, ipv6_setTOS, ipv6_setPayloadLength in H. encode_ok_tac H.
Qed.

Theorem ipv6_rfc_layout b : bytes_ok b -> (40 <= length b)%nat ->
  ipv6_decode b = Some (ipv6_rfc2460 b).
Proof.
  intros Hb Hl.
  unfold ipv6_decode, ipv6_tos, ipv6_payloadLength, ipv6_nextHeader, ipv6_hopLimit,
    ipv6_sourceAddress, ipv6_destinationAddress, ipv6_rfc2460.
  rewrite !get8_be, !get16_be, !get32_be, !getN_at by lia. cbn [obind fst snd].
  bitsf b 4%nat 8%nat 0%nat 4%nat 4%nat. bitsf b 12%nat 20%nat 0%nat 4%nat 12%nat.
  bitsf b 32%nat 16%nat 4%nat 2%nat 0%nat. bitsf b 48%nat 8%nat 6%nat 1%nat 0%nat.
  bitsf b 56%nat 8%nat 7%nat 1%nat 0%nat.
  bytesf b 64%nat 16%nat 8%nat. bytesf b 192%nat 16%nat 24%nat.
  f_equal. f_equal; try reflexivity; layout_arith Hb.
Qed.

Corollary ipv6_encode_rfc b f : bytes_ok b -> (40 <= length b)%nat -> wf_ipv6 f = true ->
  exists b', ipv6_encode b f = Some b' /\ ipv6_rfc2460 b' = f /\ ipv6_version_rfc b' = 6.
Proof.
  intros Hb Hl Hwf. destruct (ipv6_roundtrip b f Hl Hwf) as (b' & He & Hd & Hlen & _ & Hv).
  exists b'. split; [exact He|].
  pose proof (ipv6_encode_ok b f b' Hb Hwf He) as Hb'.
  rewrite ipv6_rfc_layout in Hd by (try assumption; lia).
  split; [congruence|]. unfold ipv6_version_rfc. rewrite <- ipVersion_rfc by (try assumption; lia). exact Hv.
Qed.

(* ======================= IPv6 fragment header ======================= *)
Theorem ipv6frag_roundtrip b f : (8 <= length b)%nat -> wf_ipv6frag f = true ->
  exists b', ipv6frag_encode b f = Some b' /\ ipv6frag_decode b' = Some f /\
             length b' = length b /\ skipn 8 b' = skipn 8 b.
Proof.
  intros Hl Hwf. destruct f as [nh fo m id].
  unfold wf_ipv6frag, in_range in Hwf.
  cbn [fragNextHeader fragFragmentOffset fragM fragIdentification] in Hwf. split_wf Hwf.
  cells b 8 Hl.
  unfold ipv6frag_encode, ipv6frag_decode, ipv6frag_nextHeader, ipv6frag_fragmentOffset, ipv6frag_more, ipv6frag_id.
  assert (Ev : Z.even (w8 (w16 (fo * 2^3))) = true).
  { rewrite Z.even_spec. exists (w8 (w16 (fo * 2^3)) / 2). arith. }
  destruct m; hdr_eval; (eexists; split; [reflexivity|]); hdr_eval.
  - unfold bor1. rewrite Ev. rewrite !be32_rt by arith.
    split; [|split; reflexivity]. f_equal. f_equal; arith.
  - rewrite !be32_rt by arith. split; [|split; reflexivity]. f_equal. f_equal; arith.
Qed.

Lemma ipv6frag_encode_ok b f b' : bytes_ok b -> ipv6frag_encode b f = Some b' -> bytes_ok b'.
Proof.
  intros Hb H. unfold ipv6frag_encode in H.
  destruct (put8 b 0 (fragNextHeader f)) as [b1|] eqn:E1; [cbn [obind] in H|discriminate H].
  destruct (put16 b1 2 _) as [b2|] eqn:E2; [cbn [obind] in H|discriminate H].
  apply put8_ok in E1; [|assumption]. apply put16_ok in E2; [|assumption].
  destruct (fragM f).
  - destruct (get8 b2 3) as [x|]; [cbn [obind] in H|discriminate H].
    destruct (put8 b2 3 (bor1 x)) as [b3|] eqn:E3; [cbn [obind] in H|discriminate H].
    apply put8_ok in E3; [|assumption]. apply put32_ok in H; assumption.
  - cbn [obind] in H. apply put32_ok in H; assumption.
Qed.

Theorem ipv6frag_rfc_layout b : bytes_ok b -> (8 <= length b)%nat ->
  ipv6frag_decode b = Some (ipv6frag_rfc2460 b).
Proof.
  intros Hb Hl.
  unfold ipv6frag_decode, ipv6frag_nextHeader, ipv6frag_fragmentOffset, ipv6frag_more, ipv6frag_id,
    ipv6frag_rfc2460.
  rewrite !get8_be, !get16_be, !get32_be by lia. cbn [obind].
  bitsf b 0%nat 8%nat 0%nat 1%nat 0%nat. bitsf b 16%nat 13%nat 2%nat 2%nat 0%nat.
  bitsf b 31%nat 1%nat 3%nat 1%nat 7%nat. bitsf b 32%nat 32%nat 4%nat 4%nat 0%nat.
  f_equal. f_equal; try reflexivity; layout_arith Hb.
Qed.

Corollary ipv6frag_encode_rfc b f : bytes_ok b -> (8 <= length b)%nat -> wf_ipv6frag f = true ->
  exists b', ipv6frag_encode b f = Some b' /\ ipv6frag_rfc2460 b' = f.
Proof.
  intros Hb Hl Hwf. destruct (ipv6frag_roundtrip b f Hl Hwf) as (b' & He & Hd & Hlen & _).
  exists b'. split; [exact He|].
  pose proof (ipv6frag_encode_ok b f b' Hb He) as Hb'.
  rewrite ipv6frag_rfc_layout in Hd by (try assumption; lia). congruence.
Qed.

Lemma ipv6frag_outside_refuted :
  exists b f, (8 <= length b)%nat /\ fragFragmentOffset f = 8192 /\
    obind (ipv6frag_encode b f) ipv6frag_fragmentOffset = Some 0.
Proof. exists (repeat 0 8), (mkIPv6Frag 6 8192 true 1). split; [cbn; lia|]. split; reflexivity. Qed.

(* ======================= TCP ======================= *)
Theorem tcp_roundtrip b t : (20 <= length b)%nat -> wf_tcp t = true ->
  exists b', tcp_encode b t = Some b' /\ tcp_decode b' = Some t /\
             length b' = length b /\ skipn 20 b' = skipn 20 b.
Proof.
  intros Hl Hwf. destruct t as [sp dp sq ak d fl ws ck up].
  unfold wf_tcp, in_range in Hwf.
  cbn [tcpSrcPort tcpDstPort tcpSeqNum tcpAckNum tcpDataOffset tcpFlags tcpWindowSize tcpChecksum tcpUrgentPointer] in Hwf.
  split_wf Hwf. cells b 20 Hl.
  unfold tcp_encode, tcp_encodeSubset, tcp_decode, tcp_sourcePort, tcp_destinationPort, tcp_sequenceNumber,
    tcp_ackNumber, tcp_dataOffset, tcp_flags, tcp_windowSize, tcp_checksum.
  hdr_eval. eexists. split; [reflexivity|]. hdr_eval.
  rewrite !be32_rt by arith. rewrite !be16_rt by arith.
  split; [|split; reflexivity]. f_equal. f_equal; arith.
Qed.

Lemma tcp_encodeSubset_ok b s a f w b' : bytes_ok b -> tcp_encodeSubset b s a f w = Some b' -> bytes_ok b'.
Proof. intros Hb H. unfold tcp_encodeSubset in H. encode_ok_tac H. Qed.

Lemma tcp_encode_ok b t b' : bytes_ok b -> tcp_encode b t = Some b' -> bytes_ok b'.
Proof.
  intros Hb H. unfold tcp_encode in H.
  destruct (tcp_encodeSubset b _ _ _ _) as [b1|] eqn:E1; [cbn [obind] in H|discriminate H].
  apply tcp_encodeSubset_ok in E1; [|assumption]. encode_ok_tac H.
Qed.

Theorem tcp_rfc_layout b : bytes_ok b -> (20 <= length b)%nat ->
  tcp_decode b = Some (tcp_rfc793 b).
Proof.
  intros Hb Hl.
  unfold tcp_decode, tcp_sourcePort, tcp_destinationPort, tcp_sequenceNumber, tcp_ackNumber, tcp_dataOffset,
    tcp_flags, tcp_windowSize, tcp_checksum, tcp_rfc793.
  rewrite !get8_be, !get16_be, !get32_be by lia. cbn [obind].
  bitsf b 0%nat 16%nat 0%nat 2%nat 0%nat. bitsf b 16%nat 16%nat 2%nat 2%nat 0%nat.
  bitsf b 32%nat 32%nat 4%nat 4%nat 0%nat. bitsf b 64%nat 32%nat 8%nat 4%nat 0%nat.
  bitsf b 96%nat 4%nat 12%nat 1%nat 0%nat. bitsf b 104%nat 8%nat 13%nat 1%nat 0%nat.
  bitsf b 112%nat 16%nat 14%nat 2%nat 0%nat. bitsf b 128%nat 16%nat 16%nat 2%nat 0%nat.
  bitsf b 144%nat 16%nat 18%nat 2%nat 0%nat.
  f_equal. f_equal; try reflexivity; layout_arith Hb.
Qed.

Corollary tcp_encode_rfc b t : bytes_ok b -> (20 <= length b)%nat -> wf_tcp t = true ->
  exists b', tcp_encode b t = Some b' /\ tcp_rfc793 b' = t.
Proof.
  intros Hb Hl Hwf. destruct (tcp_roundtrip b t Hl Hwf) as (b' & He & Hd & Hlen & _).
  exists b'. split; [exact He|].
  pose proof (tcp_encode_ok b t b' Hb He) as Hb'.
  rewrite tcp_rfc_layout in Hd by (try assumption; lia). congruence.
Qed.

Lemma tcp_outside_refuted :
  exists b t, (20 <= length b)%nat /\ tcpDataOffset t = 64 /\
    obind (tcp_encode b t) tcp_dataOffset = Some 0.
Proof.
  exists (repeat 0 20), (mkTCP 1 2 3 4 64 16 100 0 0). split; [cbn; lia|]. split; reflexivity.
Qed.

(* ======================= UDP ======================= *)
Theorem udp_roundtrip b u : (8 <= length b)%nat -> wf_udp u = true ->
  exists b', udp_encode b u = Some b' /\ udp_decode b' = Some u /\
             length b' = length b /\ skipn 8 b' = skipn 8 b.
Proof.
  intros Hl Hwf. destruct u as [sp dp l c]. unfold wf_udp, in_range in Hwf.
  cbn [udpSrcPort udpDstPort udpLength udpChecksum] in Hwf. split_wf Hwf. cells b 8 Hl.
  unfold udp_encode, udp_decode, udp_sourcePort, udp_destinationPort, udp_length, udp_checksum.
  hdr_eval. eexists. split; [reflexivity|]. hdr_eval. rewrite !be16_rt by arith.
  split; [|split; reflexivity]. reflexivity.
Qed.

Lemma udp_encode_ok b u b' : bytes_ok b -> udp_encode b u = Some b' -> bytes_ok b'.
Proof. intros Hb H. unfold udp_encode in H. encode_ok_tac H. Qed.

Theorem udp_rfc_layout b : bytes_ok b -> (8 <= length b)%nat -> udp_decode b = Some (udp_rfc768 b).
Proof.
  intros Hb Hl. unfold udp_decode, udp_sourcePort, udp_destinationPort, udp_length, udp_checksum, udp_rfc768.
  rewrite !get16_be by lia. cbn [obind].
  bitsf b 0%nat 16%nat 0%nat 2%nat 0%nat. bitsf b 16%nat 16%nat 2%nat 2%nat 0%nat.
  bitsf b 32%nat 16%nat 4%nat 2%nat 0%nat. bitsf b 48%nat 16%nat 6%nat 2%nat 0%nat.
  f_equal. f_equal; layout_arith Hb.
Qed.

Corollary udp_encode_rfc b u : bytes_ok b -> (8 <= length b)%nat -> wf_udp u = true ->
  exists b', udp_encode b u = Some b' /\ udp_rfc768 b' = u.
Proof.
  intros Hb Hl Hwf. destruct (udp_roundtrip b u Hl Hwf) as (b' & He & Hd & Hlen & _).
  exists b'. split; [exact He|].
  pose proof (udp_encode_ok b u b' Hb He) as Hb'.
  rewrite udp_rfc_layout in Hd by (try assumption; lia). congruence.
Qed.

(* ======================= ICMPv4 / ICMPv6 ======================= *)
Theorem icmp_roundtrip b f : (4 <= length b)%nat -> wf_icmp f = true ->
  exists b', icmp_encode b f = Some b' /\ icmp_decode b' = Some f /\
             length b' = length b /\ skipn 4 b' = skipn 4 b.
Proof.
  intros Hl Hwf. destruct f as [t c k]. unfold wf_icmp, in_range in Hwf.
  cbn [icmpType icmpCode icmpChecksum] in Hwf. split_wf Hwf. cells b 4 Hl.
  unfold icmp_encode, icmp_decode, icmp_setType, icmp_setCode, icmp_setChecksum, icmp_type, icmp_code, icmp_checksum.
  hdr_eval. eexists. split; [reflexivity|]. hdr_eval. rewrite !be16_rt by arith.
  split; [|split; reflexivity]. f_equal. f_equal; arith.
Qed.

Lemma icmp_encode_ok b f b' : bytes_ok b -> icmp_encode b f = Some b' -> bytes_ok b'.
Proof. intros Hb H. unfold icmp_encode, icmp_setType, icmp_setCode, icmp_setChecksum in H. encode_ok_tac H. Qed.

Theorem icmp_rfc_layout b : bytes_ok b -> (4 <= length b)%nat -> icmp_decode b = Some (icmp_rfc792 b).
Proof.
  intros Hb Hl. unfold icmp_decode, icmp_type, icmp_code, icmp_checksum, icmp_rfc792.
  rewrite !get8_be, !get16_be by lia. cbn [obind].
  bitsf b 0%nat 8%nat 0%nat 1%nat 0%nat. bitsf b 8%nat 8%nat 1%nat 1%nat 0%nat.
  bitsf b 16%nat 16%nat 2%nat 2%nat 0%nat.
  f_equal. f_equal; layout_arith Hb.
Qed.

Corollary icmp_encode_rfc b f : bytes_ok b -> (4 <= length b)%nat -> wf_icmp f = true ->
  exists b', icmp_encode b f = Some b' /\ icmp_rfc792 b' = f.
Proof.
  intros Hb Hl Hwf. destruct (icmp_roundtrip b f Hl Hwf) as (b' & He & Hd & Hlen & _).
  exists b'. split; [exact He|].
  pose proof (icmp_encode_ok b f b' Hb He) as Hb'.
  rewrite icmp_rfc_layout in Hd by (try assumption; lia). congruence.
Qed.

(* ======================= Ethernet ======================= *)
Theorem eth_roundtrip b e : (14 <= length b)%nat -> wf_eth e = true ->
  exists b', eth_encode b e = Some b' /\ eth_decode b' = Some e /\
             length b' = length b /\ skipn 14 b' = skipn 14 b.
Proof.
  intros Hl Hwf. destruct e as [src dst ty]. unfold wf_eth, in_range, addr_okb in Hwf.
  cbn [ethSrcAddr ethDstAddr ethType] in Hwf. split_wf Hwf.
  do 7 (destruct src as [|?s src]; try discriminate).
  do 7 (destruct dst as [|?d dst]; try discriminate).
  cells b 14 Hl.
  unfold eth_encode, eth_decode, eth_sourceAddress, eth_destinationAddress, eth_type.
  hdr_eval. eexists. split; [reflexivity|]. hdr_eval.
  assert (E : w16 ty = ty) by arith. rewrite E. rewrite !be16_rt by arith.
  split; [|split; reflexivity]. reflexivity.
Qed.

Lemma eth_encode_ok b e b' : bytes_ok b -> wf_eth e = true -> eth_encode b e = Some b' -> bytes_ok b'.
Proof.
  intros Hb Hwf H. unfold wf_eth, addr_okb in Hwf. split_all. unfold eth_encode in H. encode_ok_tac H.
Qed.

Theorem eth_rfc_layout b : bytes_ok b -> (14 <= length b)%nat -> eth_decode b = Some (eth_rfc894 b).
Proof.
  intros Hb Hl. unfold eth_decode, eth_sourceAddress, eth_destinationAddress, eth_type, eth_rfc894, getFrom.
  destruct (Nat.leb_spec 6 (length b)); [|lia]. destruct (Nat.leb_spec 0 (length b)); [|lia]. cbn [obind].
  rewrite !getN_at by (rewrite ?skipn_length; lia). rewrite get16_be by lia. cbn [obind].
  bitsf b 96%nat 16%nat 12%nat 2%nat 0%nat.
  bytesf b 48%nat 6%nat 6%nat. bytesf b 0%nat 6%nat 0%nat.
  f_equal. f_equal; try reflexivity; layout_arith Hb.
Qed.

Corollary eth_encode_rfc b e : bytes_ok b -> (14 <= length b)%nat -> wf_eth e = true ->
  exists b', eth_encode b e = Some b' /\ eth_rfc894 b' = e.
Proof.
  intros Hb Hl Hwf. destruct (eth_roundtrip b e Hl Hwf) as (b' & He & Hd & Hlen & _).
  exists b'. split; [exact He|].
  pose proof (eth_encode_ok b e b' Hb Hwf He) as Hb'.
  rewrite eth_rfc_layout in Hd by (try assumption; lia). congruence.
Qed.

(* ======================= ARP ======================= *)
Theorem arp_roundtrip a f : (28 <= length a)%nat -> wf_arp f = true ->
  exists a', arp_encode a f = Some a' /\ arp_decode a' = Some f /\ arp_isValid a' = Some true /\
             length a' = length a /\ skipn 28 a' = skipn 28 a.
Proof.
  intros Hl Hwf. destruct f as [op sha spa tha tpa]. unfold wf_arp, in_range, addr_okb in Hwf.
  cbn [arpOp arpSHA arpSPA arpTHA arpTPA] in Hwf. split_wf Hwf.
  do 7 (destruct sha as [|?s sha]; try discriminate).
  do 5 (destruct spa as [|?p spa]; try discriminate).
  do 7 (destruct tha as [|?t tha]; try discriminate).
  do 5 (destruct tpa as [|?q tpa]; try discriminate).
  cells a 28 Hl.
  unfold arp_encode, arp_decode, arp_isValid, arp_setIPv4OverEthernet, arp_setOp, arp_op,
    arp_hardwareAddressSender, arp_protocolAddressSender, arp_hardwareAddressTarget, arp_protocolAddressTarget,
    arp_hardwareAddressSpace, arp_protocolAddressSpace, arp_hardwareAddressSize, arp_protocolAddressSize.
  hdr_eval. eexists. split; [reflexivity|]. hdr_eval.
  rewrite !be16_rt by arith.
  split; [reflexivity|]. split; [|split; reflexivity]. reflexivity.
Qed.

Lemma arp_encode_ok a f a' : bytes_ok a -> wf_arp f = true -> arp_encode a f = Some a' -> bytes_ok a'.
Proof.
  intros Hb Hwf H. unfold wf_arp, addr_okb in Hwf. split_all.
  unfold arp_encode, arp_setIPv4OverEthernet, arp_setOp in H.
  destruct (put8 a 0 0) as [a1|] eqn:E1; [cbn [obind] in H|discriminate H].
  destruct (put8 a1 1 1) as [a2|] eqn:E2; [cbn [obind] in H|discriminate H].
  destruct (put8 a2 2 8) as [a3|] eqn:E3; [cbn [obind] in H|discriminate H].
  destruct (put8 a3 3 0) as [a4|] eqn:E4; [cbn [obind] in H|discriminate H].
  destruct (put8 a4 4 6) as [a5|] eqn:E5; [cbn [obind] in H|discriminate H].
  destruct (put8 a5 5 4) as [a6|] eqn:E6; [cbn [obind] in H|discriminate H].
  destruct (put8 a6 6 (arpOp f / 2 ^ 8)) as [a7|] eqn:E7; [cbn [obind] in H|discriminate H].
  encode_ok_tac H.
Qed.

Theorem arp_rfc_layout a : bytes_ok a -> (28 <= length a)%nat ->
  arp_decode a = Some (arp_rfc826 a) /\
  arp_isValid a = Some (match arp_fixed_rfc826 a with
                        | [h; p; hl; pl] => (h =? 1) && (p =? 2048) && (hl =? 6) && (pl =? 4)
                        | _ => false end).
Proof.
  intros Hb Hl. unfold arp_decode, arp_isValid, arp_op, arp_hardwareAddressSender, arp_protocolAddressSender,
    arp_hardwareAddressTarget, arp_protocolAddressTarget, arp_rfc826, arp_fixed_rfc826,
    arp_hardwareAddressSpace, arp_protocolAddressSpace, arp_hardwareAddressSize, arp_protocolAddressSize.
  destruct (Nat.ltb_spec (length a) 28); [lia|].
  rewrite !get8_be, !get16_be, !getN_at by lia. cbn [obind].
  bitsf a 48%nat 16%nat 6%nat 2%nat 0%nat.
  bitsf a 0%nat 16%nat 0%nat 2%nat 0%nat. bitsf a 16%nat 16%nat 2%nat 2%nat 0%nat.
  bitsf a 32%nat 8%nat 4%nat 1%nat 0%nat. bitsf a 40%nat 8%nat 5%nat 1%nat 0%nat.
  bytesf a 64%nat 6%nat 8%nat. bytesf a 112%nat 4%nat 14%nat. bytesf a 144%nat 6%nat 18%nat.
  bytesf a 192%nat 4%nat 24%nat.
  split.
  - f_equal. f_equal; layout_arith Hb.
  - f_equal. norm_pows. abstract_be Hb. wconsts.
    rewrite !Z.div_1_r, !Z.mod_small by lia. reflexivity.
Qed.

(* ---------- per-header summaries used by Properties/C15.v ---------- *)
Definition ipv4_codec := conj ipv4_roundtrip (conj ipv4_rfc_layout ipv4_encode_rfc).
Definition ipv6_codec := conj ipv6_roundtrip (conj ipv6_rfc_layout ipv6_encode_rfc).
Definition ipv6frag_codec := conj ipv6frag_roundtrip (conj ipv6frag_rfc_layout ipv6frag_encode_rfc).
Definition tcp_codec := conj tcp_roundtrip (conj tcp_rfc_layout tcp_encode_rfc).
Definition udp_codec := conj udp_roundtrip (conj udp_rfc_layout udp_encode_rfc).
Definition icmp_codec := conj icmp_roundtrip (conj icmp_rfc_layout icmp_encode_rfc).
Definition eth_codec := conj eth_roundtrip (conj eth_rfc_layout eth_encode_rfc).
Definition arp_codec := conj arp_roundtrip arp_rfc_layout.
Definition field_domains_tight_refuted :=
  conj ipv4_outside_refuted (conj ipv6frag_outside_refuted tcp_outside_refuted).
