(* Proofs about the container/heap model in Model/Frag.v: Push and Pop keep the array a
   permutation of the multiset of stored fragments and keep the heap order, and Pop returns an
   element of minimal offset.  (Used by FragReasmP: the fragments come out in offset order.) *)
From Coq Require Import ZArith Bool List Lia Arith PeanoNat Permutation FinFun.
From NP Require Import Model.Frag.
Import ListNotations.
Open Scope Z_scope.

(* ------------------------------------------------------------------ upd / nth *)
Lemma upd_length : forall A (l : list A) i x, length (upd l i x) = length l.
Proof. induction l as [|y t IH]; intros [|i] x; simpl; auto. Qed.

Lemma nth_upd_eq : forall A (l : list A) i x d, (i < length l)%nat -> nth i (upd l i x) d = x.
Proof.
  induction l as [|y t IH]; intros [|i] x d Hi; simpl in *; try lia; auto.
  apply IH. lia.
Qed.

Lemma nth_upd_neq : forall A (l : list A) i k x d, k <> i -> nth k (upd l i x) d = nth k l d.
Proof.
  induction l as [|y t IH]; intros [|i] [|k] x d Hk; simpl in *; auto; try lia.
Qed.

(* key of the element at index k *)
Definition K (h : fheap) (k : nat) : Z := fr_off (nth k h dfrag).

Lemma hswap_length : forall h i j, length (hswap h i j) = length h.
Proof. intros. unfold hswap. now rewrite !upd_length. Qed.

Lemma nth_hswap : forall h i j k, (i < length h)%nat -> (j < length h)%nat ->
  nth k (hswap h i j) dfrag =
  if (k =? j)%nat then nth i h dfrag else if (k =? i)%nat then nth j h dfrag else nth k h dfrag.
Proof.
  intros h i j k Hi Hj. unfold hswap.
  destruct (Nat.eqb_spec k j) as [->|Hkj].
  - rewrite nth_upd_eq; auto. now rewrite upd_length.
  - rewrite nth_upd_neq by auto.
    destruct (Nat.eqb_spec k i) as [->|Hki].
    + now rewrite nth_upd_eq.
    + now rewrite nth_upd_neq.
Qed.

Lemma K_hswap : forall h i j k, (i < length h)%nat -> (j < length h)%nat ->
  K (hswap h i j) k = if (k =? j)%nat then K h i else if (k =? i)%nat then K h j else K h k.
Proof.
  intros. unfold K. rewrite nth_hswap by auto.
  destruct (k =? j)%nat; auto. destruct (k =? i)%nat; auto.
Qed.

Lemma hswap_perm : forall h i j, (i < length h)%nat -> (j < length h)%nat -> Permutation h (hswap h i j).
Proof.
  intros h i j Hi Hj.
  apply (Permutation_nth h (hswap h i j) dfrag). cbv zeta.
  split; [apply hswap_length|].
  exists (fun k => if (k =? j)%nat then i else if (k =? i)%nat then j else k).
  split; [|split].
  - intros x Hx. destruct (Nat.eqb_spec x j); [lia|]. destruct (Nat.eqb_spec x i); lia.
  - intros x y Hx Hy.
    destruct (Nat.eqb_spec x j); destruct (Nat.eqb_spec y j);
    destruct (Nat.eqb_spec x i); destruct (Nat.eqb_spec y i); lia.
  - intros x Hx. rewrite nth_hswap by auto.
    destruct (Nat.eqb_spec x j); auto. destruct (Nat.eqb_spec x i); auto.
Qed.

(* ------------------------------------------------------------------ heap order *)
Definition child (p c : nat) : Prop := (c = 2 * p + 1 \/ c = 2 * p + 2)%nat.

(* the first n entries are heap ordered *)
Definition heap_ok (h : fheap) (n : nat) : Prop :=
  forall p c, (c < n)%nat -> child p c -> K h p <= K h c.

Lemma parent_child : forall j, (1 <= j)%nat -> child ((j - 1) / 2) j /\ ((j - 1) / 2 < j)%nat.
Proof.
  intros j Hj. unfold child.
  pose proof (Nat.div_mod (j - 1) 2 ltac:(lia)) as E.
  pose proof (Nat.mod_upper_bound (j - 1) 2 ltac:(lia)) as B.
  split; lia.
Qed.

Lemma parent_zero : ((0 - 1) / 2 = 0)%nat.
Proof. reflexivity. Qed.

Lemma root_min : forall h n, heap_ok h n -> forall k, (k < n)%nat -> K h 0 <= K h k.
Proof.
  intros h n Hok k. induction k as [k IH] using lt_wf_ind. intros Hk.
  destruct k as [|k]; [lia|].
  destruct (parent_child (S k) ltac:(lia)) as [Hc Hlt].
  pose proof (Hok _ _ Hk Hc) as H1.
  pose proof (IH _ Hlt ltac:(lia)) as H2. lia.
Qed.

(* ------------------------------------------------------------------ up *)
Definition up_inv (h : fheap) (j : nat) : Prop :=
  (forall p c, (c < length h)%nat -> child p c -> c <> j -> K h p <= K h c) /\
  (forall g c, (c < length h)%nat -> child g j -> child j c -> K h g <= K h c).

Lemma h_up_spec : forall fuel h j, (j < length h)%nat -> (j < fuel)%nat -> up_inv h j ->
  heap_ok (h_up fuel h j) (length h) /\ Permutation h (h_up fuel h j).
Proof.
  induction fuel as [|f IH]; intros h j Hj Hf [I1 I2]; [lia|].
  cbn [h_up].
  destruct (Nat.eqb_spec ((j - 1) / 2) j) as [E|NE]; cbn [orb].
  - (* j = 0 *)
    assert (j = 0%nat) as ->.
    { destruct j; auto. destruct (parent_child (S j) ltac:(lia)). lia. }
    split; [|apply Permutation_refl].
    intros p c Hc Hch. apply I1; auto. unfold child in Hch. lia.
  - assert (1 <= j)%nat as Hj1 by (destruct j; [rewrite parent_zero in NE; lia | lia]).
    destruct (parent_child j Hj1) as [Hpc Hplt].
    set (i := ((j - 1) / 2)%nat) in *.
    unfold hless. fold (K h j). fold (K h i).
    destruct (Z.ltb_spec (K h j) (K h i)) as [Hlt|Hge]; cbn [negb].
    + (* swap and continue at the parent *)
      assert (Hi : (i < length h)%nat) by lia.
      destruct (IH (hswap h i j) i) as [Hok Hperm].
      * rewrite hswap_length. lia.
      * lia.
      * split.
        -- intros p c Hc Hch Hci. rewrite hswap_length in Hc.
           rewrite !K_hswap by auto.
           destruct (Nat.eqb_spec c j) as [->|Hcj].
           ++ assert (p = i) as -> by (unfold child in *; lia).
              destruct (Nat.eqb_spec i j); [lia|]. rewrite Nat.eqb_refl. lia.
           ++ destruct (Nat.eqb_spec c i); [lia|].
              destruct (Nat.eqb_spec p j) as [->|Hpj].
              ** (* p = j: children of j against old h[i] *)
                 apply (I2 i c); auto.
              ** destruct (Nat.eqb_spec p i) as [->|Hpi].
                 --- pose proof (I1 i c Hc Hch Hcj). lia.
                 --- apply I1; auto.
        -- intros g c Hc Hgi Hic. rewrite hswap_length in Hc.
           rewrite !K_hswap by auto.
           assert (g <> j) by (unfold child in *; lia).
           assert (g <> i) by (unfold child in *; lia).
           destruct (Nat.eqb_spec g j); [lia|]. destruct (Nat.eqb_spec g i); [lia|].
           assert (Hgi' : K h g <= K h i) by (apply I1; auto; lia).
           destruct (Nat.eqb_spec c j) as [->|Hcj]; [lia|].
           destruct (Nat.eqb_spec c i) as [->|Hci]; [unfold child in *; lia|].
           pose proof (I1 i c Hc Hic Hcj). lia.
      * rewrite hswap_length in Hok. split; auto.
        apply Permutation_trans with (hswap h i j); [apply hswap_perm; auto|auto].
    + split; [|apply Permutation_refl].
      intros p c Hc Hch.
      destruct (Nat.eq_dec c j) as [->|Hcj]; [|apply I1; auto].
      assert (p = i) as -> by (unfold child in *; lia). lia.
Qed.

Lemma K_app_l : forall h x k, (k < length h)%nat -> K (h ++ [x]) k = K h k.
Proof. intros. unfold K. now rewrite app_nth1. Qed.

Lemma heap_push_spec : forall h x, heap_ok h (length h) ->
  heap_ok (heap_push h x) (length (heap_push h x)) /\ Permutation (x :: h) (heap_push h x).
Proof.
  intros h x Hok. unfold heap_push.
  destruct (h_up_spec (length h + 1) (h ++ [x]) (length h)) as [H1 H2].
  - rewrite app_length. simpl. lia.
  - lia.
  - split.
    + intros p c Hc Hch Hcj. rewrite app_length in Hc. simpl in Hc.
      rewrite !K_app_l by (unfold child in *; lia). apply Hok; auto. lia.
    + intros g c Hc Hg Hch. rewrite app_length in Hc. simpl in Hc. unfold child in *. lia.
  - assert (L : length (h_up (length h + 1) (h ++ [x]) (length h)) = length (h ++ [x])).
    { symmetry. apply Permutation_length. auto. }
    rewrite L. split; auto.
    eapply Permutation_trans; [|apply H2].
    apply Permutation_cons_append.
Qed.

(* ------------------------------------------------------------------ down *)
Definition down_inv (h : fheap) (i n : nat) : Prop :=
  (forall p c, (c < n)%nat -> child p c -> p <> i -> K h p <= K h c) /\
  (forall g c, (c < n)%nat -> child g i -> child i c -> K h g <= K h c).

Lemma h_down_spec : forall fuel h i n, (n <= length h)%nat -> (n <= fuel + i)%nat -> down_inv h i n ->
  heap_ok (h_down fuel h i n) n /\ Permutation h (h_down fuel h i n) /\
  (forall k, (n <= k)%nat -> nth k (h_down fuel h i n) dfrag = nth k h dfrag).
Proof.
  induction fuel as [|f IH]; intros h i n Hn Hf [I1 I2].
  - cbn [h_down]. split; [|split; auto].
    intros p c Hc Hch. apply I1; auto. unfold child in *. lia.
  - cbn [h_down].
    destruct (Nat.leb_spec n (2 * i + 1)) as [Hle|Hgt].
    + split; [|split; auto].
      intros p c Hc Hch. apply I1; auto. unfold child in *. lia.
    + set (j1 := (2 * i + 1)%nat) in *.
      set (j := if ((j1 + 1 <? n)%nat && hless h (j1 + 1) j1) then (j1 + 1)%nat else j1).
      assert (Hjn : (j < n)%nat).
      { unfold j. destruct (Nat.ltb_spec (j1 + 1) n); cbn [andb]; [destruct (hless h (j1 + 1) j1)|]; lia. }
      assert (Hchj : child i j).
      { unfold j, child. destruct ((j1 + 1 <? n)%nat && hless h (j1 + 1) j1); lia. }
      (* j is the smaller of the children inside [0,n) *)
      assert (Hmin : forall c, (c < n)%nat -> child i c -> K h j <= K h c).
      { intros c Hc Hch. unfold j.
        destruct (Nat.ltb_spec (j1 + 1) n) as [H2|H2]; cbn [andb].
        - unfold hless. fold (K h (j1 + 1)%nat). fold (K h j1).
          destruct (Z.ltb_spec (K h (j1 + 1)%nat) (K h j1)); unfold child in Hch;
            destruct Hch as [->| ->]; fold j1; replace (2 * i + 2)%nat with (j1 + 1)%nat by lia; lia.
        - unfold child in Hch. destruct Hch as [->| ->]; fold j1; [lia|lia]. }
      assert (Hb : hless h j i = (K h j <? K h i)) by reflexivity.
      rewrite Hb.
      destruct (Z.ltb_spec (K h j) (K h i)) as [Hlt|Hge]; cbn [negb].
      * assert (Hi : (i < length h)%nat) by (unfold child in Hchj; lia).
        assert (Hj : (j < length h)%nat) by lia.
        assert (Hij : i <> j) by (unfold child in Hchj; lia).
        destruct (IH (hswap h i j) j n) as [Hok [Hperm Hsuf]].
        -- rewrite hswap_length. lia.
        -- unfold child in Hchj. lia.
        -- split.
           ++ intros p c Hc Hch Hpj.
              rewrite !K_hswap by auto.
              destruct (Nat.eqb_spec p j); [lia|].
              destruct (Nat.eqb_spec c i) as [->|Hci].
              ** (* edge into i: parent of i against old h[j] *)
                 destruct (Nat.eqb_spec i j); [lia|].
                 destruct (Nat.eqb_spec p i); [unfold child in *; lia|].
                 apply (I2 p j); auto.
              ** destruct (Nat.eqb_spec c j) as [->|Hcj].
                 --- assert (p = i) as -> by (unfold child in *; lia).
                     rewrite Nat.eqb_refl. lia.
                 --- destruct (Nat.eqb_spec p i) as [->|Hpi].
                     +++ apply Hmin; auto.
                     +++ apply I1; auto.
           ++ intros g c Hc Hgj Hjc.
              rewrite !K_hswap by auto.
              assert (g = i) as -> by (unfold child in *; lia).
              destruct (Nat.eqb_spec i j); [lia|]. rewrite Nat.eqb_refl.
              destruct (Nat.eqb_spec c j); [unfold child in *; lia|].
              destruct (Nat.eqb_spec c i); [unfold child in *; lia|].
              apply I1; auto.
        -- split; auto. split.
           ++ apply Permutation_trans with (hswap h i j); [apply hswap_perm; auto|auto].
           ++ intros k Hk. rewrite Hsuf by auto. rewrite nth_hswap by auto.
              destruct (Nat.eqb_spec k j); [lia|]. destruct (Nat.eqb_spec k i); [lia|]. auto.
      * split; [|split; auto].
        intros p c Hc Hch.
        destruct (Nat.eq_dec p i) as [->|Hpi]; [|apply I1; auto].
        pose proof (Hmin c Hc Hch). lia.
Qed.

(* ------------------------------------------------------------------ Pop *)
Lemma firstn_last_nth : forall (l : list frag) n, length l = S n -> l = firstn n l ++ [nth n l dfrag].
Proof.
  intros l n Hl.
  rewrite <- (firstn_skipn n l) at 1. f_equal.
  assert (Hs : length (skipn n l) = 1%nat) by (rewrite skipn_length; lia).
  destruct (skipn n l) as [|y [|z t]] eqn:E; simpl in Hs; try lia.
  f_equal.
  rewrite <- (firstn_skipn n l) at 1. rewrite app_nth2; rewrite firstn_length; try lia.
  replace (n - Nat.min n (length l))%nat with 0%nat by lia. now rewrite E.
Qed.

Lemma nth_firstn_lt : forall A (l : list A) n k d, (k < n)%nat -> nth k (firstn n l) d = nth k l d.
Proof.
  induction l as [|a t IH]; intros [|n] [|k] d Hk; simpl; auto; try lia.
  apply IH. lia.
Qed.

Lemma heap_pop_spec : forall h, h <> [] -> heap_ok h (length h) ->
  exists x h', heap_pop h = Some (x, h') /\
    x = nth 0 h dfrag /\
    Permutation h (x :: h') /\
    heap_ok h' (length h') /\
    (forall y, In y h' -> fr_off x <= fr_off y) /\
    S (length h') = length h.
Proof.
  intros h Hne Hok.
  destruct h as [|a t]; [congruence|].
  set (h := a :: t) in *.
  unfold heap_pop. fold h.
  set (n := (length h - 1)%nat).
  assert (Hlen : length h = S n) by (unfold n, h; simpl; lia).
  assert (H0 : (0 < length h)%nat) by lia.
  assert (Hnl : (n < length h)%nat) by lia.
  destruct (h_down_spec (length h) (hswap h 0 n) 0 n) as [Hok2 [Hperm Hsuf]].
  - rewrite hswap_length. lia.
  - lia.
  - split.
    + intros p c Hc Hch Hp.
      rewrite !K_hswap by auto.
      destruct (Nat.eqb_spec p n); [unfold child in *; lia|].
      destruct (Nat.eqb_spec c n); [lia|].
      destruct (Nat.eqb_spec p 0); [lia|].
      destruct (Nat.eqb_spec c 0); [unfold child in *; lia|].
      apply Hok; auto. lia.
    + intros g c Hc Hg. unfold child in Hg. lia.
  - set (h2 := h_down (length h) (hswap h 0 n) 0 n) in *.
    assert (Hl2 : length h2 = S n).
    { rewrite <- Hlen. rewrite <- (hswap_length h 0 n). symmetry. apply Permutation_length; auto. }
    assert (Hx : nth n h2 dfrag = nth 0 h dfrag).
    { rewrite Hsuf by lia. rewrite nth_hswap by auto. now rewrite Nat.eqb_refl. }
    exists (nth n h2 dfrag), (firstn n h2).
    assert (Hp : Permutation h (nth n h2 dfrag :: firstn n h2)).
    { apply Permutation_trans with (hswap h 0 n); [apply hswap_perm; auto|].
      eapply Permutation_trans; [apply Hperm|].
      rewrite (firstn_last_nth h2 n Hl2) at 1.
      apply Permutation_sym. apply Permutation_cons_append. }
    assert (Hfl : length (firstn n h2) = n) by (rewrite firstn_length; lia).
    split; [reflexivity|]. split; [auto|]. split; [auto|]. split; [|split].
    + rewrite Hfl. intros p c Hc Hch.
      assert (Hp' : (p < n)%nat) by (unfold child in *; lia).
      unfold K. rewrite !nth_firstn_lt by lia.
      apply Hok2; auto.
    + intros y Hy. rewrite Hx.
      assert (In y h).
      { eapply Permutation_in; [apply Permutation_sym; apply Hp|]. now right. }
      destruct (In_nth _ _ dfrag H) as [k [Hk Ek]].
      pose proof (root_min h (length h) Hok k Hk) as R. unfold K in R. now rewrite Ek in R.
    + lia.
Qed.

(* lengths alone (no heap order needed): used by process_never_panics *)
Lemma h_up_length : forall fuel h j, (j < length h)%nat -> length (h_up fuel h j) = length h.
Proof.
  induction fuel as [|f IH]; intros h j Hj; cbn [h_up]; auto.
  destruct ((((j - 1) / 2 =? j)%nat) || negb (hless h j ((j - 1) / 2))); auto.
  rewrite IH; rewrite hswap_length; auto.
  destruct j; [simpl; lia|]. destruct (parent_child (S j) ltac:(lia)). lia.
Qed.

Lemma heap_push_length : forall h x, length (heap_push h x) = S (length h).
Proof.
  intros. unfold heap_push. rewrite h_up_length; rewrite app_length; simpl; lia.
Qed.

Lemma h_down_length : forall fuel h i n, (n <= length h)%nat -> length (h_down fuel h i n) = length h.
Proof.
  induction fuel as [|f IH]; intros h i n Hn; cbn [h_down]; auto.
  destruct (n <=? 2 * i + 1)%nat; auto.
  match goal with |- context [if negb ?b then _ else _] => destruct b end; cbn [negb]; auto.
  rewrite IH; rewrite hswap_length; auto.
Qed.

Lemma heap_pop_length : forall h, h <> [] -> exists x h', heap_pop h = Some (x, h') /\ S (length h') = length h.
Proof.
  intros [|a t] Hne; [congruence|].
  unfold heap_pop. eexists _, _. split; [reflexivity|].
  rewrite firstn_length, h_down_length; rewrite hswap_length; simpl length; lia.
Qed.

Lemma heap_pop_none : forall h, heap_pop h = None <-> h = [].
Proof. intros [|a t]; simpl; split; congruence. Qed.

(* permutation alone (no heap order needed): used for the provenance of stored fragments *)
Lemma h_up_perm : forall fuel h j, (j < length h)%nat -> Permutation h (h_up fuel h j).
Proof.
  induction fuel as [|f IH]; intros h j Hj; cbn [h_up]; [apply Permutation_refl|].
  destruct ((((j - 1) / 2 =? j)%nat) || negb (hless h j ((j - 1) / 2))); [apply Permutation_refl|].
  assert (Hp : ((j - 1) / 2 < length h)%nat).
  { destruct j; [simpl; lia|]. destruct (parent_child (S j) ltac:(lia)). lia. }
  apply Permutation_trans with (hswap h ((j - 1) / 2) j); [apply hswap_perm; auto|].
  apply IH. now rewrite hswap_length.
Qed.

Lemma heap_push_perm : forall h x, Permutation (x :: h) (heap_push h x).
Proof.
  intros. unfold heap_push.
  apply Permutation_trans with (h ++ [x]); [apply Permutation_cons_append|].
  apply h_up_perm. rewrite app_length. simpl. lia.
Qed.

Lemma heap_push_in : forall h x y, In y (heap_push h x) <-> y = x \/ In y h.
Proof.
  intros h x y. split.
  - intros H. apply (Permutation_in _ (Permutation_sym (heap_push_perm h x))) in H.
    destruct H; auto.
  - intros H. apply (Permutation_in _ (heap_push_perm h x)). destruct H; [left|right]; auto.
Qed.
