(* Generic facts about Model/GoHeap.v (Go's container/heap) that hold for ANY Less function, in
   particular for the non-transitive sequence-number order used by the TCP receiver's pending heap:
   push/pop only move elements around.  [incl]-style statements (everything in the result was in
   the input) give preservation of [Forall Q]; pop returns a member; lengths. *)
From Coq Require Import List Arith Lia.
From NP Require Import Model.GoHeap.
Import ListNotations.

Section HeapIncl.
  Context {A : Type} (less : A -> A -> bool).

  Lemma set_nth_incl (l : list A) i x : incl (set_nth l i x) (x :: l).
  Proof.
    revert i. induction l as [|h t IH]; intros i; cbn [set_nth].
    - destruct i; intros y [].
    - destruct i as [|i'].
      + intros y [Hy|Hy]; [left; exact Hy|right; right; exact Hy].
      + intros y [Hy|Hy]; [right; left; exact Hy|].
        destruct (IH i' y Hy) as [E|E]; [left; exact E|right; right; exact E].
  Qed.

  Lemma set_nth_length (l : list A) i x : length (set_nth l i x) = length l.
  Proof.
    revert i. induction l as [|h t IH]; intros i; cbn [set_nth].
    - destruct i; reflexivity.
    - destruct i as [|i']; cbn [length]; [reflexivity|]. rewrite IH. reflexivity.
  Qed.

  Lemma swap_incl (l : list A) i j : incl (swap l i j) l.
  Proof.
    unfold swap. destruct (nth_error l i) as [a|] eqn:Ea; [|apply incl_refl].
    destruct (nth_error l j) as [b|] eqn:Eb; [|apply incl_refl].
    apply nth_error_In in Ea, Eb. intros y Hy.
    apply set_nth_incl in Hy. destruct Hy as [<-|Hy]; [exact Ea|].
    apply set_nth_incl in Hy. destruct Hy as [<-|Hy]; [exact Eb|exact Hy].
  Qed.

  Lemma swap_length (l : list A) i j : length (swap l i j) = length l.
  Proof.
    unfold swap. destruct (nth_error l i); [|reflexivity]. destruct (nth_error l j); [|reflexivity].
    rewrite !set_nth_length. reflexivity.
  Qed.

  Lemma up_incl fuel (l : list A) j : incl (up less fuel l j) l.
  Proof.
    revert l j. induction fuel as [|f IH]; intros l j; cbn [up]; [apply incl_refl|].
    destruct j as [|j']; [apply incl_refl|].
    destruct (lessAt less l (S j') (Nat.div (S j' - 1) 2)); [|apply incl_refl].
    eapply incl_tran; [apply IH|apply swap_incl].
  Qed.

  Lemma up_length fuel (l : list A) j : length (up less fuel l j) = length l.
  Proof.
    revert l j. induction fuel as [|f IH]; intros l j; cbn [up]; [reflexivity|].
    destruct j as [|j']; [reflexivity|].
    destruct (lessAt less l (S j') (Nat.div (S j' - 1) 2)); [|reflexivity].
    rewrite IH. apply swap_length.
  Qed.

  Lemma down_incl fuel (l : list A) i n : incl (down less fuel l i n) l.
  Proof.
    revert l i. induction fuel as [|f IH]; intros l i; cbn [down]; [apply incl_refl|].
    destruct (Nat.leb n (2 * i + 1)); [apply incl_refl|].
    match goal with |- context [lessAt less l ?j i] => destruct (lessAt less l j i) end;
      [|apply incl_refl].
    eapply incl_tran; [apply IH|apply swap_incl].
  Qed.

  Lemma down_length fuel (l : list A) i n : length (down less fuel l i n) = length l.
  Proof.
    revert l i. induction fuel as [|f IH]; intros l i; cbn [down]; [reflexivity|].
    destruct (Nat.leb n (2 * i + 1)); [reflexivity|].
    match goal with |- context [lessAt less l ?j i] => destruct (lessAt less l j i) end;
      [|reflexivity].
    rewrite IH. apply swap_length.
  Qed.

  (* heap.Push: everything in the new heap is the pushed element or was in the old heap *)
  Lemma push_incl (l : list A) x : incl (push less l x) (l ++ [x]).
  Proof. unfold push. apply up_incl. Qed.

  Lemma push_length (l : list A) x : length (push less l x) = S (length l).
  Proof. unfold push. rewrite up_length, app_length. cbn [length]. lia. Qed.

  Lemma push_Forall (Q : A -> Prop) (l : list A) x :
    Forall Q l -> Q x -> Forall Q (push less l x).
  Proof.
    intros Hl Hx. eapply incl_Forall; [apply push_incl|].
    apply Forall_app. split; [exact Hl|constructor; [exact Hx|constructor]].
  Qed.

  (* heap.Pop: the popped element and the remaining heap come from the old heap *)
  Lemma pop_unfold (l h : list A) x : pop less l = Some (h, x) ->
    exists l2, length l2 = length l /\ incl l2 l /\
               nth_error l2 (length l - 1) = Some x /\ h = firstn (length l - 1) l2.
  Proof.
    unfold pop. destruct l as [|a l']; [discriminate|].
    remember (a :: l') as l eqn:El. remember (length l - 1)%nat as n eqn:En.
    remember (down less (length l) (swap l 0 n) 0 n) as l2 eqn:E2.
    destruct (nth_error l2 n) as [y|] eqn:E; [|discriminate].
    intros H. exists l2. assert (h = firstn n l2 /\ x = y) as [-> ->] by (split; congruence).
    split; [|split; [|split]].
    - subst l2. rewrite down_length, swap_length. reflexivity.
    - subst l2. eapply incl_tran; [apply down_incl|apply swap_incl].
    - exact E.
    - reflexivity.
  Qed.

  Lemma pop_incl (l h : list A) x : pop less l = Some (h, x) -> In x l /\ incl h l.
  Proof.
    intros H. destruct (pop_unfold _ _ _ H) as (l2 & HL & HI & HN & ->). split.
    - apply HI. eapply nth_error_In. exact HN.
    - intros z Hz. apply HI. rewrite <- (firstn_skipn (length l - 1)). apply in_or_app. left. exact Hz.
  Qed.

  Lemma pop_length (l h : list A) x : pop less l = Some (h, x) -> S (length h) = length l.
  Proof.
    intros H. destruct (pop_unfold _ _ _ H) as (l2 & HL & HI & HN & ->).
    rewrite firstn_length, HL. destruct l as [|a l']; [discriminate H|]. cbn [length]. lia.
  Qed.

  Lemma pop_some (l : list A) : l <> [] -> exists h x, pop less l = Some (h, x).
  Proof.
    intros Hne. unfold pop. destruct l as [|a l']; [congruence|].
    remember (a :: l') as l eqn:El. remember (length l - 1)%nat as n eqn:En.
    remember (down less (length l) (swap l 0 n) 0 n) as l2 eqn:E2.
    destruct (nth_error l2 n) as [y|] eqn:E.
    - eexists _, _. reflexivity.
    - exfalso. apply nth_error_None in E. subst l2. rewrite down_length, swap_length in E.
      subst n l. cbn [length] in E. lia.
  Qed.

  Lemma pop_Forall (Q : A -> Prop) (l h : list A) x :
    pop less l = Some (h, x) -> Forall Q l -> Q x /\ Forall Q h.
  Proof.
    intros Hp Hl. destruct (pop_incl _ _ _ Hp) as [Hx Hh]. split.
    - rewrite Forall_forall in Hl. apply Hl. exact Hx.
    - eapply incl_Forall; [exact Hh|exact Hl].
  Qed.
End HeapIncl.
