(* C04, part 7: the sender invariant (write list in stream offsets) through every event. *)
From Coq Require Import ZArith List Bool Lia ZifyBool.
From RecordUpdate Require Import RecordSet.
From NP Require Import Model.Seqnum Model.GoHeap Model.Tcp Proofs.SeqnumP Proofs.TcpWndP Proofs.TcpWndRcvP Proofs.TcpWndSndP.
Import ListNotations RecordSetNotations.
Open Scope Z_scope.

(* ------------------------------------------------------------------ the sender invariant *)
(* b = iss; E = highest right edge the peer has offered so far; u, m, x = offsets of sndUna, of
   writeNext and of sndNxt *)
Definition SInv (b E u m x : Z) (t : tcp) : Prop :=
  let s := SN t in
  sndUna s = seq_of b u /\ SL b (maxPayload s) E u m x t /\
  1 <= maxPayload s <= 65535 /\ 0 <= sndWnd s <= P30 /\ u + sndWnd s <= E <= u + P30 /\
  0 <= sndWndScale s <= 14 /\
  (frActive s = true -> exists fl, frLast s = seq_of b fl /\ u <= fl <= x - 1).

Lemma SInv_bounds b E u m x t : SInv b E u m x t -> u <= m <= x /\ x <= u + P30.
Proof.
  intros (_ & (_ & Hc & Ht & Hx) & _). split; [|exact Hx].
  split; [eapply chain_le; eassumption|eapply tail_ok_le; eassumption].
Qed.

(* fields SInv does not read *)
Definition sinv_same (t t' : tcp) : Prop :=
  sndUna (SN t') = sndUna (SN t) /\ sndNxt (SN t') = sndNxt (SN t) /\ wsent (SN t') = wsent (SN t) /\
  wunsent (SN t') = wunsent (SN t) /\ maxPayload (SN t') = maxPayload (SN t) /\ sndWnd (SN t') = sndWnd (SN t) /\
  sndWndScale (SN t') = sndWndScale (SN t) /\ frActive (SN t') = frActive (SN t) /\ frLast (SN t') = frLast (SN t).

Lemma SInv_same b E u m x t t' : sinv_same t t' -> SInv b E u m x t -> SInv b E u m x t'.
Proof.
  intros (A1&A2&A3&A4&A5&A6&A7&A8&A9). unfold SInv, SL. cbv zeta. rewrite A1, A2, A3, A4, A5, A6, A7, A8, A9. tauto.
Qed.

Lemma sn_eq_sinv_same t t' : sn_eq t t' -> sinv_same t t'.
Proof. intros (mm & H). unfold sinv_same. rewrite H. cbn. repeat split. Qed.

Lemma ackonly_SInv b E u m x t t' : ackonly t t' -> SInv b E u m x t -> SInv b E u m x t'.
Proof. intros (_ & H). apply SInv_same. apply sn_eq_sinv_same. exact H. Qed.

Lemma SFr_nodata b u Ec mp f : nodata f -> SFr b u Ec mp f.
Proof. intros H. left. exact H. Qed.

(* the send loop leaves the recovery state alone *)
Definition fr_same (t t' : tcp) : Prop :=
  frActive (SN t') = frActive (SN t) /\ frLast (SN t') = frLast (SN t).

Lemma sendLoop_fr fuel : forall t endv limit, fr_same t (sendLoop fuel t endv limit).
Proof.
  induction fuel as [|fuel IH]; intros t endv limit; cbn [sendLoop]; [split; reflexivity|].
  destruct (wunsent (SN t)) as [|w rest] eqn:Ew; [split; reflexivity|].
  destruct (negb (outstanding (SN t) <? cwnd (SN t))); [split; reflexivity|].
  set (w1 := if w_flags w =? 0 then _ else w).
  assert (Step : forall s' d fl sq se,
     frActive s' = frActive (SN t) -> frLast s' = frLast (SN t) ->
     let t2 := sendSegment (t <| SN := s' |>) d fl sq in
     fr_same t (sendLoop fuel (if lessThan (sndNxt (SN t2)) se then t2 <| SN := (SN t2) <| sndNxt := se |> |> else t2) endv limit)).
  { intros s' d fl sq se H1 H2. cbv zeta.
    match goal with |- fr_same t (sendLoop fuel ?T endv limit) => destruct (IH T endv limit) as (Q1 & Q2) end.
    split; [rewrite Q1|rewrite Q2]; rewrite sendSegment_eq; destruct (lessThan _ _); cbn; assumption. }
  destruct (len (w_data w1) =? 0); [apply Step; reflexivity|].
  destruct (negb (lessThan (w_seq w1) endv)); [split; reflexivity|].
  match goal with |- context [if ?c then (_, _ :: rest) else _] => destruct c end; apply Step; reflexivity.
Qed.

(* ------------------------------------------------------------------ sendData *)
Lemma sendData_SInv b E u m x t idle :
  SInv b E u m x t ->
  exists m' x', SInv b E u m' x' (sendData t idle) /\ x <= x' /\
    emits (SFr b u (u + sndWnd (SN t)) (maxPayload (SN t))) t (sendData t idle).
Proof.
  intros (HU & HSL & Hmp & Hw & HE & Hsc & Hfr). unfold sendData. cbv zeta.
  set (s1 := if _ : bool then _ else SN t).
  assert (Hs1 : sinv_same t (t <| SN := s1 |>)).
  { subst s1. unfold sinv_same. destruct (_ && _ && _); cbn; repeat split. }
  destruct Hs1 as (A1&A2&A3&A4&A5&A6&A7&A8&A9). cbn [SN set] in A1, A2, A3, A4, A5, A6, A7, A8, A9.
  set (t1 := t <| SN := s1 |>).
  assert (HSL1 : SL b (maxPayload (SN t)) E u m x t1).
  { unfold SL in *. subst t1. cbn [SN set]. rewrite A2, A3, A4. exact HSL. }
  rewrite A1, A5, A6, HU, seq_of_add.
  destruct (sendLoop_SL b (maxPayload (SN t)) E u (u + sndWnd (SN t)) Hmp ltac:(lia) ltac:(lia)
              (S (wbytes (wunsent s1))) t1 m x HSL1) as (m' & x' & HSL2 & Hxx & HE2).
  destruct (sendLoop_spec (S (wbytes (wunsent s1))) t1 (seq_of b (u + sndWnd (SN t))) (maxPayload (SN t)) ltac:(lia))
    as (_ & _ & _ & (B1 & B2 & B3 & B4)).
  destruct (sendLoop_fr (S (wbytes (wunsent s1))) t1 (seq_of b (u + sndWnd (SN t))) (maxPayload (SN t))) as (F1 & F2).
  set (t2 := sendLoop _ t1 _ _) in *.
  change (SN t1) with s1 in B1, B2, B3, B4, F1, F2.
  assert (Inv2 : SInv b E u m' x' t2).
  { unfold SInv. cbv zeta. rewrite B1, B2, B3, B4, F1, F2, A1, A5, A6, A7, A8, A9.
    split; [exact HU|]. split; [exact HSL2|]. split; [exact Hmp|]. split; [exact Hw|]. split; [exact HE|].
    split; [exact Hsc|]. intros Ha. destruct (Hfr Ha) as (fl & G1 & G2). exists fl. split; [exact G1|lia]. }
  exists m', x'. split; [|split; [exact Hxx|]].
  - destruct (negb (tstate (SN t2) =? tEnabled) && _); [|exact Inv2].
    eapply SInv_same; [|exact Inv2]. unfold sinv_same. cbn. repeat split.
  - destruct HE2 as (l & O & F). change (out t1) with (out t) in O.
    exists l. split; [|exact F].
    destruct (negb (tstate (SN t2) =? tEnabled) && _); [|exact O].
    match goal with |- out (set SN ?f t2) = _ => change (out (set SN f t2)) with (out t2) end. exact O.
Qed.

(* ------------------------------------------------------------------ resendSegment: the first unacknowledged element *)
Lemma head_sent b mp E u m x ws wu :
  chain b mp E u ws m -> tail_ok b mp E x m wu -> u < x ->
  exists w r, ws ++ wu = w :: r /\ sentEl b mp E u w.
Proof.
  intros Hc Ht Hlt. destruct ws as [|w r]; cbn [chain] in Hc.
  - subst m. destruct wu as [|w r]; cbn [tail_ok] in Ht; [lia|].
    destruct Ht as [(_ & Hs & _)|(He & _)]; [|lia]. exists w, r. split; [reflexivity|exact Hs].
  - destruct Hc as (Hs & _). exists w, (r ++ wu). split; [reflexivity|exact Hs].
Qed.

Lemma resend_SInv b E u m x t :
  SInv b E u m x t -> u < x ->
  SInv b E u m x (resendSegment t) /\ emits (SFr b u E (maxPayload (SN t))) t (resendSegment t).
Proof.
  intros HI Hlt. pose proof HI as (HU & (Hx & Hc & Ht & Hxb) & Hmp & Hw & HE & Hsc & Hfr).
  destruct (head_sent _ _ _ _ _ _ _ _ Hc Ht Hlt) as (w & r & Hl & (S1 & S2 & S3 & S4)).
  unfold resendSegment. cbv zeta. cbn [SN set wsent wunsent]. 
  change (wsent (SN t <| rttSeq := sndNxt (SN t) |>)) with (wsent (SN t)).
  change (wunsent (SN t <| rttSeq := sndNxt (SN t) |>)) with (wunsent (SN t)).
  rewrite Hl. rewrite sendSegment_eq. split.
  - eapply SInv_same; [|exact HI]. unfold sinv_same. cbn. repeat split.
  - eexists. split; [cbn; reflexivity|]. constructor; [|constructor]. right. exists u. cbn [f_seq f_data].
    repeat split; try assumption; lia.
Qed.

(* ------------------------------------------------------------------ list surgery for time-outs and writes *)
Lemma chain_tail b mp E x : forall l1 l2 u m,
  chain b mp E u l1 m -> tail_ok b mp E x m l2 -> tail_ok b mp E x u (l1 ++ l2).
Proof.
  induction l1 as [|w r IH]; intros l2 u m Hc Ht; cbn [chain app] in *; [subst; exact Ht|].
  destruct Hc as (Hs & Hc). pose proof (chain_le _ _ _ _ _ _ Hc). pose proof (tail_ok_le _ _ _ _ _ _ Ht).
  pose proof Hs as (_ & _ & L & _).
  cbn [tail_ok]. left. split; [lia|]. split; [exact Hs|]. split; [lia|]. eapply IH; eassumption.
Qed.

Lemma tail_ok_snoc b mp E x w : unsentEl w -> forall l o, tail_ok b mp E x o l -> tail_ok b mp E x o (l ++ [w]).
Proof.
  intros Hw. induction l as [|a r IH]; intros o; cbn [tail_ok app].
  - intros ->. right. split; [reflexivity|split; [left; exact Hw|constructor]].
  - intros [(A & B & C & D)|(A & B & C)]; [left|right].
    + split; [exact A|split; [exact B|split; [exact C|apply IH; exact D]]].
    + split; [exact A|split; [exact B|apply Forall_app; split; [exact C|constructor; [exact Hw|constructor]]]].
Qed.

(* ------------------------------------------------------------------ an arriving ACK *)
Lemma ack_offset b u x ack :
  is_u32 ack -> 0 <= x - u < 2^31 ->
  inRange (u32 (ack - 1)) (seq_of b u) (seq_of b x) = true ->
  exists k, ack = seq_of b k /\ u < k <= x.
Proof.
  intros Hu Hb Hr. unfold inRange in Hr. apply Z.ltb_lt in Hr.
  exists (u + 1 + u32 (u32 (ack - 1) - seq_of b u)).
  revert Hr. unfold seq_of, u32, is_u32 in *. consts. change (2^31) with 2147483648 in *.
  intros Hr. Z.div_mod_to_equations. lia.
Qed.

Lemma in_range_offsets b u x k :
  u <= k <= x -> 0 <= x - u < 2^31 -> inRange (seq_of b k) (seq_of b u) (u32 (seq_of b x + 1)) = true.
Proof.
  intros Hk Hb. unfold inRange. apply Z.ltb_lt. unfold seq_of, u32. consts. change (2^31) with 2147483648 in *.
  Z.div_mod_to_equations. lia.
Qed.

Lemma wnd_bound w sc : 0 <= w <= 65535 -> 0 <= sc <= 14 -> 0 <= u32 (Z.shiftl w sc) <= P30.
Proof.
  intros Hw Hs. rewrite Z.shiftl_mul_pow2 by lia.
  assert (0 < 2^sc <= 16384) by (split; [apply Z.pow_pos_nonneg; lia|change 16384 with (2^14); apply Z.pow_le_mono_r; lia]).
  rewrite u32_small by (consts; nia). unfold P30. nia.
Qed.

(* what checkDuplicateAck guarantees about the recovery state and the retransmit decision *)
Lemma CDA_fr b u x s ack ll wnd :
  sndUna s = seq_of b u -> sndNxt s = seq_of b x -> u <= x <= u + P30 ->
  (frActive s = true -> exists fl, frLast s = seq_of b fl /\ u <= fl <= x - 1) ->
  let r := checkDuplicateAck s ack ll wnd in
  (frActive (fst r) = true -> exists fl, frLast (fst r) = seq_of b fl /\ u <= fl <= x - 1 /\
                              (forall k, ack = seq_of b k -> u <= k <= x -> k <= fl)) /\
  (snd r = true -> u < x /\ (forall k, ack = seq_of b k -> u <= k <= x -> k < x)).
Proof.
  intros HU HX Hb Hfr. cbv zeta. unfold checkDuplicateAck.
  destruct (frActive s) eqn:Ea.
  - destruct (Hfr eq_refl) as (fl & F1 & F2).
    destruct (negb (inRange ack (sndUna s) (u32 (sndNxt s + 1)))) eqn:E1; cbn [fst snd].
    { split; [|discriminate]. intros _. exists fl. repeat split; try assumption; try lia.
      intros k Hk Hku. exfalso. apply negb_true_iff in E1. rewrite Hk, HU, HX in E1.
      rewrite in_range_offsets in E1; [discriminate|lia|unfold P30 in *; change (2^31) with 2147483648; lia]. }
    destruct (lessThan (frLast s) ack) eqn:E2; cbn [fst snd].
    { split; [|discriminate]. unfold leaveFastRecovery. cbn. discriminate. }
    assert (Hk : forall k, ack = seq_of b k -> u <= k <= x -> k <= fl).
    { intros k Hk Hku. rewrite F1, Hk, lessThan_offsets in E2 by (unfold P30 in *; consts; lia). lia. }
    destruct (negb (ll =? 0) || negb (sndWnd s =? wnd)); cbn [fst snd].
    { split; [|discriminate]. intros _. exists fl. repeat split; try assumption; lia. }
    destruct (ack =? frFirst s); cbn [fst snd].
    + split; [|discriminate]. destruct (cwnd s <? frMaxCwnd s); cbn; intros _; exists fl; repeat split; try assumption; lia.
    + split; [cbn; intros _; exists fl; repeat split; try assumption; lia|].
      intros _. split; [lia|]. intros k Hk1 Hk2. specialize (Hk k Hk1 Hk2). lia.
  - destruct (negb (ack =? sndUna s) || negb (ll =? 0) || negb (sndWnd s =? wnd) || (ack =? sndNxt s)) eqn:E1;
      cbn [fst snd].
    { split; [cbn; rewrite Ea; discriminate|discriminate]. }
    cbv zeta. destruct (_ <? nDupAckThreshold); cbn [fst snd].
    { split; [cbn; rewrite Ea; discriminate|discriminate]. }
    destruct (negb (lessThan _ _)); cbn [fst snd].
    { split; [cbn; rewrite Ea; discriminate|discriminate]. }
    assert (Hack : ack = seq_of b u /\ u <> x).
    { rewrite HU, HX in E1. split; [lia|]. intros ->. lia. }
    destruct Hack as (Hack & Hne).
    assert (Hk : forall k, ack = seq_of b k -> u <= k <= x -> k = u).
    { intros k Hk Hku. rewrite Hack in Hk. symmetry. apply (seq_of_inj b); [exact Hk|].
      unfold P30 in *. change (2^31) with 2147483648. lia. }
    split.
    + intros _. exists (x - 1). unfold enterFastRecovery, reduceSsthresh. cbn. rewrite HX.
      split; [unfold seq_of, u32; consts; Z.div_mod_to_equations; lia|]. split; [lia|].
      intros k Hk1 Hk2. rewrite (Hk k Hk1 Hk2). lia.
    + intros _. split; [lia|]. intros k Hk1 Hk2. rewrite (Hk k Hk1 Hk2). lia.
Qed.

Lemma SInv_E b E E' u m x t : E <= E' <= u + P30 -> SInv b E u m x t -> SInv b E' u m x t.
Proof.
  intros HE (HU & (Hx & Hc & Ht & Hxb) & Hmp & Hw & HE0 & Hsc & Hfr).
  unfold SInv, SL. cbv zeta. repeat (split; [assumption|]).
  split; [split; [exact Hx|split; [eapply chain_mono; [|exact Hc]; lia|split; [eapply tail_ok_mono; [|exact Ht]; lia|exact Hxb]]]|].
  split; [exact Hmp|]. split; [exact Hw|]. split; [lia|]. split; assumption.
Qed.

Lemma renoCA_fr s n : frActive (renoCA s n) = frActive s /\ frLast (renoCA s n) = frLast s.
Proof. unfold renoCA. destruct (cwnd s <=? _); cbn; split; reflexivity. Qed.
Lemma renoUpdate_fr s n : frActive (renoUpdate s n) = frActive s /\ frLast (renoUpdate s n) = frLast s.
Proof.
  unfold renoUpdate. destruct (cwnd s <? ssthresh s); [|apply renoCA_fr].
  destruct (ssthresh s <=? cwnd s + n); cbv zeta beta iota;
    (destruct (_ =? 0); [cbn; split; reflexivity|]);
    match goal with |- context [renoCA ?S ?N] => destruct (renoCA_fr S N) as (A & B); rewrite A, B; cbn; split; reflexivity end.
Qed.

Lemma reno_if s n :
  core_same s (if frActive s then s else renoUpdate s n) /\
  frActive (if frActive s then s else renoUpdate s n) = frActive s /\
  frLast (if frActive s then s else renoUpdate s n) = frLast s.
Proof.
  destruct (frActive s) eqn:E.
  - split; [apply core_same_refl|split; [exact E|reflexivity]].
  - split; [apply renoUpdate_core|]. destruct (renoUpdate_fr s n) as (A & B). rewrite A, B, E. split; reflexivity.
Qed.

(* processing the acknowledgement: the acknowledged prefix leaves the write list, sndUna moves *)
Lemma ackProcess_SInv b E u m x t3 ack tsecr crto :
  SInv b E u m x t3 -> is_u32 ack ->
  (frActive (SN t3) = true -> exists fl, frLast (SN t3) = seq_of b fl /\ u <= fl <= x - 1 /\
                              (forall k, ack = seq_of b k -> u <= k <= x -> k <= fl)) ->
  exists u' m', u <= u' <= x /\ (u' = u \/ ack = seq_of b u') /\
    SInv b (Z.max E (u' + sndWnd (SN t3))) u' m' x (ackProcess t3 ack tsecr crto) /\
    sndWnd (SN (ackProcess t3 ack tsecr crto)) = sndWnd (SN t3) /\
    maxPayload (SN (ackProcess t3 ack tsecr crto)) = maxPayload (SN t3).
Proof.
  intros HI Hack Hfrk. pose proof (SInv_bounds _ _ _ _ _ _ HI) as (Hb1 & Hb2).
  pose proof HI as (HU & (Hx & Hc & Ht & Hxb) & Hmp & Hw & HE & Hsc & Hfr).
  unfold ackProcess. cbv zeta.
  destruct (inRange (u32 (ack - 1)) (sndUna (SN t3)) (sndNxt (SN t3))) eqn:Er.
  2:{ exists u, m. split; [lia|]. split; [left; reflexivity|]. split; [|split; reflexivity].
      eapply SInv_E; [|exact HI]. lia. }
  rewrite HU, Hx in Er.
  destruct (ack_offset b u x ack Hack ltac:(unfold P30 in *; change (2^31) with 2147483648; lia) Er) as (k & Hk & Hku).
  set (s5 := if tsOk t3 && tsecr then _ else _).
  assert (H5 : core_same (SN t3) s5 /\ frActive s5 = frActive (SN t3) /\ frLast s5 = frLast (SN t3)).
  { subst s5. destruct (tsOk t3 && tsecr); (split; [core_tac|split; reflexivity]). }
  destruct H5 as ((C1&C2&C3&C4&C5&C6&C7&C8&C9&C10) & Fa5 & Fl5).
  assert (Hacked : size (sndUna s5) ack = k - u).
  { rewrite C2, HU, Hk. apply size_offsets. unfold P30 in *. consts. lia. }
  rewrite Hacked.
  destruct (ackLoop_ok b (maxPayload (SN t3)) E x ltac:(lia)
              (S (length (wsent s5) + length (wunsent s5))) (wsent s5) (wunsent s5) u m (k - u) 0)
    as (m' & Hc' & Ht').
  { rewrite C6. exact Hc. } { rewrite C7. exact Ht. }
  { unfold P30 in *. change (2^31) with 2147483648. lia. } { lia. } { lia. }
  destruct (ackLoop _ _ _ _ _) as [[sent' unsent'] removed]. cbn [fst snd] in Hc', Ht'.
  replace (u + (k - u)) with k in Hc' by lia.
  set (s6 := s5 <| sndUna := ack |> <| wsent := sent' |> <| wunsent := unsent' |> <| outstanding := _ |>).
  assert (H6 : sndWnd s6 = sndWnd (SN t3) /\ sndUna s6 = ack /\ sndNxt s6 = sndNxt (SN t3) /\ wsent s6 = sent' /\
               wunsent s6 = unsent' /\ maxPayload s6 = maxPayload (SN t3) /\ sndWndScale s6 = sndWndScale (SN t3) /\
               frActive s6 = frActive (SN t3) /\ frLast s6 = frLast (SN t3)).
  { subst s6. cbn. rewrite C1, C3, C8, C9, Fa5, Fl5. repeat split. }
  destruct H6 as (G1&G2&G3&G4&G5&G6&G7&G8&G9).
  set (s7 := if frActive s6 then s6 else renoUpdate s6 removed).
  assert (H7 : core_same s6 s7 /\ frActive s7 = frActive s6 /\ frLast s7 = frLast s6).
  { subst s7. apply reno_if. }
  destruct H7 as ((D1&D2&D3&D4&D5&D6&D7&D8&D9&D10) & Fa7 & Fl7).
  set (s8 := if outstanding s7 <? 0 then s7 <| outstanding := 0 |> else s7).
  assert (H8 : core_same s7 s8 /\ frActive s8 = frActive s7 /\ frLast s8 = frLast s7).
  { subst s8. destruct (outstanding s7 <? 0); (split; [core_tac|split; reflexivity]). }
  destruct H8 as ((K1&K2&K3&K4&K5&K6&K7&K8&K9&K10) & Fa8 & Fl8).
  exists k, m'. split; [clear - Hku; lia|]. split; [right; exact Hk|].
  pose proof (chain_le _ _ _ _ _ _ Hc'). pose proof (tail_ok_le _ _ _ _ _ _ Ht').
  cbn [SN set].
  split; [|split; congruence].
  unfold SInv, SL. cbv zeta. cbn [SN set].
  rewrite K1, K2, K3, K6, K7, K8, K9, Fa8, Fl8, D1, D2, D3, D6, D7, D8, D9, Fa7, Fl7, G1, G2, G3, G4, G5, G6, G7, G8, G9.
  split; [exact Hk|].
  split; [split; [exact Hx|split; [eapply chain_mono; [|exact Hc']; apply Z.le_max_l
                 |split; [eapply tail_ok_mono; [|exact Ht']; apply Z.le_max_l|clear - Hxb Hku; lia]]]|].
  split; [exact Hmp|]. split; [exact Hw|]. split; [clear - HE Hku Hw; lia|]. split; [exact Hsc|].
  intros Ha. destruct (Hfrk Ha) as (fl & F1 & F2 & F3). exists fl. split; [exact F1|].
  specialize (F3 k Hk ltac:(clear - Hku; lia)). clear - F2 F3 Hku. lia.
Qed.

Lemma rttStart_fr t ack r : frActive (rttStart t ack r) = frActive (SN t) /\ frLast (rttStart t ack r) = frLast (SN t).
Proof. unfold rttStart. cbv zeta. destruct (_ && _); split; reflexivity. Qed.

Lemma sndHandle_SInv b E u m x t sg wnd newRto idle :
  SInv b E u m x t -> is_u32 (s_ack sg) -> 0 <= wnd <= P30 ->
  let t' := sndHandle t sg wnd newRto idle in
  exists u' m' x', u <= u' /\ x <= x' /\ SInv b (Z.max E (u' + wnd)) u' m' x' t' /\
    emits (SFr b u' (Z.max E (u' + wnd)) (maxPayload (SN t))) t t'.
Proof.
  intros HI Hack Hwnd. cbv zeta. rewrite sndHandle_eq.
  pose proof (SInv_bounds _ _ _ _ _ _ HI) as (Hb1 & Hb2).
  pose proof HI as (HU & (Hx & Hc & Ht & Hxb) & Hmp & Hw & HE & Hsc & Hfr).
  pose proof (rttStart_core t (s_ack sg) newRto) as (R1&R2&R3&R4&R5&R6&R7&R8&R9&R10).
  destruct (rttStart_fr t (s_ack sg) newRto) as (Ra & Rl).
  set (s1 := rttStart t (s_ack sg) newRto) in *.
  pose proof (CDA_fr b u x s1 (s_ack sg) (plogicalLen (s_flags sg) (s_data sg)) wnd
                ltac:(rewrite R2; exact HU) ltac:(rewrite R3; exact Hx) ltac:(lia)
                ltac:(rewrite Ra, Rl; exact Hfr)) as HC.
  pose proof (checkDuplicateAck_core s1 (s_ack sg) (plogicalLen (s_flags sg) (s_data sg)) wnd) as Hcore.
  destruct (checkDuplicateAck s1 (s_ack sg) (plogicalLen (s_flags sg) (s_data sg)) wnd) as [s2 rtx].
  cbv zeta in HC. cbn [fst snd] in HC, Hcore. destruct HC as (HCa & HCb).
  destruct Hcore as (Q1&Q2&Q3&Q4&Q5&Q6&Q7&Q8&Q9&Q10).
  set (t3 := t <| SN := s2 <| sndWnd := wnd |> |>).
  assert (HI3 : SInv b (Z.max E (u + wnd)) u m x t3).
  { unfold SInv, SL. cbv zeta. subst t3. cbn [SN set sndUna sndNxt wsent wunsent maxPayload sndWnd sndWndScale frActive frLast].
    cbn. rewrite Q2, Q3, Q6, Q7, Q8, Q9, R2, R3, R6, R7, R8, R9.
    split; [exact HU|].
    split; [split; [exact Hx|split; [eapply chain_mono; [|exact Hc]; lia|split; [eapply tail_ok_mono; [|exact Ht]; lia|exact Hxb]]]|].
    split; [exact Hmp|]. split; [exact Hwnd|]. split; [lia|]. split; [exact Hsc|].
    intros Ha. destruct (HCa Ha) as (fl & F1 & F2 & _). exists fl. split; assumption. }
  assert (W3 : sndWnd (SN t3) = wnd) by reflexivity.
  assert (M3 : maxPayload (SN t3) = maxPayload (SN t)) by (subst t3; cbn; rewrite Q8, R8; reflexivity).
  assert (O3 : out t3 = out t) by reflexivity.
  destruct (ackProcess_SInv b (Z.max E (u + wnd)) u m x t3 (s_ack sg) (s_tsecr sg) (clampRto newRto) HI3 Hack)
    as (u' & m' & Hu' & Hcase & HI4 & W4 & M4).
  { intros Ha. exact (HCa Ha). }
  destruct (ackProcess_facts t3 (s_ack sg) (s_tsecr sg) (clampRto newRto)) as (O4 & _).
  set (t4 := ackProcess t3 _ _ _) in *. rewrite W3 in HI4, W4.
  replace (Z.max (Z.max E (u + wnd)) (u' + wnd)) with (Z.max E (u' + wnd)) in * by lia.
  set (E2 := Z.max E (u' + wnd)) in *.
  destruct rtx.
  - destruct (HCb eq_refl) as (Hlt & Hk).
    assert (Hu'x : u' < x).
    { destruct Hcase as [->|Hk']; [exact Hlt|]. apply (Hk u' Hk'). lia. }
    destruct (resend_SInv b E2 u' m' x t4 HI4 Hu'x) as (HI5 & E5).
    set (t5 := resendSegment t4) in *.
    destruct (resendSegment_spec t4) as (_ & (_ & W5 & M5 & _) & _). fold t5 in W5, M5.
    destruct (sendData_SInv b E2 u' m' x t5 idle HI5) as (m6 & x6 & HI6 & Hx6 & E6).
    exists u', m6, x6. split; [lia|]. split; [exact Hx6|]. split; [exact HI6|].
    rewrite <- M3, <- M4.
    eapply emits_trans; [|eapply emits_trans].
    + apply emits_same_out. rewrite O4, O3. reflexivity.
    + exact E5.
    + rewrite M5, W5, W4 in E6. eapply emits_weaken; [|exact E6]. intros f Hf. eapply SFr_mono; [|exact Hf].
      subst E2. lia.
  - destruct (sendData_SInv b E2 u' m' x t4 idle HI4) as (m6 & x6 & HI6 & Hx6 & E6).
    exists u', m6, x6. split; [lia|]. split; [exact Hx6|]. split; [exact HI6|].
    rewrite <- M3, <- M4.
    eapply emits_trans.
    + apply emits_same_out. rewrite O4, O3. reflexivity.
    + rewrite W4 in E6. eapply emits_weaken; [|exact E6]. intros f Hf. eapply SFr_mono; [|exact Hf].
      subst E2. lia.
Qed.

(* ------------------------------------------------------------------ one event *)
Definition ev_snd_ok (e : event) : Prop :=
  match e with
  | ESeg sg _ => is_u32 (s_ack sg) /\ 0 <= s_wnd sg <= 65535
  | EShutW => False        (* the write side stays open: every queued element carries data *)
  | _ => True
  end.

Definition SStep (b E u x : Z) (t t' : tcp) : Prop :=
  exists u' m' x', u <= u' /\ x <= x' /\
    SInv b (Z.max E (u' + sndWnd (SN t'))) u' m' x' t' /\
    Forall (SFr b u' (Z.max E (u' + sndWnd (SN t'))) (maxPayload (SN t))) (out t') /\
    maxPayload (SN t') = maxPayload (SN t).

Lemma SFr_u b u u' Ec mp f : u <= u' -> SFr b u' Ec mp f -> SFr b u Ec mp f.
Proof. intros H [A|(o & A & B & C & D)]; [left; exact A|right; exists o; repeat split; try assumption; lia]. Qed.

(* closing an event whose frames were emitted from the state with out = [] *)
Lemma SStep_close b E u x t t0 t' u' m' x' E' :
  out t0 = [] -> maxPayload (SN t0) = maxPayload (SN t) ->
  u <= u' -> x <= x' -> E' = Z.max E (u' + sndWnd (SN t')) ->
  SInv b E' u' m' x' t' -> emits (SFr b u' E' (maxPayload (SN t0))) t0 t' ->
  maxPayload (SN t') = maxPayload (SN t0) -> SStep b E u x t t'.
Proof.
  intros Ho Hm Hu Hx HE HI (l & O & F) Hm'. rewrite Ho in O. cbn [app] in O.
  exists u', m', x'. split; [exact Hu|]. split; [exact Hx|]. rewrite <- HE. split; [exact HI|].
  split; [rewrite O, <- Hm; exact F|congruence].
Qed.

Lemma SInv_max b E u m x t : SInv b E u m x t -> Z.max E (u + sndWnd (SN t)) = E.
Proof. intros (_ & _ & _ & _ & HE & _). lia. Qed.

Lemma handleSegment_SStep b E u m x t sg r :
  SInv b E u m x t -> ev_snd_ok (ESeg sg r) ->
  SStep b E u x t (handleSegment (t <| out := [] |>) sg r false).
Proof.
  intros HI (Hack & Hwnd).
  set (t0 := t <| out := [] |>).
  assert (HI0 : SInv b E u m x t0) by exact HI.
  assert (Ho : out t0 = []) by reflexivity.
  assert (Hm0 : maxPayload (SN t0) = maxPayload (SN t)) by reflexivity.
  assert (Quiet : forall t', ackonly t0 t' -> SStep b E u x t t').
  { intros t' A. pose proof (ackonly_SInv _ _ _ _ _ _ _ A HI0) as HI'.
    destruct (ackonly_snd_same _ _ A) as (_ & W & M & _).
    eapply (SStep_close b E u x t t0 t' u m x E); try eassumption; try lia.
    - rewrite (SInv_max _ _ _ _ _ _ HI'). reflexivity.
    - eapply emits_weaken; [|exact (proj1 A)]. intros f Hf. apply SFr_nodata. exact Hf. }
  unfold handleSegment.
  destruct (negb (estate t0 =? stConnected)); [apply Quiet, ackonly_refl|].
  destruct (has (s_flags sg) fRst).
  { destruct (acceptable _ _ _); [apply Quiet, abortOnReset_ackonly|].
    apply Quiet. eapply ackonly_trans; [|apply loopExit_ackonly].
    destruct (negb (rcvNxt (RC t0) =? maxSentAck (SN t0))); [apply sendAck_ackonly|apply ackonly_refl]. }
  cbv zeta.
  destruct (has (s_flags sg) fAck).
  2:{ apply Quiet. eapply ackonly_trans; [|apply loopExit_ackonly].
      destruct (negb (rcvNxt (RC t0) =? maxSentAck (SN t0))); [apply sendAck_ackonly|apply ackonly_refl]. }
  destruct (tsOk t0 && negb (s_ts sg)).
  { apply Quiet. eapply ackonly_trans; [|apply loopExit_ackonly].
    destruct (negb (rcvNxt (RC t0) =? maxSentAck (SN t0))); [apply sendAck_ackonly|apply ackonly_refl]. }
  pose proof (rcvHandle_ackonly t0 sg) as A1.
  pose proof (ackonly_SInv _ _ _ _ _ _ _ A1 HI0) as HI1.
  destruct (ackonly_snd_same _ _ A1) as (_ & _ & M1 & Sc1).
  set (tr := rcvHandle t0 sg) in *.
  assert (Hsc : 0 <= sndWndScale (SN t0) <= 14) by (destruct HI0 as (_&_&_&_&_&Q&_); exact Q).
  set (wnd := u32 (Z.shiftl (s_wnd sg) (sndWndScale (SN t0)))).
  destruct (sndHandle_SInv b E u m x tr sg wnd r false HI1 Hack (wnd_bound _ _ Hwnd Hsc))
    as (u' & m' & x' & Hu' & Hx' & HI2 & E2).
  destruct (sndHandle_spec tr sg wnd r false) as (_ & M2 & _ & W2).
  { rewrite M1. destruct HI0 as (_&_&Q&_). lia. }
  set (t1 := sndHandle tr sg wnd r false) in *.
  assert (A3 : ackonly t1 (loopExit (if negb (rcvNxt (RC t1) =? maxSentAck (SN t1)) then sendAck t1 else t1))).
  { eapply ackonly_trans; [|apply loopExit_ackonly].
    destruct (negb (rcvNxt (RC t1) =? maxSentAck (SN t1))); [apply sendAck_ackonly|apply ackonly_refl]. }
  set (t2 := loopExit _) in *.
  pose proof (ackonly_SInv _ _ _ _ _ _ _ A3 HI2) as HI3.
  destruct (ackonly_snd_same _ _ A3) as (_ & W3 & M3 & _).
  eapply (SStep_close b E u x t t0 t2 u' m' x' (Z.max E (u' + wnd))); try eassumption.
  - rewrite W3, W2. reflexivity.
  - eapply emits_trans; [|eapply emits_trans].
    + eapply emits_weaken; [|exact (proj1 A1)]. intros f Hf. apply SFr_nodata. exact Hf.
    + rewrite <- M1. exact E2.
    + eapply emits_weaken; [|exact (proj1 A3)]. intros f Hf. apply SFr_nodata. exact Hf.
  - rewrite M3, M2, M1. reflexivity.
Qed.

Lemma SStep_sendData b E u m x t t1 idle :
  SInv b E u m x t1 -> out t1 = [] -> maxPayload (SN t1) = maxPayload (SN t) ->
  forall (post : tcp -> tcp), (forall y, ackonly y (post y)) ->
  SStep b E u x t (post (sendData t1 idle)).
Proof.
  intros HI Ho Hm post Hpost.
  destruct (sendData_SInv b E u m x t1 idle HI) as (m' & x' & HI2 & Hx' & E2).
  destruct (sendData_spec t1 idle) as (_ & (_ & W2 & M2 & _)).
  { destruct HI as (_&_&Q&_). lia. }
  set (t2 := sendData t1 idle) in *.
  pose proof (Hpost t2) as A3. pose proof (ackonly_SInv _ _ _ _ _ _ _ A3 HI2) as HI3.
  destruct (ackonly_snd_same _ _ A3) as (_ & W3 & M3 & _).
  pose proof (SInv_max _ _ _ _ _ _ HI) as Hmax.
  apply (SStep_close b E u x t t1 (post t2) u m' x' E Ho Hm ltac:(lia) Hx').
  - rewrite W3, W2. lia.
  - exact HI3.
  - eapply emits_trans.
    + eapply emits_weaken; [|exact E2]. intros f Hf. eapply SFr_mono; [|exact Hf]. destruct HI as (_&_&_&_&Q&_). lia.
    + eapply emits_weaken; [|exact (proj1 A3)]. intros f Hf. apply SFr_nodata. exact Hf.
  - rewrite M3, M2. reflexivity.
Qed.

Lemma sinv_same_refl t : sinv_same t t. Proof. repeat split. Qed.
Lemma sinv_same_trans a b c : sinv_same a b -> sinv_same b c -> sinv_same a c.
Proof. unfold sinv_same. intros A B. decompose [and] A. decompose [and] B. repeat split; congruence. Qed.
Lemma sinv_same_SN a b : SN b = SN a -> sinv_same a b.
Proof. intros H. unfold sinv_same. rewrite H. repeat split. Qed.

Lemma SStep_quiet2 b E u m x t t' :
  SInv b E u m x t -> sinv_same (t <| out := [] |>) t' -> emits nodata (t <| out := [] |>) t' -> SStep b E u x t t'.
Proof.
  intros HI S A. set (t0 := t <| out := [] |>) in *.
  assert (HI0 : SInv b E u m x t0) by exact HI.
  pose proof (SInv_same _ _ _ _ _ _ _ S HI0) as HI'.
  destruct S as (_&_&_&_&M&_).
  apply (SStep_close b E u x t t0 t' u m x E eq_refl eq_refl ltac:(lia) ltac:(lia)).
  - rewrite (SInv_max _ _ _ _ _ _ HI'). reflexivity.
  - exact HI'.
  - eapply emits_weaken; [|exact A]. intros f Hf. apply SFr_nodata. exact Hf.
  - exact M.
Qed.

Lemma SStep_quiet b E u m x t t' :
  SInv b E u m x t -> ackonly (t <| out := [] |>) t' -> SStep b E u x t t'.
Proof.
  intros HI (A1 & A2). eapply SStep_quiet2; [exact HI| |exact A1]. apply sn_eq_sinv_same. exact A2.
Qed.

Theorem snd_step b E u m x t e :
  SInv b E u m x t -> ev_snd_ok e -> SStep b E u x t (fst (step t e)).
Proof.
  intros HI Hev. unfold step. set (t0 := t <| out := [] |>).
  assert (HI0 : SInv b E u m x t0) by exact HI.
  destruct e as [sg r|d| | |]; cbn [fst].
  - apply (handleSegment_SStep b E u m x t sg r HI Hev).
  - (* write *)
    unfold appWrite.
    destruct (estate t0 =? stError); [eapply SStep_quiet; [exact HI|apply ackonly_refl]|].
    destruct (negb (estate t0 =? stConnected)); [eapply SStep_quiet; [exact HI|apply ackonly_refl]|].
    destruct (len d =? 0) eqn:Ed; [eapply SStep_quiet; [exact HI|apply ackonly_refl]|].
    destruct (sndClosedE t0); [eapply SStep_quiet; [exact HI|apply ackonly_refl]|].
    cbv zeta. destruct (sndBufSize t0 - sndBufUsed t0 <=? 0) eqn:Eav; [eapply SStep_quiet; [exact HI|apply ackonly_refl]|].
    cbn [fst].
    match goal with |- SStep _ _ _ _ _ (sendData ?T false) => set (t1 := T) end.
    apply (SStep_sendData b E u m x t t1 false) with (post := fun y => y); try reflexivity; [|intros y; apply ackonly_refl].
    destruct HI0 as (HU & (Hx & Hc & Ht & Hxb) & Hrest).
    unfold SInv, SL. cbv zeta. subst t1. cbn.
    split; [exact HU|]. split; [|exact Hrest].
    split; [exact Hx|split; [exact Hc|split; [|exact Hxb]]].
    apply tail_ok_snoc; [|exact Ht]. split; [reflexivity|]. cbn [w_data].
    change (sndBufSize t0) with (sndBufSize t) in Eav. change (sndBufUsed t0) with (sndBufUsed t) in Eav.
    pose proof (len_nonneg d). unfold len, takeZ in *. rewrite firstn_length. lia.
  - (* read *)
    pose proof (appRead_ackonly t0) as A. destruct (appRead t0) as [[t1 v] err]. cbn [fst] in *.
    eapply SStep_quiet; eassumption.
  - destruct Hev.
  - (* retransmission time-out *)
    destruct (negb (estate t0 =? stConnected)); cbn [fst]; [eapply SStep_quiet; [exact HI|apply ackonly_refl]|].
    unfold rtoExpired. cbv zeta.
    destruct (tstate (SN t0) =? tOrphaned).
    { cbn [fst snd]. eapply SStep_quiet2; [exact HI| |].
      - eapply sinv_same_trans; [|apply sinv_same_SN; apply loopExit_SN]. unfold sinv_same. cbn. repeat split.
      - apply emits_same_out. rewrite loopExit_out. reflexivity. }
    destruct (negb (tstate (SN t0) =? tEnabled)).
    { cbn [fst snd]. eapply SStep_quiet; [exact HI|apply loopExit_ackonly]. }
    destruct (maxRTO <=? rto (SN t0 <| tstate := tDisabled |>)).
    { cbn [fst snd]. eapply SStep_quiet2; [exact HI| |].
      - unfold resetConnection, sinv_same. cbn. repeat split.
      - unfold resetConnection. eexists. cbn. split; [reflexivity|]. constructor; [reflexivity|constructor]. }
    cbn [fst snd].
    match goal with |- SStep _ _ _ _ _ (loopExit (sendData ?T false)) => set (t1 := T) end.
    apply (SStep_sendData b E u u x t t1 false) with (post := loopExit); [| | |apply loopExit_ackonly].
    + destruct HI0 as (HU & (Hx & Hc & Ht & Hxb) & Hmp & Hw & HE & Hsc & Hfr).
      unfold SInv, SL. cbv zeta. subst t1. unfold reduceSsthresh.
      destruct (frActive (SN t0 <| tstate := tDisabled |> <| rto := rto (SN t0 <| tstate := tDisabled |>) * 2 |>)) eqn:Ea;
        cbn; (split; [exact HU|]); (split; [split; [exact Hx|split; [reflexivity|split; [eapply chain_tail; eassumption|exact Hxb]]]|]);
        (split; [exact Hmp|]); (split; [exact Hw|]); (split; [exact HE|]); (split; [exact Hsc|]); try discriminate.
      cbn in Ea. intros Ha. rewrite Ea in Ha. discriminate.
    + reflexivity.
    + subst t1. unfold reduceSsthresh. destruct (frActive _); reflexivity.
Qed.
