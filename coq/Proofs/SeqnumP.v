(* Lemmas about Model/Seqnum.v (pkg/seqnum).  All operands range over the full 32-bit space. *)
From Coq Require Import ZArith Bool Lia.
From NP Require Import Model.Seqnum.
Open Scope Z_scope.

Ltac consts :=
  change (2^32) with 4294967296 in *; change (2^31) with 2147483648 in *;
  change (2^31 - 1) with 2147483647 in *.
Ltac unf := unfold lessThanEq, lessThan, inWindow, inRange, overlap, add, size, updateForward,
  u32, fdist, is_u32, precedes_spec, inRange_spec_b, inWindow_spec_b, overlap_spec_b in *.
Ltac word := unf; consts; Z.div_mod_to_equations; lia.

Lemma b2p_leb a b : (a <=? b) = true <-> a <= b. Proof. apply Z.leb_le. Qed.
Lemma b2p_ltb a b : (a <? b) = true <-> a < b. Proof. apply Z.ltb_lt. Qed.

(* ---------- range / window: full ---------- *)
Lemma inRange_spec v a b : inRange v a b = true <-> fdist a v < fdist a b.
Proof. unfold inRange, u32, fdist. apply Z.ltb_lt. Qed.

Lemma fdist_add f s : is_u32 s -> fdist f (add f s) = s.
Proof. intros Hs. word. Qed.

Lemma inWindow_spec v f s : is_u32 s -> inWindow v f s = true <-> fdist f v < s.
Proof.
  intros Hs. unfold inWindow. rewrite inRange_spec, fdist_add by exact Hs. reflexivity.
Qed.

Lemma inRange_eq_spec v a b : inRange v a b = inRange_spec_b v a b.
Proof. reflexivity. Qed.

Lemma inWindow_eq_spec v f s : is_u32 s -> inWindow v f s = inWindow_spec_b v f s.
Proof.
  intros Hs. unfold inWindow_spec_b.
  destruct (inWindow v f s) eqn:E.
  - apply inWindow_spec in E; [|exact Hs]. symmetry. apply Z.ltb_lt. exact E.
  - symmetry. apply Z.ltb_ge. destruct (Z_lt_le_dec (fdist f v) s) as [H|H]; [|exact H].
    apply (inWindow_spec v f s Hs) in H. congruence.
Qed.

(* ---------- LessThan ---------- *)
Lemma fdist_rev v w : fdist v w = 0 \/ (0 < fdist v w /\ u32 (v - w) = 2^32 - fdist v w).
Proof. word. Qed.

Lemma lessThan_spec_partial v w :
  fdist v w <> 2^31 -> (lessThan v w = true <-> 1 <= fdist v w <= 2^31 - 1).
Proof.
  intros Hne. unfold lessThan. rewrite Z.leb_le. revert Hne. word.
Qed.

Lemma lessThan_eq_spec_partial v w :
  fdist v w <> 2^31 -> lessThan v w = precedes_spec v w.
Proof.
  intros Hne. pose proof (lessThan_spec_partial v w Hne) as H.
  unfold precedes_spec. destruct (lessThan v w).
  - symmetry. apply andb_true_iff. rewrite !Z.leb_le. apply H. reflexivity.
  - symmetry. apply andb_false_iff. rewrite !Z.leb_gt.
    destruct (Z_lt_le_dec (fdist v w) 1) as [A|A]; [left; exact A|].
    destruct (Z_lt_le_dec (2^31-1) (fdist v w)) as [B|B]; [right; exact B|].
    assert (false = true) by (apply H; lia). discriminate.
Qed.

(* at distance exactly 2^31 the code answers true in BOTH directions *)
Lemma lessThan_half v w : fdist v w = 2^31 -> lessThan v w = true /\ lessThan w v = true.
Proof. intros H. unfold lessThan. rewrite !Z.leb_le. revert H. word. Qed.

Lemma lessThan_half_refuted :
  exists v w, is_u32 v /\ is_u32 w /\ lessThan v w = true /\ precedes_spec v w = false.
Proof. exists 0, (2^31). unfold is_u32. repeat split; try reflexivity; consts; lia. Qed.

Lemma lessThan_irrefl v : lessThan v v = false.
Proof. unfold lessThan. apply Z.leb_gt. word. Qed.

Lemma lessThan_antisym v w : fdist v w <> 2^31 -> lessThan v w = true -> lessThan w v = false.
Proof. unfold lessThan. rewrite Z.leb_le, Z.leb_gt. word. Qed.

Lemma lessThan_trans u v w :
  fdist u v + fdist v w < 2^31 ->
  lessThan u v = true -> lessThan v w = true -> lessThan u w = true.
Proof. unfold lessThan. rewrite !Z.leb_le. word. Qed.

Lemma lessThanEq_spec v w : is_u32 v -> is_u32 w -> fdist v w <> 2^31 ->
  (lessThanEq v w = true <-> fdist v w <= 2^31 - 1).
Proof.
  intros Hv Hw Hne. unfold lessThanEq. destruct (Z.eqb_spec v w) as [->|Hvw].
  - split; [intros _|reflexivity]. word.
  - rewrite (lessThan_spec_partial v w Hne). revert Hvw. word.
Qed.

Lemma lessThan_total v w : is_u32 v -> is_u32 w -> v <> w ->
  lessThan v w = true \/ lessThan w v = true.
Proof. unfold lessThan. rewrite !Z.leb_le. word. Qed.

(* ---------- Add / Size ---------- *)
Lemma add_size_inverse v w : is_u32 w -> add v (size v w) = w.
Proof. word. Qed.
Lemma size_add_inverse v s : is_u32 s -> size v (add v s) = s.
Proof. word. Qed.
Lemma add_is_u32 v s : is_u32 (add v s).
Proof. word. Qed.
Lemma size_is_u32 v w : is_u32 (size v w).
Proof. word. Qed.
Lemma add_add v s t : add (add v s) t = add v (s + t).
Proof. word. Qed.
Lemma updateForward_add v s : updateForward v s = add v s.
Proof. reflexivity. Qed.

(* ---------- Overlap ---------- *)
Lemma overlap_eq_spec_partial a b x y :
  1 <= b -> 1 <= y -> b + y <= 2^31 -> overlap a b x y = overlap_spec_b a b x y.
Proof.
  intros Hb Hy Hs. unfold overlap, overlap_spec_b.
  assert (E1 : (0 <? b) = true) by (apply Z.ltb_lt; lia).
  assert (E2 : (0 <? y) = true) by (apply Z.ltb_lt; lia). rewrite E1, E2. cbn [andb].
  unfold lessThan.
  destruct (fdist a x <? b) eqn:A; destruct (fdist x a <? y) eqn:B; cbn [orb];
    rewrite ?Z.ltb_lt, ?Z.ltb_ge in *.
  - apply andb_true_iff; rewrite !Z.leb_le; revert A B; word.
  - apply andb_true_iff; rewrite !Z.leb_le; revert A B; word.
  - apply andb_true_iff; rewrite !Z.leb_le; revert A B; word.
  - apply andb_false_iff; rewrite !Z.leb_gt; revert A B; word.
Qed.

(* the closed form really is "the two windows share a sequence number" *)
Lemma overlap_spec_shares a b x y : is_u32 b -> is_u32 y ->
  (overlap_spec_b a b x y = true <->
   exists s, is_u32 s /\ inWindow s a b = true /\ inWindow s x y = true).
Proof.
  intros Hb Hy. unfold overlap_spec_b. split.
  - intros H. apply andb_true_iff in H as [H H3]. apply andb_true_iff in H as [H1 H2].
    apply Z.ltb_lt in H1, H2. apply orb_true_iff in H3 as [H3|H3]; apply Z.ltb_lt in H3.
    + exists (u32 x). split; [word|]. rewrite !inWindow_spec by assumption. revert H3; word.
    + exists (u32 a). split; [word|]. rewrite !inWindow_spec by assumption. revert H3; word.
  - intros (s & Hs & H1 & H2). rewrite inWindow_spec in H1, H2 by assumption.
    apply andb_true_iff; split; [apply andb_true_iff; split|]; try (apply Z.ltb_lt; revert H1 H2; word).
    apply orb_true_iff. rewrite !Z.ltb_lt.
    destruct (Z_lt_le_dec (fdist a x) b) as [A|A]; [left; exact A|right].
    revert H1 H2 A. word.
Qed.

Lemma overlap_spec_partial a b x y :
  1 <= b -> 1 <= y -> b + y <= 2^31 ->
  (overlap a b x y = true <->
   exists s, is_u32 s /\ inWindow s a b = true /\ inWindow s x y = true).
Proof.
  intros Hb Hy Hs. rewrite overlap_eq_spec_partial by assumption.
  apply overlap_spec_shares; unfold is_u32; consts; lia.
Qed.

(* an empty window "overlaps": the code deviates from the shared-sequence-number definition *)
Lemma overlap_empty_refuted :
  exists a b x y, is_u32 a /\ is_u32 b /\ is_u32 x /\ is_u32 y /\
    overlap a b x y = true /\ ~ (exists s, inWindow s a b = true /\ inWindow s x y = true).
Proof.
  exists 5, 0, 3, 10. unfold is_u32. repeat split; try (consts; lia).
  intros (s & H1 & _). unfold inWindow, inRange, add in H1. apply Z.ltb_lt in H1.
  revert H1. word.
Qed.

(* ---------- wherever a connection starts: order on sequence numbers = order on offsets ---------- *)
Definition seq_of (iss off : Z) : Z := u32 (iss + 1 + off).

Lemma lessThan_offsets iss o1 o2 :
  - 2^31 < o2 - o1 < 2^31 -> lessThan (seq_of iss o1) (seq_of iss o2) = (o1 <? o2).
Proof.
  intros H. unfold lessThan, seq_of.
  destruct (Z.ltb_spec o1 o2) as [L|L]; [apply Z.leb_le|apply Z.leb_gt]; revert H L; word.
Qed.

Lemma inWindow_offsets iss o f s :
  is_u32 s -> f - (2^32 - s) <= o < f + 2^32 ->
  inWindow (seq_of iss o) (seq_of iss f) s = (f <=? o) && (o <? f + s).
Proof.
  intros Hs H. rewrite inWindow_eq_spec by exact Hs. unfold inWindow_spec_b, seq_of.
  destruct (Z.leb_spec f o) as [L|L]; cbn [andb].
  - destruct (Z.ltb_spec o (f+s)) as [L2|L2]; [apply Z.ltb_lt|apply Z.ltb_ge]; revert Hs H L L2; word.
  - apply Z.ltb_ge. revert Hs H L; word.
Qed.

Lemma seq_of_add iss o n : add (seq_of iss o) n = seq_of iss (o + n).
Proof. unfold seq_of. word. Qed.

Lemma size_offsets iss o1 o2 : 0 <= o2 - o1 < 2^32 -> size (seq_of iss o1) (seq_of iss o2) = o2 - o1.
Proof. unfold seq_of. word. Qed.
