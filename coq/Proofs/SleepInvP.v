(* Proofs about Model/Sleep.v (property C19), part 2: [inv] is an inductive invariant of [step_ev]. *)
From Coq Require Import ZArith Bool List Arith Lia.
From NP Require Import Model.Sleep Proofs.SleepBaseP.
Import ListNotations.

Ltac dmatch H :=
  repeat match type of H with
  | context [match ?x with _ => _ end] => destruct x eqn:?; try discriminate H
  end.

(* open [step_ev st t = Some (st', evs)] knowing the pc *)
Ltac crack H Hpc :=
  unfold step_ev, step_gen in H;
  match type of H with (if negb (Nat.ltb ?t ?n) then _ else _) = _ =>
    destruct (Nat.ltb_spec t n) as [Hlt|Hlt]; cbn [negb] in H; [|discriminate H] end;
  rewrite Hpc in H;
  unfold some2, enter_next, done_next in H;
  dmatch H; inversion H; subst; clear H.

Ltac norm :=
  unfold set_pc, set_ws, set_ident, set_shared, set_local, set_allw, set_wg, set_prog in *;
  cbn [ws wident shared local allw wg pcs progs] in *.

Ltac evalpc :=
  cbn [att0 pc_ctx wg_ok is_parked in_window in_loop done_list done_pend sleeper_pc negb app] in *.

(* rewrite the sleeper's pc after the step: thread 0 stepped, or another thread *)
Ltac pc0simp Hpc Hlt :=
  match type of Hlt with
  | 0 < _ => repeat rewrite (nth_lset_same _ 0 _ _ Hlt) in *; try rewrite Hpc in *
  | ?t < _ =>
      let Ht0 := fresh "Ht0" in
      destruct (Nat.eq_dec t 0) as [Ht0|Ht0];
      [ subst t; repeat rewrite (nth_lset_same _ 0 _ _ Hlt) in *; try rewrite Hpc in *
      | repeat rewrite (nth_lset_other _ t 0 _ _ Ht0) in * ]
  end; evalpc.

Ltac other_thread :=
  intros;
  match goal with
  | Hlt : ?t < length (pcs ?st) |- context [nth ?x (lset (pcs ?st) ?t ?p) PIdle] =>
      let Ht' := fresh "Ht'" in
      destruct (Nat.eq_dec x t) as [Ht'|Ht'];
      [ try subst x; rewrite (nth_lset_same _ _ _ _ Hlt) in *
      | rewrite (nth_lset_other _ t x _ _ (not_eq_sym Ht')) in * ]
  | Hlt : ?t < length (pcs ?st), H : context [nth ?x (lset (pcs ?st) ?t ?p) PIdle] |- _ =>
      let Ht' := fresh "Ht'" in
      destruct (Nat.eq_dec x t) as [Ht'|Ht'];
      [ try subst x; rewrite (nth_lset_same _ _ _ _ Hlt) in *
      | rewrite (nth_lset_other _ t x _ _ (not_eq_sym Ht')) in * ]
  end.

(* counting equations for the token clause at waker w0 *)
Ltac tok_eqs w0 Hpc Hlt :=
  match goal with
  | |- context [lset (pcs ?st) ?t ?p] =>
      let H1 := fresh "Hh" in let H2 := fresh "Hp" in
      pose proof (countp_lset (heldb w0) (pcs st) t p Hlt) as H1;
      pose proof (countp_lset (pusherb w0) (pcs st) t p Hlt) as H2;
      rewrite Hpc in H1, H2; cbn [heldb pusherb b2n] in H1, H2
  end.

Ltac ws_facts := repeat match goal with H : ws _ _ = _ |- _ => rewrite H in * end.

Ltac eqb_cases :=
  repeat match goal with
  | |- context [Nat.eqb ?a ?b] => destruct (Nat.eqb_spec a b); try subst
  | H : context [Nat.eqb ?a ?b] |- _ => destruct (Nat.eqb_spec a b); try subst
  end.

Ltac tok_finish :=
  unfold tok_ok in *; cbn [b2n] in *;
  repeat match goal with
  | |- context [if ?b then _ else _] => destruct b eqn:?
  | H : context [if ?b then _ else _] |- _ => destruct b eqn:?
  end; cbn [b2n andb orb negb] in *; ws_facts;
  try discriminate; intuition (try congruence; try lia).

Ltac list_facts :=
  repeat match goal with
  | H : local _ = _ |- _ => rewrite H in *
  | H : shared _ = _ |- _ => rewrite H in *
  end.

Ltac tok_tac i_tok Hpc Hlt :=
  let w0 := fresh "w0" in
  intros w0; pose proof (i_tok w0); list_facts; tok_eqs w0 Hpc Hlt; pc0simp Hpc Hlt; unfold upd; cbn [cnt] in *; eqb_cases; tok_finish.

Ltac gw_eq Hpc Hlt :=
  match goal with
  | |- context [countp gwaitb (lset (pcs ?st) ?t ?p)] =>
      let H := fresh "Hgw" in
      pose proof (countp_lset gwaitb (pcs st) t p Hlt) as H; rewrite Hpc in H; cbn [gwaitb b2n] in H
  end.

(* generic attempts, clause by clause; what they cannot do is left to the caller *)
Ltac clauses i_tok i_only i_win Hpc Hlt :=
  [ > try solve [tok_tac i_tok Hpc Hlt]
  | try assumption
  | try solve [other_thread;
               first [reflexivity | solve [auto] | congruence
                     | match goal with Hn : ?t <> 0 |- _ =>
                         specialize (i_only t Hn); rewrite Hpc in i_only;
                         cbn [sleeper_pc in_loop pc_ctx] in *; first [assumption | discriminate] end]]
  | try solve [repeat rewrite length_lset; assumption]
  | try solve [pc0simp Hpc Hlt; try assumption; try reflexivity;
               match goal with |- context [wg_ok ?g _] => destruct g end; simpl in *; congruence]
  | try solve [intros ?; first [discriminate | (pc0simp Hpc Hlt; try assumption; simpl; first [discriminate | auto])]]
  | try solve [pc0simp Hpc Hlt; try assumption; intros ? [?|?]; first [discriminate | congruence | eauto]]
  | try solve [pc0simp Hpc Hlt; intros ? [?|?] ? ?; try discriminate; try congruence; gw_eq Hpc Hlt;
               first [ lia
                     | match goal with H : forall c, _ \/ _ -> _ |- _ => specialize (H _ ltac:(eauto) ltac:(congruence) ltac:(assumption)) end; lia]]
  | try solve [other_thread; first [discriminate | congruence | eauto]]
  | try solve [pc0simp Hpc Hlt; try assumption; intros; first [discriminate | congruence | eauto]]
  | try solve [pc0simp Hpc Hlt; try assumption;
               let HH := fresh "HH" in
               intros ? [HH|[? HH]]; first [discriminate | (inversion HH; subst; eauto 6)]]
  | try solve [pc0simp Hpc Hlt; try assumption; simpl; first [constructor | assumption]]
  | try solve [pc0simp Hpc Hlt; try assumption; simpl; intros; first [contradiction | (unfold upd; eqb_cases; first [discriminate | auto])]]
  | try solve [other_thread; first [discriminate | auto]] ].

Ltac leaf Hinv Hpc Hlt :=
  let i_tok := fresh "i_tok" in let i_only := fresh "i_only" in let i_win := fresh "i_win" in
  destruct Hinv as [i_tok ? i_only ? ? ? ? i_win ? ? ? ? ? ?];
  try match goal with Hs : true = true -> _ |- _ => specialize (Hs eq_refl) end;
  constructor; norm; unfold attb, tok, pc_of in *; norm;
  clauses i_tok i_only i_win Hpc Hlt.

Ltac start Hinv Hpc H :=
  crack H Hpc;
  try (match goal with HL : _ < length (pcs _) |- _ => leaf Hinv Hpc HL end).

Lemma step_PAsLoad : forall st t st' evs w,
  inv st -> pc_of st t = PAsLoad w -> step_ev st t = Some (st', evs) -> inv st'.
Proof. intros st t st' evs w Hinv Hpc H. start Hinv Hpc H. Qed.

Lemma step_PAsSwap : forall st t st' evs w,
  inv st -> pc_of st t = PAsSwap w -> step_ev st t = Some (st', evs) -> inv st'.
Proof. intros st t st' evs w Hinv Hpc H. start Hinv Hpc H. Qed.

Lemma step_PClLoad : forall st t st' evs w,
  inv st -> pc_of st t = PClLoad w -> step_ev st t = Some (st', evs) -> inv st'.
Proof. intros st t st' evs w Hinv Hpc H. start Hinv Hpc H. Qed.

Lemma step_PClCas : forall st t st' evs w,
  inv st -> pc_of st t = PClCas w -> step_ev st t = Some (st', evs) -> inv st'.
Proof. intros st t st' evs w Hinv Hpc H. start Hinv Hpc H. Qed.

Lemma step_PIsLoad : forall st t st' evs w,
  inv st -> pc_of st t = PIsLoad w -> step_ev st t = Some (st', evs) -> inv st'.
Proof. intros st t st' evs w Hinv Hpc H. start Hinv Hpc H. Qed.

Lemma step_PEnqLoad : forall st t st' evs k w,
  inv st -> pc_of st t = PEnqLoad k w -> step_ev st t = Some (st', evs) -> inv st'.
Proof. intros st t st' evs k w Hinv Hpc H. start Hinv Hpc H. Qed.

Lemma step_PEnqCas : forall st t st' evs k w v,
  inv st -> pc_of st t = PEnqCas k w v -> step_ev st t = Some (st', evs) -> inv st'.
Proof. intros st t st' evs k w v Hinv Hpc H. start Hinv Hpc H. Qed.

Lemma step_PEnqLoadG : forall st t st' evs k w,
  inv st -> pc_of st t = PEnqLoadG k w -> step_ev st t = Some (st', evs) -> inv st'.
Proof. intros st t st' evs k w Hinv Hpc H. start Hinv Hpc H. Qed.

Lemma gstate_eqb_eq : forall a b, gstate_eqb a b = true -> a = b.
Proof. destruct a, b; simpl; congruence. Qed.

(* the failing CAS on waitingG, and the second half of the succeeding one: back to the load *)
Lemma casg_back : forall st t k w g,
  inv st -> pc_of st t = PEnqCasG k w g -> t < length (pcs st) -> inv (set_pc st t (PEnqLoadG k w)).
Proof. intros st t k w g Hinv Hpc Hlt. leaf Hinv Hpc Hlt. Qed.

(* first half of a succeeding CAS(waitingG, preparingG, 0) *)
Lemma reset_prep : forall st, inv st -> wg st = GPrep -> inv (set_wg st G0).
Proof.
  intros st Hinv Hg. destruct Hinv. unfold inv. constructor; norm; unfold attb, tok, pc_of in *; norm; try assumption.
  - rewrite Hg in i_wg. simpl in *. destruct (nth 0 (pcs st) PIdle); simpl in *; congruence.
  - intros; congruence.
Qed.

(* first half of a succeeding CAS(waitingG, g, 0) + goready(g): the parked sleeper is runnable again *)
Lemma reset_wake : forall st c,
  inv st -> pc_of st 0 = PNwParked c -> 0 < length (pcs st) -> inv (set_pc (set_wg st G0) 0 (PNwLoad1 c)).
Proof. intros st c Hinv Hpc Hlt. leaf Hinv Hpc Hlt. Qed.

Lemma lset_comm : forall {A} (l : list A) i j x y, i <> j -> lset (lset l i x) j y = lset (lset l j y) i x.
Proof.
  induction l; simpl; intros; [reflexivity|].
  destruct i, j; simpl; try reflexivity; [congruence|]. f_equal. apply IHl. congruence.
Qed.

Lemma step_PEnqCasG : forall st t st' evs k w g,
  inv st -> pc_of st t = PEnqCasG k w g -> step_ev st t = Some (st', evs) -> inv st'.
Proof.
  intros st t st' evs k w g Hinv Hpc H.
  unfold step_ev, step_gen in H.
  destruct (Nat.ltb_spec t (length (pcs st))) as [Hlt|Hlt]; cbn [negb] in H; [|discriminate H].
  rewrite Hpc in H.
  destruct (gstate_eqb (wg st) g) eqn:Hg.
  2: { inversion H; subst; clear H. eapply casg_back; eauto. }
  apply gstate_eqb_eq in Hg. destruct g.
  - exfalso. eapply (i_casg _ _ Hinv); eauto.
  - inversion H; subst; clear H.
    apply (casg_back (set_wg st G0) t k w GPrep); [apply reset_prep; assumption|exact Hpc|exact Hlt].
  - pose proof (i_wg _ _ Hinv) as Hw. rewrite Hg in Hw. simpl in Hw.
    destruct (pc_of st 0) eqn:Hp0; simpl in Hw; try discriminate Hw.
    assert (Ht0 : t <> 0) by (intros ->; congruence).
    assert (H0 : 0 < length (pcs st)) by lia.
    rewrite pc_of_set_pc in H by exact Hlt.
    destruct (Nat.eqb_spec 0 t); [congruence|].
    change (pc_of (set_wg st G0) 0) with (pc_of st 0) in H. rewrite Hp0 in H.
    inversion H; subst; clear H.
    assert (E : set_pc (set_pc (set_wg st G0) t (PEnqLoadG k w)) 0 (PNwLoad1 c)
                = set_pc (set_pc (set_wg st G0) 0 (PNwLoad1 c)) t (PEnqLoadG k w)).
    { unfold set_pc, set_wg. simpl. f_equal. apply lset_comm. assumption. }
    rewrite E. apply (casg_back _ t k w GPark).
    + apply reset_wake; assumption.
    + rewrite pc_of_set_pc by (simpl; exact H0). destruct (Nat.eqb_spec t 0); [congruence|exact Hpc].
    + unfold set_pc. simpl. rewrite length_lset. exact Hlt.
Qed.

(* ------------------------------------------------------------------ the sleeper's own steps *)
Lemma sleeper_is_0 : forall b st t, ginv b st -> sleeper_pc (pc_of st t) = true -> t = 0.
Proof.
  intros b st t Hinv H. destruct (Nat.eq_dec t 0) as [|n]; [assumption|].
  pose proof (i_only _ _ Hinv t n). congruence.
Qed.

Ltac is0 Hinv Hpc t :=
  assert (t = 0) by (apply (sleeper_is_0 _ _ t Hinv); rewrite Hpc; reflexivity); subst t.

Lemma step_PNwStoreP : forall st t st' evs c,
  inv st -> pc_of st t = PNwStoreP c -> step_ev st t = Some (st', evs) -> inv st'.
Proof. intros st t st' evs c Hinv Hpc H. is0 Hinv Hpc t. start Hinv Hpc H. Qed.

Lemma step_PNwLoad2 : forall st t st' evs c,
  inv st -> pc_of st t = PNwLoad2 c -> step_ev st t = Some (st', evs) -> inv st'.
Proof. intros st t st' evs c Hinv Hpc H. is0 Hinv Hpc t. start Hinv Hpc H. Qed.

Lemma step_PNwStore0 : forall st t st' evs c,
  inv st -> pc_of st t = PNwStore0 c -> step_ev st t = Some (st', evs) -> inv st'.
Proof. intros st t st' evs c Hinv Hpc H. is0 Hinv Hpc t. start Hinv Hpc H. Qed.

Lemma step_PNwPark : forall st t st' evs c,
  inv st -> pc_of st t = PNwPark c -> step_ev st t = Some (st', evs) -> inv st'.
Proof. intros st t st' evs c Hinv Hpc H. is0 Hinv Hpc t. start Hinv Hpc H. Qed.

Lemma step_PNwLoad1 : forall st t st' evs c,
  inv st -> pc_of st t = PNwLoad1 c -> step_ev st t = Some (st', evs) -> inv st'.
Proof. intros st t st' evs c Hinv Hpc H. is0 Hinv Hpc t. start Hinv Hpc H. Qed.

Lemma step_PAwLoad : forall st t st' evs w,
  inv st -> pc_of st t = PAwLoad w -> step_ev st t = Some (st', evs) -> inv st'.
Proof.
  intros st t st' evs w Hinv Hpc H. is0 Hinv Hpc t. start Hinv Hpc H.
  intros w0; pose proof (i_tok w0); tok_eqs w0 Hpc Hlt; pc0simp Hpc Hlt.
  pose proof (i_aw w (or_introl eq_refl)) as Hm.
  eqb_cases; try rewrite Hm in *; tok_finish.
Qed.

Lemma step_PAwCas : forall st t st' evs w p,
  inv st -> pc_of st t = PAwCas w p -> step_ev st t = Some (st', evs) -> inv st'.
Proof.
  intros st t st' evs w p Hinv Hpc H. is0 Hinv Hpc t. start Hinv Hpc H.
  intros w0; pose proof (i_tok w0); tok_eqs w0 Hpc Hlt; pc0simp Hpc Hlt.
  pose proof (i_aw w (or_intror (ex_intro _ p eq_refl))) as Hm.
  unfold upd; eqb_cases; try rewrite Hm in *; tok_finish.
Qed.
