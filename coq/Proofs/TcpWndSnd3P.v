(* C04, part 8: sender histories, the non-shrinking peer, examples. *)
From Coq Require Import ZArith List Bool Lia ZifyBool.
From RecordUpdate Require Import RecordSet.
From NP Require Import Model.Seqnum Model.GoHeap Model.Tcp Proofs.SeqnumP Proofs.TcpWndP Proofs.TcpWndRcvP Proofs.TcpWndRcv2P
  Proofs.TcpWndSndP Proofs.TcpWndSnd2P Proofs.TcpWndThmP.
Import ListNotations RecordSetNotations.
Open Scope Z_scope.

(* ------------------------------------------------------------------ histories (write side open) *)
Theorem snd_run b : forall es E u m x t,
  SInv b E u m x t -> Forall ev_snd_ok es ->
  exists E' u' m' x', E <= E' /\ u <= u' /\ SInv b E' u' m' x' (run t es) /\
    Forall (SFr b u E' (maxPayload (SN t))) (run_out t es) /\
    maxPayload (SN (run t es)) = maxPayload (SN t).
Proof.
  induction es as [|e es IH]; intros E u m x t HI Hev.
  - exists E, u, m, x. split; [lia|]. split; [lia|]. split; [exact HI|]. split; [constructor|reflexivity].
  - inversion Hev as [|e' es' He Hes]; subst.
    destruct (snd_step b E u m x t e HI He) as (u1 & m1 & x1 & A1 & A2 & A3 & A4 & A5).
    cbn [run_out]. rewrite run_cons. set (t1 := fst (step t e)) in *.
    set (E1 := Z.max E (u1 + sndWnd (SN t1))) in *.
    destruct (IH E1 u1 m1 x1 t1 A3 Hes) as (E2 & u2 & m2 & x2 & B1 & B2 & B3 & B4 & B5).
    exists E2, u2, m2, x2. split; [subst E1; lia|]. split; [lia|]. split; [exact B3|]. split; [|congruence].
    apply Forall_app. split.
    + eapply Forall_impl; [|exact A4]. intros f Hf. eapply SFr_u; [exact A1|]. eapply SFr_mono; [exact B1|exact Hf].
    + rewrite A5 in B4. eapply Forall_impl; [|exact B4]. intros f Hf. eapply SFr_u; [exact A1|exact Hf].
Qed.

(* ------------------------------------------------------------------ a peer that does not shrink its window *)
Lemma SFr_within b u wnd mp f :
  0 <= wnd <= P30 -> SFr b u (u + wnd) mp f -> within_window (seq_of b u) wnd f.
Proof.
  intros Hw [H|(o & A & B & C & D)]; [left; exact H|].
  destruct (Z.eq_dec (len (f_data f)) 0) as [E0|E0]; [left; apply len_nil_iff; exact E0|].
  pose proof (len_nonneg (f_data f)). right. rewrite A, seq_of_add.
  rewrite lessThan_offsets by (unfold P30 in *; consts; lia).
  rewrite size_offsets by (unfold P30 in *; consts; lia). split; lia.
Qed.

Theorem snd_step_noshrink b u m x t e :
  SInv b (u + sndWnd (SN t)) u m x t -> ev_snd_ok e ->
  let t' := fst (step t e) in
  lessThan (add (sndUna (SN t')) (sndWnd (SN t'))) (add (sndUna (SN t)) (sndWnd (SN t))) = false ->
  exists u' m' x', SInv b (u' + sndWnd (SN t')) u' m' x' t' /\
    Forall (within_window (sndUna (SN t')) (sndWnd (SN t'))) (out t') /\
    Forall (fun f => len (f_data f) <= maxPayload (SN t)) (out t').
Proof.
  intros HI Hev. cbv zeta. intros Hedge.
  pose proof HI as (HU & _ & Hmp & Hw & _).
  destruct (snd_step b _ u m x t e HI Hev) as (u' & m' & x' & A1 & A2 & A3 & A4 & A5).
  set (t' := fst (step t e)) in *.
  pose proof A3 as (HU' & _ & _ & Hw' & HE' & _).
  pose proof (SInv_bounds _ _ _ _ _ _ HI) as (Hb1 & Hb2).
  pose proof (SInv_bounds _ _ _ _ _ _ A3) as (Hb1' & Hb2').
  assert (Hmax : Z.max (u + sndWnd (SN t)) (u' + sndWnd (SN t')) = u' + sndWnd (SN t')).
  { rewrite HU, HU', !seq_of_add in Hedge.
    destruct (Z_lt_le_dec (u' + sndWnd (SN t')) (u + sndWnd (SN t))) as [Hlt|Hle]; [|lia].
    exfalso. rewrite lessThan_offsets in Hedge; [lia|].
    (* u <= u' <= x <= u + 2^30 *) unfold P30 in *. consts. lia. }
  rewrite Hmax in A3, A4.
  exists u', m', x'. split; [exact A3|]. split.
  - rewrite HU'. eapply Forall_impl; [|exact A4]. intros f Hf. eapply SFr_within; [exact Hw'|exact Hf].
  - eapply Forall_impl; [|exact A4]. intros f [H|(o & _ & _ & _ & D)]; [rewrite H; cbn; lia|exact D].
Qed.

(* ------------------------------------------------------------------ the hypotheses are satisfiable *)
Example ex_SInv : SInv 1000 1000 0 0 0 (est 1000 5000 100 0 0 300 4096 1000).
Proof.
  unfold SInv, SL, P30, est. cbn [SN sndUna sndNxt wsent wunsent maxPayload sndWnd sndWndScale frActive frLast chain tail_ok].
  split; [reflexivity|]. split; [split; [reflexivity|split; [reflexivity|split; [reflexivity|lia]]]|].
  split; [lia|]. split; [lia|]. split; [lia|]. split; [lia|]. discriminate.
Qed.

Example ex_snd_events : Forall ev_snd_ok [EWrite (bytes 500); ESeg (ackseg 5001 1001 50) 0; ERto; ERead].
Proof. repeat constructor; vm_compute; try discriminate; try reflexivity. Qed.

(* the fast retransmission of the refutation witness lies beyond the window in force (1051) but
   within the highest edge ever offered (2001) *)
Example ex_rexmit_within_offered :
  let t := run w1_init w1_events in
  map (fun f => (f_seq f, len (f_data f))) (out (fst (step t w1_last))) = [(1001, 100)].
Proof. vm_compute. reflexivity. Qed.
