(* Lemmas about Model/Http.v: strings.Index / match_until, the request grammar G, the
   send/parse round trip, dispatch, and the response through the reused request parser. *)
From Coq Require Import String.
From Coq Require Import ZArith List Bool Lia Permutation.
From NP Require Import Model.Http.
Import ListNotations.
Open Scope Z_scope.

(* ------------------------------------------------------------------ the grammar G (spec side) *)
(* [contains d s]: d occurs in s ([contains_spec] below: exists l r, s = l ++ d ++ r) *)
Definition contains (d s : list Z) : bool :=
  match index d s with Some _ => true | None => false end.

Definition method_ok (m : list Z) : bool :=
  beq m (s2b "GET") || beq m (s2b "HEAD") || beq m (s2b "POST") || beq m (s2b "PUT").
(* uri: non-empty, no space (CR and LF are accepted by this parser) *)
Definition uri_ok (u : list Z) : bool := negb (isnil u) && negb (contains SP u).
(* header key: non-empty, no ": " inside, does not start with CRLF (may contain CR, LF, ':' ...) *)
Definition key_ok (k : list Z) : bool :=
  negb (isnil k) && negb (contains COLSP k) && negb (has_prefix CRLF k).
(* header value: non-empty, no CRLF inside (may contain ": ") *)
Definition val_ok (v : list Z) : bool := negb (isnil v) && negb (contains CRLF v).
Definition hdr_ok (kv : list Z * list Z) : bool := key_ok (fst kv) && val_ok (snd kv).
(* a Go map has distinct keys *)
Fixpoint keys_distinct (h : hdrs) : bool :=
  match h with
  | [] => true
  | (k, _) :: t => negb (existsb (fun kv => beq k (fst kv)) t) && keys_distinct t
  end.
(* G: what Request.send may be given so that Request.parse returns it; the body is ARBITRARY *)
Definition Gb (m u : list Z) (hs : hdrs) : bool :=
  method_ok m && uri_ok u && forallb hdr_ok hs && keys_distinct hs.

(* ------------------------------------------------------------------ basic facts *)
Lemma beq_refl : forall a, beq a a = true.
Proof. induction a as [|x a IH]; cbn; [reflexivity|]. now rewrite Z.eqb_refl, IH. Qed.

Lemma beq_true_iff : forall a b, beq a b = true <-> a = b.
Proof.
  induction a as [|x a IH]; intros [|y b]; cbn; split; intro Hab; try easy.
  - apply andb_true_iff in Hab as [Hx Ht]. apply Z.eqb_eq in Hx. apply IH in Ht. now subst.
  - inversion Hab; subst. now rewrite Z.eqb_refl, beq_refl.
Qed.

Lemma beq_false_iff : forall a b, beq a b = false <-> a <> b.
Proof.
  intros a b. destruct (beq a b) eqn:Hb.
  - apply beq_true_iff in Hb. split; [discriminate|congruence].
  - split; [|reflexivity]. intros _ Heq. apply beq_true_iff in Heq. congruence.
Qed.

Lemma has_prefix_spec : forall d s, has_prefix d s = true <-> exists r, s = d ++ r.
Proof.
  induction d as [|x d IH]; intros s; cbn.
  - split; [intros _; now exists s | reflexivity].
  - destruct s as [|y s].
    + split; [discriminate | intros [r Hr]; discriminate].
    + rewrite andb_true_iff, Z.eqb_eq, IH. split.
      * intros [-> [r ->]]. now exists r.
      * intros [r Hr]. inversion Hr; subst. split; [reflexivity | now exists r].
Qed.

Lemma has_prefix_app : forall d r, has_prefix d (d ++ r) = true.
Proof. intros. apply has_prefix_spec. now exists r. Qed.

(* ------------------------------------------------------------------ strings.Index *)
(* [index] returns the FIRST occurrence: d starts at i, and at no earlier position *)
Lemma index_some : forall d s i, index d s = Some i ->
  has_prefix d (skipn i s) = true /\ (i <= length s)%nat
  /\ forall j, (j < i)%nat -> has_prefix d (skipn j s) = false.
Proof.
  intros d s. induction s as [|c s IH]; intros i Hi; cbn [index] in Hi.
  - destruct (has_prefix d []) eqn:Hp; [|discriminate]. inversion Hi; subst. cbn. repeat split; [exact Hp|lia|intros j Hj; lia].
  - destruct (has_prefix d (c :: s)) eqn:Hp.
    + inversion Hi; subst. cbn [skipn]. repeat split; [exact Hp|lia|intros j Hj; lia].
    + destruct (index d s) as [i'|] eqn:Hs; cbn in Hi; [|discriminate]. inversion Hi; subst.
      destruct (IH i' eq_refl) as (Ha & Hb & Hc). cbn [skipn length]. repeat split; [exact Ha|lia|].
      intros [|j] Hj; cbn [skipn]; [exact Hp|]. apply Hc. lia.
Qed.

Lemma index_none : forall d s, index d s = None ->
  forall j, has_prefix d (skipn j s) = false.
Proof.
  intros d s. induction s as [|c s IH]; intros Hn j; cbn [index] in Hn.
  - destruct (has_prefix d []) eqn:Hp; [discriminate|]. now destruct j.
  - destruct (has_prefix d (c :: s)) eqn:Hp; [discriminate|].
    destruct (index d s) eqn:Hs; cbn in Hn; [discriminate|].
    destruct j as [|j]; cbn [skipn]; [exact Hp|]. now apply IH.
Qed.

Lemma skipn_add : forall {A} i n (s : list A), skipn (i + n) s = skipn n (skipn i s).
Proof.
  induction i as [|i IH]; intros n s; [reflexivity|].
  destruct s as [|c s]; cbn [Nat.add skipn]; [now destruct n | apply IH].
Qed.

Lemma index_split : forall d s i, index d s = Some i ->
  s = firstn i s ++ d ++ skipn (i + length d) s.
Proof.
  intros d s i Hi. destruct (index_some _ _ _ Hi) as (Hp & _ & _).
  apply has_prefix_spec in Hp as [r Hr].
  rewrite <- (firstn_skipn i s) at 1. f_equal.
  rewrite skipn_add, Hr. now rewrite skipn_app, skipn_all, Nat.sub_diag.
Qed.

Lemma contains_spec : forall d s, contains d s = true <-> exists l r, s = l ++ d ++ r.
Proof.
  intros d s. unfold contains. split.
  - destruct (index d s) as [i|] eqn:Hi; [|discriminate]. intros _.
    exists (firstn i s), (skipn (i + length d) s). now apply index_split.
  - intros (l & r & ->). destruct (index d (l ++ d ++ r)) eqn:Hi; [reflexivity|].
    pose proof (index_none _ _ Hi (length l)) as Hn.
    rewrite skipn_app, skipn_all, Nat.sub_diag in Hn. cbn in Hn. now rewrite has_prefix_app in Hn.
Qed.

Lemma contains_false_tail : forall d c s, contains d (c :: s) = false -> contains d s = false.
Proof.
  unfold contains. intros d c s. cbn [index]. destruct (has_prefix d (c :: s)); [discriminate|].
  now destruct (index d s).
Qed.

(* one-byte delimiter: the first occurrence after a prefix that does not contain it *)
Lemma index_app1 : forall a k r, contains [a] k = false -> index [a] (k ++ a :: r) = Some (length k).
Proof.
  intros a k r. induction k as [|c k IH]; intros Hk.
  - cbn. now rewrite Z.eqb_refl.
  - pose proof (contains_false_tail _ _ _ Hk) as Hk'.
    unfold contains in Hk. cbn [index] in Hk. cbn [app index length].
    destruct (has_prefix [a] (c :: k)) eqn:Hp; [discriminate|].
    cbn in Hp. cbn [has_prefix]. rewrite andb_true_r in Hp. rewrite Hp. cbn.
    now rewrite (IH Hk').
Qed.

(* two-byte delimiter of two different bytes (": " and "\r\n"): no occurrence can straddle *)
Lemma index_app2 : forall a b k r, a <> b -> contains [a; b] k = false ->
  index [a; b] (k ++ a :: b :: r) = Some (length k).
Proof.
  intros a b k r Hab. induction k as [|c k IH]; intros Hk.
  - cbn. now rewrite !Z.eqb_refl.
  - pose proof (contains_false_tail _ _ _ Hk) as Hk'.
    unfold contains in Hk. cbn [index] in Hk.
    destruct (has_prefix [a; b] (c :: k)) eqn:Hp; [discriminate|].
    cbn [app index length].
    assert (Hp' : has_prefix [a; b] (c :: k ++ a :: b :: r) = false).
    { destruct k as [|c2 k]; cbn in *.
      - destruct (a =? c) eqn:Hac; [|reflexivity]. cbn. apply Z.eqb_eq in Hac. subst.
        rewrite andb_true_r. apply Z.eqb_neq. congruence.
      - rewrite andb_true_r in Hp. now rewrite andb_true_r. }
    rewrite Hp'. now rewrite (IH Hk').
Qed.

Lemma match_until_app1 : forall a k r, contains [a] k = false ->
  match_until (k ++ a :: r) [a] = (k, r).
Proof.
  intros a k r Hk. unfold match_until. rewrite (index_app1 _ _ _ Hk).
  rewrite firstn_app, firstn_all, Nat.sub_diag. cbn [firstn]. rewrite app_nil_r.
  rewrite skipn_app. rewrite skipn_all2 by (cbn; lia).
  replace (length k + length [a] - length k)%nat with 1%nat by (cbn; lia). reflexivity.
Qed.

Lemma match_until_app2 : forall a b k r, a <> b -> contains [a; b] k = false ->
  match_until (k ++ a :: b :: r) [a; b] = (k, r).
Proof.
  intros a b k r Hab Hk. unfold match_until. rewrite (index_app2 _ _ _ r Hab Hk).
  rewrite firstn_app, firstn_all, Nat.sub_diag. cbn [firstn]. rewrite app_nil_r.
  rewrite skipn_app. rewrite skipn_all2 by (cbn; lia).
  replace (length k + length [a; b] - length k)%nat with 2%nat by (cbn; lia). reflexivity.
Qed.

(* no delimiter: ("", "") *)
Lemma match_until_none : forall d s, contains d s = false -> match_until s d = ([], []).
Proof. unfold contains, match_until. intros d s. now destruct (index d s). Qed.

(* ------------------------------------------------------------------ header map *)
Lemma beq_sym : forall a b, beq a b = beq b a.
Proof.
  intros a b. destruct (beq a b) eqn:H1; destruct (beq b a) eqn:H2; try reflexivity.
  - apply beq_true_iff in H1. subst. now rewrite beq_refl in H2.
  - apply beq_true_iff in H2. subst. now rewrite beq_refl in H1.
Qed.

Lemma hadd_fresh : forall k v h, hlookup k h = None -> hadd k v h = h ++ [(k, v)].
Proof.
  intros k v h. induction h as [|[k' v'] h IH]; cbn; intros Hl; [reflexivity|].
  destruct (beq k k'); [discriminate|]. now rewrite IH.
Qed.

Lemma keys_distinct_app_fresh : forall h k v t,
  keys_distinct (h ++ (k, v) :: t) = true -> hlookup k h = None.
Proof.
  induction h as [|[k' v'] h IH]; intros k v t Hd; cbn in *; [reflexivity|].
  apply andb_true_iff in Hd as [Hn Hd]. apply negb_true_iff in Hn.
  rewrite existsb_app in Hn. apply orb_false_iff in Hn as [_ Hn]. cbn in Hn.
  apply orb_false_iff in Hn as [Hn _]. rewrite beq_sym, Hn. now apply IH with v t.
Qed.

Lemma set_headers_distinct_gen : forall hs h,
  keys_distinct (h ++ hs) = true -> set_headers hs h = h ++ hs.
Proof.
  unfold set_headers. induction hs as [|[k v] hs IH]; intros h Hd; cbn [fold_left fst snd].
  - now rewrite app_nil_r.
  - rewrite (hadd_fresh k v h) by now apply keys_distinct_app_fresh with v hs.
    rewrite IH; rewrite <- app_assoc; [reflexivity | exact Hd].
Qed.

(* a map with distinct keys filled into an empty map is itself *)
Lemma set_headers_distinct : forall hs, keys_distinct hs = true -> set_headers hs [] = hs.
Proof. intros hs Hd. now apply (set_headers_distinct_gen hs []). Qed.

(* ------------------------------------------------------------------ the header loop *)
Lemma key_ok_nonempty : forall k, key_ok k = true -> isnil k = false.
Proof. unfold key_ok. intros [|c k]; cbn; [discriminate|reflexivity]. Qed.
Lemma val_ok_nonempty : forall v, val_ok v = true -> isnil v = false.
Proof. unfold val_ok. intros [|c v]; cbn; [discriminate|reflexivity]. Qed.
Lemma key_ok_colsp : forall k, key_ok k = true -> contains COLSP k = false.
Proof.
  unfold key_ok. intros k Hk. apply andb_true_iff in Hk as [Hk _].
  apply andb_true_iff in Hk as [_ Hk]. now apply negb_true_iff in Hk.
Qed.
Lemma val_ok_crlf : forall v, val_ok v = true -> contains CRLF v = false.
Proof.
  unfold val_ok. intros v Hv. apply andb_true_iff in Hv as [_ Hv]. now apply negb_true_iff in Hv.
Qed.
Lemma key_ok_not_blank : forall k x, key_ok k = true -> has_prefix CRLF (k ++ COLSP ++ x) = false.
Proof.
  unfold key_ok. intros k x Hk. apply andb_true_iff in Hk as [Hk Hp]. apply negb_true_iff in Hp.
  destruct k as [|c1 [|c2 k]]; cbn in *; [discriminate | now rewrite andb_false_r | exact Hp].
Qed.

Lemma app_isnil : forall (a b : list Z), isnil a = false -> isnil (a ++ b) = false.
Proof. now intros [|x a] b. Qed.

Lemma header_line_step : forall f k v rest h, key_ok k = true -> val_ok v = true ->
  header_loop (S f) (header_line (k, v) ++ rest) h = header_loop f rest (hadd k v h).
Proof.
  intros f k v rest h Hk Hv. unfold header_line. cbn [fst snd].
  rewrite <- !app_assoc. cbn [header_loop].
  rewrite (app_isnil _ _ (key_ok_nonempty _ Hk)).
  rewrite (key_ok_not_blank k _ Hk).
  change (k ++ COLSP ++ v ++ CRLF ++ rest) with (k ++ 58 :: 32 :: (v ++ CRLF ++ rest)).
  unfold COLSP at 1. rewrite (match_until_app2 58 32 k _ ltac:(lia) (key_ok_colsp _ Hk)).
  cbv beta iota. rewrite (key_ok_nonempty _ Hk).
  change (v ++ CRLF ++ rest) with (v ++ 13 :: 10 :: rest).
  unfold CRLF at 1. rewrite (match_until_app2 13 10 v _ ltac:(lia) (val_ok_crlf _ Hv)).
  cbv beta iota. rewrite (val_ok_nonempty _ Hv). reflexivity.
Qed.

Lemma header_loop_block : forall hs f h b, forallb hdr_ok hs = true -> (length hs < f)%nat ->
  header_loop f (header_block hs ++ CRLF ++ b) h = (set_headers hs h, b).
Proof.
  induction hs as [|[k v] hs IH]; intros f h b Hok Hf.
  - destruct f as [|f]; [lia|]. reflexivity.
  - destruct f as [|f]; [cbn in Hf; lia|].
    cbn [forallb] in Hok. apply andb_true_iff in Hok as [Hkv Hok].
    unfold hdr_ok in Hkv. cbn [fst snd] in Hkv. apply andb_true_iff in Hkv as [Hk Hv].
    unfold header_block. cbn [flat_map]. rewrite <- app_assoc.
    rewrite (header_line_step f k v _ h Hk Hv).
    fold (header_block hs). rewrite IH; [reflexivity | exact Hok | cbn in Hf; lia].
Qed.

Lemma header_block_length : forall hs, (length hs <= length (header_block hs))%nat.
Proof.
  induction hs as [|[k v] hs IH]; [cbn; lia|].
  unfold header_block in *. cbn [flat_map length]. rewrite app_length.
  assert (Hl : (1 <= length (header_line (k, v)))%nat).
  { unfold header_line, COLSP. cbn [fst snd]. rewrite !app_length. cbn [length]. lia. }
  lia.
Qed.

(* the loop of the tree before the fix: same on header lines ... *)
Lemma header_line_step_old : forall f k v rest h, key_ok k = true -> val_ok v = true ->
  header_loop_old (S f) (header_line (k, v) ++ rest) h = header_loop_old f rest (hadd k v h).
Proof.
  intros f k v rest h Hk Hv. unfold header_line. cbn [fst snd].
  rewrite <- !app_assoc. cbn [header_loop_old].
  rewrite (app_isnil _ _ (key_ok_nonempty _ Hk)).
  change (k ++ COLSP ++ v ++ CRLF ++ rest) with (k ++ 58 :: 32 :: (v ++ CRLF ++ rest)).
  unfold COLSP at 1. rewrite (match_until_app2 58 32 k _ ltac:(lia) (key_ok_colsp _ Hk)).
  cbv beta iota. rewrite (key_ok_nonempty _ Hk).
  change (v ++ CRLF ++ rest) with (v ++ 13 :: 10 :: rest).
  unfold CRLF at 1. rewrite (match_until_app2 13 10 v _ ltac:(lia) (val_ok_crlf _ Hv)).
  cbv beta iota. rewrite (val_ok_nonempty _ Hv). reflexivity.
Qed.

Lemma contains_colsp_crlf : forall b, contains COLSP b = false -> contains COLSP (CRLF ++ b) = false.
Proof. unfold contains. intros b Hb. cbn. now destruct (index COLSP b). Qed.

(* ... but it hands the blank line to the body (when the body has no ": "; otherwise it goes
   on parsing "headers" inside the body) *)
Lemma header_loop_old_block : forall hs f h b, forallb hdr_ok hs = true -> (length hs < f)%nat ->
  contains COLSP b = false ->
  header_loop_old f (header_block hs ++ CRLF ++ b) h = (set_headers hs h, CRLF ++ b).
Proof.
  induction hs as [|[k v] hs IH]; intros f h b Hok Hf Hb.
  - destruct f as [|f]; [lia|]. cbn [header_block flat_map app header_loop_old].
    change (isnil (CRLF ++ b)) with false. cbv iota.
    rewrite (match_until_none COLSP (CRLF ++ b)) by now apply contains_colsp_crlf.
    cbv beta iota. cbn [isnil].
    change (match_until (CRLF ++ b) CRLF) with (([] : list Z), b).
    reflexivity.
  - destruct f as [|f]; [cbn in Hf; lia|].
    cbn [forallb] in Hok. apply andb_true_iff in Hok as [Hkv Hok].
    unfold hdr_ok in Hkv. cbn [fst snd] in Hkv. apply andb_true_iff in Hkv as [Hk Hv].
    unfold header_block. cbn [flat_map]. rewrite <- app_assoc.
    rewrite (header_line_step_old f k v _ h Hk Hv).
    fold (header_block hs). rewrite IH; [reflexivity | exact Hok | cbn in Hf; lia | exact Hb].
Qed.

(* ------------------------------------------------------------------ parse (send r) *)
Definition HTTP11 : list Z := s2b "HTTP/1.1".

Lemma uri_ok_nonempty : forall u, uri_ok u = true -> isnil u = false.
Proof. unfold uri_ok. intros [|c u]; cbn; [discriminate|reflexivity]. Qed.
Lemma uri_ok_sp : forall u, uri_ok u = true -> contains SP u = false.
Proof. unfold uri_ok. intros u Hu. apply andb_true_iff in Hu as [_ Hu]. now apply negb_true_iff in Hu. Qed.

(* the request line and the version, for any header loop *)
Lemma parse_with_request_line : forall loop m u rest st0,
  isnil m = false -> contains SP m = false -> uri_ok u = true ->
  parse_with loop new_request st0 (m ++ SP ++ u ++ SP ++ HTTP11 ++ CRLF ++ rest) =
  (let meth := get_method m in
   let st1 := if meth =? HTTP_METHOD_NOT_SUPPORTED then set_status st0 501
              else if meth =? HTTP_METHOD_UNKNOWN then 400 else st0 in
   let '(hs, b) := loop (S (length rest)) rest [] in
   (mkReq m meth u HTTP11 HTTP_VERSION_11 hs b, st1)).
Proof.
  intros loop m u rest st0 Hm Hsp Hu. unfold parse_with.
  change (m ++ SP ++ u ++ SP ++ HTTP11 ++ CRLF ++ rest)
    with (m ++ 32 :: (u ++ 32 :: (HTTP11 ++ 13 :: 10 :: rest))).
  unfold SP. rewrite (match_until_app1 32 m _ Hsp). cbv beta iota. rewrite Hm.
  rewrite (match_until_app1 32 u _ (uri_ok_sp _ Hu)). cbv beta iota.
  rewrite (uri_ok_nonempty _ Hu).
  change (version new_request =? HTTP_VERSION_09) with false. cbv iota.
  unfold CRLF.
  rewrite (match_until_app2 13 10 HTTP11 rest ltac:(lia) eq_refl). cbv beta iota.
  change (isnil HTTP11) with false. cbv iota.
  change (eqfold HTTP11 (s2b "HTTP/1.0")) with false.
  change (eqfold HTTP11 (s2b "HTTP/1.1")) with true. cbv iota beta.
  reflexivity.
Qed.

Lemma method_ok_cases : forall m, method_ok m = true ->
  m = s2b "GET" \/ m = s2b "HEAD" \/ m = s2b "POST" \/ m = s2b "PUT".
Proof.
  unfold method_ok. intros m Hm. repeat (apply orb_true_iff in Hm as [Hm|Hm]);
    apply beq_true_iff in Hm; auto.
Qed.

Lemma method_ok_facts : forall m, method_ok m = true ->
  isnil m = false /\ contains SP m = false
  /\ (get_method m = HTTP_METHOD_GET \/ get_method m = HTTP_METHOD_HEAD
      \/ get_method m = HTTP_METHOD_NOT_SUPPORTED).
Proof.
  intros m Hm. destruct (method_ok_cases m Hm) as [-> | [-> | [-> | ->]]];
    (split; [reflexivity | split; [reflexivity | vm_compute; tauto]]).
Qed.

Lemma send_shape : forall m u hs b, isnil m = false ->
  send m u hs b = m ++ SP ++ u ++ SP ++ HTTP11 ++ CRLF ++ (header_block hs ++ CRLF ++ b).
Proof. intros m u hs b Hm. unfold send. rewrite Hm. reflexivity. Qed.

(* MAIN HTTP LEMMA.  For every request in G, in whatever order the Go map iteration emitted the
   headers, the server-side parser on a fresh connection (status 200) returns exactly the method,
   uri, version, the header list and the body -- the body is arbitrary.  The status stays 200:
   for POST/PUT the parser calls set_status_code(501), which is a no-op on status 200. *)
Lemma parse_send : forall m u hs b, Gb m u hs = true ->
  parse 200 (send m u hs b) = (mkReq m (get_method m) u HTTP11 HTTP_VERSION_11 hs b, 200).
Proof.
  intros m u hs b HG. unfold Gb in HG.
  apply andb_true_iff in HG as [HG Hd]. apply andb_true_iff in HG as [HG Hh].
  apply andb_true_iff in HG as [Hm Hu].
  destruct (method_ok_facts m Hm) as (Hn & Hsp & Hmeth).
  rewrite (send_shape m u hs b Hn). unfold parse.
  rewrite (parse_with_request_line header_loop m u _ 200 Hn Hsp Hu). cbv zeta.
  rewrite header_loop_block; [| exact Hh |].
  - rewrite (set_headers_distinct hs Hd). f_equal.
    destruct Hmeth as [-> | [-> | ->]]; reflexivity.
  - rewrite app_length. pose proof (header_block_length hs). lia.
Qed.

(* method "" is sent as GET *)
Lemma parse_send_default_method : forall u hs b, Gb (s2b "GET") u hs = true ->
  parse 200 (send [] u hs b) = (mkReq (s2b "GET") HTTP_METHOD_GET u HTTP11 HTTP_VERSION_11 hs b, 200).
Proof. intros u hs b HG. change (send [] u hs b) with (send (s2b "GET") u hs b). now rewrite parse_send. Qed.

(* ---- the header SET: any iteration order gives the same map ---- *)
Lemma keys_distinct_NoDup : forall h, keys_distinct h = true <-> NoDup (map fst h).
Proof.
  induction h as [|[k v] h IH]; cbn; [split; [constructor|reflexivity]|].
  rewrite andb_true_iff, negb_true_iff, IH. split.
  - intros [Hn Hd]. constructor; [|exact Hd]. intros Hin. apply in_map_iff in Hin as [[k' v'] [Hk Hin]].
    cbn in Hk. subst. assert (Ht : existsb (fun kv => beq k (fst kv)) h = true).
    { apply existsb_exists. exists (k, v'). split; [exact Hin | apply beq_refl]. }
    congruence.
  - intros Hnd. inversion Hnd as [|? ? Hnin Hd]; subst. split; [|exact Hd].
    destruct (existsb (fun kv => beq k (fst kv)) h) eqn:He; [|reflexivity].
    apply existsb_exists in He as [[k' v'] [Hin Hb]]. cbn in Hb. apply beq_true_iff in Hb. subst.
    exfalso. apply Hnin. apply in_map_iff. now exists (k', v').
Qed.

Lemma hlookup_In : forall h k v, NoDup (map fst h) -> (hlookup k h = Some v <-> In (k, v) h).
Proof.
  induction h as [|[k' v'] h IH]; intros k v Hnd; cbn; [split; [discriminate|tauto]|].
  inversion Hnd as [|? ? Hnin Hd]; subst. destruct (beq k k') eqn:Hb.
  - apply beq_true_iff in Hb. subst. split.
    + intros Hs. inversion Hs. now left.
    + intros [He|Hin]; [now inversion He|]. exfalso. apply Hnin. apply in_map_iff. now exists (k', v).
  - apply beq_false_iff in Hb. rewrite (IH k v Hd). split; [tauto|].
    intros [He|Hin]; [inversion He; congruence | exact Hin].
Qed.

Lemma hlookup_perm : forall h h' k, NoDup (map fst h) -> Permutation h h' -> hlookup k h' = hlookup k h.
Proof.
  intros h h' k Hnd Hp.
  assert (Hnd' : NoDup (map fst h')) by (eapply Permutation_NoDup; [apply Permutation_map; exact Hp | exact Hnd]).
  destruct (hlookup k h) as [v|] eqn:Hl.
  - apply (hlookup_In h' k v Hnd'). eapply Permutation_in; [exact Hp|]. now apply (hlookup_In h k v Hnd).
  - destruct (hlookup k h') as [v'|] eqn:Hl'; [|reflexivity].
    apply (hlookup_In h' k v' Hnd') in Hl'. apply Permutation_sym in Hp.
    apply (Permutation_in _ Hp) in Hl'. apply (hlookup_In h k v' Hnd) in Hl'. congruence.
Qed.

Lemma Gb_perm : forall m u hs hs', Permutation hs hs' -> Gb m u hs = true -> Gb m u hs' = true.
Proof.
  unfold Gb. intros m u hs hs' Hp HG.
  apply andb_true_iff in HG as [HG Hd]. apply andb_true_iff in HG as [HG Hh]. rewrite HG. cbn [andb].
  apply andb_true_iff. split.
  - apply forallb_forall. intros x Hx. rewrite forallb_forall in Hh. apply Hh.
    eapply Permutation_in; [apply Permutation_sym; exact Hp | exact Hx].
  - apply keys_distinct_NoDup. apply keys_distinct_NoDup in Hd.
    eapply Permutation_NoDup; [apply Permutation_map; exact Hp | exact Hd].
Qed.

(* the round trip, stated for the header MAP: whatever order [hs'] the sender's range loop used *)
Lemma http_request_roundtrip_map : forall m u hs b hs', Gb m u hs = true -> Permutation hs hs' ->
  let '(r, st) := parse 200 (send m u hs' b) in
  method_raw r = m /\ method r = get_method m /\ uri r = u /\ version r = HTTP_VERSION_11
  /\ body r = b /\ st = 200
  /\ (forall k, hlookup k (headers r) = hlookup k hs) /\ Permutation hs (headers r).
Proof.
  intros m u hs b hs' HG Hp. rewrite (parse_send m u hs' b (Gb_perm _ _ _ _ Hp HG)).
  cbn [method_raw method uri version body headers]. repeat split; try reflexivity; [|exact Hp].
  intros k. apply hlookup_perm; [|exact Hp].
  apply keys_distinct_NoDup. unfold Gb in HG. now apply andb_true_iff in HG as [_ HG].
Qed.

(* ---- the grammar boundary is tight: each clause of G, dropped, breaks the round trip ---- *)
Definition rt_fails (m u : list Z) (hs : hdrs) (b : list Z) : Prop :=
  fst (parse 200 (send m u hs b)) <> mkReq m (get_method m) u HTTP11 HTTP_VERSION_11 hs b.

(* key starting with CRLF: taken for the blank line *)
Lemma grammar_key_crlf_refuted :
  rt_fails (s2b "GET") (s2b "/x") [(CRLF ++ s2b "K", s2b "v")] (s2b "hello").
Proof. vm_compute. discriminate. Qed.
(* key containing ": ": split too early *)
Lemma grammar_key_colsp_refuted :
  rt_fails (s2b "GET") (s2b "/x") [(s2b "K: L", s2b "v")] (s2b "hello").
Proof. vm_compute. discriminate. Qed.
(* empty value *)
Lemma grammar_value_empty_refuted :
  rt_fails (s2b "GET") (s2b "/x") [(s2b "K", []); (s2b "L", s2b "w")] (s2b "hello").
Proof. vm_compute. discriminate. Qed.
(* CRLF inside a value *)
Lemma grammar_value_crlf_refuted :
  rt_fails (s2b "GET") (s2b "/x") [(s2b "K", s2b "v" ++ CRLF ++ s2b "w")] (s2b "hello").
Proof. vm_compute. discriminate. Qed.
(* space in the uri *)
Lemma grammar_uri_space_refuted :
  rt_fails (s2b "GET") (s2b "/x y") [] (s2b "hello").
Proof. vm_compute. discriminate. Qed.
(* empty key *)
Lemma grammar_key_empty_refuted :
  rt_fails (s2b "GET") (s2b "/x") [([], s2b "v")] (s2b "hello").
Proof. vm_compute. discriminate. Qed.
(* an unsupported method makes the parser set 400 (and the server answer with the error page) *)
Lemma grammar_method_refuted : snd (parse 200 (send (s2b "DELETE") (s2b "/x") [] [])) = 400.
Proof. reflexivity. Qed.

(* non-vacuity: a request in G with awkward but legal content -- CR, LF, ':' in keys and values,
   CRLF in the uri, a body full of delimiters *)
Example G_example :
  let hs := [(s2b "a:", [120; 13]); ([13], [10]); ([10; 13], COLSP); (s2b "Host", s2b "10.0.0.1:80")] in
  let b := CRLF ++ s2b "hello" ++ CRLF ++ CRLF ++ s2b "K: v" ++ CRLF in
  Gb (s2b "POST") (s2b "/x" ++ CRLF ++ s2b "y") hs = true
  /\ parse 200 (send (s2b "POST") (s2b "/x" ++ CRLF ++ s2b "y") hs b)
     = (mkReq (s2b "POST") HTTP_METHOD_NOT_SUPPORTED (s2b "/x" ++ CRLF ++ s2b "y") HTTP11 HTTP_VERSION_11 hs b, 200).
Proof. split; reflexivity. Qed.

(* ---- the loop before the fix: the body came back with the blank line in front ---- *)
Lemma parse_old_send : forall m u hs b, Gb m u hs = true -> contains COLSP b = false ->
  parse_old 200 (send m u hs b) = (mkReq m (get_method m) u HTTP11 HTTP_VERSION_11 hs (CRLF ++ b), 200).
Proof.
  intros m u hs b HG Hb. unfold Gb in HG.
  apply andb_true_iff in HG as [HG Hd]. apply andb_true_iff in HG as [HG Hh].
  apply andb_true_iff in HG as [Hm Hu].
  destruct (method_ok_facts m Hm) as (Hn & Hsp & Hmeth).
  rewrite (send_shape m u hs b Hn). unfold parse_old.
  rewrite (parse_with_request_line header_loop_old m u _ 200 Hn Hsp Hu). cbv zeta.
  rewrite header_loop_old_block; [| exact Hh | | exact Hb].
  - rewrite (set_headers_distinct hs Hd). f_equal.
    destruct Hmeth as [-> | [-> | ->]]; reflexivity.
  - rewrite app_length. pose proof (header_block_length hs). lia.
Qed.

(* finding F8 (fixed in /repo by "fix: HTTP parser hands the header-terminating blank line to
   the body"): with the old loop the handler saw "\r\nhello" for the body "hello" *)
Lemma http_body_crlf_old_refuted :
  exists m u hs b, Gb m u hs = true /\ body (fst (parse_old 200 (send m u hs b))) <> b
                   /\ body (fst (parse_old 200 (send m u hs b))) = CRLF ++ b
                   /\ body (fst (parse 200 (send m u hs b))) = b.
Proof.
  exists (s2b "POST"), (s2b "/x"), [(s2b "Host", s2b "10.0.0.1:8080")], (s2b "hello").
  repeat split; vm_compute; try reflexivity; discriminate.
Qed.

(* ------------------------------------------------------------------ dispatch *)
Lemma set_status_nonzero : forall st c, st <> 0 -> set_status st c = st.
Proof. unfold set_status. intros st c Hst. apply Z.eqb_neq in Hst. now rewrite Hst. Qed.

Lemma set_status_fold_nonzero : forall errs st, st <> 0 -> fold_left set_status errs st = st.
Proof.
  induction errs as [|c errs IH]; intros st Hst; cbn; [reflexivity|].
  rewrite (set_status_nonzero st c Hst). now apply IH.
Qed.

(* a route table built by successful HandleFunc calls only *)
Inductive built {A} : mux A -> Prop :=
| built_nil : built []
| built_add : forall m pat h m', built m -> handle_func m pat h = Some m' -> built m'.

Lemma mlookup_app : forall {A} k (m1 m2 : mux A),
  mlookup k (m1 ++ m2) = match mlookup k m1 with Some a => Some a | None => mlookup k m2 end.
Proof.
  intros A k m1 m2. induction m1 as [|[k' a] m1 IH]; cbn; [reflexivity|].
  now destruct (beq k k').
Qed.

Lemma handle_func_spec : forall {A} (m m' : mux A) pat h, handle_func m pat h = Some m' ->
  pat <> [] /\ mlookup pat m = None /\ m' = m ++ [(pat, h)].
Proof.
  unfold handle_func. intros A m m' pat h Hh. destruct pat as [|c pat]; [discriminate|]. cbn in Hh.
  destruct (mlookup (c :: pat) m); [discriminate|]. inversion Hh. repeat split. discriminate.
Qed.

(* in a built table a pattern has at most one entry, and lookup finds exactly the entries *)
Lemma built_lookup : forall {A} (m : mux A), built m ->
  forall k a, mlookup k m = Some a <-> In (k, a) m.
Proof.
  intros A m Hb. induction Hb as [|m pat h m' Hb IH Hh]; intros k a; cbn; [split; [discriminate|tauto]|].
  apply handle_func_spec in Hh as (_ & Hfresh & ->).
  rewrite mlookup_app, in_app_iff. cbn. destruct (mlookup k m) as [a'|] eqn:Hl.
  - rewrite <- (IH k a), Hl. split; [intros Hs; now left|].
    intros [Hs|[He|[]]]; [exact Hs|]. inversion He; subst. congruence.
  - destruct (beq k pat) eqn:Hbq.
    + apply beq_true_iff in Hbq. subst. split.
      * intros Hs. inversion Hs. right. now left.
      * intros [Hin|[He|[]]]; [apply IH in Hin; congruence | now inversion He].
    + apply beq_false_iff in Hbq. split; [discriminate|].
      intros [Hin|[He|[]]]; [apply IH in Hin; congruence | inversion He; congruence].
Qed.

(* dispatch is on EXACT equality of the uri with a registered pattern (not on prefixes): the
   entry invoked is the one registered for exactly [uri r]; with no such entry no handler runs
   (and, the status being 200 already, set_status_code(400) changes nothing). *)
Lemma dispatch_exact : forall {A} (run : A -> request -> hresult) (m : mux A) r st, built m ->
  (forall a, In (uri r, a) m ->
     dispatch run m r st = (Some a, h_body (run a r), fold_left set_status (h_errors (run a r)) st))
  /\ ((forall a, ~ In (uri r, a) m) -> dispatch run m r st = (None, [], set_status st 400))
  /\ (forall a eb st', dispatch run m r st = (Some a, eb, st') -> In (uri r, a) m).
Proof.
  intros A run m r st Hb. pose proof (built_lookup m Hb (uri r)) as Hl. unfold dispatch. repeat split.
  - intros a Hin. apply Hl in Hin. now rewrite Hin.
  - intros Hnone. destruct (mlookup (uri r) m) as [a|] eqn:Hm; [|reflexivity].
    exfalso. apply (Hnone a). now apply Hl.
  - intros a eb st' Hd. destruct (mlookup (uri r) m) as [a'|] eqn:Hm; [|discriminate].
    inversion Hd; subst. now apply Hl.
Qed.

(* prefixes and extensions of a registered pattern are NOT served by it *)
Example dispatch_prefix_not_served :
  let m := [(s2b "/", 0%nat); (s2b "/xy", 1%nat)] in
  fst (fst (dispatch (fun _ _ => mkHR [] []) m (mkReq [] 0 (s2b "/x") [] 0 [] []) 200)) = None.
Proof. reflexivity. Qed.

(* ------------------------------------------------------------------ response *)
Definition is_digit (c : Z) : Prop := 48 <= c <= 57.
(* the number a decimal string denotes (spec side) *)
Definition dval (s : list Z) : Z := fold_left (fun a c => a * 10 + (c - 48)) s 0.

Lemma digits_digit : forall f n acc, 0 <= n -> Forall is_digit acc -> Forall is_digit (digits f n acc).
Proof.
  induction f as [|f IH]; intros n acc Hn Hacc; cbn [digits]; [exact Hacc|].
  destruct (n <? 10) eqn:Hlt.
  - apply Z.ltb_lt in Hlt. constructor; [unfold is_digit; lia | exact Hacc].
  - apply IH; [apply Z.div_pos; lia|]. constructor; [|exact Hacc].
    unfold is_digit. pose proof (Z.mod_pos_bound n 10 ltac:(lia)). lia.
Qed.

Lemma digits_nonempty_acc : forall f n acc, acc <> [] -> digits f n acc <> [].
Proof.
  induction f as [|f IH]; intros n acc Hacc; cbn [digits]; [exact Hacc|].
  destruct (n <? 10); [discriminate | apply IH; discriminate].
Qed.

Lemma digits_nonempty : forall f n acc, digits (S f) n acc <> [].
Proof.
  intros f n acc. cbn [digits]. destruct (n <? 10); [discriminate | apply digits_nonempty_acc; discriminate].
Qed.

Lemma digits_value : forall f n acc, 0 <= n < 10 ^ Z.of_nat f ->
  fold_left (fun a c => a * 10 + (c - 48)) (digits f n acc) 0
  = fold_left (fun a c => a * 10 + (c - 48)) acc n.
Proof.
  induction f as [|f IH]; intros n acc Hn; cbn [digits].
  - cbn in Hn. assert (n = 0) by lia. now subst.
  - destruct (n <? 10) eqn:Hlt.
    + cbn [fold_left]. f_equal. lia.
    + apply Z.ltb_ge in Hlt. rewrite IH.
      * cbn [fold_left]. f_equal. pose proof (Z.div_mod n 10 ltac:(lia)). lia.
      * rewrite Nat2Z.inj_succ, Z.pow_succ_r in Hn by lia.
        split; [apply Z.div_pos; lia | apply Z.div_lt_upper_bound; lia].
Qed.

Lemma itoa_facts : forall n, 0 <= n < 10 ^ 20 ->
  Forall is_digit (itoa n) /\ itoa n <> [] /\ dval (itoa n) = n.
Proof.
  intros n Hn. unfold itoa. assert (Hl : n <? 0 = false) by (apply Z.ltb_ge; lia). rewrite Hl.
  repeat split.
  - apply digits_digit; [lia | constructor].
  - apply (digits_nonempty 19).
  - unfold dval. now rewrite (digits_value 20 n []).
Qed.

Lemma notin_contains1 : forall a l, Forall (fun c => c <> a) l -> contains [a] l = false.
Proof.
  unfold contains. intros a l Hl. induction Hl as [|c l Hc Hl IH]; [reflexivity|].
  cbn [index has_prefix]. apply not_eq_sym in Hc. apply Z.eqb_neq in Hc. rewrite Hc. cbn.
  now destruct (index [a] l).
Qed.

Lemma itoa_uri_ok : forall n, 0 <= n < 10 ^ 20 -> uri_ok (itoa n) = true.
Proof.
  intros n Hn. destruct (itoa_facts n Hn) as (Hd & Hne & _). unfold uri_ok.
  apply andb_true_iff. split.
  - destruct (itoa n); [congruence | reflexivity].
  - apply negb_true_iff. apply notin_contains1. eapply Forall_impl; [|exact Hd].
    unfold is_digit. intros c Hc. lia.
Qed.

(* the reason phrases of define_status.go: non-empty, no CRLF, and none of them reads as an HTTP
   version; the codes are 100..511 *)
Definition phrase_ok (s : list Z) : bool :=
  negb (isnil s) && negb (contains CRLF s) && negb (eqfold s (s2b "HTTP/1.0")) && negb (eqfold s (s2b "HTTP/1.1")).

Lemma zlookup_in : forall c t, zlookup c t <> [] -> In (c, zlookup c t) t.
Proof.
  intros c t. induction t as [|[c' s] t IH]; cbn; [congruence|].
  destruct (c =? c') eqn:Hc; [apply Z.eqb_eq in Hc; subst; now left | intros Hn; right; now apply IH].
Qed.

Lemma status_text_known : forall st, status_text st <> [] ->
  100 <= st <= 511 /\ phrase_ok (status_text st) = true.
Proof.
  intros st Hst. apply zlookup_in in Hst. fold (status_text st) in Hst.
  assert (Hall : forallb (fun cs => (100 <=? fst cs) && (fst cs <=? 511) && phrase_ok (snd cs)) status_table = true)
    by (vm_compute; reflexivity).
  rewrite forallb_forall in Hall. specialize (Hall _ Hst). cbn [fst snd] in Hall.
  apply andb_true_iff in Hall as [Hall Hp]. apply andb_true_iff in Hall as [H1 H2].
  split; [lia | exact Hp].
Qed.

(* request line with an arbitrary third word *)
Lemma parse_with_line_gen : forall loop m u v rest st0,
  isnil m = false -> contains SP m = false -> uri_ok u = true ->
  isnil v = false -> contains CRLF v = false ->
  parse_with loop new_request st0 (m ++ SP ++ u ++ SP ++ v ++ CRLF ++ rest) =
  (let meth := get_method m in
   let st1 := if meth =? HTTP_METHOD_NOT_SUPPORTED then set_status st0 501
              else if meth =? HTTP_METHOD_UNKNOWN then 400 else st0 in
   let '(ver, st3) :=
     if eqfold v (s2b "HTTP/1.0") then (HTTP_VERSION_10, st1)
     else if eqfold v (s2b "HTTP/1.1") then (HTTP_VERSION_11, st1)
     else (HTTP_VERSION_UNKNOWN, set_status st1 400) in
   let '(hs, b) := loop (S (length rest)) rest [] in
   (mkReq m meth u v ver hs b, st3)).
Proof.
  intros loop m u v rest st0 Hm Hsp Hu Hv Hvc. unfold parse_with.
  change (m ++ SP ++ u ++ SP ++ v ++ CRLF ++ rest)
    with (m ++ 32 :: (u ++ 32 :: (v ++ 13 :: 10 :: rest))).
  unfold SP. rewrite (match_until_app1 32 m _ Hsp). cbv beta iota. rewrite Hm.
  rewrite (match_until_app1 32 u _ (uri_ok_sp _ Hu)). cbv beta iota.
  rewrite (uri_ok_nonempty _ Hu).
  change (version new_request =? HTTP_VERSION_09) with false. cbv iota.
  unfold CRLF. rewrite (match_until_app2 13 10 v rest ltac:(lia) Hvc). cbv beta iota.
  rewrite Hv. change (version new_request) with HTTP_VERSION_UNKNOWN.
  destruct (eqfold v (s2b "HTTP/1.0")); [reflexivity|].
  destruct (eqfold v (s2b "HTTP/1.1")); reflexivity.
Qed.

Definition hdrs_ok (hs : hdrs) : bool := forallb hdr_ok hs && keys_distinct hs.

Lemma hdrs_ok_perm : forall hs hs', Permutation hs hs' -> hdrs_ok hs = true -> hdrs_ok hs' = true.
Proof.
  unfold hdrs_ok. intros hs hs' Hp Hok. apply andb_true_iff in Hok as [Hh Hd].
  apply andb_true_iff. split.
  - apply forallb_forall. intros x Hx. rewrite forallb_forall in Hh. apply Hh.
    eapply Permutation_in; [apply Permutation_sym; exact Hp | exact Hx].
  - apply keys_distinct_NoDup. apply keys_distinct_NoDup in Hd.
    eapply Permutation_NoDup; [apply Permutation_map; exact Hp | exact Hd].
Qed.

(* RESPONSE ROUND TRIP.  The bundled client parses the response with the REQUEST parser: the
   server's version string comes back as method_raw, the status code as the decimal string in
   the uri position ([dval] reads it back), the reason phrase as version_raw, and the header map
   and the body unchanged -- for every status code that has a reason phrase (100..511 of
   define_status.go), every header map in the grammar and EVERY body. *)
Lemma response_roundtrip : forall vraw st hs eb,
  uri_ok vraw = true -> status_text st <> [] -> hdrs_ok hs = true ->
  let c := fst (client_parse (build_response vraw st hs eb)) in
  c = mkReq vraw (get_method vraw) (itoa st) (status_text st) HTTP_VERSION_UNKNOWN hs eb
  /\ dval (uri c) = st.
Proof.
  intros vraw st hs eb Hv Hst Hok. destruct (status_text_known st Hst) as (Hrange & Hp).
  assert (Hb : 0 <= st < 10 ^ 20) by lia.
  unfold phrase_ok in Hp. apply andb_true_iff in Hp as [Hp H11]. apply andb_true_iff in Hp as [Hp H10].
  apply andb_true_iff in Hp as [Hne Hcr]. apply negb_true_iff in H11, H10, Hne, Hcr.
  unfold hdrs_ok in Hok. apply andb_true_iff in Hok as [Hh Hd].
  cbv zeta. unfold client_parse, parse, build_response.
  rewrite (parse_with_line_gen header_loop vraw (itoa st) (status_text st) _ 200
             (uri_ok_nonempty _ Hv) (uri_ok_sp _ Hv) (itoa_uri_ok st Hb) Hne Hcr).
  cbv zeta. rewrite H10, H11.
  rewrite header_loop_block; [| exact Hh | rewrite app_length; pose proof (header_block_length hs); lia].
  rewrite (set_headers_distinct hs Hd). cbn [fst uri]. split; [reflexivity|].
  now destruct (itoa_facts st Hb) as (_ & _ & ->).
Qed.

(* a status code WITHOUT a reason phrase loses the body: the parser stops at the empty third word *)
Lemma response_unknown_code_refuted :
  body (fst (client_parse (build_response HTTP11 299 [] (s2b "hello")))) = [].
Proof. reflexivity. Qed.

(* ------------------------------------------------------------------ one whole exchange *)
Definition server_headers : hdrs :=
  [(s2b "Server", s2b "github.com/brewlin/net-protocol/1.00"); (s2b "Connection", s2b "close")].

Lemma response_parts_200 : forall eb,
  response_parts 200 eb = (server_headers, if isnil eb then default_success_msg else eb).
Proof. reflexivity. Qed.

(* EXCHANGE.  Client request in G (headers emitted in any order hs'), route table built by
   HandleFunc with [u] registered for entry [a]: the handler invoked is [a], it sees exactly the
   request that was sent, and -- the response headers written in any order -- the client reads
   status "200" and the body the handler passed to End (the default SUCCESS page if that was
   empty).  NOTE what this also says: whatever codes the handler passed to Response.Error, the
   status stays 200 (known finding C20-error-noop, [handler_status_refuted]). *)
Lemma http_exchange : forall {A} (run : A -> request -> hresult) (m : mux A) meth u hs b hs' a,
  Gb meth u hs = true -> Permutation hs hs' -> built m -> In (u, a) m ->
  let req := mkReq meth (get_method meth) u HTTP11 HTTP_VERSION_11 hs' b in
  let sv := serve run m (send meth u hs' b) in
  sv_invoked sv = Some a /\ sv_request sv = req /\ sv_status sv = 200
  /\ forall order, Permutation (sv_headers sv) order ->
       let c := fst (client_parse (served_bytes sv order)) in
       dval (uri c) = 200 /\ uri c = s2b "200" /\ version_raw c = s2b "OK" /\ method_raw c = HTTP11
       /\ body c = (if isnil (h_body (run a req)) then default_success_msg else h_body (run a req))
       /\ forall k, hlookup k (headers c) = hlookup k server_headers.
Proof.
  intros A run m meth u hs b hs' a HG Hp Hb Hin. cbv zeta. unfold serve.
  rewrite (parse_send meth u hs' b (Gb_perm _ _ _ _ Hp HG)).
  set (req := mkReq meth (get_method meth) u HTTP11 HTTP_VERSION_11 hs' b).
  destruct (dispatch_exact run m req 200 Hb) as (Hd & _ & _).
  rewrite (Hd a Hin). rewrite set_status_fold_nonzero by lia.
  rewrite response_parts_200. cbn [sv_invoked sv_request sv_status sv_headers sv_body].
  split; [reflexivity|]. split; [reflexivity|]. split; [reflexivity|].
  intros order Hord. unfold served_bytes. cbn [sv_request sv_status sv_body version_raw].
  subst req. cbn [version_raw].
  assert (Hok : hdrs_ok order = true) by (apply (hdrs_ok_perm server_headers order Hord); reflexivity).
  destruct (response_roundtrip HTTP11 200 order
              (if isnil (h_body (run a (mkReq meth (get_method meth) u HTTP11 HTTP_VERSION_11 hs' b)))
               then default_success_msg
               else h_body (run a (mkReq meth (get_method meth) u HTTP11 HTTP_VERSION_11 hs' b)))
              eq_refl ltac:(discriminate) Hok) as (Hc & Hv).
  cbv zeta in Hc, Hv. rewrite Hc in *. cbn [uri version_raw method_raw body headers] in *.
  split; [exact Hv|]. split; [reflexivity|]. split; [reflexivity|]. split; [reflexivity|].
  split; [reflexivity|].
  intros k. apply hlookup_perm; [|exact Hord].
  apply keys_distinct_NoDup. reflexivity.
Qed.

(* a path nobody registered never invokes a handler; the server answers 200 with the default
   page, because dispatch's set_status_code(400) is a no-op on status 200 *)
Lemma http_unregistered : forall {A} (run : A -> request -> hresult) (m : mux A) meth u hs b,
  Gb meth u hs = true -> built m -> (forall a, ~ In (u, a) m) ->
  let sv := serve run m (send meth u hs b) in
  sv_invoked sv = None /\ sv_status sv = 200 /\ sv_body sv = default_success_msg.
Proof.
  intros A run m meth u hs b HG Hb Hnone. cbv zeta. unfold serve. rewrite (parse_send meth u hs b HG).
  destruct (dispatch_exact run m (mkReq meth (get_method meth) u HTTP11 HTTP_VERSION_11 hs b) 200 Hb)
    as (_ & Hd & _).
  rewrite (Hd Hnone). now cbn.
Qed.

(* KNOWN FINDING C20-error-noop.  "The client receives the status the handler produced" is false
   for a handler that calls w.Error(404): NewCon sets status_code = 200 and set_status_code only
   assigns when status_code == 0, so the client still reads 200.  (Making set_status_code
   effective would turn every POST/PUT into 501, because parse marks them not-supported -- only
   the no-op lets them through.) *)
Lemma handler_status_refuted :
  exists (run : unit -> request -> hresult) m raw,
    built m /\ h_errors (run tt (fst (parse 200 raw))) = [404]
    /\ sv_invoked (serve run m raw) = Some tt
    /\ sv_status (serve run m raw) = 200
    /\ uri (fst (client_parse (served_bytes (serve run m raw) (sv_headers (serve run m raw))))) = s2b "200".
Proof.
  exists (fun _ _ => mkHR (s2b "not here") [404]), [(s2b "/x", tt)], (send (s2b "GET") (s2b "/x") [] []).
  split; [apply (built_add [] (s2b "/x") tt); [constructor | reflexivity]|].
  repeat split; reflexivity.
Qed.

(* ------------------------------------------------------------------ fuel is never exhausted *)
Lemma match_until_shrinks : forall p d a b, match_until p d = (a, b) ->
  (length b <= length p)%nat /\ (a <> [] -> (length b < length p)%nat).
Proof.
  intros p d a b. unfold match_until. destruct (index d p) as [i|] eqn:Hi; intros Hm; inversion Hm; subst.
  - rewrite skipn_length. split; [lia|]. intros Ha.
    destruct i as [|i]; [now cbn in Ha|]. destruct p as [|c p]; [now cbn in Ha|]. cbn [length]. lia.
  - cbn. split; [lia | congruence].
Qed.

Lemma header_loop_fuel : forall n p h f1 f2, (length p <= n)%nat -> (n < f1)%nat -> (n < f2)%nat ->
  header_loop f1 p h = header_loop f2 p h.
Proof.
  induction n as [|n IH]; intros p h f1 f2 Hp H1 H2;
    (destruct f1 as [|f1]; [lia|]); (destruct f2 as [|f2]; [lia|]); cbn [header_loop].
  - destruct p; [reflexivity | cbn in Hp; lia].
  - destruct (isnil p); [reflexivity|]. destruct (has_prefix CRLF p); [reflexivity|].
    destruct (match_until p COLSP) as [key tmp] eqn:Hk.
    destruct (match_until_shrinks _ _ _ _ Hk) as [Hle Hlt].
    set (p1 := if isnil key then p else tmp).
    destruct (match_until p1 CRLF) as [value tmp2] eqn:Hv.
    destruct (match_until_shrinks _ _ _ _ Hv) as [Hle2 _].
    destruct (isnil key) eqn:Hnk; [reflexivity|]. cbn [orb].
    destruct (isnil value) eqn:Hnv; [reflexivity|].
    apply IH; try lia. subst p1. cbn [orb] in *.
    assert (key <> []) by (destruct key; [discriminate | discriminate]).
    specialize (Hlt H). lia.
Qed.

(* the fuel parse gives the loop (S (length buf)) is as good as any larger amount: the Go loop's
   termination is not cut short by the model *)
Lemma parse_fuel_adequate : forall p h k,
  header_loop (S (length p)) p h = header_loop (S (length p) + k) p h.
Proof. intros p h k. apply (header_loop_fuel (length p)); lia. Qed.
