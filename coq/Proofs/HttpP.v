(* Lemmas about Model/Http.v: strings.Index / match_until, the request grammar G, the
   send/parse round trip, dispatch, and the response through the reused request parser. *)
From Coq Require Import String.
From Coq Require Import ZArith List Bool Lia Permutation.
From NP Require Import Model.Http.
Import ListNotations.
Open Scope Z_scope.

(* ------------------------------------------------------------------ the grammar G (spec side) *)
(* [contains d s]: d occurs in s ([contains_spec] below: exists l r, s = l ++ d ++ r) *)
Definition contains (d s : list Z) : bool :=
  match index d s with Some _ => true | None => false end.

Definition method_ok (m : list Z) : bool :=
  beq m (s2b "GET") || beq m (s2b "HEAD") || beq m (s2b "POST") || beq m (s2b "PUT").
(* uri: non-empty, no space (CR and LF are accepted by this parser) *)
Definition uri_ok (u : list Z) : bool := negb (isnil u) && negb (contains SP u).
(* header key: non-empty, no ": " inside, does not start with CRLF (may contain CR, LF, ':' ...) *)
Definition key_ok (k : list Z) : bool :=
  negb (isnil k) && negb (contains COLSP k) && negb (has_prefix CRLF k).
(* header value: non-empty, no CRLF inside (may contain ": ") *)
Definition val_ok (v : list Z) : bool := negb (isnil v) && negb (contains CRLF v).
Definition hdr_ok (kv : list Z * list Z) : bool := key_ok (fst kv) && val_ok (snd kv).
(* a Go map has distinct keys *)
Fixpoint keys_distinct (h : hdrs) : bool :=
  match h with
  | [] => true
  | (k, _) :: t => negb (existsb (fun kv => beq k (fst kv)) t) && keys_distinct t
  end.
(* G: what Request.send may be given so that Request.parse returns it; the body is ARBITRARY *)
Definition Gb (m u : list Z) (hs : hdrs) : bool :=
  method_ok m && uri_ok u && forallb hdr_ok hs && keys_distinct hs.
